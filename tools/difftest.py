#!/usr/bin/env python3
"""dev helper: run one harness group and the driver, summarise disagreements and oracle failures"""
import subprocess, sys, os, json
from collections import Counter
ROOT = os.path.dirname(os.path.dirname(os.path.abspath(__file__)))
g = sys.argv[1]; cases = sys.argv[2] if len(sys.argv) > 2 else "300"; seed = sys.argv[3] if len(sys.argv) > 3 else "1"
tier = sys.argv[4] if len(sys.argv) > 4 else "quick"
# VH_DIR: an alternative harness crate (a scratch copy built against a scratch copy of the repository)
HDIR = os.environ.get("VH_DIR", os.path.join(ROOT, "harness"))
out = os.path.join(ROOT, ".run", "dev-" + g) if "VH_DIR" not in os.environ else os.path.join(HDIR, "out-" + g)
subprocess.run(["cargo", "build", "--release", "--offline"], cwd=HDIR, stdout=subprocess.DEVNULL, stderr=subprocess.DEVNULL)
r = subprocess.run([os.path.join(HDIR, "target/release/vharness"), g, "--seed", seed, "--cases", cases, "--tier", tier, "--out", out])
if r.returncode != 0:
    print("harness rc", r.returncode); print(open(out + "/progress.txt").read()[:2000]); sys.exit(1)
lines = [l.rstrip("\n") for l in open(out + "/trace.txt")]
ops = [l.split(" => ")[0] for l in lines if l and not l.startswith("#")]
open(out + "/ops.txt", "w").write("\n".join(ops) + "\n")
m = subprocess.run([os.path.join(ROOT, "lean/.lake/build/bin/driver")], stdin=open(out + "/ops.txt"), capture_output=True, text=True).stdout.splitlines()
impl = [l for l in lines if l and not l.startswith("#")]
print("ops", len(impl), "model lines", len(m))
c = Counter(); first = {}
# map line index -> case
caseof = []; cur = -1
for l in lines:
    if l.startswith("# case"): cur += 1; continue
    if l and not l.startswith("#"): caseof.append(cur)
badcases = set()
for i, (a, b) in enumerate(zip(impl, m)):
    if a != b and not b.endswith(' => skip'):
        if caseof[i] in badcases: continue
        badcases.add(caseof[i])
        op = " ".join(a.split(" => ")[0].split()[:2]); c[op] += 1
        first.setdefault(op, (i, a, b))
print("disagreeing cases:", len(badcases), dict(c))
W = int(os.environ.get("W", "500"))
for k, (i, a, b) in first.items():
    print(f"-- case {caseof[i]} line {i}\nIMPL : {a[:W]}\nMODEL: {b[:W]}")
orc = [json.loads(l) for l in open(out + "/oracle.jsonl") if l.strip()]
print("oracle failures:", len(orc), dict(Counter(o["sig"] for o in orc)))
for sig in sorted({o["sig"] for o in orc}):
    o = next(x for x in orc if x["sig"] == sig); print("  ", sig, "case", o["case"], o["detail"][:300])
print(open(out + "/stats.json").read()[:700])
