#!/usr/bin/env python3
"""re-syncs the '> **As built.**' note under every '### Cxx' heading of DESIGN.md with tools/propsdef.py"""
import os, re, sys
sys.path.insert(0, os.path.dirname(os.path.abspath(__file__)))
import propsdef
ROOT = os.path.dirname(os.path.dirname(os.path.abspath(__file__)))
p = os.path.join(ROOT, "DESIGN.md")
lines = open(p, encoding="utf-8").read().split("\n")
cur = None
n = 0
for i, l in enumerate(lines):
    m = re.match(r"### (C\d\d) ", l)
    if m:
        cur = m.group(1)
    elif l.startswith("> **As built.**") and cur in propsdef.PROPS:
        d = propsdef.PROPS[cur]
        groups = []
        for g in d["groups"]:
            if g["group"] not in groups:
                groups.append(g["group"])
        note = f"> **As built.** {d['level_text'].rstrip('. ')}.  Groups: {', '.join('`' + g + '`' for g in groups)}.  Caveats: {d.get('level_note', '').rstrip('. ')}."
        if lines[i] != note:
            lines[i] = note
            n += 1
        cur = None
open(p, "w", encoding="utf-8").write("\n".join(lines))
print(f"updated {n} notes")
