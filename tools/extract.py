#!/usr/bin/env python3
"""Translator for the declarative fragment of /repo's source -> lean/AnyTLS/Gen.lean.

Strict: every item must be found in the expected syntactic shape, otherwise the
extraction fails (exit 2, message on stderr) -- it never falls back to a remembered value.
The output is written only when its content changes (so lake does not rebuild for nothing).
"""
import os
import re
import sys

REPO = os.environ.get("VERIF_REPO", "/repo")
OUT = os.path.join(os.path.dirname(os.path.abspath(__file__)), "..", "lean", "AnyTLS", "Gen.lean")


class ExtractError(Exception):
    pass


def read(rel):
    p = os.path.join(REPO, rel)
    try:
        with open(p, encoding="utf-8") as f:
            return f.read()
    except OSError as e:
        raise ExtractError(f"cannot read {rel}: {e}")


def strip_comments(src):
    # remove // line comments (not inside string literals; good enough for the items we read,
    # which are checked for shape afterwards) and /* */ blocks
    src = re.sub(r"/\*.*?\*/", "", src, flags=re.S)
    out = []
    for line in src.split("\n"):
        in_str = False
        esc = False
        cut = None
        for i, ch in enumerate(line):
            if in_str:
                if esc:
                    esc = False
                elif ch == "\\":
                    esc = True
                elif ch == '"':
                    in_str = False
            else:
                if ch == '"':
                    in_str = True
                elif ch == "/" and line[i:i + 2] == "//":
                    cut = i
                    break
        out.append(line if cut is None else line[:cut])
    return "\n".join(out)


def one(pattern, src, what, flags=re.S):
    ms = list(re.finditer(pattern, src, flags))
    if len(ms) != 1:
        raise ExtractError(f"{what}: expected exactly one match, found {len(ms)}")
    return ms[0]


def lower_first(s):
    return s[0].lower() + s[1:]


def rust_int(s, what):
    s = s.strip().replace("_", "")
    m = re.fullmatch(r"(-?\d+)(?:u8|u16|u32|u64|usize|i32|i64)?", s)
    if m:
        return int(m.group(1))
    m = re.fullmatch(r"0x([0-9a-fA-F]+)(?:u8|u16|u32|u64|usize)?", s)
    if m:
        return int(m.group(1), 16)
    raise ExtractError(f"{what}: not an integer literal: {s!r}")


def rust_int_expr(s, what):
    """integer literal or a product of literals (e.g. 64 * 1024)."""
    parts = [p.strip() for p in s.split("*")]
    v = 1
    for p in parts:
        v *= rust_int(p, what)
    return v


def lean_str(s):
    return '"' + s.replace("\\", "\\\\").replace('"', '\\"').replace("\n", "\\n").replace("\r", "\\r") + '"'


def loop_bodies(src):
    """(offset, body) of every `loop { ... }` (balanced braces)"""
    out = []
    for m in re.finditer(r"\bloop\s*\{", src):
        i = m.end()
        depth = 1
        while i < len(src) and depth:
            if src[i] == "{":
                depth += 1
            elif src[i] == "}":
                depth -= 1
            i += 1
        if depth:
            raise ExtractError("unbalanced braces after `loop {`")
        out.append((m.start(), src[m.end():i - 1]))
    return out


def after_loop(src, loop_start):
    """the text that follows the `loop { .. }` starting at `loop_start`, up to the end of the enclosing block"""
    m = re.compile(r"\bloop\s*\{").match(src, loop_start)
    i = m.end()
    depth = 1
    while i < len(src) and depth:
        if src[i] == "{":
            depth += 1
        elif src[i] == "}":
            depth -= 1
        i += 1
    j = i
    depth = 0
    while j < len(src):
        if src[j] == "{":
            depth += 1
        elif src[j] == "}":
            depth -= 1
            if depth < 0:
                break
        j += 1
    return src[i:j]


def call_arg(body, pos):
    depth = 1
    i = pos
    while i < len(body) and depth:
        if body[i] == "(":
            depth += 1
        elif body[i] == ")":
            depth -= 1
        i += 1
    return body[pos:i - 1]


HAND_OVER = re.compile(r"\.\s*(write_all|write_data_frame|send_data|write|write_vectored|write_buf|write_all_buf|try_write)\s*\(")
HAND_OVER_KIND = {"write_all": "writeAll", "write": "writeOnce", "send_data": "channel", "write_data_frame": "frame"}


def relay_sites(rel, expected):
    """the relay loops of a file: `loop { n = <source>.read(&mut buf) ...; <sink>.<hand-over>(<slice of buf>) }`.
    For each: which hand-over call, and which part of the buffer it is given."""
    src = strip_comments(read(rel))
    sites = []
    for start, body in loop_bodies(src):
        if not re.search(r"\.\s*read\s*\(\s*&mut\s+buf\s*\)", body):
            continue
        calls = [(m.group(1), call_arg(body, m.end())) for m in HAND_OVER.finditer(body)]
        sinks = [m.group(1) for m in re.finditer(r"(\w+)\s*\.\s*(?:write_all|write)\s*\(", body)]
        if len(calls) != 1:
            raise ExtractError(f"{rel}: relay loop at offset {start}: expected exactly one hand-over call, "
                               f"found {[c[0] for c in calls]}")
        meth, arg = calls[0]
        if meth not in HAND_OVER_KIND:
            raise ExtractError(f"{rel}: relay loop at offset {start}: hand-over by `{meth}` is not modelled")
        a = re.sub(r"\s+", "", arg)
        if re.search(r"buf\[\.\.n\]", a) and not re.search(r"buf\[\.\.n\]\[|buf\[\.\.n[-+]", a):
            sl = "prefixN"
        elif re.search(r"(&buf\b(?!\[)|buf\[\.\.\]|buf\.clone\(\)|buf\.to_vec\(\))", a):
            sl = "whole"
        else:
            sl = "other"
        # the count read must be the `n` of this iteration: `Ok(n) => n` / `let n = ...read(&mut buf)`
        if not re.search(r"Ok\(n\)\s*=>|let\s+n\s*=", body):
            raise ExtractError(f"{rel}: relay loop at offset {start}: the byte count of the read is not bound to `n`")
        # what the code does once the loop is over (the source ended or the sink failed): shut the sink down, send the
        # stream's FIN, or nothing
        tail = after_loop(src, start)
        if sinks and re.search(r"\b" + re.escape(sinks[0]) + r"\s*\.\s*shutdown\s*\(\s*\)", tail):
            end = "shutdownSink"
        elif re.search(r"Command::Fin\b", tail):
            end = "sendFin"
        else:
            end = "nothing"
        sites.append((rel, HAND_OVER_KIND[meth], sl, end))
    if len(sites) != expected:
        raise ExtractError(f"{rel}: expected {expected} relay loops, found {len(sites)}")
    return sites


def udp_sites(rel):
    """the two datagram relay loops of a UDP-over-TCP file:
    udp -> stream: `loop { (len, _) = udp.recv_from(&mut buf); packet = <encoder>(<slice of buf>); stream.send_data(packet) }`
    stream -> udp: `loop { payload = read_udp_packet(..); if payload.is_empty() { break }; udp.send_to(<slice of payload>, ..) }`.
    For each: the direction, the slice handed on, whether the datagram read is awaited bare or under a timer."""
    src = strip_comments(read(rel))
    sites = []
    for start, body in loop_bodies(src):
        flat = re.sub(r"\s+", "", body)
        if re.search(r"\.\s*recv_from\s*\(", body):
            if not re.search(r"\.recv_from\(&mutbuf\)", flat):
                raise ExtractError(f"{rel}: UDP loop at offset {start}: recv_from does not read into `buf`")
            if not re.search(r"Ok\(\(len,\w+\)\)=>\(len,\w+\)|let\(len,\w+\)=", flat):
                raise ExtractError(f"{rel}: UDP loop at offset {start}: the size of the received datagram is not bound to `len`")
            encs = [(m.group(1), call_arg(body, m.end())) for m in re.finditer(r"\b(encode_udp_packet(?:_simple)?)\s*\(", body)]
            if len(encs) != 1:
                raise ExtractError(f"{rel}: UDP loop at offset {start}: expected exactly one encoder call, found {len(encs)}")
            m = re.search(r"let(\w+)=encode_udp_packet(?:_simple)?\(", flat)
            if not m:
                raise ExtractError(f"{rel}: UDP loop at offset {start}: the encoded datagram is not bound to a variable")
            var = m.group(1)
            sends = [call_arg(body, x.end()) for x in re.finditer(r"\.\s*send_data\s*\(", body)]
            if len(sends) != 1 or re.sub(r"\s+", "", sends[0]) not in (var, var + ".clone()"):
                raise ExtractError(f"{rel}: UDP loop at offset {start}: expected exactly one send_data({var}), found {sends}")
            if re.search(r"\bcontinue\b", body):
                raise ExtractError(f"{rel}: UDP loop at offset {start}: a `continue` (datagrams skipped?) is not modelled")
            a = re.sub(r"\s+", "", encs[0][1])
            if a == "&buf[..len]":
                sl = "prefixN"
            elif re.fullmatch(r"&buf|&buf\[\.\.\]|buf\.as_slice\(\)", a):
                sl = "whole"
            else:
                sl = "other"
            wrap = "timed" if re.search(r"\btimeout(_at)?\s*\(|select!", body) else "bare"
            sites.append((rel, "toStream", sl, wrap))
        elif re.search(r"\bread_udp_packet\s*\(", body):
            if len(re.findall(r"\bread_udp_packet\s*\(", body)) != 1:
                raise ExtractError(f"{rel}: UDP loop at offset {start}: expected exactly one read_udp_packet call")
            if not re.search(r"letpayload=matchread_udp_packet\(&mutreader_guard\)\.await\{", flat):
                raise ExtractError(f"{rel}: UDP loop at offset {start}: the datagram read is not `let payload = match read_udp_packet(&mut reader_guard).await` (a wrapped read is not modelled)" if not re.search(r"\btimeout(_at)?\s*\(|select!", body) else f"{rel}: UDP loop at offset {start}: unknown shape of a timed datagram read")
            wrap = "timed" if re.search(r"\btimeout(_at)?\s*\(|select!", body) else "bare"
            if not re.search(r"ifpayload\.is_empty\(\)\{[^{}]*break;\}", flat):
                raise ExtractError(f"{rel}: UDP loop at offset {start}: no `if payload.is_empty() {{ break }}`")
            sends = [call_arg(body, x.end()) for x in re.finditer(r"\.\s*send_to\s*\(", body)]
            if len(sends) != 1:
                raise ExtractError(f"{rel}: UDP loop at offset {start}: expected exactly one send_to call, found {len(sends)}")
            if re.search(r"\bcontinue\b", body):
                raise ExtractError(f"{rel}: UDP loop at offset {start}: a `continue` (datagrams skipped?) is not modelled")
            a = re.sub(r"\s+", "", sends[0]).split(",")[0]
            sl = "whole" if a == "&payload" else "other"
            sites.append((rel, "toUdp", sl, wrap))
    if sorted(d for _, d, _, _ in sites) != ["toStream", "toUdp"]:
        raise ExtractError(f"{rel}: expected one udp->stream and one stream->udp loop, found {[d for _, d, _, _ in sites]}")
    return sites


def udp_bind_rule():
    """how `handle_udp_over_tcp` chooses the local address of the relay's UDP socket"""
    src = strip_comments(read("src/server/udp_proxy.rs"))
    m = one(r"UdpSocket::bind\(([^)]*)\)", src, "server UDP relay: UdpSocket::bind")
    arg = m.group(1).strip()
    if arg == '"0.0.0.0:0"':
        return "anyV4"
    if arg == '"[::]:0"':
        return "anyV6"
    flat = re.sub(r"\s+", "", src)
    if re.fullmatch(r"\w+", arg) and re.search(
            r"let" + arg + r'=iftarget_addr\.is_ipv6\(\)\{"\[::\]:0"\}else\{"0\.0\.0\.0:0"\};', flat):
        return "familyOfTarget"
    raise ExtractError(f"server UDP relay: bind address `{arg}` is not a modelled rule")


def fn_body(src, header_re, what):
    m = one(header_re, src, what)
    i = m.end()
    depth = 1
    while i < len(src) and depth:
        if src[i] == "{":
            depth += 1
        elif src[i] == "}":
            depth -= 1
        i += 1
    if depth:
        raise ExtractError(f"{what}: unbalanced braces")
    return src[m.end():i - 1]


def auth_gate():
    """how `handle_connection` (src/server/server.rs) runs the authentication of a new connection: one bare call whose
    error ends the connection before a session exists, on the very reader the session is then built on"""
    src = strip_comments(read("src/server/server.rs"))
    body = fn_body(src, r"async fn handle_connection\b.*?->\s*Result<\(\)>\s*\{", "server handle_connection")
    flat = re.sub(r"\s+", "", body)
    calls = len(re.findall(r"\bauthenticate_client\s*\(", body))
    if calls != 1:
        raise ExtractError(f"server handle_connection: expected exactly one authenticate_client call, found {calls}")
    if "let(mutreader,writer)=tokio::io::split(tls_stream);" not in flat:
        raise ExtractError("server handle_connection: the TLS stream is not split into `reader`/`writer` as modelled")
    if "Session::new_server(reader,writer," not in flat:
        raise ExtractError("server handle_connection: the session is not built on the `reader`/`writer` of the split")
    a = flat.index("tokio::io::split(tls_stream);")
    b = flat.index("Session::new_server(reader,writer,")
    c = flat.index("authenticate_client(")
    if not (a < c < b):
        raise ExtractError("server handle_connection: authentication does not sit between the split and the session")
    between = flat[a:b]
    if "authenticate_client(&mutreader,&password_hash,&padding).await?;" in between and not re.search(r"timeout(_at)?\(|select!|loop\{|while|BufReader", between):
        return "bareOnce"
    if re.search(r"timeout(_at)?\([^;]*authenticate_client\(&mutreader,&password_hash,&padding\)", between) and re.search(r"loop\{|while", between):
        return "timedRetry"
    raise ExtractError("server handle_connection: the way authenticate_client is awaited is not a modelled shape")


def extract():
    g = {}
    # ---- protocol/frame.rs -------------------------------------------------------
    frame = strip_comments(read("src/protocol/frame.rs"))
    g["headerSize"] = rust_int(one(r"pub const HEADER_OVERHEAD_SIZE\s*:\s*usize\s*=\s*([^;]+);", frame,
                                   "HEADER_OVERHEAD_SIZE").group(1), "HEADER_OVERHEAD_SIZE")
    m = one(r"pub enum Command\s*\{(.*?)\}", frame, "enum Command")
    variants = []
    for item in m.group(1).split(","):
        item = item.strip()
        if not item:
            continue
        mm = re.fullmatch(r"(\w+)\s*=\s*(\d+)", item)
        if not mm:
            raise ExtractError(f"enum Command: unexpected variant syntax {item!r}")
        variants.append((mm.group(1), int(mm.group(2))))
    if not variants:
        raise ExtractError("enum Command: no variants")
    m = one(r"impl From<u8> for Command\s*\{\s*fn from\(value: u8\) -> Self\s*\{\s*match value\s*\{(.*?)\}\s*\}\s*\}",
            frame, "From<u8> for Command")
    table = []
    default = None
    for arm in m.group(1).split(","):
        arm = arm.strip()
        if not arm:
            continue
        mm = re.fullmatch(r"(\d+|_)\s*=>\s*Command::(\w+)", arm)
        if not mm:
            raise ExtractError(f"From<u8> for Command: unexpected arm {arm!r}")
        if mm.group(1) == "_":
            default = mm.group(2)
        else:
            table.append((int(mm.group(1)), mm.group(2)))
    if default is None:
        raise ExtractError("From<u8> for Command: no default arm")
    names = [v for v, _ in variants]
    for _, v in table:
        if v not in names:
            raise ExtractError(f"From<u8>: unknown variant {v}")
    one(r"impl From<Command> for u8\s*\{\s*fn from\(cmd: Command\) -> Self\s*\{\s*cmd as u8\s*\}\s*\}", frame,
        "From<Command> for u8 (cmd as u8)")
    g["variants"] = variants
    g["fromTable"] = table
    g["fromDefault"] = default

    # ---- padding ------------------------------------------------------------------
    pmod = strip_comments(read("src/padding/mod.rs"))
    g["checkMark"] = rust_int(one(r"pub const CHECK_MARK\s*:\s*i32\s*=\s*([^;]+);", pmod, "CHECK_MARK").group(1),
                              "CHECK_MARK")
    fac = read("src/padding/factory.rs")
    m = one(r'pub const DEFAULT_PADDING_SCHEME\s*:\s*&str\s*=\s*r#"(.*?)"#;', fac, "DEFAULT_PADDING_SCHEME")
    g["defaultScheme"] = m.group(1)

    # ---- session: counters and roles ---------------------------------------------
    sess = strip_comments(read("src/session/session.rs"))

    def ctor_body(name):
        mm = one(r"pub fn " + name + r"<R, W>\(.*?\)\s*->\s*Self\s*where.*?\{(.*?)\n    \}\n", sess, name)
        return mm.group(1)

    for role, fn in (("Client", "new_client"), ("Server", "new_server")):
        body = ctor_body(fn)
        g["pktCounterInit" + role] = rust_int(
            one(r"pkt_counter\s*:\s*Arc::new\(std::sync::atomic::AtomicU32::new\(([^)]*)\)\)", body,
                fn + ".pkt_counter").group(1), fn + ".pkt_counter")
        g["streamIdInit" + role] = rust_int(
            one(r"stream_id\s*:\s*Arc::new\(std::sync::atomic::AtomicU32::new\(([^)]*)\)\)", body,
                fn + ".stream_id").group(1), fn + ".stream_id")
        sp = one(r"send_padding\s*:\s*(true|false)\s*,", body, fn + ".send_padding").group(1)
        g["sendPadding" + role] = sp == "true"
        ic = one(r"is_client\s*:\s*(true|false)\s*,", body, fn + ".is_client").group(1)
        g["isClient" + role] = ic == "true"
        bf = one(r"buffering\s*:\s*Arc::new\(std::sync::atomic::AtomicBool::new\((true|false)\)\)", body,
                 fn + ".buffering").group(1)
        g["bufferingInit" + role] = bf == "true"

    # the packet counter is read with fetch_add(1) (returns the OLD value) or +1 of it
    m = one(r"let pkt = self\s*\.pkt_counter\s*\.fetch_add\(1, std::sync::atomic::Ordering::SeqCst\)([^;]*);", sess,
            "pkt_counter.fetch_add")
    tail = m.group(1).strip()
    if tail == "":
        g["pktFetchOffset"] = 0
    else:
        mm = re.fullmatch(r"\+\s*(\d+)", tail)
        if not mm:
            raise ExtractError(f"pkt_counter.fetch_add: unexpected tail {tail!r}")
        g["pktFetchOffset"] = int(mm.group(1))

    # ---- client: synack timeout, heartbeat mapping --------------------------------
    cli = strip_comments(read("src/client/client.rs"))
    g["synackTimeoutSecs"] = rust_int(
        one(r"const DEFAULT_SYNACK_TIMEOUT\s*:\s*Duration\s*=\s*Duration::from_secs\(([^)]*)\);", cli,
            "DEFAULT_SYNACK_TIMEOUT").group(1), "DEFAULT_SYNACK_TIMEOUT")
    m = one(r"SessionHeartbeatConfig\s*\{\s*interval\s*:\s*self\.pool_config\.(\w+)\s*,\s*timeout\s*:\s*self\.pool_config\.(\w+)\s*,?\s*\}",
            cli, "heartbeat mapping")
    g["hbIntervalFrom"] = m.group(1)
    g["hbTimeoutFrom"] = m.group(2)

    # ---- command line: which (interval, timeout) pairs are accepted --------------------
    cbin = strip_comments(read("src/bin/client.rs"))
    m = one(r"fn parse_u64\(value: &str, flag: &str\) -> Result<u64>\s*\{(.*?)\n\}", cbin, "parse_u64")
    body = m.group(1)
    if not re.search(r"\.parse::<u64>\(\)", body) or not re.search(r"if parsed == 0\s*\{\s*anyhow::bail!", body) or not re.search(r"Ok\(parsed\)", body):
        raise ExtractError("parse_u64: unexpected body (expected: parse::<u64>, reject 0, Ok(parsed))")
    for flag, var in (("--idle-session-check-interval", "idle_check_interval"), ("--idle-session-timeout", "idle_timeout")):
        one(re.escape(var) + r"\s*=\s*Some\(parse_u64\(&value, \"" + re.escape(flag) + r"\"\)\?\)", cbin, "cli " + flag)
    g["cliAcceptsEveryPositive"] = True

    # ---- pool defaults -------------------------------------------------------------
    pool = strip_comments(read("src/client/session_pool.rs"))
    m = one(r"impl Default for SessionPoolConfig\s*\{\s*fn default\(\) -> Self\s*\{\s*Self\s*\{(.*?)\}", pool,
            "SessionPoolConfig::default")
    body = m.group(1)
    g["poolCheckIntervalSecs"] = rust_int(one(r"check_interval\s*:\s*Duration::from_secs\(([^)]*)\)", body,
                                              "check_interval").group(1), "check_interval")
    g["poolIdleTimeoutSecs"] = rust_int(one(r"idle_timeout\s*:\s*Duration::from_secs\(([^)]*)\)", body,
                                            "idle_timeout").group(1), "idle_timeout")
    g["poolMinIdle"] = rust_int(one(r"min_idle_sessions\s*:\s*([^,]*),", body, "min_idle_sessions").group(1),
                                "min_idle_sessions")

    # ---- dns cache -----------------------------------------------------------------
    dns = strip_comments(read("src/util/dns_cache.rs"))
    g["dnsTtlSecs"] = rust_int(one(r"const DEFAULT_TTL\s*:\s*Duration\s*=\s*Duration::from_secs\(([^)]*)\);", dns,
                                   "DEFAULT_TTL").group(1), "DEFAULT_TTL")

    # ---- udp ----------------------------------------------------------------------
    udps = strip_comments(read("src/server/udp_proxy.rs"))
    udpc = strip_comments(read("src/client/udp_client.rs"))
    g["udpMaxServer"] = rust_int_expr(one(r"const MAX_UDP_PACKET_SIZE\s*:\s*usize\s*=\s*([^;]+);", udps,
                                          "server MAX_UDP_PACKET_SIZE").group(1), "server MAX_UDP_PACKET_SIZE")
    g["udpMaxClient"] = rust_int_expr(one(r"const MAX_UDP_PACKET_SIZE\s*:\s*usize\s*=\s*([^;]+);", udpc,
                                          "client MAX_UDP_PACKET_SIZE").group(1), "client MAX_UDP_PACKET_SIZE")

    # ---- http proxy -----------------------------------------------------------------
    http = strip_comments(read("src/client/http_proxy.rs"))
    g["httpMaxHeader"] = rust_int_expr(one(r"const MAX_HEADER_SIZE\s*:\s*usize\s*=\s*([^;]+);", http,
                                           "MAX_HEADER_SIZE").group(1), "MAX_HEADER_SIZE")

    # ---- Client::create_new_session: which scheme shapes the preamble and which one the session runs ------
    m = one(r"async fn create_new_session\s*\(&self\)[^{]*\{", cli, "Client::create_new_session")
    depth = 1
    i = m.end()
    while i < len(cli) and depth:
        if cli[i] == "{":
            depth += 1
        elif cli[i] == "}":
            depth -= 1
        i += 1
    cns = cli[m.end():i - 1]
    eff = [(x.start(), x.group(1)) for x in re.finditer(r"let\s+(\w+)\s*=\s*PaddingFactory::effective\(\s*&self\.padding\s*\)\s*;", cns)]

    def scheme_source(arg, pos, what):
        a = re.sub(r"\s+", "", arg)
        for epos, var in eff:
            if a in (var, "&" + var, var + ".clone()", "Arc::clone(&" + var + ")") and epos < pos:
                return "effective"
        if a in ("&self.padding", "self.padding.clone()", "Arc::clone(&self.padding)"):
            return "configured"
        if a in ("PaddingFactory::effective(&self.padding)", "&PaddingFactory::effective(&self.padding)"):
            return "effective"
        raise ExtractError(f"create_new_session: {what}: unrecognised scheme argument `{arg.strip()}`")

    ma = one(r"send_authentication\s*\(", cns, "send_authentication call")
    args = [x.strip() for x in call_arg(cns, ma.end()).split(",")]
    if len(args) != 3:
        raise ExtractError("send_authentication: expected 3 arguments")
    g["preambleSchemeFrom"] = scheme_source(args[2], ma.start(), "preamble")
    mn = one(r"Session::new_client\s*\(", cns, "Session::new_client call")
    args = [x.strip() for x in call_arg(cns, mn.end()).split(",") if x.strip()]
    if len(args) != 4:
        raise ExtractError(f"Session::new_client: expected 4 arguments, found {len(args)}")
    g["sessionSchemeFrom"] = scheme_source(args[2], mn.start(), "session")

    # ---- Server::listen: where the reloadable acceptor cell is read relative to accept() -------------
    srv = strip_comments(read("src/server/server.rs"))
    m = one(r"pub async fn listen\s*\(&self[^)]*\)[^{]*\{", srv, "Server::listen")
    depth = 1
    i = m.end()
    while i < len(srv) and depth:
        if srv[i] == "{":
            depth += 1
        elif srv[i] == "}":
            depth -= 1
        i += 1
    listen_body = srv[m.end():i - 1]
    loops = loop_bodies(listen_body)
    if len(loops) != 1:
        raise ExtractError(f"Server::listen: expected one accept loop, found {len(loops)}")
    loop_start, loop_body = loops[0]
    acc = [x.start() for x in re.finditer(r"listener\s*\.\s*accept\s*\(\s*\)", listen_body)]
    rd = [x.start() for x in re.finditer(r"self\s*\.\s*tls_config\s*\.\s*read\s*\(\s*\)", listen_body)]
    if len(acc) != 1 or len(rd) != 1:
        raise ExtractError(f"Server::listen: expected one accept() and one read of tls_config, found {len(acc)} and {len(rd)}")
    loop_end = loop_start + len(loop_body) + len("loop {")
    if not (loop_start < acc[0] < loop_end):
        raise ExtractError("Server::listen: accept() is not inside the loop")
    if not (loop_start < rd[0] < loop_end + 8):
        g["acceptorRead"] = "outsideLoop"
    elif rd[0] > acc[0]:
        # ... and inside the Ok arm of this accept (not in a task spawned later: the spawn takes the clone)
        between = listen_body[acc[0]:rd[0]]
        if "tokio::spawn" in between or "spawn(" in between:
            raise ExtractError("Server::listen: the acceptor is read inside the spawned task (not modelled)")
        g["acceptorRead"] = "afterAccept"
    else:
        g["acceptorRead"] = "beforeAccept"

    # ---- relay loops (server target relay, SOCKS5 and HTTP front-ends) ---------------------
    g["relaySites"] = (relay_sites("src/server/handler.rs", 2) + relay_sites("src/client/socks5.rs", 2)
                       + relay_sites("src/client/http_proxy.rs", 2))
    # ---- UDP-over-TCP relay loops and the relay socket's address family ----------------------
    g["udpSites"] = udp_sites("src/server/udp_proxy.rs") + udp_sites("src/client/udp_client.rs")
    g["udpBind"] = udp_bind_rule()
    # is the relay's socket connect()ed to the target?  (a connected UDP socket reports ICMP errors of earlier
    # datagrams on later calls, and both loops treat any socket error as fatal)
    hbody = fn_body(strip_comments(read("src/server/udp_proxy.rs")),
                    r"pub async fn handle_udp_over_tcp\b.*?->\s*Result<\(\)>\s*\{", "handle_udp_over_tcp")
    g["udpConnected"] = bool(re.search(r"\budp_socket\s*\.\s*connect\s*\(", hbody))
    # ---- which destinations the server's stream handler takes for UDP-over-TCP streams ----------
    hsrc = strip_comments(read("src/server/handler.rs"))
    hflat = re.sub(r"\s+", "", hsrc)
    if len(re.findall(r"handle_udp_over_tcp\(", hsrc)) != 1:
        raise ExtractError("server handler: expected exactly one call of handle_udp_over_tcp")
    if 'ifdestination.addr=="udp-over-tcp.arpa"||destination.addr.ends_with(".udp-over-tcp.arpa"){' in hflat:
        g["udpMagicRule"] = "reservedSuffix"
    elif 'ifdestination.addr.contains("udp-over-tcp.arpa"){' in hflat:
        g["udpMagicRule"] = "contains"
    else:
        raise ExtractError("server handler: the test that marks a stream as UDP-over-TCP is not a modelled rule")
    g["udpMagicAddr"] = one(r'pub const UDP_OVER_TCP_MAGIC_ADDR\s*:\s*&str\s*=\s*"([^"\\]*)";',
                            strip_comments(read("src/client/udp_client.rs")), "UDP_OVER_TCP_MAGIC_ADDR").group(1)
    # ---- the key under which a session sits in the idle map, and where it comes from -----------
    pool_src = strip_comments(read("src/client/session_pool.rs"))
    add_body = fn_body(pool_src, r"pub async fn add_idle_session\s*\(&self,\s*session:\s*Arc<Session>\)\s*\{", "SessionPool::add_idle_session")
    add_flat = re.sub(r"\s+", "", add_body)
    if "letseq=session.seq();" in add_flat and "sessions.insert(seq,pooled);" in add_flat and len(re.findall(r"\blet\s+(?:mut\s+)?seq\b", add_body)) == 1 and "letmutseq" not in add_flat \
            and "set_seq" not in add_body and "next_seq" not in add_body:
        g["poolKey"] = "sessionSeq"
    else:
        raise ExtractError("SessionPool::add_idle_session: the map key is not `let seq = session.seq(); .. sessions.insert(seq, pooled)`")
    cns_flat = re.sub(r"\s+", "", cns)
    if re.search(r"staticSEQ_COUNTER:std::sync::atomic::AtomicU64=std::sync::atomic::AtomicU64::new\(\d+\);"
                 r"letseq=SEQ_COUNTER\.fetch_add\(1,std::sync::atomic::Ordering::SeqCst\);session\.set_seq\(seq\);", cns_flat) \
            and len(re.findall(r"set_seq\(", cns)) == 1:
        g["seqSource"] = "processCounter"
    else:
        raise ExtractError("Client::create_new_session: the session's seq is not taken from one process-wide fetch_add(1) counter")
    # ---- where the client sends the replies of a UDP association ---------------------------------
    ucl = strip_comments(read("src/client/udp_client.rs"))
    uflat = re.sub(r"\s+", "", ucl)
    if "letmutguard=last_peer.lock().await;*guard=Some(addr);" in uflat and uflat.count("*guard=") == 1 \
            and "lettarget={*last_peer.lock().await};" in uflat and "ifletSome(addr)=target{letsent=udp.send_to(&payload,addr).await?;" in uflat \
            and len(re.findall(r"last_peer", ucl)) == 7:
        g["replyRule"] = "lastSender"
    else:
        raise ExtractError("client UDP association: replies are not sent to the sender of the most recent local datagram (`last_peer`) in the modelled shape")
    # ---- the authentication gate of a server connection -------------------------------------
    g["authGate"] = auth_gate()
    return g


def render(g):
    L = []
    a = L.append
    a("/- GENERATED by tools/extract.py from /repo's sources on every run.  Do not edit. -/")
    a("namespace AnyTLS.Gen")
    a("")
    a(f"def headerSize : Nat := {g['headerSize']}")
    a("")
    a("/-- `enum Command` (src/protocol/frame.rs) -/")
    a("inductive Cmd where")
    for v, _ in g["variants"]:
        a(f"  | {lower_first(v)}")
    a("  deriving DecidableEq, Repr, Inhabited")
    a("")
    a("/-- `cmd as u8` -/")
    a("def Cmd.toByte : Cmd → Nat")
    for v, d in g["variants"]:
        a(f"  | .{lower_first(v)} => {d}")
    a("")
    a("/-- `impl From<u8> for Command` -/")
    a("def Cmd.ofByte : Nat → Cmd")
    for b, v in g["fromTable"]:
        a(f"  | {b} => .{lower_first(v)}")
    a(f"  | _ => .{lower_first(g['fromDefault'])}")
    a("")
    a("def Cmd.all : List Cmd := [" + ", ".join("." + lower_first(v) for v, _ in g["variants"]) + "]")
    a("")
    a("def Cmd.name : Cmd → String")
    for v, _ in g["variants"]:
        a(f"  | .{lower_first(v)} => {lean_str(v)}")
    a("")
    a(f"def checkMark : Int := {g['checkMark']}")
    a(f"def defaultScheme : String := {lean_str(g['defaultScheme'])}")
    a("")
    for role in ("Client", "Server"):
        a(f"def pktCounterInit{role} : Nat := {g['pktCounterInit' + role]}")
        a(f"def streamIdInit{role} : Nat := {g['streamIdInit' + role]}")
        a(f"def sendPadding{role} : Bool := {'true' if g['sendPadding' + role] else 'false'}")
        a(f"def isClient{role} : Bool := {'true' if g['isClient' + role] else 'false'}")
        a(f"def bufferingInit{role} : Bool := {'true' if g['bufferingInit' + role] else 'false'}")
    a(f"/-- value added to the result of `pkt_counter.fetch_add(1)` (which returns the old value) -/")
    a(f"def pktFetchOffset : Nat := {g['pktFetchOffset']}")
    a("")
    a(f"def synackTimeoutSecs : Nat := {g['synackTimeoutSecs']}")
    a(f"def hbIntervalFrom : String := {lean_str(g['hbIntervalFrom'])}")
    a(f"def hbTimeoutFrom : String := {lean_str(g['hbTimeoutFrom'])}")
    a("/-- `parse_u64` accepts exactly the integers > 0 for both heartbeat-related flags -/")
    a(f"def cliAcceptsEveryPositive : Bool := {'true' if g['cliAcceptsEveryPositive'] else 'false'}")
    a(f"def poolCheckIntervalSecs : Nat := {g['poolCheckIntervalSecs']}")
    a(f"def poolIdleTimeoutSecs : Nat := {g['poolIdleTimeoutSecs']}")
    a(f"def poolMinIdle : Nat := {g['poolMinIdle']}")
    a(f"def dnsTtlSecs : Nat := {g['dnsTtlSecs']}")
    a(f"def udpMaxServer : Nat := {g['udpMaxServer']}")
    a(f"def udpMaxClient : Nat := {g['udpMaxClient']}")
    a(f"def httpMaxHeader : Nat := {g['httpMaxHeader']}")
    a("")
    a("/-- which scheme `Client::create_new_session` hands to the preamble (`send_authentication`) and to the session")
    a("(`Session::new_client`): the configured one or the effective one (configured unless a server has pushed one) -/")
    a("inductive SchemeSource where")
    a("  | configured")
    a("  | effective")
    a("  deriving DecidableEq, Repr")
    a("")
    a(f"def preambleSchemeFrom : SchemeSource := .{g['preambleSchemeFrom']}")
    a(f"def sessionSchemeFrom : SchemeSource := .{g['sessionSchemeFrom']}")
    a("")
    a("/-- where `Server::listen` reads the reloadable acceptor cell: in the arm of a returned `accept()` (the")
    a("connection gets what is current when it arrives), at the top of the loop before waiting in `accept()` (it gets")
    a("what was current when the previous connection arrived), or once before the loop -/")
    a("inductive AcceptorRead where")
    a("  | afterAccept")
    a("  | beforeAccept")
    a("  | outsideLoop")
    a("  deriving DecidableEq, Repr")
    a("")
    a(f"def acceptorRead : AcceptorRead := .{g['acceptorRead']}")
    a("")
    a("/-- the call that hands a chunk to the sink of a relay loop -/")
    a("inductive WriteKind where")
    a("  | writeAll   -- `AsyncWriteExt::write_all`: calls `write` until everything is taken")
    a("  | writeOnce  -- a single `AsyncWriteExt::write`, its result not acted on")
    a("  | channel    -- `Stream::send_data`: an unbounded channel takes the whole chunk")
    a("  | frame      -- `Session::write_data_frame`: the whole chunk becomes PSH frames")
    a("  deriving DecidableEq, Repr")
    a("")
    a("/-- the part of the buffer handed over after a read of `n` bytes -/")
    a("inductive SliceKind where")
    a("  | prefixN    -- `buf[..n]`")
    a("  | whole      -- the whole buffer, whatever `n` was")
    a("  | other")
    a("  deriving DecidableEq, Repr")
    a("")
    a("/-- what follows the loop, in the same task, once it is over -/")
    a("inductive EndKind where")
    a("  | shutdownSink   -- `<sink>.shutdown()`: the sink's peer sees end of stream")
    a("  | sendFin        -- a FIN frame for the stream is written")
    a("  | nothing")
    a("  deriving DecidableEq, Repr")
    a("")
    a("structure RelaySite where")
    a("  file : String")
    a("  write : WriteKind")
    a("  slice : SliceKind")
    a("  atEnd : EndKind")
    a("  deriving DecidableEq, Repr")
    a("")
    a("/-- every `loop { n = source.read(&mut buf); sink.<hand-over>(<slice>) }` of the relay code, in source order -/")
    a("def relaySites : List RelaySite := [")
    a(",\n".join(f"  ⟨{lean_str(f)}, .{w}, .{sl}, .{e}⟩" for f, w, sl, e in g["relaySites"]))
    a("]")
    a("")
    a("inductive UdpDir where")
    a("  | toStream   -- socket -> tunnel stream: `recv_from`, encode, `send_data`")
    a("  | toUdp      -- tunnel stream -> socket: `read_udp_packet`, `send_to`")
    a("  deriving DecidableEq, Repr")
    a("")
    a("/-- how the loop awaits the next datagram of the stream -/")
    a("inductive ReadWrap where")
    a("  | bare       -- the read is awaited to completion")
    a("  | timed      -- the read sits under a timer or a `select!` (it can be dropped half-way)")
    a("  deriving DecidableEq, Repr")
    a("")
    a("/-- `slice`: for `toStream` the part of the receive buffer given to the encoder after a datagram of `len` bytes")
    a("(`prefixN` = `&buf[..len]`); for `toUdp` the part of the decoded payload given to `send_to` (`whole` = `&payload`) -/")
    a("structure UdpSite where")
    a("  file : String")
    a("  dir : UdpDir")
    a("  slice : SliceKind")
    a("  wrap : ReadWrap")
    a("  deriving DecidableEq, Repr")
    a("")
    a("/-- the four datagram relay loops (server, client), in source order -/")
    a("def udpSites : List UdpSite := [")
    a(",\n".join(f"  ⟨{lean_str(f)}, .{d}, .{sl}, .{w}⟩" for f, d, sl, w in g["udpSites"]))
    a("]")
    a("")
    a("/-- local address of the server relay's UDP socket -/")
    a("inductive BindRule where")
    a("  | anyV4            -- always `0.0.0.0:0`")
    a("  | anyV6            -- always `[::]:0`")
    a("  | familyOfTarget   -- `[::]:0` for an IPv6 target, `0.0.0.0:0` otherwise")
    a("  deriving DecidableEq, Repr")
    a("")
    a(f"def udpBind : BindRule := .{g['udpBind']}")
    a("")
    a("/-- the relay `connect()`s its UDP socket to the target -/")
    a(f"def udpConnected : Bool := {'true' if g['udpConnected'] else 'false'}")
    a("")
    a("/-- the test by which the server's stream handler takes a destination for a UDP-over-TCP stream -/")
    a("inductive MagicRule where")
    a("  | contains         -- the host name contains `udp-over-tcp.arpa` anywhere")
    a("  | reservedSuffix   -- the host name is `udp-over-tcp.arpa` or ends in `.udp-over-tcp.arpa`")
    a("  deriving DecidableEq, Repr")
    a("")
    a(f"def udpMagicRule : MagicRule := .{g['udpMagicRule']}")
    a("")
    a("/-- the destination the client opens for a UDP association (`UDP_OVER_TCP_MAGIC_ADDR`) -/")
    a("def udpMagicAddr : List Char := [" + ", ".join("'" + c + "'" for c in g["udpMagicAddr"]) + "]")
    a("")
    a("/-- the key of a session in the idle map (`add_idle_session`) -/")
    a("inductive PoolKey where")
    a("  | sessionSeq       -- the session's own `seq()`, unchanged")
    a("  deriving DecidableEq, Repr")
    a("")
    a(f"def poolKey : PoolKey := .{g['poolKey']}")
    a("")
    a("/-- where `create_new_session` takes a new session's `seq` from -/")
    a("inductive SeqSource where")
    a("  | processCounter   -- one process-wide atomic counter, `fetch_add(1)` per session: never the same value twice")
    a("  deriving DecidableEq, Repr")
    a("")
    a(f"def seqSource : SeqSource := .{g['seqSource']}")
    a("")
    a("/-- where the client's stream -> socket loop sends a reply of the association -/")
    a("inductive ReplyRule where")
    a("  | lastSender   -- to the source address of the most recent datagram received on the local socket (dropped before the first)")
    a("  deriving DecidableEq, Repr")
    a("")
    a(f"def replyRule : ReplyRule := .{g['replyRule']}")
    a("")
    a("/-- how `handle_connection` awaits `authenticate_client` before it builds the session -/")
    a("inductive AuthGate where")
    a("  | bareOnce     -- one call, awaited to completion; its error ends the connection")
    a("  | timedRetry   -- the call sits under a timer inside a loop: on expiry it is dropped and started again")
    a("  deriving DecidableEq, Repr")
    a("")
    a(f"def authGate : AuthGate := .{g['authGate']}")
    a("")
    a("end AnyTLS.Gen")
    return "\n".join(L) + "\n"


def main():
    try:
        g = extract()
    except ExtractError as e:
        sys.stderr.write(f"extract.py: BROKEN TIE: {e}\n")
        return 2
    txt = render(g)
    out = os.path.normpath(OUT)
    old = None
    if os.path.exists(out):
        with open(out, encoding="utf-8") as f:
            old = f.read()
    if old != txt:
        tmp = out + ".tmp%d" % os.getpid()
        with open(tmp, "w", encoding="utf-8") as f:
            f.write(txt)
        os.replace(tmp, out)
    return 0


if __name__ == "__main__":
    sys.exit(main())
