#!/bin/sh
# runs /repo's own test suite with the verif guard OFF and prints pass/fail totals
cd /repo && CARGO_NET_OFFLINE=true cargo test --workspace --no-fail-fast --offline 2>&1 | awk '/^test result/ {p+=$4; f+=$6} /FAILED|panicked/ {print} END {print "passed=" p " failed=" f}'
