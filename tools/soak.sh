#!/bin/bash
# dev helper: every group x several seeds through difftest; prints only groups/seeds with disagreements or unlisted oracle failures
cd /verif
for seed in "$@"; do
for g in frame sess pipe pad auth dest push open pool hb socks hx cert http sched e2e; do
  n=600; case $g in hb) n=120;; e2e) n=6;; cert) n=150;; socks) n=400;; hx) n=600;; frame|dest|http) n=1500;; esac
  out=$(python3 tools/difftest.py $g $n $seed 2>&1)
  dis=$(echo "$out" | grep -m1 "^disagreeing cases" )
  orc=$(echo "$out" | grep -m1 "^oracle failures")
  echo "seed=$seed $g | $dis | $orc"
done; done
