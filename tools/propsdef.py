"""Per-property configuration of ./check: theorem modules, harness groups, evidence texts."""

COMMON_ASSUMPTIONS = [
    "the compiled Lean driver agrees with the kernel semantics of the model definitions",
    "the correspondence check is differential testing: it validates the model against the code on the cases run, it never stands in for a theorem",
]

PROPS = {
    "C03": {
        "level": "proof",
        "lean_modules": ["AnyTLS.Props.C03"],
        "groups": [{"group": "frame", "quick_cases": 3000, "thorough_cases": 100000}],
        "rule": "case = one op line (enc cmd sid payload | dec bytes | feed chunk..); generated from boundary sets "
                "(all 11 commands, all 256 command bytes, ids {0,1,2^16,2^31,2^32-1,random}, lengths {0,1,6,7,8,255,256,65534,65535,65536,65537,70000,131072}) "
                "plus a malformed stream; non-trivial = enc of any payload, dec of a non-empty string, feed that yields >=1 frame from >=2 chunks; "
                "distinct by SHA-1 of the op lines",
        "assumptions": COMMON_ASSUMPTIONS + ["tokio-util Decoder/Encoder contract and bytes::BytesMut semantics (exercised, not verified)"],
        "level_text": "kernel-checked Lean theorems (unbounded: all commands, ids, payload lengths, byte strings and fragmentations) about the executable codec model; the model is tied to the code by the regenerated Gen.lean (command table, header size) and by a differential run of the real FrameCodec against the compiled model on boundary-biased and malformed inputs, with an independent reference codec as oracle",
        "level_note": "trusted: Lean kernel, tools/extract.py, harness+driver glue; tokio-util/bytes are exercised, not verified; stream ids are < 2^32 (u32)",
        "explanation": "Lean theorems about the frame codec model (AnyTLS/Model/Frame.lean) + differential run of the real FrameCodec against the model + independent reference codec as oracle",
    },
    "C01": {
        "level": "proof",
        "lean_modules": ["AnyTLS.Props.C01"],
        "groups": [{"group": "pipe", "quick_cases": 400, "thorough_cases": 5000},
                   {"group": "sess", "quick_cases": 300, "thorough_cases": 5000}],
        "rule": "pipe case = real client Session + real server Session joined by a relay; ops: open, write/send chunks (sizes from {0,1,2,7,8,100,1000,8191..8193,65534..65537,70000,131071} and random), "
                "xfer of n bytes in either direction (n from {1,6,7,random,all}: every fragmentation of the wire), reads of sizes {1,random,8192,70000}, noise frames for unknown ids, final drain; "
                "padding scheme drawn from the scheme generator, draws from the case's PRNG; non-trivial = at least one chunk submitted; distinct by SHA-1 of the op lines",
        "level_text": "kernel-checked theorems: for every history of chunk deliveries/reads the bytes read are a prefix of, and at end of stream equal to, the bytes submitted (reads_prefix, reads_complete, read_nonempty); chunks of any size are split losslessly (pieces_lossless); "
                      "for every frame sequence keeping the stream registered and every fragmentation of its encoding the reader receives exactly the payloads addressed to it (stream_delivery, pipe_lossless). Tied to the code by a differential run of two real sessions against two model sessions on identical op sequences and by an end-to-end byte-equality oracle",
        "level_note": "trusted: Lean kernel, extract.py, harness+driver glue; tokio's scheduler is replaced by 'every operation runs to quiescence' (writer interleavings are C11); the unbounded queues' memory use is not modelled",
        "assumptions": COMMON_ASSUMPTIONS + ["tokio mpsc unbounded channel = FIFO queue whose receiver sees None once the sender is dropped and the queue drained"],
        "explanation": "reader/session/codec models + theorems; pipe and sess correspondence groups",
    },
    "C02": {
        "level": "proof",
        "lean_modules": ["AnyTLS.Props.C02"],
        "groups": [{"group": "pipe", "quick_cases": 300, "thorough_cases": 5000},
                   {"group": "sess", "quick_cases": 600, "thorough_cases": 20000}],
        "rule": "sess case = one real Session (client or server role) on a scripted transport, 4-24 ops from {open, write, ctl, feed of any of the 11 commands x ids {0,1,2,3,5,65536,2^32-1} x payloads, read, readx, send, state, obj, close, eof, rderr, write-budget faults}; "
                "pipe case as for C01 with noise frames for ids never opened / finished; non-trivial = more than 3 ops; distinct by SHA-1 of the op lines",
        "level_text": "kernel-checked theorems: a frame addressed to one stream id leaves the complete state of every other id untouched (no_crosstalk, no_crosstalk_history, for all states satisfying the proved-invariant WF and all frame sequences), unknown-id frames are inert, PSH appends exactly its payload to exactly its stream, stream ids are never reused (ids_never_reused, any history of opens and frames of every kind). Tied to the code by the sess/pipe differential runs (tables, per-stream bytes, EOF) on random frame sequences",
        "level_note": "trusted: Lean kernel, extract.py, harness+driver glue; stream ids below 2^32 (no allocator wrap); a duplicate SYN for an id that is currently open replaces that id's own entry (same stream, not crosstalk)",
        "assumptions": COMMON_ASSUMPTIONS,
        "explanation": "session model locality theorems + sess/pipe correspondence",
    },
    "C04": {
        "level": "proof",
        "lean_modules": ["AnyTLS.Props.C04"],
        "groups": [{"group": "pad", "quick_cases": 1200, "thorough_cases": 30000},
                   {"group": "sess", "quick_cases": 300, "thorough_cases": 5000}],
        "rule": "pad case = real client Session on a recording writer; scheme from a generator over the whole accepted language (any stop, 0-6 entries per line, sizes {1..600, 1000, 8192, 65528..65543, 70000, 2^31-1, 2^31, 2^32-1, 2^63-1}, reversed ranges, check marks, missing lines, garbage parts, CRLF, duplicate keys, whitespace) "
                "plus rejected schemes; 0-3 frames buffered into the first packet, then up to 12 packets with payload sizes around the drawn sizes (0..65535); draws injected from the case's PRNG; "
                "non-trivial = accepted scheme and at least two packets, or a preamble case; distinct by SHA-1 of the op lines",
        "level_text": "kernel-checked theorems for every accepted scheme, packet index, draw vector and payload: the bytes written are the payload followed only by padding frames that fit their length field (shape_payload_then_waste), the wire of any number of packets parses as the submitted frames plus padding frames with nothing left over (wire_parses, wire_parses_packets), every generated size is inside its range and within 1..65535 (sizes_sane), writes are bounded (writes_bounded). Tied to the code by the pad/sess differential runs with injected draws (exact write lengths and decoded frames) and by an independent reference frame parser over the recorded bytes",
        "level_note": "trusted: Lean kernel, extract.py, harness+driver glue; scheme text is ASCII in the model (non-UTF-8 input goes through from_utf8_lossy in the code; covered by the harness only); the real RNG is replaced by injected draws through the verif::draw hook",
        "assumptions": COMMON_ASSUMPTIONS,
        "explanation": "padding model theorems + pad/sess correspondence + reference-parser oracle",
    },
    "C05": {
        "level": "proof",
        "lean_modules": ["AnyTLS.Props.C05"],
        "groups": [{"group": "pad", "quick_cases": 1500, "thorough_cases": 40000}],
        "rule": "as C04 (pad group) plus preamble cases (real send_authentication on a recording writer); the oracle is a Rust transcription of the statement's acceptor run over the recorded write lengths of every packet, with the scheme parsed by an independent parser; "
                "non-trivial = accepted scheme and at least two packets, or a preamble case; distinct by SHA-1 of the op lines",
        "level_text": "kernel-checked theorems: the write lengths of every packet below stop are accepted by the statement's acceptor `Allowed` for that line (shape_allowed, all schemes/payloads/draws), from stop onward / without a line / on the server exactly one unpadded write, the preamble carries exactly the first size of line 0 (preamble_exact), the j-th session packet is shaped by line j (packet_index + Gen obligations gen_first_packet_index, gen_client_pads, gen_server_never_pads regenerated from the source). Tied to the code by the pad differential run and the acceptor oracle on the implementation's own writes. The concurrent-writers clause rests on C11 (wire order = acceptance order under the send-buffer lock)",
        "level_note": "trusted: Lean kernel, extract.py, harness+driver glue; a gap of at most 7 bytes between payload and drawn size cannot be filled by a padding frame (forced by the frame format; explicit in `Allowed.completed_nopad`)",
        "assumptions": COMMON_ASSUMPTIONS,
        "explanation": "Allowed acceptor theorems + pad correspondence + acceptor oracle",
    },
    "C06": {
        "level": "proof",
        "lean_modules": ["AnyTLS.Props.C06"],
        "groups": [{"group": "auth", "quick_cases": 1000, "thorough_cases": 30000},
                   {"group": "e2e", "only": "badpreamble", "quick_cases": 0, "thorough_cases": 40}],
        "rule": "fixed: all 256 single-bit deviations and all 32x255 single-byte substitutions of the hash, every truncation of a valid preamble (with and without EOF), declared padding lengths {0,1,2,255,256,257,65534,65535} complete and one byte short, hashes of 7 related passwords; "
                "generated: right/wrong/near-miss hashes x declared lengths x following frames or garbage x truncation x up to 5 cuts of the byte stream; non-trivial = every case; distinct by SHA-1 of the op line",
        "level_text": "kernel-checked theorems over all byte strings: accept iff the first 32 bytes equal the expected hash and the declared padding has arrived (auth_accept_iff), reject iff 32 bytes are in and differ (auth_reject_iff: all 2^256-1 other strings), verdicts are stable under extension hence independent of fragmentation (auth_prefix_stable), the frame decoder starts exactly after the declared padding for every length 0..65535 (skip_exact), and no frame is ever acted on without an accepted preamble (no_session_without_accept). Tied to the code by a differential run of the real authenticate_client on a scripted reader and of the authenticate-then-Session sequence on the same reader",
        "level_note": "trusted: Lean kernel, harness+driver glue; SHA-256 is opaque (a 32-byte string); TLS and Server::listen's accept loop are exercised by the e2e group (real loopback), not modelled",
        "assumptions": COMMON_ASSUMPTIONS + ["tokio read_exact = loop of reads until the buffer is full or EOF"],
        "explanation": "auth model theorems + auth correspondence",
    },
    "C07": {
        "level": "proof",
        "lean_modules": ["AnyTLS.Props.C07"],
        "groups": [{"group": "dest", "quick_cases": 3000, "thorough_cases": 60000},
                   {"group": "e2e", "only": "echo", "quick_cases": 4, "thorough_cases": 80}],
        "rule": "one case = one destination op or one resolver history: (a) real read_socks_addr / read_initial_request on a real StreamReader fed with the header cut into up to 5 chunks (incl. empty chunks), all address types, domain lengths {1,2,3,9,63,64,254,255}, ports {0,1,80,255,256,443,65534,65535,random}, IPv4-mapped IPv6, truncations, corrupted type/length bytes, non-UTF-8 names, channel open or closed; "
                "(b) real Client::create_proxy_stream on a pool pre-seeded with an in-memory session, destination bytes captured from the wire, domains of 1..400 bytes; (c) resolver histories of 3-14 seed/expire/resolve/literal/localhost ops over 3 seeded hosts and 8 ports; every cut position of a short header as fixed cases; non-trivial = every case; distinct by SHA-1 of the op lines",
        "level_text": "kernel-checked theorems: for every well-formed destination, every tail and *every* reader state whose deliverable bytes are the encoding followed by the tail (i.e. every fragmentation across frames and reads) the server-side reader returns exactly that destination and leaves exactly the tail (dest_roundtrip, udp_request_roundtrip, via the fragmentation-independence of read_exact), names over 255 bytes are refused (encode_rejects_long), and for every cache state, history and resolver answer the address returned for (H,P) has port P and an IP of H (resolve_port, resolve_ip_of_host). Tied to the code by the dest differential run (real decoders, real client encoder, real resolver with seeded cache) and reference decoders as oracle",
        "level_note": "trusted: Lean kernel, extract.py, harness+driver glue; std's Ipv4Addr/Ipv6Addr Display/FromStr are assumed mutually inverse (exercised on every generated address); the OS resolver's answers and routing are not modelled (a miss's lookup answer is an input of the model); the dial itself is exercised by the e2e group",
        "assumptions": COMMON_ASSUMPTIONS,
        "explanation": "destination/resolver model theorems + dest correspondence",
    },
    "C15": {
        "level": "proof",
        "lean_modules": ["AnyTLS.Props.C15"],
        "groups": [{"group": "dest", "quick_cases": 3000, "thorough_cases": 60000},
                   {"group": "e2e", "only": "udp", "quick_cases": 3, "thorough_cases": 60}],
        "rule": "as C07's dest group; the C15 ops are dgenc (both encoders, sizes {0,1,2,255,256,1472,65506,65507,65535,65536,70000}) and dgdec (both readers on a real StreamReader fed with 1-5 datagrams of sizes {1..40,255,256,1472,65507,65535}, zero-length terminators, truncations, cut into up to 5 chunks incl. inside the length prefix); non-trivial = every case; distinct by SHA-1 of the op lines",
        "level_text": "kernel-checked theorems: every sequence of non-empty datagrams of up to 65535 bytes is read back as exactly the same datagrams, one result each, in order, for every reader state denoting the encoded stream, i.e. every fragmentation (dgram_roundtrip, dgram_roundtrip_one), nothing is produced from an empty stream (readDgram_empty), the encoders refuse oversize and emit an exact prefix (encode_dgram_exact), a zero prefix is the end marker (zero_prefix_is_end), a datagram of <= 65507 bytes rides in one data frame (dgram_single_frame), the initial request round-trips (initial_request_roundtrip); Gen obligation gen_udp_max. Delivery of the byte stream itself is C01. Tied to the code by the dest differential run on the real encoders/readers with a reference splitter as oracle",
        "level_note": "trusted: Lean kernel, extract.py, harness+driver glue; kernel UDP behaviour (drops, the relay's IPv4-only bind, replies accepted from any source address) is not modelled; socket delivery is exercised by the e2e group",
        "assumptions": COMMON_ASSUMPTIONS,
        "explanation": "UDP framing theorems + dest correspondence",
    },
    "C19": {
        "level": "proof",
        "lean_modules": ["AnyTLS.Props.C19"],
        "groups": [{"group": "push", "quick_cases": 300, "thorough_cases": 5000},
                   {"group": "sess", "quick_cases": 300, "thorough_cases": 5000},
                   {"group": "e2e", "only": "pushe2e", "quick_cases": 0, "thorough_cases": 3}],
        "rule": "push case = one client process: 4-22 ops over up to ~4 sessions: new session (given the scheme the real Client would give it), pushes of parseable schemes (scheme generator), unparseable schemes, empty payloads, unrelated frames, packets of 7..507 bytes with injected draws, state queries; ends with a state query of every session and one more new session; "
                "fixed regression case: default used, two pushes in a row, new session; the server-side rule (push iff the announced md5 differs) is exercised by the sess group (server role, Settings frames with matching / differing md5); non-trivial = at least one push; distinct by SHA-1 of the op lines",
        "level_text": "kernel-checked theorems: a parseable push makes the session adopt exactly the pushed scheme and disturbs nothing else (push_adopts), every later packet of that session is accepted by the statement's acceptor for the *pushed* scheme (push_switches_session, C05 instantiated), an unparseable / empty push changes nothing (bad_push_ignored), the process-wide default becomes the pushed scheme (push_sets_default), sessions opened afterwards use and announce it (new_session_uses_default) so the server does not push again (server_pushes_iff_differs), and all of this for the n-th push after any history (nth_push_takes_effect). Tied to the code by the push differential run (real sessions, real process-wide default, the scheme a real Client hands to new sessions) with independent oracles (reference scheme parser + acceptor, adopted md5s)",
        "level_note": "trusted: Lean kernel, extract.py, harness+driver glue; MD5 is an opaque function in the theorems (an executable MD5 is used by the driver only); session creation through a real dial (Client::create_new_session) is exercised by the e2e group, the in-process run uses the hook Client::verif_padding which calls the same PaddingFactory::effective",
        "assumptions": COMMON_ASSUMPTIONS,
        "explanation": "push/adoption theorems + push correspondence",
    },
    "C08": {
        "level": "proof",
        "lean_modules": ["AnyTLS.Props.C08"],
        "groups": [{"group": "sess", "quick_cases": 600, "thorough_cases": 20000},
                   {"group": "pipe", "quick_cases": 200, "thorough_cases": 3000},
                   {"group": "e2e", "only": "halfclose,targetclose", "quick_cases": 0, "thorough_cases": 60}],
        "rule": "sess/pipe cases as for C02/C01 (FIN frames for known, unknown and finished ids interleaved with data, reads at every stage); e2e scenarios on real loopback: application half-close / stream drop through SOCKS5 and through Client::create_proxy_stream with 0..200000 bytes in flight, target close after 0..200000 bytes; non-trivial = more than 3 ops / every e2e scenario; distinct by SHA-1 of the op lines",
        "level_text": "kernel-checked theorems for the receive half: a received FIN keeps everything queued before it and the reader then obtains exactly those bytes followed by end of stream, never earlier (fin_after_data, closed_reader_read), removes exactly its own stream from both tables (fin_releases) and leaves the send direction untouched (fin_leaves_send_direction). The send half (a forwarder that sees local EOF emits FIN after its data; finished streams leave the tables) is FALSE of the code: the full statement is kept as local_close_propagates with the kernel-checked refutation local_close_propagates_refuted, replayed end to end on the real code and listed as known findings per call site (KNOWN_FINDINGS.txt); the check exits 0 with KNOWN-FINDING lines and reports any other violation",
        "level_note": "trusted: Lean kernel, extract.py, harness+driver glue; the e2e observations 'no end of stream within 500 ms' are negative observations on real loopback sockets (they can only confirm the known finding, never raise a new alarm); repairing the send half is a feature completion (ordered close marker through the per-session data queue + table cleanup on both sides), not a small patch",
        "assumptions": COMMON_ASSUMPTIONS,
        "explanation": "FIN receive-half theorems + sess/pipe correspondence + e2e known findings",
    },
    "C09": {
        "level": "proof",
        "lean_modules": ["AnyTLS.Props.C09"],
        "groups": [{"group": "sched", "quick_cases": 800, "thorough_cases": 20000,
                    "ignore_sigs": ["frame_torn/wire", "settings_not_first/wire", "task_frames_lost_or_reordered/wire", "task_frames_reordered/wire", "data_before_syn/wire"]},
                   {"group": "sess", "quick_cases": 600, "thorough_cases": 20000}],
        "rule": "sched case: as for C11 - 2-4 tasks on one real session under the controlled scheduler - with a termination cause in half of the cases: EOF, read error or Alert fed to the receive loop, the transport refusing writes from the k-th write on (k = 0..3, i.e. failing at any piece of a padded multi-piece write, while other tasks hold or queue for either lock), close() as an operation of a task; injected at a random position of the schedule (fixed: at each of the first 4 / 7 scheduling decisions of 8 canonical scenarios, every pick sequence); "
                "sess case: sequential histories on one session with close / eof / rderr / budget ops at every frame boundary and inside frames (byte-level feeds), followed by writes, opens and reads; non-trivial as in the groups; distinct by SHA-1 of the op lines",
        "level_text": "kernel-checked theorems over the interleaving model M13, for ANY number of tasks, every interleaving at the granularity of single accesses to shared state, every combination of causes (close() calls, the receive loop calling close() at any moment, transport writes failing at any piece of any write): the lock state is always consistent with the tasks' states - holders, FIFO queues, no duplicates (LockInv, preserved by every action) - and from it: as long as any task is unfinished some task can take a step, i.e. no task ever waits for a lock whose holder waits for it or for itself (no_deadlock: the D8 self-deadlock is impossible); the closed flag is final (closed_forever); a closed session whose close() has finished has shut its transport down (closed_then_shut); the drain step closes every stream in the table and resolves its pending open (drain_releases; readers then reach end of stream by C01); an open_stream on a closed session fails at once, a write_frame that obtains the buffer lock on a closed session returns the error and writes nothing (later_open_fails, later_write_fails); a failed transport write closes the session (failed_write_closes, failure_closes); every schedule is finite (every_schedule_is_bounded: a cost that every action of every task strictly decreases) and a run that cannot continue has finished every task (stuck_means_finished). Tied to the code by the sched differential run (task status after every scheduling decision, incl. 'blocked') and the sess run",
        "level_note": "'never blocks forever' is two theorems: no_deadlock (every reachable state with an unfinished task has an enabled action) and every_schedule_is_bounded (under every interleaving, without any fairness assumption, at most totalCost further actions can be taken), hence stuck_means_finished. Outside the model: a transport whose write neither completes nor fails (stalled peer) holds the writer lock indefinitely and close() waits behind it for its 1 s shutdown timeout (the model's transport answers every write; explored by the e2e stall scenarios of C08); the receive loop's own writes (SYNACK, HeartResponse) are further tasks of the same kind. Trusted: Lean kernel, harness+driver glue, placement of the scheduling points, tokio Mutex = FIFO hand-off",
        "assumptions": COMMON_ASSUMPTIONS,
        "explanation": "interleaving model theorems (lock invariant, deadlock freedom, close post-conditions) + sched/sess correspondence",
    },
    "C10": {
        "level": "proof",
        "lean_modules": ["AnyTLS.Props.C10"],
        "groups": [{"group": "open", "quick_cases": 600, "thorough_cases": 20000},
                   {"group": "e2e", "only": "refused,early,echo", "quick_cases": 0, "thorough_cases": 60}],
        "rule": "open case = real Client::create_proxy_stream on a pool pre-seeded with a session on an in-memory transport, virtual time on a 10 ms grid; 1-6 racing requests; the harness plays the server: SYNACK ok / with failure text / duplicated and contradicting / for unknown and not-yet-used ids, before, at 29.98..30.01 s and after the deadline, FIN before the answer, Alert, transport EOF and owner close during the wait, data frames; every request is polled at the end; "
                "e2e: refused target, bytes pipelined behind the CONNECT request, echo; non-trivial = every case; distinct by SHA-1 of the op lines",
        "level_text": "kernel-checked theorems over the timed model: an outcome once set is never changed by any later event of any kind (first_outcome_wins, all event histories), every request has an outcome once its 30 s have passed (outcome_total), a timeout outcome arises only at its deadline with the slot unresolved (timeout_only_after_deadline), success is reported exactly when the slot holds the server's positive acknowledgement (verdict_ok_iff), a failure text or the session dying never yields success (synack_error_never_ok, close_never_ok, notify_first_wins), slots of different ids are independent (slots_independent), the server acknowledges positively and starts forwarding only after the dial succeeded (ok_only_after_connect); Gen obligation gen_timeout. Tied to the code by the open differential run (exact outcome and instant of every request) and an independent first-resolving-event oracle",
        "level_note": "trusted: Lean kernel, extract.py, harness+driver glue; tokio oneshot = first send wins, timeout fires at its deadline (virtual clock); the front-ends' reply gating is C16/C17; the real dial is exercised by the e2e group",
        "assumptions": COMMON_ASSUMPTIONS,
        "explanation": "open-wait model theorems + open correspondence + e2e",
    },
    "C11": {
        "level": "proof",
        "lean_modules": ["AnyTLS.Props.C11"],
        "groups": [{"group": "sched", "quick_cases": 800, "thorough_cases": 20000,
                    "ignore_sigs": ["task_never_finishes/session_concurrent", "not_closed_after_cause/session_concurrent", "transport_not_shut_down/session_concurrent", "attempt_after_close_succeeds/session_concurrent", "stream_not_released/session_concurrent"]}],
        "rule": "sched case = one real session (client 5/6, server 1/6; 4 padding schemes incl. multi-piece packets and none) and 2-4 tasks with programs over {open, stop buffering, data on the own stream (1..70000 bytes, i.e. up to 2 frames), data on a fixed stream id, control frames, close}; every task parks at the 9 scheduling points of the write / open / close paths and before each operation; a `pick k` line releases the k-th parked task (mod their number), everything then runs to quiescence under the paused clock; 3-40 picks, then `drain` (lowest parked id first); in half of the cases a termination cause (EOF, read error, Alert, transport write budget 0..3) is injected at a random position; "
                "fixed: for 8 canonical scenarios (two / three tasks opening and writing on a fresh client session while the initial buffer is flushed; with close(), EOF, Alert, write failure) every pick sequence in {0,1,2}^4 (quick) / {0,1,2}^7 (thorough); non-trivial = more than 6 lines; distinct by SHA-1 of the op lines",
        "level_text": "kernel-checked theorems over the interleaving model M13 (Model/Conc.lean): ANY number of tasks, each atomic action of the write path a separate step, any task may run between any two steps, tasks may appear at any time, the transport may start refusing writes at any time. For every reachable state: the bytes on the wire are a prefix of the concatenation, in acceptance order, of WHOLE units - the initial buffer, entire encoded frames, entire Waste frames (contiguous, whole_units); the frames of one task are accepted in submission order without gaps (program_order, nothing_skipped); the initial buffer - for a client exactly the Settings frame - precedes everything (settings_first); a stream's SYN is submitted before the data its opener writes, hence precedes it on the wire (syn_before_own_data); with no write in progress and no transport failure everything accepted is on the wire or in the initial buffer (nothing_dropped); the buffer lock is exclusive (one_writer); a failed write closes the session for good (failure_closes). The scheduler of the correspondence check only composes these atomic actions (stepTask_reach). Tied to the code by the sched differential run: status of every task (parked at which point / blocked / done with which results) and the wire after EVERY scheduling decision",
        "level_note": "trusted: Lean kernel, harness+driver glue (sched), the placement of the scheduling points (feature verif) - the theorems allow pre-emption between ANY two atomic actions, the harness can force it only at the hook points (before/after each lock, before each transport write, around the closed check of open_stream); tokio's Mutex is modelled as FIFO with direct hand-off (its documented behaviour); frames written by the receive loop itself (SYNACK, HeartResponse, settings answers) use the same write_frame and are covered by the theorems as further tasks, not by the sched scenarios",
        "assumptions": COMMON_ASSUMPTIONS,
        "explanation": "interleaving model theorems + sched correspondence under a controlled scheduler",
    },
    "C12": {
        "level": "proof",
        "lean_modules": ["AnyTLS.Props.C12"],
        "groups": [{"group": "pool", "quick_cases": 1000, "thorough_cases": 30000},
                   {"group": "e2e", "only": "reaper", "quick_cases": 0, "thorough_cases": 5}],
        "rule": "pool case = the real SessionPool (with its periodic reaper task) and real client sessions under virtual time on a 10 ms grid: 4-30 ops from {mk, add i, get, die i, cleanup, adv {10..1000} ms, open i, state} with check interval in {50,100,200,500} ms, idle timeout in {50..1000} ms, min_idle in {0,1,2,5}; e2e reaper on real loopback; non-trivial = more than 4 ops; distinct by SHA-1 of the op lines",
        "level_text": "kernel-checked theorems about the transcriptions of the two loops, for all idle lists, closed flags, clock values and settings: the pool never returns a closed session and drops every closed entry it skipped (get_not_closed), after a reaper pass no idle entry is closed (cleanup_purges), the reaper closes only expired entries (reaper_closes_only_expired), never leaves fewer than min(min_idle, available) (cleanup_min), and leaves exactly min(min_idle, n) when all are expired (cleanup_surplus). The clause 'closes only sessions with no open stream' is FALSE of the code: kept as reaper_spares_busy with the kernel-checked refutation reaper_spares_busy_refuted, replayed on the real pool and end to end, listed as a known finding. Tied to the code by the pool differential run (which session get returns, idle count, closed set after every op, exact reaper timing)",
        "level_note": "trusted: Lean kernel, extract.py, harness+driver glue; tokio interval: first tick immediate, then every period (virtual clock); concurrent requests on an empty pool dial concurrently (each creates its own session; not a correctness issue of the pool maps, which are behind one RwLock)",
        "assumptions": COMMON_ASSUMPTIONS,
        "explanation": "pool loop theorems + pool correspondence + known finding",
    },
    "C13": {
        "level": "proof",
        "lean_modules": ["AnyTLS.Props.C13"],
        "groups": [{"group": "e2e", "only": "reuse", "quick_cases": 3, "thorough_cases": 40},
                   {"group": "pool", "quick_cases": 600, "thorough_cases": 10000, "ignore_sigs": ["reaper_closed_busy_session/", "fewer_than_min_idle/"]}],
        "rule": "e2e reuse n = n sequential non-overlapping Client::create_proxy_stream calls (n in 2..12, fixed n = 6) against a real server on loopback behind a counting TCP relay; observed: identity of the session serving each request (renumbered) and number of TLS connections; the Lean pool model predicts both (sequentialRun) and the prediction is compared line by line; pool cases as for C12 (which idle session a request is given: get_idle_session's choice among open and closed entries); non-trivial = every case; distinct by SHA-1 of the op lines",
        "level_text": "the property is FALSE of the code and recorded as a known finding: both full statements are kept (sequential_reuse, bounded_sessions) with kernel-checked refutations (sequential_reuse_refuted: three sequential requests dial twice; bounded_sessions_refuted: six requests leave three sessions open) and the model predicts the real client's behaviour exactly (sessions [0,0,1,1,2,2,...], ceil(n/2) dials; sequential_dials_instances). What does hold is proved: the second of two non-overlapping requests reuses the first one's session for every pool setting (second_request_reuses_partial) and a request dials only when no open idle session exists (dial_only_when_no_idle). Any deviation from the predicted behaviour, in either direction, breaks the correspondence and is reported",
        "level_note": "trusted: Lean kernel, extract.py, harness+driver glue; real loopback TLS sessions; the repair (return the session to the pool when its stream ends) depends on stream completion being tracked (C08's finding)",
        "assumptions": COMMON_ASSUMPTIONS,
        "explanation": "pool/request model with refutations + e2e correspondence + known finding",
    },
    "C14": {
        "level": "proof",
        "lean_modules": ["AnyTLS.Props.C14"],
        "groups": [{"group": "hb", "quick_cases": 300, "thorough_cases": 5000}],
        "rule": "hb case = a real client session with the liveness monitor against a scripted peer under virtual time; fixed: the full grid I in {1,2,3,5,10} s x T in {1,2,3,5,10,20} s (all 30 pairs incl. T<I and T=I) x steady delays {3 ms, T/4, T/2, T-7 ms} x silence {never, from request 0, 1, 5} plus the two regression witnesses; generated: I in {10 ms..5 s}, T in {10 ms..10 s}, 1-8 per-message delays below (and for a few beyond) the timeout, silence from request 0..8 or never; observed: the instant the session closes; "
                "non-trivial = every case; distinct by SHA-1 of the op line",
        "level_text": "kernel-checked theorems over the timed model, for every I > 0, T > 0 and every delay sequence: a session whose peer answers every request within less than T is never closed (healthy_never_closed, by the invariant 'a pending mark is the send time of a request whose answer has not arrived'), a session whose peer's last answer arrived at instant a and never answers again is closed within T + I of a (silent_detected, silent_detected_pending, pending_leads_to_close), idle instants are no-ops (idle_instant_noop, idle_none, idle_run: justify the driver's event skipping); Gen obligation gen_mapping (heartbeat interval/timeout := pool check interval / idle timeout; the command line accepts every positive value). Tied to the code by the hb differential run (exact closing instant of the real session) and a bound oracle; the waiters' release on close is C09",
        "level_note": "trusted: Lean kernel, extract.py, harness+driver glue; tokio interval (first tick immediate, Delay on missed ticks) and sleep_until under the virtual clock; a heartbeat write stuck behind a stalled transport is not modelled (see C09's stall remark); the model's instant processes tick, arrivals, deadline in that order — the harness avoids ties (I, T multiples of 10 ms, delays = 3 mod 10)",
        "assumptions": COMMON_ASSUMPTIONS,
        "explanation": "heartbeat timed model theorems + hb correspondence",
    },
    "C16": {
        "level": "proof",
        "lean_modules": ["AnyTLS.Props.C16"],
        "groups": [{"group": "socks", "quick_cases": 1500, "thorough_cases": 20000},
                   {"group": "e2e", "only": "early,refused", "quick_cases": 0, "thorough_cases": 30}],
        "rule": "socks cases over real loopback TCP pairs: fixed = every method list of length <= 3 over {0,1,2,0x80,0xFF}, all 256 command codes, all 256 address-type bytes, versions {0,4,6,255}, and the whole front-end (real server + target) for commands {1,2,3,0,9} x target up/down, early bytes, multi-method and refused greetings; "
                "generated = greetings (versions, 0..255 methods, truncations, trailing bytes), requests (commands, reserved byte, all address types, domain lengths {0,1,2,9,63,255}, non-UTF-8 names, truncations, trailing bytes) and, in the thorough tier, more whole-front-end runs; non-trivial = every case; distinct by SHA-1 of the op line",
        "level_text": "kernel-checked theorems over all byte strings: 'no authentication' is selected exactly when a complete version-5 greeting offers it and refused with 05 FF exactly when it does not (method_selection, refusal_iff), a verdict is stable under extension of the input, i.e. independent of TCP segmentation (greeting_prefix_stable), the wire image of every request (every command byte, address type, domain length 1..255, port) parses back to exactly that request (request_roundtrip), a tunnel is established only for CONNECT (connect_only), 'succeeded' is written exactly when the tunnel open succeeded and nothing request-related is replied before (reply_follows_open), a connection's behaviour depends on its own bytes only (connection_local). Tied to the code by the socks differential run of the real parsers and of the whole front-end",
        "level_note": "trusted: Lean kernel, harness+driver glue; the parsers take a concrete TcpStream, so they are driven over real loopback sockets (end of input = half-close); read_exact makes the result independent of segmentation; the tunnel open itself is C10/C07",
        "assumptions": COMMON_ASSUMPTIONS,
        "explanation": "SOCKS5 model theorems + socks correspondence + e2e",
    },
    "C20": {
        "level": "proof",
        "lean_modules": ["AnyTLS.Props.C20"],
        "groups": [{"group": "hx", "quick_cases": 2000, "thorough_cases": 100000},
                   {"group": "frame", "quick_cases": 1500, "thorough_cases": 30000},
                   {"group": "socks", "quick_cases": 800, "thorough_cases": 10000},
                   {"group": "dest", "quick_cases": 1500, "thorough_cases": 30000},
                   {"group": "http", "quick_cases": 2500, "thorough_cases": 40000, "ignore_sigs": ["second_request_to_first_origin/http_keepalive"]}],
        "rule": "hx case = an established victim session (either role) and an independent sibling session of the same process; 2-14 hostile feeds: random bytes, every command (incl. unknown bytes) x ids {0,1,2,3,2^31-1,2^32-1} x lengths {0,1,7,100,65535}, hostile Settings/ServerSettings payloads (version strings, junk, 2000-byte lines), hostile scheme payloads (overflow sizes, stop=2^32-1, junk), valid traffic mutated by bit flips, truncation, duplication, length-field / command / id corruption, fragmented; then keep-alive probes to victim and sibling; fixed: all command x id x length combinations on both roles, the pushed overflow scheme; "
                "frame/socks/dest/http: their malformed streams (http: header blocks with byte flips, delimiter insertions, odd ports and authorities, multi-byte characters at every small offset of a line); every group also reports any panic in a library task; non-trivial = more than 5 ops (hx) / as in the group's own rule; distinct by SHA-1 of the op lines",
        "level_text": "kernel-checked theorems: decoding is total and makes progress on every byte string (receive_loop_total), while the transport accepts writes no frame of any kind except the fatal Alert closes an open session (closes_only_on_alert, all commands/ids/payloads/roles), quiet frames keep the state invariants (quiet_frames_keep_invariant), accepted scheme payloads only yield in-range sizes (scheme_payloads_sane), parser verdicts are stable under extension (parsers_prefix_stable), a frame received by one session leaves every other session untouched (sibling_untouched). That the Rust code does not panic or hang is established by the correspondence run on hostile inputs — bounded, and labelled as such: the model never emits 'panicked' or 'blocked', so any panic, abort or hang is a disagreement with a replay (virtual watchdog per op, real-time watchdog per case, process-death detection)",
        "level_note": "trusted: Lean kernel, extract.py, harness+driver glue; the no-panic/no-hang claim is bounded by the cases run (2000 quick / 100000 thorough hostile histories); text-parsed payloads are ASCII in model-compared cases (non-ASCII text goes through from_utf8_lossy; covered by the oracle-only streams of the pad/push groups); hostile bytes on the HTTP listener: the http group's parse stream",
        "assumptions": COMMON_ASSUMPTIONS,
        "explanation": "totality/invariant theorems + hostile-input correspondence",
    },
    "C17": {
        "level": "proof",
        "lean_modules": ["AnyTLS.Props.C17"],
        "groups": [{"group": "http", "quick_cases": 4000, "thorough_cases": 60000}],
        "rule": "http cases: wf = a structured well-formed request (method x target form {CONNECT, absolute http/https, origin + Host} x host spelling {names, IPv4, bracketed IPv6 incl. '[fe80::1:443]'} x port {absent, 80, 443, 1, 8080, 65535, random} x Host header name in 5 letter cases with optional whitespace x 0..6 other header lines incl. look-alikes 'Hostile:', 'X-Host:', non-ASCII values, folded lines x version x body) with the expected target and expected forwarded bytes computed by construction; parse = malformed blocks (byte flips, deletions, insertions of delimiters, truncations, token soups, odd ports/authorities, odd request lines, random bytes); read = read_http_header over real loopback TCP with header blocks of every size around the 64 KiB limit, with and without a body in the same read, without terminator; conn = the whole front-end against a real server and IPv4/IPv6 origins (CONNECT / absolute / origin form, target up / down, early and later bytes); keepalive = two requests for two origins on one connection; "
                "fixed: every host spelling x port class (6 requests each), the D15 regression witnesses, sizes limit-1024..limit+4 (every size limit-1030..limit+8 in the thorough tier) x 4 body sizes, 14 front-end scenarios; non-trivial = every case; distinct by SHA-1 of the op line",
        "level_text": "kernel-checked theorems, unbounded in request size, header count and chunking: the header block ends at the first terminator (header_end_first); acceptance of a block, the block itself and the bytes after it are independent of how the stream is split into reads, the limit counts header bytes only (header_read_chunk_independent); for EVERY well-formed request (specification Model/HttpSpec.lean: any method token, CONNECT authority / absolute http(s) URI with path, query or nothing / origin form with a Host line in any letter case; names, IPv4, bracketed IPv6; any port) the parser derives exactly the named host and port with the 80/443 defaults (tunnel_to_named_authority) and the rewritten request is the same method, origin-form target, version and header lines in order with only the Host line normalised (origin_receives_request); for every accepted request, well-formed or not, the tunnel is opened first, then 200 or the rewritten request, then exactly the bytes after the header block, each once and in order (rest_forwarded_once); no 200 and nothing sent when the tunnel fails (no_200_without_tunnel); all of it end to end from the UTF-8 bytes on the socket (connection_wellformed, using a proved UTF-8 encode/decode round-trip). 'Every request on a connection reaches its own authority' is FALSE of the code for a second request on a kept-alive connection: full statement each_request_to_its_authority kept, refutation kernel-checked, replayed end to end, listed as a known finding. Tied to the code by the http differential run",
        "level_note": "trusted: Lean kernel, extract.py (MAX_HEADER_SIZE), harness+driver glue; scheme names are matched in lower case only ('HTTP://' is treated as origin form by the code and by the model; the specification spells schemes in lower case); 'normalised Host' means host (bracketed if IPv6) plus the port unless it is 80 or 443, as the code defines it; the relay loops after the header are covered by the e2e conn cases and by C08/C06",
        "assumptions": COMMON_ASSUMPTIONS,
        "explanation": "HTTP proxy model theorems + http correspondence + e2e",
    },
    "C18": {
        "level": "proof",
        "lean_modules": ["AnyTLS.Props.C18"],
        "groups": [{"group": "cert", "quick_cases": 150, "thorough_cases": 3000}],
        "rule": "cert case = the real CertReloader over real files in a temp dir; key pairs A, B, C (valid) and E (expired) generated with rcgen; disk states by construction: valid pair, certificate alone replaced, key alone replaced, truncation prefixes of either file (12 sampled cut points quick; every cut of 0..900 bytes from the end thorough), first-n-bytes prefixes, garbage, empty, missing, chain files, expired with the expiry check on/off; ops: disk, reload, reload with the disk changing at each of the 3 sync points inside reload, in-memory TLS handshake (tokio-rustls over duplex) reporting the certificate presented, a held session exchanging data across reloads; "
                "non-trivial = more than 3 ops; distinct by SHA-1 of the op lines",
        "level_text": "kernel-checked theorems over the reload state machine with an abstract validator: a failed reload changes nothing (failed_reload_noop), a reload succeeds exactly when both reads are the same acceptable pair (reload_ok_iff) and then makes exactly that pair active, reported and counted once (ok_reload_swaps), at every moment of every history the active pair is the initial one or one validated as a pair and the reported information describes the active pair (active_always_validated), connections accepted earlier keep their pair whatever happens later (accepted_undisturbed); refutation of the pinned double read (pinned_info_not_active). Tied to the code by the cert differential run, where the real rustls / rustls-pemfile / x509-parser do the validation on disk states whose validity is known by construction, plus independent oracles (certificate presented = reported = last valid reload; counter; held session undisturbed)",
        "level_note": "trusted: Lean kernel, harness+driver glue; certificate validation itself (rustls, rustls-pemfile, x509-parser) is the real code, an abstract parameter of the model; the four RwLock writes that publish a successful reload are not one atomic step (a reader between them can briefly see the new acceptor with the old info); the file watcher (notify) and its debounce are not modelled",
        "assumptions": COMMON_ASSUMPTIONS,
        "explanation": "reload state-machine theorems + cert correspondence",
    },
}

NOT_YET = {}
