"""Per-property configuration of ./check: theorem modules, harness groups, evidence texts."""

COMMON_ASSUMPTIONS = [
    "the compiled Lean driver agrees with the kernel semantics of the model definitions",
    "the correspondence check is differential testing: it validates the model against the code on the cases run, it never stands in for a theorem",
]

PROPS = {
    "C03": {
        "level": "proof",
        "lean_modules": ["AnyTLS.Props.C03"],
        "groups": [{"group": "frame", "quick_cases": 3000, "thorough_cases": 100000}],
        "rule": "case = one op line (enc cmd sid payload | dec bytes | feed chunk..); generated from boundary sets "
                "(all 11 commands, all 256 command bytes, ids {0,1,2^16,2^31,2^32-1,random}, lengths {0,1,6,7,8,255,256,65534,65535,65536,65537,70000,131072}) "
                "plus a malformed stream; non-trivial = enc of any payload, dec of a non-empty string, feed that yields >=1 frame from >=2 chunks; "
                "distinct by SHA-1 of the op lines",
        "assumptions": COMMON_ASSUMPTIONS + ["tokio-util Decoder/Encoder contract and bytes::BytesMut semantics (exercised, not verified)"],
        "level_text": "kernel-checked Lean theorems (unbounded: all commands, ids, payload lengths, byte strings and fragmentations) about the executable codec model; the model is tied to the code by the regenerated Gen.lean (command table, header size) and by a differential run of the real FrameCodec against the compiled model on boundary-biased and malformed inputs, with an independent reference codec as oracle",
        "level_note": "trusted: Lean kernel, tools/extract.py, harness+driver glue; tokio-util/bytes are exercised, not verified; stream ids are < 2^32 (u32)",
        "explanation": "Lean theorems about the frame codec model (AnyTLS/Model/Frame.lean) + differential run of the real FrameCodec against the model + independent reference codec as oracle",
    },
}

NOT_YET = {}
