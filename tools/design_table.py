#!/usr/bin/env python3
"""rewrites the per-property table of DESIGN.md §0.3: groups from tools/propsdef.py, evals and seconds from evidence/<id>.json
(the theorem column is kept as written)"""
import json, os, re, sys
sys.path.insert(0, os.path.dirname(os.path.abspath(__file__)))
import propsdef
ROOT = os.path.dirname(os.path.dirname(os.path.abspath(__file__)))
p = os.path.join(ROOT, "DESIGN.md")
lines = open(p, encoding="utf-8").read().split("\n")
n = 0
for i, l in enumerate(lines):
    m = re.match(r"\| (C\d\d) \| (.*?) \| (.*?) \| (\d+) \| (\d+) \|$", l)
    if not m or m.group(1) not in propsdef.PROPS:
        continue
    pid = m.group(1)
    d = propsdef.PROPS[pid]
    gs = []
    for g in d["groups"]:
        only = f":{g['only']}" if g.get("only") else ""
        gs.append(f"{g['group']}{only}({g.get('quick_cases', '-')}/{g.get('thorough_cases', '-')})")
    evals, secs = m.group(4), m.group(5)
    try:
        ev = json.load(open(os.path.join(ROOT, "evidence", pid + ".json")))
        if ev.get("tier") == "quick":
            evals = str(ev["coverage"].get("evaluations", evals))
            secs = str(int(round(ev.get("wall_s", float(secs)))))
    except OSError:
        pass
    new = f"| {pid} | {m.group(2)} | {' '.join(gs)} | {evals} | {secs} |"
    if new != l:
        lines[i] = new
        n += 1
open(p, "w", encoding="utf-8").write("\n".join(lines))
print(f"updated {n} rows")
