#!/bin/bash
# dev helper: applies every stored seeded change to /repo in turn, runs its property's quick check, undoes it.
# usage: tools/seed_regress.sh [pattern]   (writes .run/seed_regress.txt; /repo must be clean)
cd /verif
pat=${1:-.}
out=.run/seed_regress.txt; mkdir -p .run; : > $out
[ -n "$(git -C /repo status --short)" ] && { echo "/repo is not clean"; exit 2; }
# the evidence files and replays written by runs against seeded changes are not evidence: keep the current ones aside
keep=$(mktemp -d); cp -a evidence "$keep/evidence"; cp -a replays "$keep/replays"
trap 'rm -rf /verif/evidence /verif/replays; cp -a "$keep/evidence" /verif/evidence; cp -a "$keep/replays" /verif/replays; rm -rf "$keep"' EXIT
for d in seeded/*/; do
  s=$(basename $d); echo $s | grep -Eq "$pat" || continue
  id=${s:0:3}
  git -C /repo apply /verif/$d/patch.diff || { echo "$s apply-failed" >> $out; continue; }
  ./check $id > .run/seedrun-$s.txt 2>&1; rc=$?
  git -C /repo checkout -- .
  v=$(grep -E "^VIOLATION" .run/seedrun-$s.txt | head -1 | sed 's/.*replay=//' | xargs -n1 basename 2>/dev/null | head -1)
  nf=$(grep -c "no-failing-input-found" .run/seedrun-$s.txt)
  echo "$s rc=$rc nfi=$nf $v" >> $out
done
echo done >> $out
