#!/bin/bash
# usage: verify_seed.sh <Cxx> : confirms a seeded change in /tmp/wt-<Cxx> (patch /tmp/seed-<Cxx>/patch.diff, demo tests/seed_demo.rs)
# writes /tmp/seed-<Cxx>/verify.txt
id=$1
wt=/tmp/wt-$id
out=/tmp/seed-$id/verify.txt
export CARGO_NET_OFFLINE=true
cd $wt || exit 1
demo=$(ls tests/seed_demo*.rs 2>/dev/null | head -1)
{
echo "== worktree status"; git status --short | head
# make sure the patch is applied
git checkout -q -- src Cargo.toml 2>/dev/null
git apply /tmp/seed-$id/patch.diff && echo "patch applied"
echo "== existing suite with patch (demo excluded)"
mkdir -p /tmp/seed-$id/aside && mv tests/seed_demo*.rs /tmp/seed-$id/aside/ 2>/dev/null
cargo test --workspace --no-fail-fast --offline 2>&1 | awk '/^test result/ {p+=$4; f+=$6} END {print "existing: passed=" p " failed=" f}'
mv /tmp/seed-$id/aside/* tests/ 2>/dev/null
echo "== demo with patch"
for t in tests/seed_demo*.rs; do n=$(basename $t .rs); cargo test --offline --test $n 2>&1 | grep -E "^test result|^test .* (ok|FAILED)" | head -20; done
echo "== demo without patch"
git checkout -q -- src Cargo.toml
for t in tests/seed_demo*.rs; do n=$(basename $t .rs); cargo test --offline --test $n 2>&1 | grep -E "^test result|^test .* (ok|FAILED)" | head -20; done
git apply /tmp/seed-$id/patch.diff
echo "== done"
} > $out 2>&1
