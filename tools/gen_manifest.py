#!/usr/bin/env python3
"""writes MANIFEST.json from tools/propsdef.py (so that the two never drift)"""
import json, os, subprocess, sys
ROOT = os.path.dirname(os.path.dirname(os.path.abspath(__file__)))
sys.path.insert(0, os.path.join(ROOT, "tools"))
import propsdef

hooks = subprocess.run(["git", "-C", "/repo", "log", "--format=%h %s"], capture_output=True, text=True).stdout.splitlines()
hook_commits = [l.split()[0] for l in hooks if l.split(" ", 1)[1].startswith("verif:")]
checks = []
for pid in sorted(propsdef.PROPS):
    s = propsdef.PROPS[pid]
    if s.get("unclaimed"):
        continue
    checks.append({
        "property_id": pid,
        "quick_cmd": f"./check {pid} --tier quick",
        "thorough_cmd": f"./check {pid} --tier thorough",
        "evidence_file": f"/verif/evidence/{pid}.json",
        "replay_cmd_template": f"./check {pid} --replay {{path}}",
        "engine": "lean4-proof+correspondence",
        "level_claimed": {"category": s["level"], "text": s["level_text"], "design_ref": s.get("design_ref", "DESIGN.md §5 " + pid)},
        "level_note": s["level_note"],
        "technique": s.get("technique", "Lean 4 theorems over an executable model + differential correspondence check against the real code"),
    })
all_ids = [json.loads(l)["id"] for l in open(os.path.join(ROOT, "properties.jsonl"))]
na = [{"property_id": i, "reason": propsdef.NOT_YET.get(i, "check not built yet in this round (see DESIGN.md); not a claim that the technique cannot apply")}
      for i in all_ids if i not in [c["property_id"] for c in checks]]
m = {
    "version": 1,
    "setup_cmd": "./setup.sh",
    "hooks": {
        "guard": "cargo feature `verif` (cfg(feature = \"verif\"))",
        "enable": "the harness crate depends on anytls-rs = { path = \"/repo\", features = [\"verif\"] }",
        "baseline_off_cmd": "cd /repo && cargo test --workspace --no-fail-fast --offline",
        "source_commits": hook_commits,
        "add_only": True,
    },
    "engines": [{"name": "lean4-proof+correspondence", "path": "/verif/check",
                 "serves_properties": [c["property_id"] for c in checks],
                 "kind_free_text": "Lean 4 (4.33, core only) theorems about a hand-written executable model; Gen.lean regenerated from /repo by tools/extract.py on every run; Rust harness runs the real code in-process and the compiled Lean driver runs the model on the same operation lines; outputs diffed; independent oracles on the implementation's observations"}],
    "checks": checks,
    "not_applicable": na,
    "notes": "See DESIGN.md. KNOWN_FINDINGS.txt lists recorded findings and fixed defects. Exit 2 of a check = infrastructure error (never a VIOLATION).",
}
json.dump(m, open(os.path.join(ROOT, "MANIFEST.json"), "w"), indent=1)
print("wrote MANIFEST.json with", len(checks), "checks;", len(na), "unclaimed")
