//! Shared helpers: PRNG, hex, case/outcome containers.
use std::collections::BTreeMap;

#[derive(Clone)]
pub struct Rng(pub u64);
impl Rng {
    pub fn new(seed: u64) -> Self {
        // the state of seed k must not lie on the trajectory of seed k-1: mix the seed first
        let mut z = seed.wrapping_add(0x1234_5678_9ABC_DEF1);
        z = (z ^ (z >> 30)).wrapping_mul(0xBF58476D1CE4E5B9);
        z = (z ^ (z >> 27)).wrapping_mul(0x94D049BB133111EB);
        Rng(z ^ (z >> 31))
    }
    pub fn next(&mut self) -> u64 {
        self.0 = self.0.wrapping_add(0x9E3779B97F4A7C15);
        let mut z = self.0;
        z = (z ^ (z >> 30)).wrapping_mul(0xBF58476D1CE4E5B9);
        z = (z ^ (z >> 27)).wrapping_mul(0x94D049BB133111EB);
        z ^ (z >> 31)
    }
    pub fn below(&mut self, n: u64) -> u64 {
        if n == 0 { 0 } else { self.next() % n }
    }
    pub fn range(&mut self, lo: u64, hi: u64) -> u64 {
        lo + self.below(hi - lo + 1)
    }
    pub fn chance(&mut self, num: u64, den: u64) -> bool {
        self.below(den) < num
    }
    pub fn pick<'a, T>(&mut self, xs: &'a [T]) -> &'a T {
        &xs[self.below(xs.len() as u64) as usize]
    }
    pub fn bytes(&mut self, n: usize) -> Vec<u8> {
        (0..n).map(|_| self.next() as u8).collect()
    }
    pub fn fork(&mut self) -> Rng {
        Rng(self.next())
    }
}

pub fn hex(b: &[u8]) -> String {
    if b.is_empty() {
        return "-".to_string();
    }
    let mut s = String::with_capacity(b.len() * 2);
    for x in b {
        s.push_str(&format!("{:02x}", x));
    }
    s
}

/// compact spelling: `+`-joined segments, each plain hex, `z<n>` (n zero bytes) or
/// `r<n>x<hh>` (n copies of hh); runs of >= 48 equal bytes are run-length encoded
pub fn hex_compact(b: &[u8]) -> String {
    if b.is_empty() {
        return "-".to_string();
    }
    let mut segs: Vec<String> = vec![];
    let mut plain = String::new();
    let mut i = 0;
    while i < b.len() {
        let mut j = i;
        while j < b.len() && b[j] == b[i] {
            j += 1;
        }
        if j - i >= 48 {
            if !plain.is_empty() {
                segs.push(std::mem::take(&mut plain));
            }
            if b[i] == 0 { segs.push(format!("z{}", j - i)); } else { segs.push(format!("r{}x{:02x}", j - i, b[i])); }
        } else {
            for x in &b[i..j] {
                plain.push_str(&format!("{:02x}", x));
            }
        }
        i = j;
    }
    if !plain.is_empty() {
        segs.push(plain);
    }
    segs.join("+")
}

fn unhex_seg(s: &str) -> Option<Vec<u8>> {
    if let Some(n) = s.strip_prefix('z') {
        return n.parse::<usize>().ok().map(|n| vec![0u8; n]);
    }
    if let Some(rest) = s.strip_prefix('r') {
        let (n, hh) = rest.split_once('x')?;
        let n = n.parse::<usize>().ok()?;
        let b = u8::from_str_radix(hh, 16).ok()?;
        return Some(vec![b; n]);
    }
    if s.len() % 2 != 0 {
        return None;
    }
    let cs: Vec<char> = s.chars().collect();
    let mut out = Vec::with_capacity(cs.len() / 2);
    for p in cs.chunks(2) {
        let a = p[0].to_digit(16)?;
        let b = p[1].to_digit(16)?;
        out.push((a * 16 + b) as u8);
    }
    Some(out)
}

pub fn unhex(s: &str) -> Option<Vec<u8>> {
    if s == "-" {
        return Some(vec![]);
    }
    let mut out = vec![];
    for seg in s.split('+') {
        out.extend(unhex_seg(seg)?);
    }
    Some(out)
}

/// One case = a list of operation lines (first token is the group name).
#[derive(Clone, Debug)]
pub struct Case {
    pub lines: Vec<String>,
}

#[derive(Clone, Debug)]
pub struct OracleFail {
    /// `<violated clause>/<mechanism>`
    pub sig: String,
    pub detail: String,
}

#[derive(Default, Clone, Debug)]
pub struct Outcome {
    /// one observation per operation line
    pub obs: Vec<String>,
    pub oracle: Vec<OracleFail>,
    pub tags: Vec<String>,
    pub nontrivial: bool,
}

#[derive(Default)]
pub struct Stats {
    pub cases: u64,
    pub nontrivial: u64,
    pub tags: BTreeMap<String, u64>,
}

pub fn json_str(s: &str) -> String {
    let mut o = String::from("\"");
    for c in s.chars() {
        match c {
            '"' => o.push_str("\\\""),
            '\\' => o.push_str("\\\\"),
            '\n' => o.push_str("\\n"),
            '\r' => o.push_str("\\r"),
            '\t' => o.push_str("\\t"),
            c if (c as u32) < 0x20 => o.push_str(&format!("\\u{:04x}", c as u32)),
            c => o.push(c),
        }
    }
    o.push('"');
    o
}
