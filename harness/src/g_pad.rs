//! group `pad` (C04, C05): a real client Session on a recording writer, schemes over the whole
//! accepted language, draws injected through the hook (and, in `free` cases, the real RNG with
//! a range-based oracle only).  Oracles are independent of the Lean model:
//!  * C04: the recorded bytes parse as complete frames; deleting padding frames leaves exactly
//!    the submitted frames, byte for byte and in order;
//!  * C05: the write lengths of each packet are accepted by a transcription of the statement's
//!    acceptor run over the scheme line (parsed by an independent parser).
use crate::g_frame::{ref_encode, ref_parse};
use crate::g_sess::*;
use crate::node::*;
use crate::schemes::*;
use crate::util::*;
use crate::Group;

pub struct PadGroup;

#[derive(Clone, Debug)]
pub enum Spec { Check, Range(u64, u64) }

/// independent parser of a scheme (written from the documented format, not from the crate)
pub fn parse_scheme_ref(raw: &[u8]) -> Option<(u64, std::collections::HashMap<String, Vec<Spec>>)> {
    let text = String::from_utf8_lossy(raw).to_string();
    let mut map = std::collections::HashMap::new();
    let mut stop: Option<String> = None;
    for line in text.lines() {
        if let Some((k, v)) = line.split_once('=') {
            let (k, v) = (k.trim().to_string(), v.trim().to_string());
            if k == "stop" { stop = Some(v.clone()); }
            let mut specs = vec![];
            for part in v.split(',') {
                let part = part.trim();
                if part == "c" { specs.push(Spec::Check); continue; }
                if let Some((a, b)) = part.split_once('-') {
                    let a = a.trim().parse::<i64>().unwrap_or(0);
                    let b = b.trim().parse::<i64>().unwrap_or(0);
                    if a <= 0 || b <= 0 || a > 65535 || b > 65535 { continue; }
                    specs.push(Spec::Range(a.min(b) as u64, a.max(b) as u64));
                }
            }
            map.insert(k, specs);
        }
    }
    let stop = stop?.parse::<u32>().ok()? as u64;
    Some((stop, map))
}

/// the statement's acceptor: can `writes` be the transport writes of a packet with `remain`
/// payload bytes under the entries `specs`?
pub fn allowed(specs: &[Spec], remain: u64, writes: &[u64]) -> bool {
    match specs.split_first() {
        None => {
            if remain > 0 { writes == [remain] } else { writes.is_empty() }
        }
        Some((Spec::Check, rest)) => {
            if remain == 0 { writes.is_empty() } else { allowed(rest, remain, writes) }
        }
        Some((Spec::Range(lo, hi), rest)) => {
            let Some((w, ws)) = writes.split_first() else { return false; };
            let w = *w;
            if remain == 0 {
                // padding-only record: drawn size plus one frame header
                return w >= 7 && *lo <= w - 7 && w - 7 <= *hi && allowed(rest, 0, ws);
            }
            // payload-only record: a drawn size d = w < remain
            if *lo <= w && w <= *hi && remain > w && allowed(rest, remain - w, ws) { return true; }
            // payload completed with padding: the drawn size d >= remain + 8, write d
            if w >= remain + 8 && *lo <= w && w <= *hi && allowed(rest, 0, ws) { return true; }
            // payload completed, gap too small for a padding frame (<= 7 bytes): write remain
            if w == remain {
                // some d in [lo,hi] with remain <= d <= remain + 7
                let dlo = std::cmp::max(*lo, remain);
                let dhi = std::cmp::min(*hi, remain + 7);
                if dlo <= dhi && allowed(rest, 0, ws) { return true; }
            }
            false
        }
    }
}

impl Group for PadGroup {
    fn default_cases(&self, tier: &str) -> u64 { if tier == "thorough" { 20_000 } else { 1_200 } }

    fn fixed(&self, _tier: &str) -> Vec<Case> {
        let mut v = vec![];
        // regression witnesses of the repaired defects (DESIGN §6: D3, D4)
        for (scheme, lens) in [
            ("stop=4\n0=50-50\n1=100-100\n2=200-200\n3=300-300", vec![10usize, 10, 10, 10, 10]),
            ("stop=3\n1=70000-70000\n2=65535-65535", vec![10, 10, 10]),
            ("stop=3\n1=2147483648-2147483648,4294967295-4294967295\n2=9223372036854775807-9223372036854775807", vec![10, 10, 10]),
            ("stop=2\n1=65535-65535,65535-65535,c,1-65535", vec![65535, 3]),
            (DEFAULT_SCHEME, vec![5, 100, 1000, 9, 3000, 1, 1, 1, 1, 1]),
        ] {
            let sch = scheme.as_bytes();
            let mut lines = vec![reset_line("pad", "client", sch, 7, "")];
            lines.push("pad nobuf".into());
            for (i, l) in lens.iter().enumerate() {
                lines.push(format!("pad ctl Push {} {}", i + 1, hex_compact(&vec![0x5a; *l])));
            }
            v.push(Case { lines });
        }
        v
    }

    fn generate(&self, rng: &mut Rng, _tier: &str, _idx: u64) -> Case {
        if rng.chance(1, 6) {
            let big = rng.chance(1, 3);
            let scheme = if rng.chance(1, 6) { DEFAULT_SCHEME.as_bytes().to_vec() } else { gen_scheme(rng, big) };
            let hash = rng.bytes(32);
            return Case { lines: vec![format!("pad preamble {} {} {}", hex(&scheme), rng.next() % 1_000_000, hex(&hash))] };
        }
        let big = rng.chance(1, 3);
        let scheme = match rng.below(8) { 0 => DEFAULT_SCHEME.as_bytes().to_vec(), 1 => gen_bad_scheme(rng), _ => gen_scheme(rng, big) };
        let seed = rng.next() % 1_000_000;
        let mut lines = vec![reset_line("pad", "client", &scheme, seed, "")];
        // how many frames ride in the first packet (Settings + these), then one frame per packet
        let buffered = rng.below(4);
        for i in 0..buffered {
            let n = if rng.chance(1, 6) { rng.range(1, 3000) as usize } else { rng.below(60) as usize };
            lines.push(format!("pad ctl Push {} {}", i + 1, hex_compact(&{ if n > 100 { vec![0x77; n] } else { rng.bytes(n) } })));
        }
        lines.push("pad nobuf".into());
        let stop_guess = 12;
        let npk = rng.range(1, stop_guess);
        for i in 0..npk {
            // payload sizes around typical drawn sizes
            let n = match rng.below(10) {
                0 => 0,
                1 => rng.range(1, 8) as usize,
                2 => rng.range(20, 40) as usize,
                3 => rng.range(80, 420) as usize,
                4 => rng.range(380, 1100) as usize,
                5 => if big { *rng.pick(&[65520usize, 65528, 65535]) } else { rng.range(1, 50) as usize },
                _ => rng.below(200) as usize,
            };
            let cmd = if rng.chance(1, 5) { "Syn" } else { "Push" };
            let payload = if cmd == "Syn" { vec![] } else if n > 100 { vec![0x66; n] } else { rng.bytes(n) };
            lines.push(format!("pad ctl {} {} {}", cmd, i + 10, hex_compact(&payload)));
        }
        Case { lines }
    }

    fn exec(&self, case: &Case) -> Outcome {
        let rt = runtime();
        let mut out = Outcome::default();
        rt.block_on(async {
            let mut node: Option<Node> = None;
            let mut scheme_ref = None;
            // frames submitted so far and not yet on the wire (buffering)
            let mut pending: Vec<Vec<u8>> = vec![];
            let mut submitted: Vec<Vec<u8>> = vec![];
            let mut buffering = true;
            let mut pkt: u64 = 1;
            let mut seen = 0usize;
            for line in &case.lines {
                let toks: Vec<&str> = line.split_whitespace().collect();
                if toks.first() != Some(&"pad") { out.obs.push("bad-op".into()); continue; }
                let toks = &toks[1..];
                if let ["preamble", sch, seed, hash] = toks {
                    let (Some(scheme), Ok(seed), Some(hash)) = (unhex(sch), seed.parse::<u64>(), unhex(hash)) else { out.obs.push("bad-op".into()); continue; };
                    let Ok(factory) = anytls_rs::padding::PaddingFactory::new(&scheme) else { out.obs.push("reject".into()); continue; };
                    install_draws(seed);
                    let wire = std::sync::Arc::new(std::sync::Mutex::new(WireState::default()));
                    let mut w = RecWriter(wire.clone());
                    let mut h32 = [0u8; 32];
                    h32.copy_from_slice(&hash[..32]);
                    let r = anytls_rs::util::send_authentication(&mut w, &h32, &std::sync::Arc::new(factory)).await;
                    let ws = wire.lock().unwrap().writes.clone();
                    let all = ws.concat();
                    out.obs.push(format!("{} w=[{}] bytes={}", res_str(&r), ws.iter().map(|x| x.len().to_string()).collect::<Vec<_>>().join(","), hex_compact(&all)));
                    // O (C05): hash, big-endian p0, p0 zero bytes; p0 inside the first entry of line 0
                    let ok_shape = all.len() >= 34 && all[..32] == hash[..] && {
                        let p0 = u16::from_be_bytes([all[32], all[33]]) as usize;
                        all.len() == 34 + p0 && all[34..].iter().all(|b| *b == 0) && match parse_scheme_ref(&scheme).and_then(|(_, m)| m.get("0").cloned()).and_then(|v| v.first().cloned()) {
                            Some(Spec::Range(lo, hi)) => lo as usize <= p0 && p0 <= hi as usize,
                            _ => p0 == 0,
                        }
                    };
                    if !ok_shape || r.is_err() {
                        out.oracle.push(OracleFail { sig: "preamble_padding_wrong/send_authentication".into(), detail: format!("preamble of {} bytes does not carry the padding line 0 prescribes", all.len()) });
                    }
                    out.tags.push("preamble".into());
                    out.nontrivial = true;
                    continue;
                }
                if toks.first() == Some(&"reset") {
                    match parse_reset(&toks[1..]) {
                        Some((role, scheme, seed, cb, ss)) => {
                            install_draws(seed);
                            scheme_ref = parse_scheme_ref(&scheme);
                            match Node::new(&role, &scheme, cb, ss, None).await {
                                Ok((n, o)) => {
                                    if scheme_ref.is_none() {
                                        out.oracle.push(OracleFail { sig: "scheme_accept_mismatch/padding_factory_new".into(), detail: "the crate accepted a scheme the reference parser rejects".into() });
                                    }
                                    // the Settings frame is buffered by start_client
                                    let settings = { let (_, l) = n.session.verif_buffer_state().await; l };
                                    pending.push(vec![0u8; settings]); // length only; content compared after decoding
                                    node = Some(n);
                                    out.obs.push(o);
                                }
                                Err(_) => {
                                    if scheme_ref.is_some() {
                                        out.oracle.push(OracleFail { sig: "scheme_accept_mismatch/padding_factory_new".into(), detail: "the crate rejected a scheme the reference parser accepts".into() });
                                    }
                                    out.obs.push("reject".into()); out.tags.push("scheme-rejected".into());
                                }
                            }
                        }
                        None => out.obs.push("bad-op".into()),
                    }
                    continue;
                }
                let Some(n) = node.as_mut() else { out.obs.push("nonode".into()); continue; };
                let o = n.op(toks).await;
                if o.starts_with("blocked") {
                    out.oracle.push(OracleFail { sig: format!("blocked_forever/{}", toks[0]), detail: line.clone() });
                }
                match toks {
                    ["nobuf"] => buffering = false,
                    ["ctl", c, sid, hx] if o.starts_with("ok") => {
                        let cmdb = crate::g_frame::cmd_of_name(c).unwrap() as u8;
                        let f = ref_encode(cmdb, sid.parse().unwrap(), &unhex(hx).unwrap());
                        submitted.push(f.clone());
                        pending.push(f);
                        if !buffering {
                            // one packet went out: payload = everything pending
                            let remain: u64 = pending.iter().map(|x| x.len() as u64).sum();
                            pending.clear();
                            let writes: Vec<u64> = { let w = n.wire.lock().unwrap(); w.writes[seen..].iter().map(|x| x.len() as u64).collect() };
                            seen = n.wire.lock().unwrap().writes.len();
                            if let Some((stop, map)) = &scheme_ref {
                                let ok = if pkt >= *stop { writes == vec![remain] } else {
                                    let specs = map.get(&pkt.to_string()).cloned().unwrap_or_default();
                                    if specs.is_empty() { writes == vec![remain] } else { allowed(&specs, remain, &writes) }
                                };
                                out.tags.push(format!("pkt{}", if pkt >= *stop { ">=stop" } else { "<stop" }));
                                if !ok {
                                    out.oracle.push(OracleFail { sig: format!("packet_shape_not_allowed/{}", if pkt >= *stop { "from_stop_onward" } else { "below_stop" }),
                                        detail: format!("packet {pkt} (stop={stop}) with {remain} payload bytes was written as {:?}; line {:?}", writes, map.get(&pkt.to_string())) });
                                }
                            }
                            pkt += 1;
                        }
                    }
                    ["ctl", ..] => {
                        out.oracle.push(OracleFail { sig: "sender_failed/accepted_scheme".into(), detail: format!("`{line}` returned {}", o.split(" | ").next().unwrap_or("")) });
                    }
                    _ => {}
                }
                out.obs.push(o);
            }
            // C04 oracle over everything written
            if let Some(n) = node.as_mut() {
                let all: Vec<u8> = n.wire.lock().unwrap().writes.concat();
                let (frames, rest) = ref_parse(&all);
                if !rest.is_empty() {
                    out.oracle.push(OracleFail { sig: "wire_not_whole_frames/write_with_padding".into(), detail: format!("{} trailing bytes do not form a frame", rest.len()) });
                }
                // delete padding frames (Waste, stream 0); the rest must be Settings + the submitted frames
                let kept: Vec<&(u8, u32, Vec<u8>)> = frames.iter().filter(|(c, _, _)| *c != 0).collect();
                let bad_waste = frames.iter().any(|(c, s, d)| *c == 0 && (*s != 0 || d.iter().any(|b| *b != 0)));
                if bad_waste {
                    out.oracle.push(OracleFail { sig: "padding_frame_malformed/write_with_padding".into(), detail: "a padding frame has a stream id or non-zero bytes".into() });
                }
                let on_wire = if pending.is_empty() { submitted.len() } else { submitted.len() + 1 - pending.len().min(submitted.len() + 1) };
                let expect: Vec<Vec<u8>> = submitted.iter().take(on_wire).cloned().collect();
                let got: Vec<Vec<u8>> = kept.iter().skip(1).map(|(c, s, d)| ref_encode(*c, *s, d)).collect();
                let settings_first = kept.first().map(|(c, _, _)| *c == 4).unwrap_or(expect.is_empty() && all.is_empty());
                if !all.is_empty() && (!settings_first || got != expect) {
                    out.oracle.push(OracleFail { sig: "payload_altered_by_padding/write_with_padding".into(),
                        detail: format!("after deleting padding frames the wire carries {} frames, {} were submitted (settings first: {settings_first})", got.len(), expect.len()) });
                }
                n.shutdown();
            }
        });
        anytls_rs::verif::set_draw_controller(None);
        out.nontrivial = out.nontrivial || (case.lines.len() > 3 && !out.tags.iter().any(|t| t == "scheme-rejected"));
        out
    }
}
