//! group `http` (C17): the HTTP proxy's request parsing / rewriting functions on structured well-formed
//! requests (with the expectation known by construction) and on malformed / random header blocks;
//! `read_http_header` over real loopback TCP; the whole front-end against a real server and origins.
use crate::e2e::*;
use crate::util::*;
use crate::Group;
use std::time::Duration;
use tokio::io::{AsyncReadExt, AsyncWriteExt};
use tokio::net::{TcpListener, TcpStream};

pub struct HttpGroup;

const MAX_HEADER: usize = 64 * 1024;

async fn pair() -> (TcpStream, TcpStream) {
    let l = TcpListener::bind("127.0.0.1:0").await.unwrap();
    let a = l.local_addr().unwrap();
    let (c, s) = tokio::join!(TcpStream::connect(a), l.accept());
    (c.unwrap(), s.unwrap().0)
}

/// a well-formed proxy request, with what the property says must happen to it
pub struct WReq {
    pub header: Vec<u8>,
    pub host: String,
    pub port: u16,
    pub connect: bool,
    /// the rewritten request the origin must receive (None for CONNECT)
    pub fwd: Option<Vec<u8>>,
}

const NAMES: &[&str] = &["example.com", "a", "EXAMPLE.Com", "xn--bcher-kva.example", "host-1.internal.", "127.0.0.1", "10.1.2.3", "255.255.255.255", "localhost"];
const V6: &[&str] = &["::1", "2001:db8::5", "fe80::1:443", "::ffff:1.2.3.4", "::", "1:2:3:4:5:6:7:8080"];
const METHODS: &[&str] = &["GET", "POST", "PUT", "DELETE", "HEAD", "OPTIONS", "PATCH", "M-SEARCH", "get", "PROPFIND"];
const PATHQ: &[&str] = &["", "/", "/a/b?x=1", "?q=1", "/path:with:colons", "/%20x", "/http://nested/", "/a?b=http://c:81/", "?", "/@x", "/a#frag", "?notify=ops@other.org", "?to=a@b/c", "/p?x=a@b", "?u=http://x@y:81/z", "?@", "/?@h:1"];
const OTHER: &[&str] = &[
    "User-Agent: curl/8.0", "Accept: */*", "Hostile: yes", "X-Host: other.example:99", "Proxy-Connection: keep-alive",
    "Content-Length: 5", "Content-Type: text/plain; charset=utf-8", "X-Colons: a:b:c", "X-Name: caf\u{e9} \u{3000}x", "Connection: close",
    "X-Empty:", " folded continuation", "Cookie: a=1; b=2", "x-host:host: 1", "Transfer-Encoding: chunked", "Ho: st",
];
const HOST_NAMES: &[&str] = &["Host", "host", "HOST", "hOsT", "HoSt"];
const OWS: &[&str] = &["", " ", "  ", "\t", " \t "];

pub fn gen_wreq(rng: &mut Rng, fixed_auth: Option<(&str, bool, Option<u16>)>, big: Option<usize>) -> WReq {
    let (host, v6, port): (String, bool, Option<u16>) = match fixed_auth {
        Some((h, v, p)) => (h.to_string(), v, p),
        None => {
            let v6 = rng.chance(1, 3);
            let host = if v6 { rng.pick(V6).to_string() } else { rng.pick(NAMES).to_string() };
            let port = match rng.below(8) { 0 | 1 | 2 => None, 3 => Some(80), 4 => Some(443), 5 => Some(*rng.pick(&[1u16, 8080, 65535, 8443, 81])), _ => Some(rng.range(1, 65535) as u16) };
            (host, v6, port)
        }
    };
    let auth = |h: &str, p: Option<u16>| -> String {
        let b = if v6 { format!("[{h}]") } else { h.to_string() };
        match p { Some(p) => format!("{b}:{p}"), None => b }
    };
    let version = if rng.chance(1, 5) { "HTTP/1.0" } else { "HTTP/1.1" };
    let form = rng.below(4); // 0 = CONNECT, 1,2 = absolute, 3 = origin
    let mut lines: Vec<String> = vec![];
    let n_pre = rng.below(4) as usize;
    let n_post = rng.below(4) as usize;
    let mut others = |rng: &mut Rng, n: usize, out: &mut Vec<String>| { for _ in 0..n { out.push(rng.pick(OTHER).to_string()); } };
    let mut header = String::new();
    if form == 0 {
        others(rng, n_pre, &mut lines);
        if rng.chance(1, 2) { lines.push(format!("Host: {}", auth(&host, port))); }
        others(rng, n_post, &mut lines);
        header.push_str(&format!("CONNECT {} {}\r\n", auth(&host, port), version));
        for l in &lines { header.push_str(l); header.push_str("\r\n"); }
        header.push_str("\r\n");
        return WReq { header: header.into_bytes(), host, port: port.unwrap_or(443), connect: true, fwd: None };
    }
    let method = if form == 3 && rng.chance(1, 10) { "OPTIONS" } else { *rng.pick(METHODS) };
    let (target, origin_target, dflt, host_line): (String, String, u16, Option<String>);
    if form == 3 {
        let p = if method == "OPTIONS" && rng.chance(1, 2) { "*".to_string() } else { let p = *rng.pick(PATHQ); if p.starts_with('/') { p.to_string() } else { format!("/{p}") } };
        target = p.clone();
        origin_target = p;
        dflt = 80;
        host_line = Some(format!("{}:{}{}{}", rng.pick(HOST_NAMES), rng.pick(OWS), auth(&host, port), rng.pick(OWS)));
    } else {
        let https = rng.chance(1, 3);
        let pq = *rng.pick(PATHQ);
        target = format!("{}://{}{}", if https { "https" } else { "http" }, auth(&host, port), pq);
        origin_target = if pq.is_empty() { "/".into() } else if pq.starts_with('/') { pq.to_string() } else { format!("/{pq}") };
        dflt = if https { 443 } else { 80 };
        // the Host header of an absolute-form request is ignored and replaced: absent, equal, or different
        host_line = match rng.below(4) { 0 => None, 1 => Some(format!("{}: other.example:8081", rng.pick(HOST_NAMES))), _ => Some(format!("{}:{}{}", rng.pick(HOST_NAMES), rng.pick(OWS), auth(&host, port))) };
    }
    others(rng, n_pre, &mut lines);
    let host_idx = lines.len();
    if let Some(h) = &host_line { lines.push(h.clone()); }
    others(rng, n_post, &mut lines);
    if let Some(total) = big {
        // pad the block with one long header so that the whole block is exactly `total` bytes
        let cur: usize = format!("{method} {target} {version}\r\n").len() + lines.iter().map(|l| l.len() + 2).sum::<usize>() + 2;
        let need = total.saturating_sub(cur + "X-Fill: ".len() + 2);
        lines.push(format!("X-Fill: {}", "f".repeat(need)));
    }
    header.push_str(&format!("{method} {target} {version}\r\n"));
    for l in &lines { header.push_str(l); header.push_str("\r\n"); }
    header.push_str("\r\n");
    let eport = port.unwrap_or(dflt);
    let hv = if eport == 80 || eport == 443 { auth(&host, None) } else { auth(&host, Some(eport)) };
    let mut fwd = format!("{method} {origin_target} {version}\r\n");
    for (i, l) in lines.iter().enumerate() {
        if host_line.is_some() && i == host_idx { fwd.push_str(&format!("Host: {hv}\r\n")); } else { fwd.push_str(l); fwd.push_str("\r\n"); }
    }
    if host_line.is_none() { fwd.push_str(&format!("Host: {hv}\r\n")); }
    fwd.push_str("\r\n");
    WReq { header: header.into_bytes(), host, port: eport, connect: false, fwd: Some(fwd.into_bytes()) }
}

fn wf_line(w: &WReq, body: &[u8]) -> String {
    format!("http wf {} {} {} {} {} {}", hex_compact(&w.header), hex(body), hex(w.host.as_bytes()), w.port, w.connect as u8, w.fwd.as_ref().map(|f| hex_compact(f)).unwrap_or("none".into()))
}

/// malformed / random header blocks: mutations of well-formed ones and token soups
fn gen_malformed(rng: &mut Rng) -> Vec<u8> {
    let mut h = gen_wreq(rng, None, None).header;
    match rng.below(10) {
        0 => { let k = rng.below(h.len() as u64) as usize; h[k] = rng.next() as u8; }
        1 => { let k = rng.below(h.len() as u64) as usize; h.remove(k); }
        2 => { let k = rng.below(h.len() as u64 + 1) as usize; h.insert(k, *rng.pick(&[b' ', b':', b'[', b']', b'/', b'\r', b'\n', b'+', b'?', 0xC2, 0xA0, b'\t', b'@'])); }
        3 => { let k = rng.below(h.len() as u64 + 1) as usize; h.truncate(k); }
        4 => {
            let toks: &[&str] = &["GET", "CONNECT", "connect", " ", "  ", "\r\n", "http://", "https://", "HTTP://", "[", "]", ":", "::1", "65535", "65536", "+80", "080", "-1", "host:", "Host:", "HOST :", "/", "*", "?", "a.b", "\u{a0}", "\u{2003}", "\t", "\n", "\r", "HTTP/1.1", "@", "#"];
            let n = rng.range(1, 14);
            h = vec![];
            for _ in 0..n { h.extend_from_slice(rng.pick(toks).as_bytes()); }
            h.extend_from_slice(b"\r\n\r\n");
        }
        5 => { let n = rng.range(0, 40) as usize; h = rng.bytes(n); }
        6 => {
            // odd ports and authorities in every position
            let auths: &[&str] = &["h:65536", "h:+80", "h:080", "h:", ":80", "h:8a", "[::1]:", "[::1", "::1]", "::1", "::1:80", "[[::1]]:81", "h :80", " h:80", "h:80 ", "[::1]:99999", "h:0", "user@h:81", "h:80:90", "[h]:80", "]h[:80"];
            let a = rng.pick(auths);
            let s = match rng.below(3) { 0 => format!("CONNECT {a} HTTP/1.1\r\n\r\n"), 1 => format!("GET http://{a}/x HTTP/1.1\r\n\r\n"), _ => format!("GET /x HTTP/1.1\r\nHost: {a}\r\n\r\n") };
            h = s.into_bytes();
        }
        8 => {
            // multi-byte characters at every small offset of a header line / of the request line (byte-offset slicing)
            let ch = *rng.pick(&["\u{e9}", "\u{20ac}", "\u{1f600}", "\u{a0}", "\u{3000}"]);
            let off = rng.below(9) as usize;
            let base = *rng.pick(&["Host: example.com", "To: equipe", "abcdefghij", "X-A:5", "hOsT:h", "Ho", ""]);
            let mut line: String = base.chars().take(off).collect();
            line.push_str(ch);
            line.extend(base.chars().skip(off));
            h = match rng.below(4) {
                0 => format!("GET / HTTP/1.1\r\n{line}\r\nHost: h\r\n\r\n"),
                1 => format!("GET http://h/ HTTP/1.1\r\n{line}\r\n\r\n"),
                2 => format!("GET / HTTP/1.1\r\nHost: h\r\n{line}\r\n\r\n"),
                _ => format!("{line} http://h{ch}/{ch} HTTP/1.1\r\nHost: {line}\r\n\r\n"),
            }.into_bytes();
        }
        7 => {
            let rl: &[&str] = &["GET", "GET ", " GET / HTTP/1.1", "GET /", "GET / HTTP/1.1 extra", "GET\t/\tHTTP/1.1", "", "GET\u{a0}http://h/\u{2003}HTTP/1.1", "GET http:// HTTP/1.1", "GET https://:443 HTTP/1.1", "GET http://h HTTP/1.1", "GET HTTP://h/ HTTP/1.1", "OPTIONS * HTTP/1.1", "GET x HTTP/1.1"];
            let hl: &[&str] = &["", "Host: h\r\n", "Host:\r\n", "host:h:81\r\n", "Host : h\r\n", "X: y\r\nHost: h\r\nHost: g\r\n", "\r\nHost: h\r\n", "Host: h\nX: y\r\n", "HOST:h\r\n"];
            h = format!("{}\r\n{}\r\n", rng.pick(rl), rng.pick(hl)).into_bytes();
        }
        _ => {}
    }
    h
}

fn read_case(rng: &mut Rng) -> String {
    // header sizes around the 64 KiB limit, the body arriving with it or not, or no terminator at all
    let total = match rng.below(6) { 0 => rng.range(20, 3000) as usize, 1 => MAX_HEADER, 2 => MAX_HEADER + 1, 3 => MAX_HEADER - rng.below(1100) as usize, 4 => MAX_HEADER + rng.below(1100) as usize, _ => rng.range(60_000, 68_000) as usize };
    let mut stream = gen_wreq(rng, Some(("example.com", false, None)), Some(total.max(200))).header;
    match rng.below(5) {
        0 => {}
        1 => { let n = rng.range(1, 3000) as usize; stream.extend(std::iter::repeat(b'B').take(n)); }
        2 => { let n = rng.range(1, 40) as usize; stream.extend(rng.bytes(n)); stream.extend_from_slice(b"\r\n\r\n"); }
        3 => { let k = stream.len() - rng.range(1, 4) as usize; stream.truncate(k); if rng.chance(1, 2) { let n = rng.range(1, 3000) as usize; stream.extend(std::iter::repeat(b'x').take(n)); } }
        _ => { let n = rng.range(1, 1024) as usize; stream.extend(std::iter::repeat(b'B').take(n)); }
    }
    let split = if rng.chance(1, 3) {
        // cut inside or next to the terminator, or anywhere
        let end = stream.windows(4).position(|w| w == b"\r\n\r\n").map(|p| p + 4).unwrap_or(stream.len());
        let a = if rng.chance(2, 3) { end.saturating_sub(rng.range(0, 5) as usize).max(1) } else { rng.range(1, stream.len() as u64) as usize };
        // ... or a first segment of one to three bytes (a client that types, or drips, its request)
        if rng.chance(1, 5) { let f = rng.range(1, 3) as usize; if f < a { format!(" split={f},{a}") } else { format!(" split={f}") } } else { format!(" split={a}") }
    } else { String::new() };
    format!("http read {}{}", hex_compact(&stream), split)
}

impl Group for HttpGroup {
    fn default_cases(&self, tier: &str) -> u64 { if tier == "thorough" { 60_000 } else { 4_000 } }

    fn fixed(&self, tier: &str) -> Vec<Case> {
        let mut v = vec![];
        let mut rng = Rng::new(17);
        // every host spelling x port class x target form (the generator is asked until each combination has appeared)
        for h in NAMES.iter().map(|h| (*h, false)).chain(V6.iter().map(|h| (*h, true))) {
            for p in [None, Some(80u16), Some(443), Some(8080), Some(65535), Some(1)] {
                for _ in 0..6 {
                    let w = gen_wreq(&mut rng, Some((h.0, h.1, p)), None);
                    v.push(Case { lines: vec![wf_line(&w, b"")] });
                }
            }
        }
        // regression witnesses (D15): HOST: spelling, IPv6 Host rewrite, authority ended by '?'
        for (hd, host, port, c, fwd) in [
            ("GET / HTTP/1.1\r\nHOST: example.com\r\n\r\n", "example.com", 80, 0, Some("GET / HTTP/1.1\r\nHost: example.com\r\n\r\n")),
            ("GET / HTTP/1.1\r\nhOsT:example.com:81\r\n\r\n", "example.com", 81, 0, Some("GET / HTTP/1.1\r\nHost: example.com:81\r\n\r\n")),
            ("GET http://[::1]:8080/x HTTP/1.1\r\n\r\n", "::1", 8080, 0, Some("GET /x HTTP/1.1\r\nHost: [::1]:8080\r\n\r\n")),
            ("GET / HTTP/1.1\r\nHost: [2001:db8::5]\r\n\r\n", "2001:db8::5", 80, 0, Some("GET / HTTP/1.1\r\nHost: [2001:db8::5]\r\n\r\n")),
            ("GET http://example.com?x=1 HTTP/1.1\r\n\r\n", "example.com", 80, 0, Some("GET /?x=1 HTTP/1.1\r\nHost: example.com\r\n\r\n")),
            ("GET http://example.com?notify=ops@other.org HTTP/1.1\r\n\r\n", "example.com", 80, 0, Some("GET /?notify=ops@other.org HTTP/1.1\r\nHost: example.com\r\n\r\n")),
            ("GET http://example.com:8080?to=a@b/c HTTP/1.1\r\n\r\n", "example.com", 8080, 0, Some("GET /?to=a@b/c HTTP/1.1\r\nHost: example.com:8080\r\n\r\n")),
            ("CONNECT [::1]:443 HTTP/1.1\r\n\r\n", "::1", 443, 1, None),
        ] {
            v.push(Case { lines: vec![format!("http wf {} - {} {} {} {}", hex(hd.as_bytes()), hex(host.as_bytes()), port, c, fwd.map(|f| hex(f.as_bytes())).unwrap_or("none".into()))] });
        }
        // header blocks at every size around the limit, with and without a body in the same read (D15 size cap)
        let sizes: Vec<usize> = if tier == "thorough" { (MAX_HEADER - 1030..=MAX_HEADER + 8).collect() } else { vec![MAX_HEADER - 1024, MAX_HEADER - 1023, MAX_HEADER - 500, MAX_HEADER - 4, MAX_HEADER - 1, MAX_HEADER, MAX_HEADER + 1, MAX_HEADER + 4] };
        for total in sizes {
            for extra in [0usize, 1, 600, 2000] {
                let mut s = gen_wreq(&mut rng, Some(("example.com", false, None)), Some(total)).header;
                s.extend(std::iter::repeat(b'B').take(extra));
                v.push(Case { lines: vec![format!("http read {}", hex_compact(&s))] });
            }
        }
        // a first segment shorter than the terminator
        {
            let w = gen_wreq(&mut rng, Some(("example.com", false, None)), Some(60)).header;
            for sp in ["1", "2", "3", "1,2", "1,2,3", "2,4"] {
                let mut sd = w.clone(); sd.extend_from_slice(b"BODY");
                v.push(Case { lines: vec![format!("http read {} split={}", hex_compact(&sd), sp)] });
            }
        }
        // the terminator cut at each of its positions by TCP segmentation, small and large blocks
        for total in [60usize, 1500, 3000] {
            let w = gen_wreq(&mut rng, Some(("example.com", false, None)), Some(total)).header;
            for back in 0..6usize {
                let mut sd = w.clone(); sd.extend_from_slice(b"BODY");
                v.push(Case { lines: vec![format!("http read {} split={}", hex_compact(&sd), w.len() - back)] });
            }
            let mut sd = w.clone(); sd.extend_from_slice(b"BODY");
            v.push(Case { lines: vec![format!("http read {} split={},{}", hex_compact(&sd), w.len() - 3, w.len() - 1)] });
        }
        // header blocks of 1024k + {0..4} bytes: the terminator straddles two reads of the 1024-byte buffer
        for k in [1usize, 2, 3, 7] { for d in 0..5usize {
            let w = gen_wreq(&mut rng, Some(("example.com", false, None)), Some(1024 * k + d)).header;
            v.push(Case { lines: vec![format!("http read {}", hex_compact(&w))] });
        } }
        // the whole front-end: CONNECT / forward, target up / down, early bytes, later bytes, IPv4 and IPv6 origins
        for (up, v6, form, early, later) in [
            ("up", 0, "connect", "-", "-"), ("up", 0, "connect", "48454c4c4f", "-"), ("up", 0, "connect", "-", "6c61746572"), ("up", 0, "connect", "0d0a0d0a01", "02"),
            ("down", 0, "connect", "-", "-"), ("down", 0, "connect", "4142", "-"),
            ("up", 0, "abs", "-", "-"), ("up", 0, "abs", "626f6479", "6d6f7265"), ("up", 0, "origin", "-", "-"), ("up", 0, "origin", "626f6479", "-"), ("down", 0, "abs", "-", "-"),
            ("up", 1, "connect", "6869", "-"), ("up", 1, "abs", "-", "-"), ("up", 1, "origin", "626f6479", "-"),
        ] {
            v.push(Case { lines: vec![format!("http conn {up} {v6} {form} {early} {later}")] });
        }
        v.push(Case { lines: vec!["http keepalive".into()] });
        v
    }

    fn generate(&self, rng: &mut Rng, tier: &str, _idx: u64) -> Case {
        let k = rng.below(1000);
        let line = if k < 500 {
            let w = gen_wreq(rng, None, None);
            let body = if rng.chance(1, 2) { vec![] } else { let n = rng.range(1, 40) as usize; if rng.chance(1, 4) { b"\r\n\r\nGET / HTTP/1.1\r\n\r\n".to_vec() } else { rng.bytes(n) } };
            wf_line(&w, &body)
        } else if k < 960 {
            let h = gen_malformed(rng);
            let body = if rng.chance(1, 4) { let n = rng.range(1, 8) as usize; rng.bytes(n) } else { vec![] };
            format!("http parse {} {}", hex_compact(&h), hex(&body))
        } else if k < 995 || tier != "thorough" && k < 999 {
            read_case(rng)
        } else {
            let early = if rng.chance(1, 2) { let n = rng.range(1, 30) as usize; (0..n).map(|_| *rng.pick(b"abcxyz\r\n \x00\xff")).collect() } else { vec![] };
            let later = if rng.chance(1, 2) { let n = rng.range(1, 30) as usize; (0..n).map(|_| *rng.pick(b"lmnopq\r\n")).collect() } else { vec![] };
            format!("http conn {} {} {} {} {}", if rng.chance(3, 4) { "up" } else { "down" }, rng.below(2), rng.pick(&["connect", "abs", "origin"]), hex(&early), hex(&later))
        };
        Case { lines: vec![line] }
    }

    fn exec(&self, case: &Case) -> Outcome {
        let mut out = Outcome::default();
        let runtime = rt();
        for line in &case.lines {
            let toks: Vec<String> = line.split_whitespace().map(|s| s.to_string()).collect();
            let r = runtime.block_on(async { tokio::time::timeout(Duration::from_secs(60), exec_line(&toks)).await });
            match r {
                Ok(Ok((obs, fails))) => { out.obs.push(obs); out.oracle.extend(fails); }
                Ok(Err(e)) => { out.obs.push(format!("infra-error {e}")); }
                Err(_) => { out.obs.push("infra-error scenario exceeded 60 s".into()); }
            }
            out.tags.push(format!("op={}", toks.get(1).cloned().unwrap_or_default()));
            if toks.get(1).map(|s| s == "wf").unwrap_or(false) {
                let h = unhex(&toks[2]).unwrap_or_default();
                let t = String::from_utf8_lossy(&h).to_string();
                out.tags.push(format!("form={}", if t.starts_with("CONNECT") { "connect" } else if t.split(' ').nth(1).map(|x| x.starts_with("http")).unwrap_or(false) { "absolute" } else { "origin" }));
                out.tags.push(format!("host={}", if t.contains('[') { "v6" } else { "name_or_v4" }));
            }
        }
        runtime.shutdown_timeout(Duration::from_millis(100));
        out.nontrivial = true;
        out
    }
}

fn err_kind(e: &anytls_rs::util::AnyTlsError) -> &'static str {
    let s = e.to_string();
    if s.contains("Invalid HTTP request line") || s.contains("Missing HTTP request line") { "reqline" }
    else if s.contains("Host header missing") { "host" }
    else if s.contains("too large") { "toolarge" }
    else if s.contains("closed before") { "closed" }
    else { "other" }
}

fn parse_obs(header: &[u8], body: &[u8]) -> (String, Option<(String, u16, bool, Option<Vec<u8>>)>) {
    // the glue of handle_http_proxy_connection: the header block must be UTF-8
    let Ok(hs) = String::from_utf8(header.to_vec()) else { return ("err utf8".into(), None) };
    match anytls_rs::client::http_proxy::verif_http::parse_and_build(&hs, body.to_vec()) {
        Err(e) => (format!("err {}", err_kind(&e)), None),
        Ok((p, fwd)) => {
            let obs = format!("ok connect={} host={} port={} method={} version={} path={} nhdr={} body={} fwd={}", p.is_connect as u8, hex(p.host.as_bytes()), p.port, hex(p.method.as_bytes()), hex(p.version.as_bytes()), hex(p.path.as_bytes()), p.headers.len(), hex(&p.body), fwd.as_ref().map(|f| hex_compact(f)).unwrap_or("none".into()));
            (obs, Some((p.host, p.port, p.is_connect, fwd)))
        }
    }
}

async fn exec_line(t: &[String]) -> Result<(String, Vec<OracleFail>), String> {
    let s: Vec<&str> = t.iter().map(|x| x.as_str()).collect();
    let mut fails = vec![];
    match s.as_slice() {
        ["http", "parse", h, b] => {
            let (obs, _) = parse_obs(&unhex(h).ok_or("hex")?, &unhex(b).ok_or("hex")?);
            Ok((obs, fails))
        }
        ["http", "wf", h, b, ehost, eport, ec, efwd] => {
            let header = unhex(h).ok_or("hex")?;
            let body = unhex(b).ok_or("hex")?;
            let (obs, got) = parse_obs(&header, &body);
            let ehost = String::from_utf8(unhex(ehost).ok_or("hex")?).map_err(|_| "utf8")?;
            let eport: u16 = eport.parse().map_err(|_| "port")?;
            let ec = *ec == "1";
            let efwd = if *efwd == "none" { None } else { Some(unhex(efwd).ok_or("hex")?) };
            let shown = String::from_utf8_lossy(&header[..header.len().min(120)]).replace("\r\n", "\\r\\n");
            // O (C17): the tunnel goes to the host and port the request names; the origin receives the same request
            // in origin form with only the Host header normalised (expectation known by construction of the request)
            match got {
                None => fails.push(OracleFail { sig: "wellformed_request_rejected/parse_http_request".into(), detail: format!("request '{shown}' -> {obs}") }),
                Some((host, port, c, fwd)) => {
                    if host != ehost || port != eport || c != ec {
                        fails.push(OracleFail { sig: "target_wrong/determine_target".into(), detail: format!("request '{shown}' names {ehost}:{eport} (connect={ec}); derived {host}:{port} (connect={c})") });
                    } else if fwd != efwd {
                        fails.push(OracleFail { sig: "forwarded_request_wrong/build_forward_request".into(), detail: format!("request '{shown}': origin must receive '{}', would receive '{}'", efwd.as_ref().map(|f| String::from_utf8_lossy(&f[..f.len().min(200)]).replace("\r\n", "\\r\\n")).unwrap_or_default(), fwd.as_ref().map(|f| String::from_utf8_lossy(&f[..f.len().min(200)]).replace("\r\n", "\\r\\n")).unwrap_or_default()) });
                    }
                }
            }
            Ok((obs, fails))
        }
        ["http", "read", hx] | ["http", "read", hx, _] => {
            let stream = unhex(hx).ok_or("hex")?;
            // optional `split=a,b`: the stream is written in fragments cut there, each a TCP segment of its own
            let cuts: Vec<usize> = s.get(3).and_then(|t| t.strip_prefix("split=")).map(|x| x.split(',').filter_map(|k| k.parse().ok()).collect()).unwrap_or_default();
            let (mut c, mut srv) = pair().await;
            let s2 = stream.clone();
            let wr = tokio::spawn(async move {
                let _ = c.set_nodelay(true);
                let mut at = 0;
                for k in cuts {
                    let k = k.min(s2.len());
                    if k > at { let _ = c.write_all(&s2[at..k]).await; let _ = c.flush().await; tokio::time::sleep(Duration::from_millis(25)).await; at = k; }
                }
                let _ = c.write_all(&s2[at..]).await; let _ = c.shutdown().await; c });
            let r = tokio::time::timeout(GUARD, anytls_rs::client::http_proxy::verif_http::read_http_header(&mut srv)).await.map_err(|_| "guard")?;
            let obs = match r {
                Ok((hd, mut rem)) => {
                    // everything after the header block, whichever read delivered it
                    let mut rest = vec![];
                    let _ = tokio::time::timeout(GUARD, srv.read_to_end(&mut rest)).await;
                    rem.extend(rest);
                    format!("ok hdr={} rest={}", hd.len(), hex_compact(&rem))
                }
                Err(e) => format!("err {}", err_kind(&e)),
            };
            drop(srv);
            let _ = wr.await;
            // O (C17): a header block of at most 64 KiB is accepted whatever follows it; the bytes after it are kept
            let end = stream.windows(4).position(|w| w == b"\r\n\r\n").map(|p| p + 4);
            let want = match end {
                Some(e) if e <= MAX_HEADER => format!("ok hdr={} rest={}", e, hex_compact(&stream[e..])),
                Some(_) => "err toolarge".into(),
                None if stream.len() > MAX_HEADER => "err toolarge".into(),
                None => "err closed".into(),
            };
            if obs != want {
                fails.push(OracleFail { sig: "header_read_wrong/read_http_header".into(), detail: format!("stream of {} bytes, header block ends at {:?}: {} (expected {})", stream.len(), end, &obs[..obs.len().min(60)], &want[..want.len().min(60)]) });
            }
            Ok((obs, fails))
        }
        ["http", "conn", up, v6, form, early, later] => {
            let early = unhex(early).ok_or("hex")?;
            let later = unhex(later).ok_or("hex")?;
            let v6 = *v6 == "1";
            let w = World::start(None, None, anytls_rs::client::SessionPoolConfig::default(), true).await?;
            let target = Target::start(if v6 { "::1" } else { "127.0.0.1" }, Mode::Sink).await;
            let port = if *up == "up" { target.addr.port() } else { free_port() };
            let (req, want_origin, want_reply) = conn_request(form, v6, port, &early, &later, *up == "up");
            let mut c = TcpStream::connect(w.http.unwrap()).await.map_err(|e| e.to_string())?;
            c.write_all(&req).await.map_err(|e| e.to_string())?;
            // the reply (CONNECT: 200 / 502; forward to a down target: 502); a forwarded request gets no reply from a sink origin
            let mut reply = vec![];
            let mut buf = [0u8; 512];
            if !want_reply.is_empty() {
                let deadline = tokio::time::Instant::now() + Duration::from_secs(40);
                while reply.len() < want_reply.len() {
                    match tokio::time::timeout_at(deadline, c.read(&mut buf)).await {
                        Ok(Ok(0)) | Ok(Err(_)) | Err(_) => break,
                        Ok(Ok(n)) => reply.extend_from_slice(&buf[..n]),
                    }
                }
            }
            let first_len = want_origin.len() - later.len();
            if *up == "up" {
                let _ = wait_until(Duration::from_secs(10), || target.snapshot().first().map(|x| x.bytes.len() >= first_len).unwrap_or(false)).await;
                if !later.is_empty() {
                    c.write_all(&later).await.map_err(|e| e.to_string())?;
                    let _ = wait_until(Duration::from_secs(10), || target.snapshot().first().map(|x| x.bytes.len() >= want_origin.len()).unwrap_or(false)).await;
                }
            }
            // settle: anything forwarded twice or any unexpected reply shows up now
            tokio::time::sleep(Duration::from_millis(150)).await;
            if let Ok(Ok(n)) = tokio::time::timeout(Duration::from_millis(50), c.read(&mut buf)).await { reply.extend_from_slice(&buf[..n]); }
            let tunnel = target.accepted.load(std::sync::atomic::Ordering::SeqCst) > 0;
            let delivered = target.snapshot().first().map(|x| x.bytes.clone()).unwrap_or_default();
            // O (C17): 200 only with a tunnel; the origin receives the rewritten request and every later byte once, in order
            let said_ok = reply.starts_with(b"HTTP/1.1 200");
            if said_ok && !tunnel { fails.push(OracleFail { sig: "connect_200_without_tunnel/http_proxy".into(), detail: format!("CONNECT to a {up} target answered 200, tunnel established: {tunnel}") }); }
            if *up == "up" && delivered != want_origin {
                let sig = if *form == "connect" { "tunnel_bytes_wrong/http_connect" } else { "origin_bytes_wrong/http_forward" };
                fails.push(OracleFail { sig: sig.into(), detail: format!("{form} request with {} early and {} later bytes: origin must receive {} bytes '{}', received {} bytes '{}'", early.len(), later.len(), want_origin.len(), String::from_utf8_lossy(&want_origin).replace("\r\n", "\\r\\n"), delivered.len(), String::from_utf8_lossy(&delivered).replace("\r\n", "\\r\\n")) });
            }
            if reply != want_reply { fails.push(OracleFail { sig: "reply_wrong/http_proxy".into(), detail: format!("{form} request, target {up}: reply '{}'", String::from_utf8_lossy(&reply).replace("\r\n", "\\r\\n")) }); }
            w.stop().await;
            Ok((format!("reply={} tunnel={} origin={}", hex(&reply), tunnel as u8, hex(&canon_bytes(&delivered, port))), fails))
        }
        ["http", "keepalive"] => {
            // two requests for two different origins on one proxy connection
            let w = World::start(None, None, anytls_rs::client::SessionPoolConfig::default(), true).await?;
            let a = Target::start("127.0.0.1", Mode::Echo).await;
            let b = Target::start("127.0.0.1", Mode::Echo).await;
            let mut c = TcpStream::connect(w.http.unwrap()).await.map_err(|e| e.to_string())?;
            let r1 = format!("GET http://127.0.0.1:{}/one HTTP/1.1\r\n\r\n", a.addr.port());
            c.write_all(r1.as_bytes()).await.map_err(|e| e.to_string())?;
            // the echo origin's "response" to the first request
            let (resp, _) = read_n(&mut c, 10, Duration::from_secs(20)).await;
            if resp.is_empty() { return Err("first request got no response".into()); }
            let r2 = format!("GET http://127.0.0.1:{}/two HTTP/1.1\r\n\r\n", b.addr.port());
            c.write_all(r2.as_bytes()).await.map_err(|e| e.to_string())?;
            let _ = wait_until(Duration::from_secs(5), || b.accepted.load(std::sync::atomic::Ordering::SeqCst) > 0 || a.snapshot().first().map(|x| x.bytes.windows(4).any(|w| w == b"/two")).unwrap_or(false)).await;
            let to_b = b.accepted.load(std::sync::atomic::Ordering::SeqCst) > 0;
            let to_a = a.snapshot().first().map(|x| x.bytes.windows(4).any(|w| w == b"/two")).unwrap_or(false);
            // O (C17): each request goes to the authority it names
            if !to_b { fails.push(OracleFail { sig: "second_request_to_first_origin/http_keepalive".into(), detail: format!("second request on the same proxy connection names origin B; reached B: {to_b}, forwarded verbatim to origin A: {to_a}") }); }
            w.stop().await;
            Ok((format!("second_to={}", if to_b { "B" } else if to_a { "A" } else { "none" }), fails))
        }
        _ => Err("unknown op".into()),
    }
}

fn canon_bytes(b: &[u8], port: u16) -> Vec<u8> {
    let p = port.to_string().into_bytes();
    let mut out = vec![];
    let mut i = 0;
    while i < b.len() {
        if b[i..].starts_with(&p) { out.extend_from_slice(b"40000"); i += p.len(); } else { out.push(b[i]); i += 1; }
    }
    out
}

/// the request of an e2e case, what the origin must receive in total, and the reply the client must see
pub fn conn_request(form: &str, v6: bool, port: u16, early: &[u8], later: &[u8], up: bool) -> (Vec<u8>, Vec<u8>, Vec<u8>) {
    let auth = if v6 { format!("[::1]:{port}") } else { format!("127.0.0.1:{port}") };
    let (head, fwd): (String, String) = match form {
        "connect" => (format!("CONNECT {auth} HTTP/1.1\r\nHost: {auth}\r\n\r\n"), String::new()),
        "abs" => (format!("POST http://{auth}/p?q=1 HTTP/1.1\r\nUser-Agent: t\r\nHOST: ignored.example\r\nAccept: */*\r\n\r\n"),
                  format!("POST /p?q=1 HTTP/1.1\r\nUser-Agent: t\r\nHost: {auth}\r\nAccept: */*\r\n\r\n")),
        _ => (format!("PUT /up HTTP/1.0\r\nAccept: */*\r\nhOsT:  {auth} \r\nX-Last: 1\r\n\r\n"),
              format!("PUT /up HTTP/1.0\r\nAccept: */*\r\nHost: {auth}\r\nX-Last: 1\r\n\r\n")),
    };
    let mut req = head.into_bytes();
    req.extend_from_slice(early);
    let mut origin = fwd.into_bytes();
    origin.extend_from_slice(early);
    origin.extend_from_slice(later);
    let reply: Vec<u8> = if !up { b"HTTP/1.1 502 Bad Gateway\r\nContent-Length: 0\r\nConnection: close\r\n\r\n".to_vec() } else if form == "connect" { b"HTTP/1.1 200 Connection Established\r\n\r\n".to_vec() } else { vec![] };
    (req, origin, reply)
}
