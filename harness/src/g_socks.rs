//! group `socks` (C16): the SOCKS5 handshake parsers over real loopback TCP pairs (they take a concrete
//! `TcpStream`), and the whole front-end against a real server and targets (`conn` ops).
use crate::e2e::*;
use crate::util::*;
use crate::Group;
use std::net::IpAddr;
use std::time::Duration;
use tokio::io::{AsyncReadExt, AsyncWriteExt};
use tokio::net::{TcpListener, TcpStream};

pub struct SocksGroup;

async fn pair() -> (TcpStream, TcpStream) {
    let l = TcpListener::bind("127.0.0.1:0").await.unwrap();
    let a = l.local_addr().unwrap();
    let (c, s) = tokio::join!(TcpStream::connect(a), l.accept());
    (c.unwrap(), s.unwrap().0)
}

/// write `inp` in fragments cut at `cuts` (pauses in between so that each fragment is a TCP segment of its own), then half-close
async fn write_split(c: &mut TcpStream, inp: &[u8], cuts: &[usize]) -> Result<(), String> {
    let _ = c.set_nodelay(true);
    let mut at = 0;
    for &k in cuts {
        let k = k.min(inp.len());
        if k > at {
            c.write_all(&inp[at..k]).await.map_err(|e| e.to_string())?;
            c.flush().await.map_err(|e| e.to_string())?;
            tokio::time::sleep(Duration::from_millis(25)).await;
            at = k;
        }
    }
    c.write_all(&inp[at..]).await.map_err(|e| e.to_string())?;
    c.shutdown().await.map_err(|e| e.to_string())
}

fn parse_cuts(t: &str) -> Vec<usize> {
    t.strip_prefix("split=").map(|x| x.split(',').filter_map(|k| k.parse().ok()).collect()).unwrap_or_default()
}

fn gen_cuts(rng: &mut Rng, len: usize) -> String {
    if len < 2 || !rng.chance(1, 4) { return String::new(); }
    let a = rng.range(1, len as u64 - 1) as usize;
    if rng.chance(1, 3) { let b = rng.range(1, len as u64 - 1) as usize; format!(" split={},{}", a.min(b), a.max(b)) } else { format!(" split={a}") }
}

fn gen_request(rng: &mut Rng) -> Vec<u8> {
    let cmd = match rng.below(6) { 0 => 2, 1 => 3, 2 => rng.next() as u8, _ => 1 };
    let ver = if rng.chance(1, 12) { rng.next() as u8 } else { 5 };
    let mut v = vec![ver, cmd, if rng.chance(1, 8) { rng.next() as u8 } else { 0 }];
    match rng.below(5) {
        0 => { v.push(1); v.extend(rng.bytes(4)); }
        1 => { v.push(4); v.extend(rng.bytes(16)); }
        2 => { v.push(rng.next() as u8); v.extend(rng.bytes(6)); }
        _ => {
            v.push(3);
            let l = *rng.pick(&[0usize, 1, 2, 9, 63, 255]);
            v.push(l as u8);
            let name: Vec<u8> = if rng.chance(1, 8) { rng.bytes(l) } else { (0..l).map(|i| b"abcdefghijklmnopqrstuvwxyz0123456789-."[(i * 5 + rng.below(3) as usize) % 38]).collect() };
            v.extend(name);
        }
    }
    v.extend_from_slice(&(rng.next() as u16).to_be_bytes());
    if rng.chance(1, 5) { let k = rng.below(v.len() as u64 + 1) as usize; v.truncate(k); }
    if rng.chance(1, 3) { let n = rng.below(6) as usize; v.extend(rng.bytes(n)); }
    v
}

fn gen_greeting(rng: &mut Rng) -> Vec<u8> {
    let ver = if rng.chance(1, 10) { rng.next() as u8 } else { 5 };
    let n = match rng.below(8) { 0 => 0usize, 1 => 255, 2 => rng.below(8) as usize, _ => rng.range(1, 3) as usize };
    let mut v = vec![ver, n as u8];
    for _ in 0..n { v.push(*rng.pick(&[0u8, 1, 2, 0x80, 0xFF, 3])); }
    if rng.chance(1, 6) { let k = rng.below(v.len() as u64 + 1) as usize; v.truncate(k); }
    if rng.chance(1, 4) { let k = rng.below(4) as usize; v.extend(rng.bytes(k)); }
    v
}

impl Group for SocksGroup {
    fn default_cases(&self, tier: &str) -> u64 { if tier == "thorough" { 20_000 } else { 1_500 } }

    fn fixed(&self, _tier: &str) -> Vec<Case> {
        let mut v = vec![];
        // every method list of length <= 3 over {0,1,2,0x80,0xFF}
        let ms = [0u8, 1, 2, 0x80, 0xFF];
        for a in ms { v.push(Case { lines: vec![format!("socks greet {}", hex(&[5, 1, a]))] });
            for b in ms { v.push(Case { lines: vec![format!("socks greet {}", hex(&[5, 2, a, b]))] });
                for c in ms { v.push(Case { lines: vec![format!("socks greet {}", hex(&[5, 3, a, b, c]))] }); } } }
        // every command code and every address-type byte
        for c in 0..=255u8 { v.push(Case { lines: vec![format!("socks req {}", hex(&[5, c, 0, 1, 10, 0, 0, 1, 0, 80]))] }); }
        for t in 0..=255u8 { v.push(Case { lines: vec![format!("socks req {}", hex(&[5, 1, 0, t, 3, 97, 46, 98, 1, 187, 9, 9, 9, 9, 9, 9, 9, 9, 9, 9, 9, 9, 9, 9]))] }); }
        for ver in [0u8, 4, 6, 255] { v.push(Case { lines: vec![format!("socks req {}", hex(&[ver, 1, 0, 1, 10, 0, 0, 1, 0, 80]))] }); v.push(Case { lines: vec![format!("socks greet {}", hex(&[ver, 1, 0]))] }); }
        // segmentation: a greeting / request cut at every position (each fragment a TCP segment of its own)
        for k in 1..5 { v.push(Case { lines: vec![format!("socks greet 0503010200 split={k}")] }); v.push(Case { lines: vec![format!("socks greet 05020100 split={k}")] }); }
        v.push(Case { lines: vec!["socks greet 0503010200 split=2,4".into()] });
        for k in 1..14 { v.push(Case { lines: vec![format!("socks req 050100030561622e636401bb split={k}")] }); }
        // the whole front-end: every command code class, target up/down, early bytes, regression witness D14 (BIND)
        for (cmd, up) in [(1u8, "up"), (1, "down"), (2, "up"), (3, "up"), (0, "up"), (9, "up")] {
            v.push(Case { lines: vec![format!("socks conn {cmd} {up} 050100 -")] });
        }
        v.push(Case { lines: vec!["socks conn 1 up 050100 48454c4c4f".into()] });
        v.push(Case { lines: vec!["socks conn 1 up 05020100 -".into()] });
        v.push(Case { lines: vec!["socks conn 1 up 050101 -".into()] });
        v.push(Case { lines: vec!["socks conn 1 up 0501 -".into()] });
        v
    }

    fn generate(&self, rng: &mut Rng, tier: &str, _idx: u64) -> Case {
        let k = rng.below(100);
        let line = if k < 45 { let g = gen_greeting(rng); format!("socks greet {}{}", hex(&g), gen_cuts(rng, g.len())) }
            else if k < 97 || tier != "thorough" && k < 99 { let r = gen_request(rng); format!("socks req {}{}", hex(&r), gen_cuts(rng, r.len())) }
            else {
                let cmd = match rng.below(4) { 0 => 2, 1 => rng.next() as u8, _ => 1 };
                let g = if rng.chance(3, 4) { vec![5u8, 1, 0] } else { gen_greeting(rng) };
                let early = if rng.chance(1, 2) { let n = rng.range(1, 40) as usize; rng.bytes(n) } else { vec![] };
                format!("socks conn {cmd} {} {} {}", if rng.chance(2, 3) { "up" } else { "down" }, hex(&g), hex(&early))
            };
        Case { lines: vec![line] }
    }

    fn exec(&self, case: &Case) -> Outcome {
        let mut out = Outcome::default();
        let runtime = rt();
        for line in &case.lines {
            let toks: Vec<String> = line.split_whitespace().map(|s| s.to_string()).collect();
            let r = runtime.block_on(async { tokio::time::timeout(Duration::from_secs(60), exec_line(&toks)).await });
            match r {
                Ok(Ok((obs, fails))) => { out.obs.push(obs); out.oracle.extend(fails); }
                Ok(Err(e)) => { out.obs.push(format!("infra-error {e}")); }
                Err(_) => { out.obs.push("infra-error scenario exceeded 60 s".into()); }
            }
            out.tags.push(format!("op={}", toks.get(1).cloned().unwrap_or_default()));
        }
        runtime.shutdown_timeout(Duration::from_millis(100));
        out.nontrivial = true;
        out
    }
}

async fn exec_line(t: &[String]) -> Result<(String, Vec<OracleFail>), String> {
    let s: Vec<&str> = t.iter().map(|x| x.as_str()).collect();
    let mut fails = vec![];
    match s.as_slice() {
        ["socks", "greet", hx] | ["socks", "greet", hx, _] => {
            let inp = unhex(hx).ok_or("hex")?;
            let cuts = parse_cuts(s.get(3).copied().unwrap_or(""));
            let (mut c, mut srv) = pair().await;
            let inp2 = inp.clone();
            let wr = tokio::spawn(async move { let _ = write_split(&mut c, &inp2, &cuts).await; c });
            let r = tokio::time::timeout(GUARD, anytls_rs::client::socks5::verif_socks5::authenticate(&mut srv)).await.map_err(|_| "guard")?;
            let mut c = wr.await.map_err(|e| e.to_string())?;
            drop(srv);
            let mut reply = vec![];
            let _ = tokio::time::timeout(GUARD, c.read_to_end(&mut reply)).await;
            // O (C16): 'no authentication' selected exactly when it was offered
            let offered = inp.len() >= 2 && inp[0] == 5 && inp[1] > 0 && inp.len() >= 2 + inp[1] as usize && inp[2..2 + inp[1] as usize].contains(&0);
            if r.is_ok() != offered || (offered && reply != [5, 0]) {
                fails.push(OracleFail { sig: "method_selection_wrong/socks5_authenticate".into(), detail: format!("greeting {}: accepted={}, reply {}", hex(&inp), r.is_ok(), hex(&reply)) });
            }
            Ok((format!("{} reply={}", if r.is_ok() { "ok" } else { "err" }, hex(&reply)), fails))
        }
        ["socks", "req", hx] | ["socks", "req", hx, _] => {
            let inp = unhex(hx).ok_or("hex")?;
            let cuts = parse_cuts(s.get(3).copied().unwrap_or(""));
            let (mut c, mut srv) = pair().await;
            let inp2 = inp.clone();
            let wr = tokio::spawn(async move { let _ = write_split(&mut c, &inp2, &cuts).await; c });
            let r = tokio::time::timeout(GUARD, anytls_rs::client::socks5::verif_socks5::read_connection_request(&mut srv)).await.map_err(|_| "guard")?;
            let _c = wr.await.map_err(|e| e.to_string())?;
            match r {
                Ok((addr, port, cmd)) => {
                    let atyp = inp[3];
                    let shown = if atyp == 3 { format!("name {}", hex_compact(addr.as_bytes())) } else { format!("ip {}", addr.parse::<IpAddr>().map(|ip| match ip { IpAddr::V4(a) => hex(&a.octets()), IpAddr::V6(a) => hex(&a.octets()) }).unwrap_or("?".into())) };
                    // O (C16): exactly the requested address type, address and port (reference decoding of the bytes)
                    let refd = crate::g_dest::ref_dest(&inp[3..]);
                    if refd.as_ref().map(|(s2, p, _)| (s2.clone(), *p)) != Some((shown.clone(), port)) || cmd != inp[1] {
                        fails.push(OracleFail { sig: "request_decoded_wrong/socks5_read_connection_request".into(), detail: format!("request {}: decoded cmd {cmd} {shown}:{port}", hex(&inp)) });
                    }
                    Ok((format!("ok cmd={cmd} {shown} {port}"), fails))
                }
                Err(_) => Ok(("err".into(), fails)),
            }
        }
        ["socks", "conn", cmd, up, greet, early] => {
            let cmd: u8 = cmd.parse().map_err(|_| "cmd")?;
            let greet = unhex(greet).ok_or("hex")?;
            let early = unhex(early).ok_or("hex")?;
            let w = World::start(None, None, anytls_rs::client::SessionPoolConfig::default(), true).await?;
            let target = Target::start("127.0.0.1", Mode::Sink).await;
            let port = if *up == "up" { target.addr.port() } else { free_port() };
            let mut c = TcpStream::connect(w.socks.unwrap()).await.map_err(|e| e.to_string())?;
            let mut msg = greet.clone();
            msg.extend_from_slice(&[5, cmd, 0, 1, 127, 0, 0, 1]);
            msg.extend_from_slice(&port.to_be_bytes());
            msg.extend_from_slice(&early);
            c.write_all(&msg).await.map_err(|e| e.to_string())?;
            // collect replies until the front-end goes quiet (tunnel up) or closes
            let mut replies = vec![];
            let mut buf = [0u8; 256];
            loop {
                match tokio::time::timeout(Duration::from_millis(700), c.read(&mut buf)).await {
                    Ok(Ok(0)) | Ok(Err(_)) => break,
                    Ok(Ok(n)) => { replies.extend_from_slice(&buf[..n]); if replies.len() >= 12 { break; } }
                    Err(_) => break,
                }
            }
            let tunnel = wait_until(Duration::from_millis(if replies.ends_with(&[5, 0, 0, 1, 0, 0, 0, 0, 0, 0]) { 3000 } else { 300 }), || target.accepted.load(std::sync::atomic::Ordering::SeqCst) > 0).await;
            if tunnel && !early.is_empty() { let _ = wait_until(Duration::from_secs(3), || target.snapshot().first().map(|x| x.bytes.len() >= early.len()).unwrap_or(false)).await; }
            let delivered = target.snapshot().first().map(|x| x.bytes.clone()).unwrap_or_default();
            // O (C16): a tunnel only for CONNECT; 'succeeded' only with a tunnel to the requested destination
            let said_ok = replies.len() >= 12 && replies[2..] == [5, 0, 0, 1, 0, 0, 0, 0, 0, 0];
            if tunnel && cmd != 1 { fails.push(OracleFail { sig: "tunnel_for_non_connect/socks5".into(), detail: format!("command {cmd} was tunnelled to the target") }); }
            if said_ok != tunnel { fails.push(OracleFail { sig: "reply_does_not_follow_tunnel/socks5".into(), detail: format!("'succeeded' reply: {said_ok}, tunnel established: {tunnel} (command {cmd}, target {up})") }); }
            // O (C16): a well-formed greeting offering 'no authentication' followed by a CONNECT to a listening target is served,
            // however the two messages are packed into TCP segments (here: one write)
            let greet_ok = greet.len() >= 3 && greet[0] == 5 && greet[1] > 0 && greet.len() == 2 + greet[1] as usize && greet[2..].contains(&0);
            if greet_ok && cmd == 1 && *up == "up" && !(tunnel && said_ok) {
                fails.push(OracleFail { sig: "valid_connect_not_served/socks5".into(), detail: format!("greeting {} + CONNECT to the listening target in one write: replies {}, tunnel established: {tunnel}", hex(&greet), hex(&replies)) });
            }
            if tunnel && delivered != early { fails.push(OracleFail { sig: "early_bytes_lost/socks5".into(), detail: format!("{} bytes followed the request, the target received {}", early.len(), delivered.len()) }); }
            w.stop().await;
            Ok((format!("replies={} tunnel={} delivered={}", hex(&replies), tunnel as u8, hex(&delivered)), fails))
        }
        _ => Err("unknown op".into()),
    }
}
