//! group `pipe` (C01, C02): a real client Session and a real server Session joined by a relay
//! that fragments the byte stream as the case dictates.
use crate::g_frame::{ref_encode, CMD_NAMES};
use crate::g_sess::*;
use crate::node::*;
use crate::schemes::*;
use crate::util::*;
use crate::Group;
use std::collections::BTreeMap;

pub struct PipeGroup;

const CHUNKS: [usize; 16] = [0, 1, 2, 7, 8, 100, 1000, 8191, 8192, 8193, 65534, 65535, 65536, 65537, 70000, 131071];

fn tagged_payload(rng: &mut Rng, tag: u8, len: usize) -> Vec<u8> {
    if len >= 512 {
        // large chunks: two uniform halves carrying the stream tag and a per-chunk byte
        let k = rng.next() as u8 | 1;
        let mut v = vec![tag; len / 2];
        v.extend(vec![k; len - len / 2]);
        v
    } else {
        let mut v = rng.bytes(len);
        if !v.is_empty() { v[0] = tag; }
        v
    }
}

impl Group for PipeGroup {
    fn default_cases(&self, tier: &str) -> u64 { if tier == "thorough" { 5_000 } else { 400 } }

    fn fixed(&self, _tier: &str) -> Vec<Case> {
        // a chunk larger than a frame with more chunks of the same stream queued right behind it, both directions
        let mut v = vec![];
        for who in ["c", "s"] {
            let tag = if who == "c" { 1u8 } else { 0x81 };
            let mut rng = Rng::new(77);
            let big = hex_compact(&tagged_payload(&mut rng, tag, 100000));
            let m1 = hex_compact(&tagged_payload(&mut rng, tag, 1000));
            let m2 = hex_compact(&tagged_payload(&mut rng, tag, 3000));
            v.push(Case { lines: vec![format!("pipe reset {} 5 md5={}", hex(b"stop=0"), md5_hex(b"stop=0")), "pipe c open".into(), "pipe c nobuf".into(),
                format!("pipe c write 1 {}", hex_compact(&[1u8, 9, 9])), "pipe xfer c2s 0".into(),
                format!("pipe {who} sendmany 0 {big} {m1} {m2}"), "pipe c ctl Waste 0 -".into(), "pipe drain".into()] });
        }
        v
    }

    fn generate(&self, rng: &mut Rng, _tier: &str, _idx: u64) -> Case {
        let scheme = match rng.below(4) { 0 => DEFAULT_SCHEME.as_bytes().to_vec(), 1 => b"stop=0".to_vec(), _ => gen_scheme(rng, false) };
        let seed = rng.next() % 1_000_000;
        let mut lines = vec![format!("pipe reset {} {} md5={}", hex(&scheme), seed, md5_hex(&scheme))];
        // back-pressure: transports that accept only a few bytes per write call (and return Pending in between)
        if rng.chance(1, 3) { lines.push(format!("pipe c shortw {}", rng.pick(&[1u32, 7, 17, 64, 1000]))); }
        if rng.chance(1, 4) { lines.push(format!("pipe s shortw {}", rng.pick(&[1u32, 7, 17, 64, 1000]))); }
        let nstreams = rng.range(1, 4);
        let noisy = rng.chance(1, 3);
        let mut opened = 0u64;
        let nops = rng.range(6, 30);
        let big_budget = std::cell::Cell::new(3);
        // directions that have ended (a FIN was sent for them): nothing more is submitted on them, the opposite
        // direction of the same stream keeps carrying data (C08)
        let mut c_ended: Vec<u64> = vec![];
        let mut s_ended: Vec<u64> = vec![];
        let halfclose = rng.chance(1, 3);
        for _ in 0..nops {
            let k = rng.below(100);
            let l = if opened == 0 || (opened < nstreams && k < 12) {
                opened += 1;
                if rng.chance(2, 3) { lines.push("pipe c open".into()); "c nobuf".to_string() } else { "c open".to_string() }
            } else {
                let h = rng.below(opened);
                let sid = h + 1;
                let mut len = if rng.chance(1, 5) { *rng.pick(&CHUNKS) } else { rng.below(40) as usize };
                if len > 8000 { if big_budget.get() == 0 { len = 17; } else { big_budget.set(big_budget.get() - 1); } }
                // an ended direction carries nothing more: the op turns into one of the opposite direction
                let k = match (c_ended.contains(&sid), s_ended.contains(&sid), k) {
                    (true, false, 0..=34) => 35 + k % 15,
                    (false, true, 35..=54) => k - 35,
                    (true, true, 0..=54) => 55 + k % 37,
                    _ => k,
                };
                if halfclose && rng.chance(1, 8) {
                    if rng.chance(1, 2) && !c_ended.contains(&sid) { c_ended.push(sid); lines.push(format!("pipe c ctl Fin {sid} -")); continue; }
                    if !s_ended.contains(&sid) { s_ended.push(sid); lines.push(format!("pipe s ctl Fin {sid} -")); continue; }
                }
                match k {
                    0..=24 => format!("c write {} {}", sid, hex_compact(&tagged_payload(rng, sid as u8, len))),
                    25..=34 => if rng.chance(1, 3) {
                        // a burst: 2-4 chunks submitted back to back, the first one possibly larger than a frame
                        let k = rng.range(2, 4);
                        let who = if s_ended.contains(&sid) || rng.chance(1, 2) { "c" } else { "s" };
                        let tag = if who == "c" { sid as u8 } else { 0x80 | sid as u8 };
                        let mut toks = vec![];
                        for i in 0..k { let l = if i == 0 && big_budget.get() > 0 && rng.chance(1, 2) { big_budget.set(big_budget.get() - 1); *rng.pick(&[65535usize, 65536, 70000, 131071]) } else { rng.range(1, 3000) as usize }; toks.push(hex_compact(&tagged_payload(rng, tag, l))); }
                        if who == "c" && c_ended.contains(&sid) { "c state".to_string() } else { format!("{who} sendmany {} {}", h, toks.join(" ")) }
                    } else { format!("c send {} {}", h, hex_compact(&tagged_payload(rng, sid as u8, len))) },
                    35..=49 => format!("s send {} {}", h, hex_compact(&tagged_payload(rng, 0x80 | sid as u8, len))),
                    50..=54 => format!("s write {} {}", sid, hex_compact(&tagged_payload(rng, 0x80 | sid as u8, len))),
                    55..=69 => format!("xfer c2s {}", match rng.below(6) { 0 => 1, 1 => 6, 2 => 7, 3 => rng.range(1, 40), 4 => rng.range(1, 9000), _ => 0 }),
                    70..=79 => format!("xfer s2c {}", match rng.below(5) { 0 => 1, 1 => 7, 2 => rng.range(1, 40), 3 => rng.range(1, 9000), _ => 0 }),
                    80..=86 => format!("s read {} {}", h, match rng.below(4) { 0 => 1, 1 => rng.range(1, 20), 2 => 8192, _ => 70000 }),
                    87..=91 => format!("c read {} {}", h, match rng.below(4) { 0 => 1, 1 => rng.range(1, 20), 2 => 8192, _ => 70000 }),
                    92..=93 => "c nobuf".to_string(),
                    _ => {
                        if noisy {
                            // frames for ids never opened / not yet opened / beyond: must not disturb the others
                            let cmd = *rng.pick(&["Push", "Fin", "SynAck", "Syn", "Waste", "HeartRequest"]);
                            let sid = *rng.pick(&[0u32, 9, 77, 65536, 4294967295]);
                            let who = if rng.chance(1, 2) { "c" } else { "s" };
                            format!("{who} ctl {cmd} {sid} {}", hex_compact(&{ let n = rng.below(6) as usize; rng.bytes(n) }))
                        } else { "c state".to_string() }
                    }
                }
            };
            lines.push(format!("pipe {l}"));
        }
        if noisy && rng.chance(1, 2) { lines.push(format!("pipe c ctl {} 9 -", rng.pick(&CMD_NAMES[..4]))); }
        lines.push("pipe c nobuf".into());
        lines.push("pipe c ctl Waste 0 -".into()); // any write flushes what is still buffered
        lines.push("pipe drain".into());
        Case { lines }
    }

    fn exec(&self, case: &Case) -> Outcome {
        let rt = runtime();
        let mut out = Outcome::default();
        rt.block_on(async {
            let mut c: Option<Node> = None;
            let mut s: Option<Node> = None;
            let mut c_sent = 0usize; // bytes of c's wire already moved
            let mut s_sent = 0usize;
            // oracle bookkeeping: (dir, sid) -> written / read
            let mut written: BTreeMap<(u8, u32), Vec<u8>> = BTreeMap::new();
            let mut readb: BTreeMap<(u8, u32), Vec<u8>> = BTreeMap::new();
            let mut faults = false;
            // ids opened by the client through `open_stream` (only those are streams of the pipe)
            let mut opened: Vec<u32> = vec![];
            // (direction, id) whose writer has sent its FIN: the reader of that direction sees end of stream after
            // every byte, the opposite direction goes on
            let mut fin_sent: std::collections::BTreeSet<(u8, u32)> = Default::default();
            for line in &case.lines {
                let toks: Vec<&str> = line.split_whitespace().collect();
                if toks.first() != Some(&"pipe") { out.obs.push("bad-op".into()); continue; }
                let toks = &toks[1..];
                match toks {
                    ["reset", sch, seed, _md5] => {
                        let (Some(scheme), Ok(seed)) = (unhex(sch), seed.parse::<u64>()) else { out.obs.push("bad-op".into()); continue; };
                        install_draws(seed);
                        let a = Node::new("client", &scheme, false, vec![], None).await;
                        let b = Node::new("server", &scheme, true, vec![], None).await;
                        match (a, b) {
                            (Ok((cn, co)), Ok((sn, so))) => { c = Some(cn); s = Some(sn); out.obs.push(format!("c: {co} ; s: {so}")); }
                            _ => out.obs.push("reject".into()),
                        }
                        c_sent = 0; s_sent = 0;
                    }
                    ["xfer", dir, n] => {
                        let (Some(cn), Some(sn)) = (c.as_mut(), s.as_mut()) else { out.obs.push("nonode".into()); continue; };
                        let Ok(n) = n.parse::<usize>() else { out.obs.push("bad-op".into()); continue; };
                        let (src, dst, sent) = if *dir == "c2s" { (&*cn, &mut *sn, &mut c_sent) } else { (&*sn, &mut *cn, &mut s_sent) };
                        let all: Vec<u8> = src.wire.lock().unwrap().writes.concat();
                        let avail = all.len() - *sent;
                        let k = if n == 0 { avail } else { std::cmp::min(n, avail) };
                        let chunk = all[*sent..*sent + k].to_vec();
                        *sent += k;
                        let o = if k > 0 { dst.op(&["feed", &hex_compact(&chunk)]).await } else { dst.op(&["state"]).await };
                        let o = o.split(" | ").last().unwrap_or("").to_string();
                        out.obs.push(format!("moved={k} | {o}"));
                        out.tags.push(format!("xfer={}", if n == 0 { "all" } else if k < 7 { "<7" } else { ">=7" }));
                    }
                    ["drain"] => {
                        let (Some(cn), Some(sn)) = (c.as_mut(), s.as_mut()) else { out.obs.push("nonode".into()); continue; };
                        // move everything both ways until nothing new appears
                        for _ in 0..64 {
                            let ca: Vec<u8> = cn.wire.lock().unwrap().writes.concat();
                            let sa: Vec<u8> = sn.wire.lock().unwrap().writes.concat();
                            if ca.len() == c_sent && sa.len() == s_sent { break; }
                            if ca.len() > c_sent { let ch = ca[c_sent..].to_vec(); c_sent = ca.len(); sn.op(&["feed", &hex_compact(&ch)]).await; }
                            if sa.len() > s_sent { let ch = sa[s_sent..].to_vec(); s_sent = sa.len(); cn.op(&["feed", &hex_compact(&ch)]).await; }
                        }
                        let mut parts = vec![];
                        for (who, n, dirbit) in [("c", &mut *cn, 1u8), ("s", &mut *sn, 0u8)] {
                            n.delta().await;
                            for h in 0..n.handles.len() {
                                let (bytes, eof) = read_all_available(&n.handles[h].stream).await;
                                let sid = n.handles[h].stream.id();
                                readb.entry((dirbit, sid)).or_default().extend_from_slice(&bytes);
                                parts.push(format!("{who}{h}={}{}", hex_compact(&bytes), if eof { "$" } else { "" }));
                            }
                        }
                        out.obs.push(parts.join(" "));
                        // O (C08): after a full drain the reader of an ended direction has seen end of stream
                        if !faults {
                            for (d, sid) in &fin_sent {
                                // direction d is read by the other node: 0 = client to server (read by s), 1 = server to client (read by c)
                                let reader_tag = if *d == 0 { "s" } else { "c" };
                                let n = if *d == 0 { &*sn } else { &*cn };
                                if let Some(h) = n.handles.iter().position(|hd| hd.stream.id() == *sid) {
                                    let tag = format!("{reader_tag}{h}=");
                                    let seen_eof = parts.iter().any(|p| p.starts_with(&tag) && p.ends_with('$'));
                                    if !seen_eof { out.oracle.push(OracleFail { sig: "fin_not_delivered/stream_reader".into(), detail: format!("stream {sid}: the {} sent its FIN, the reader on the other side has not seen end of stream after a full drain", if *d == 0 { "client" } else { "server" }) }); }
                                }
                            }
                        }
                        // O: after a full drain every stream has delivered exactly what was submitted
                        if !faults {
                            for ((d, sid), w) in &written {
                                if !opened.contains(sid) { continue; }
                                let r = readb.get(&(*d, *sid)).cloned().unwrap_or_default();
                                if r != *w {
                                    let first = r.iter().zip(w.iter()).position(|(a, b)| a != b).unwrap_or(std::cmp::min(r.len(), w.len()));
                                    out.oracle.push(OracleFail { sig: format!("stream_bytes_differ/{}", if *d == 0 { "client_to_server" } else { "server_to_client" }),
                                        detail: format!("stream {sid}: {} bytes submitted, {} bytes read, first difference at offset {first}", w.len(), r.len()) });
                                }
                            }
                        }
                    }
                    [who, rest @ ..] if *who == "c" || *who == "s" => {
                        let n = if *who == "c" { c.as_mut() } else { s.as_mut() };
                        let Some(n) = n else { out.obs.push("nonode".into()); continue; };
                        let o = n.op(rest).await;
                        let dirbit = if *who == "c" { 0u8 } else { 1u8 }; // direction of data *written* by this node
                        match rest {
                            ["open"] if o.starts_with("ok") => {
                                if let Some(p) = o.split("sid=").nth(1) { if let Ok(v) = p.split(' ').next().unwrap().parse::<u32>() { opened.push(v); } }
                            }
                            ["write", sid, hx] if o.starts_with("ok") => {
                                let sid: u32 = sid.parse().unwrap();
                                // only ids the client opened count as streams
                                written.entry((dirbit, sid)).or_default().extend_from_slice(&unhex(hx).unwrap());
                                out.tags.push(format!("chunk={}", crate::g_frame::len_class(unhex(hx).unwrap().len())));
                            }
                            ["send", h, hx] if o.starts_with("ok") => {
                                if let Some(hd) = n.handles.get(h.parse::<usize>().unwrap()) {
                                    written.entry((dirbit, hd.stream.id())).or_default().extend_from_slice(&unhex(hx).unwrap());
                                    out.tags.push(format!("chunk={}", crate::g_frame::len_class(unhex(hx).unwrap().len())));
                                }
                            }
                            ["sendmany", h, hxs @ ..] if o.starts_with("ok") => {
                                if let Some(hd) = n.handles.get(h.parse::<usize>().unwrap()) {
                                    for hx in hxs.iter() {
                                        written.entry((dirbit, hd.stream.id())).or_default().extend_from_slice(&unhex(hx).unwrap());
                                        out.tags.push(format!("chunk={}", crate::g_frame::len_class(unhex(hx).unwrap().len())));
                                    }
                                }
                            }
                            ["read", h, _n] => {
                                if let Some(hd) = n.handles.get(h.parse::<usize>().unwrap()) {
                                    let sid = hd.stream.id();
                                    let rd = 1 - dirbit; // data read here was written by the other node
                                    if let Some(hx) = o.strip_prefix("data ") {
                                        let hx = hx.split(' ').next().unwrap();
                                        let b = unhex(hx).unwrap();
                                        if b.is_empty() {
                                            out.oracle.push(OracleFail { sig: "zero_byte_read/stream_reader".into(), detail: format!("read on stream {sid} returned 0 bytes without end of stream") });
                                        }
                                        readb.entry((rd, sid)).or_default().extend_from_slice(&b);
                                    } else if o.starts_with("eof") {
                                        if !fin_sent.contains(&(rd, sid)) {
                                            out.oracle.push(OracleFail { sig: "premature_eof/stream_reader".into(), detail: format!("stream {sid} reported end of stream while open") });
                                        } else if !faults && readb.get(&(rd, sid)).cloned().unwrap_or_default() != written.get(&(rd, sid)).cloned().unwrap_or_default() {
                                            // O (C08): end of stream only after every byte sent before the close
                                            out.oracle.push(OracleFail { sig: "eof_before_all_data/stream_reader".into(), detail: format!("stream {sid}: end of stream after {} of {} bytes", readb.get(&(rd, sid)).map(|v| v.len()).unwrap_or(0), written.get(&(rd, sid)).map(|v| v.len()).unwrap_or(0)) });
                                        }
                                    }
                                    // O: prefix at all times
                                    let r = readb.get(&(rd, sid)).cloned().unwrap_or_default();
                                    let w = written.get(&(rd, sid)).cloned().unwrap_or_default();
                                    if !w.starts_with(&r) {
                                        out.oracle.push(OracleFail { sig: format!("not_a_prefix/{}", if rd == 0 { "client_to_server" } else { "server_to_client" }),
                                            detail: format!("stream {sid}: {} bytes read are not a prefix of the {} bytes submitted", r.len(), w.len()) });
                                    }
                                }
                            }
                            // a FIN for a stream of the pipe ends this node's direction of it (a half-close, not a fault)
                            ["ctl", "Fin", sid, ..] if sid.parse::<u32>().map(|v| opened.contains(&v)).unwrap_or(false) && o.starts_with("ok") => { fin_sent.insert((dirbit, sid.parse().unwrap())); }
                            ["ctl", c, ..] if *c == "Fin" || *c == "Alert" => { faults = true; }
                            ["close"] | ["eof"] | ["rderr"] | ["budget", ..] => { faults = true; }
                            _ => {}
                        }
                        if o.starts_with("blocked") {
                            out.oracle.push(OracleFail { sig: format!("blocked_forever/{}", rest[0]), detail: line.clone() });
                        }
                        out.obs.push(o);
                    }
                    _ => out.obs.push("bad-op".into()),
                }
            }
            if let Some(mut n) = c.take() { n.shutdown(); }
            if let Some(mut n) = s.take() { n.shutdown(); }
        });
        anytls_rs::verif::set_draw_controller(None);
        out.nontrivial = case.lines.iter().any(|l| l.contains(" write ") || l.contains(" send "));
        out
    }
}

#[allow(dead_code)]
fn _unused() { let _ = ref_encode(0, 0, &[]); }
