//! group `pool` (C12, C13): the real `SessionPool` with real client sessions on in-memory transports
//! under virtual time.  Every op occupies one 10 ms slot; the pool is created 5 ms into its slot (so
//! the periodic reaper never ticks on a slot boundary) and an explicit `cleanup` runs 7 ms into its slot.
use crate::node::*;
use crate::util::*;
use crate::Group;
use anytls_rs::client::{SessionPool, SessionPoolConfig};
use std::sync::Arc;
use std::time::Duration;

pub struct PoolGroup;

impl Group for PoolGroup {
    fn default_cases(&self, tier: &str) -> u64 { if tier == "thorough" { 30_000 } else { 1_000 } }

    fn fixed(&self, _tier: &str) -> Vec<Case> {
        let l = |v: &[&str]| Case { lines: v.iter().map(|s| s.to_string()).collect() };
        vec![
            // a request during a reaper pass that has two sessions to close (slow shutdowns)
            l(&["pool reset 1000000 50 1", "pool mk", "pool mk", "pool mk", "pool add 0", "pool add 1", "pool add 2", "pool adv 100", "pool cleanupbg 3", "pool get", "pool state"]),
            l(&["pool reset 1000000 50 1", "pool mk", "pool mk", "pool mk", "pool add 0", "pool add 1", "pool add 2", "pool adv 100", "pool cleanupbg 25", "pool get", "pool state"]),
            l(&["pool reset 1000000 50 0", "pool mk", "pool mk", "pool mk", "pool mk", "pool add 0", "pool add 1", "pool add 2", "pool add 3", "pool adv 100", "pool cleanupbg 25", "pool get", "pool get", "pool state"]),
            // regression witness (DESIGN §6 D11): the first stream of a new session is open, min_idle = 0, one tick after the timeout
            l(&["pool reset 100 200 0", "pool mk", "pool add 0", "pool open 0", "pool adv 400", "pool state"]),
            l(&["pool reset 50 100 2", "pool mk", "pool mk", "pool mk", "pool add 0", "pool add 1", "pool add 2", "pool adv 300", "pool state", "pool get", "pool get", "pool get", "pool get"]),
            // a request lands inside a pass of the periodic reaper whose shutdowns are slow
            l(&["pool reset 100 300 1", "pool mk", "pool mk", "pool mk", "pool add 0", "pool add 1", "pool add 2", "pool adv 250", "pool racebg 25"]),
            l(&["pool reset 100 300 0", "pool mk", "pool mk", "pool mk", "pool mk", "pool add 0", "pool add 1", "pool add 2", "pool add 3", "pool adv 250", "pool racebg 40"]),
            l(&["pool reset 50 100 2", "pool mk", "pool mk", "pool mk", "pool mk", "pool add 3", "pool add 1", "pool add 0", "pool add 2", "pool adv 60", "pool racebg 7"]),
            // an old healthy session and a recently parked one that died: the dead one must not use up the idle minimum (both seq orders)
            l(&["pool reset 100 600 1", "pool mk", "pool mk", "pool add 1", "pool adv 450", "pool add 0", "pool die 0", "pool adv 250", "pool state", "pool get", "pool state"]),
            l(&["pool reset 100 600 1", "pool mk", "pool mk", "pool add 0", "pool adv 450", "pool add 1", "pool die 1", "pool adv 250", "pool state", "pool get", "pool state"]),
            l(&["pool reset 100 300 1", "pool mk", "pool mk", "pool add 0", "pool add 1", "pool adv 250", "pool die 0", "pool adv 100", "pool state", "pool get", "pool state"]),
            l(&["pool reset 100 300 1", "pool mk", "pool mk", "pool add 0", "pool add 1", "pool adv 250", "pool die 1", "pool adv 100", "pool state", "pool get", "pool state"]),
        ]
    }

    fn generate(&self, rng: &mut Rng, _tier: &str, _idx: u64) -> Case {
        let interval = *rng.pick(&[50u64, 100, 200, 500]);
        let timeout = *rng.pick(&[50u64, 100, 200, 400, 1000]);
        let min = *rng.pick(&[0u64, 1, 2, 5]);
        let mut lines = vec![format!("pool reset {interval} {timeout} {min}")];
        if rng.chance(1, 8) {
            // a request arrives while a reaper pass is closing sessions (slow shutdowns); no periodic pass interferes
            let k = rng.range(2, 6);
            let mut lines = vec![format!("pool reset 1000000 {timeout} {}", rng.below(3))];
            for _ in 0..k { lines.push("pool mk".into()); }
            for i in 0..k { lines.push(format!("pool add {i}")); }
            if rng.chance(1, 3) { lines.push(format!("pool die {}", rng.below(k))); }
            lines.push(format!("pool adv {}", timeout + rng.pick(&[0u64, 10, 500])));
            lines.push(format!("pool cleanupbg {}", rng.pick(&[3u64, 25, 40])));
            for _ in 0..rng.range(1, 3) { lines.push("pool get".into()); }
            lines.push("pool state".into());
            return Case { lines };
        }
        if rng.chance(1, 2) {
            // structured history: several idle sessions, some die while idle, the rest expire together
            let k = rng.range(1, 6);
            for _ in 0..k { lines.push("pool mk".into()); }
            for i in 0..k { if rng.chance(5, 6) { lines.push(format!("pool add {i}")); } }
            if rng.chance(1, 2) { lines.push(format!("pool adv {}", rng.pick(&[10u64, 40, 100]))); }
            if rng.chance(1, 3) { lines.push("pool get".into()); }
            for i in 0..k { if rng.chance(1, 3) { lines.push(format!("pool die {i}")); } }
            if rng.chance(1, 3) { let i = rng.below(k); lines.push(format!("pool open {i}")); }
            lines.push(if rng.chance(1, 4) { "pool cleanup".to_string() } else { format!("pool adv {}", rng.pick(&[timeout, timeout + interval, 2 * timeout + interval, 50, 1000])) });
            lines.push("pool state".into());
            if rng.chance(1, 2) { lines.push("pool cleanup".into()); lines.push("pool state".into()); }
            for _ in 0..k { lines.push("pool get".into()); }
            lines.push("pool state".into());
            return Case { lines };
        }
        if rng.chance(1, 10) {
            let k = rng.range(2, 6);
            for _ in 0..k { lines.push("pool mk".into()); }
            let mut order: Vec<u64> = (0..k).collect();
            for i in (1..order.len()).rev() { let j = rng.below(i as u64 + 1) as usize; order.swap(i, j); }
            for i in &order { lines.push(format!("pool add {i}")); if rng.chance(1, 3) { lines.push(format!("pool adv {}", rng.pick(&[10u64, 50, timeout / 2]))); } }
            if rng.chance(1, 3) { lines.push(format!("pool die {}", rng.pick(&order))); }
            lines.push(format!("pool adv {}", timeout.saturating_sub(*rng.pick(&[10u64, 30, 50]))));
            lines.push(format!("pool racebg {}", rng.pick(&[3u64, 7, 25, 40])));
            return Case { lines };
        }
        if rng.chance(1, 3) {
            // staggered history: sessions parked at different times (different idle ages at the next pass), in any
            // seq order; some die while parked (recently or long ago); then time moves across one or more passes
            let k = rng.range(2, 6);
            for _ in 0..k { lines.push("pool mk".into()); }
            let mut order: Vec<u64> = (0..k).collect();
            for i in (1..order.len()).rev() { let j = rng.below(i as u64 + 1) as usize; order.swap(i, j); }
            for i in &order {
                lines.push(format!("pool add {i}"));
                let gap = *rng.pick(&[0u64, 10, timeout / 2, timeout.saturating_sub(10), timeout, interval]);
                if gap > 0 && rng.chance(2, 3) { lines.push(format!("pool adv {gap}")); }
                if rng.chance(1, 4) { lines.push(format!("pool die {}", rng.pick(&order))); }
            }
            lines.push(format!("pool adv {}", rng.pick(&[interval, interval + 10, timeout / 2 + 10, timeout, timeout + interval])));
            lines.push("pool state".into());
            for _ in 0..rng.range(1, 3) { lines.push("pool get".into()); }
            lines.push("pool state".into());
            return Case { lines };
        }
        let mut n = 0u64;
        for _ in 0..rng.range(4, 30) {
            let k = rng.below(100);
            let l = if n == 0 || k < 15 { n += 1; "mk".to_string() } else {
                let i = rng.below(n);
                match k {
                    15..=34 => format!("add {i}"),
                    35..=49 => "get".to_string(),
                    50..=57 => format!("die {i}"),
                    58..=64 => "cleanup".to_string(),
                    65..=84 => format!("adv {}", rng.pick(&[10u64, 40, 50, 100, 150, 200, 400, 1000])),
                    85..=89 => format!("open {i}"),
                    _ => "state".to_string(),
                }
            };
            lines.push(format!("pool {l}"));
        }
        lines.push("pool state".into());
        Case { lines }
    }

    fn exec(&self, case: &Case) -> Outcome {
        let rt = runtime();
        let mut out = Outcome::default();
        rt.block_on(async {
            let t0 = tokio::time::Instant::now();
            let mut pool: Option<Arc<SessionPool>> = None;
            let mut cfg = (0u64, 0u64, 0u64);
            let mut nodes: Vec<Node> = vec![];
            // oracle bookkeeping
            let mut open_streams: Vec<u32> = vec![];      // per session: streams the harness holds open
            let mut held: Vec<Arc<anytls_rs::session::Stream>> = vec![];
            // sessions put into the idle map and not handed out since (the reaper removes an entry only by
            // closing its session, `get` only drops closed entries: an open member must still be in the map)
            let mut idle_shadow: Vec<usize> = vec![];
            // sessions handed out by `get` (no longer in the idle map: housekeeping has no business with them)
            let mut taken: Vec<usize> = vec![];
            // healthy idle sessions that housekeeping closed although that left fewer open idle sessions than the minimum
            let mut lost: Vec<usize> = vec![];
            let mut bg: Option<tokio::task::JoinHandle<()>> = None;
            for line in &case.lines {
                let toks: Vec<&str> = line.split_whitespace().collect();
                let slot_start = (tokio::time::Instant::now() - t0).as_millis() as u64;
                let slot_end = t0 + Duration::from_millis(slot_start + 10);
                let was_closed: Vec<bool> = nodes.iter().map(|n| n.session.is_closed()).collect();
                let mut by_owner: Option<usize> = None;
                let o: String = match toks.as_slice() {
                    ["pool", "reset", i, t, m] => {
                        let (Ok(i), Ok(t), Ok(m)) = (i.parse::<u64>(), t.parse::<u64>(), m.parse::<u64>()) else { out.obs.push("bad-op".into()); continue; };
                        tokio::time::sleep(Duration::from_millis(5)).await;
                        cfg = (i, t, m);
                        pool = Some(Arc::new(SessionPool::with_config(SessionPoolConfig { check_interval: Duration::from_millis(i), idle_timeout: Duration::from_millis(t), min_idle_sessions: m as usize })));
                        "ok".into()
                    }
                    ["pool", "mk"] => {
                        let (n, _) = Node::new("client", b"stop=0", false, vec![], None).await.unwrap();
                        n.session.set_seq(nodes.len() as u64);
                        nodes.push(n); open_streams.push(0);
                        format!("ok {}", nodes.len() - 1)
                    }
                    ["pool", "add", i] => {
                        let (Some(p), Some(n)) = (pool.as_ref(), i.parse::<usize>().ok().and_then(|i| nodes.get(i))) else { out.obs.push("nonode".into()); continue; };
                        p.add_idle_session(n.session.clone()).await;
                        let idx: usize = i.parse().unwrap();
                        if !n.session.is_closed() && !idle_shadow.contains(&idx) { idle_shadow.push(idx); }
                        taken.retain(|x| *x != idx);
                        "ok".into()
                    }
                    ["pool", "get"] => {
                        let Some(p) = pool.as_ref() else { out.obs.push("nonode".into()); continue; };
                        let got = p.get_idle_session().await;
                        // (judged after the call: a pass of the reaper that runs concurrently finishes first - the call waits for the pool lock)
                        let healthy: Vec<usize> = idle_shadow.iter().copied().filter(|i| !nodes[*i].session.is_closed()).collect();
                        // O (C13/C12): a request is served by an idle, healthy session whenever one exists
                        // O (C13): a request that overlaps with no other finds the session the idle minimum was meant to keep
                        if got.is_none() && !lost.is_empty() {
                            out.oracle.push(OracleFail { sig: "non_overlapping_request_redials/idle_minimum_not_kept".into(), detail: format!("the request finds no session: housekeeping had closed the healthy idle session(s) {lost:?} below the idle minimum {} (interval {} ms, timeout {} ms)", cfg.2, cfg.0, cfg.1) });
                        }
                        if got.is_some() { lost.clear(); }
                        if got.is_none() && !healthy.is_empty() {
                            out.oracle.push(OracleFail { sig: "healthy_idle_session_ignored/get_idle_session".into(), detail: format!("no session returned although the open sessions {healthy:?} are idle in the pool") });
                        }
                        match got {
                            Some(s) => {
                                let idx = nodes.iter().position(|n| Arc::ptr_eq(&n.session, &s)).unwrap_or(999);
                                idle_shadow.retain(|x| *x != idx);
                                if idx < nodes.len() { taken.push(idx); }
                                // O (C12): the pool never returns a session that is already closed
                                if s.is_closed() { out.oracle.push(OracleFail { sig: "closed_session_handed_out/get_idle_session".into(), detail: format!("session {idx} is closed") }); }
                                format!("some {idx}")
                            }
                            None => "none".into(),
                        }
                    }
                    ["pool", "die", i] => {
                        let Some(n) = i.parse::<usize>().ok().and_then(|i| nodes.get(i)) else { out.obs.push("nonode".into()); continue; };
                        by_owner = i.parse::<usize>().ok();
                        let _ = n.session.close().await;
                        "ok".into()
                    }
                    ["pool", "open", i] => {
                        // a stream opened on the session and kept open by the application
                        let Some(n) = i.parse::<usize>().ok().and_then(|i| nodes.get(i)) else { out.obs.push("nonode".into()); continue; };
                        match n.session.open_stream().await { Ok((s, _)) => { held.push(s); open_streams[i.parse::<usize>().unwrap()] += 1; "ok".into() } Err(_) => "err".into() }
                    }
                    ["pool", "cleanup"] => {
                        let Some(p) = pool.as_ref() else { out.obs.push("nonode".into()); continue; };
                        tokio::time::sleep(Duration::from_millis(7)).await;
                        p.cleanup_expired().await;
                        "ok".into()
                    }
                    ["pool", "cleanupbg", ms] => {
                        // a reaper pass whose session shutdowns take `ms` each, running concurrently with the following ops
                        let Some(p) = pool.as_ref() else { out.obs.push("nonode".into()); continue; };
                        let ms: u64 = ms.parse().unwrap_or(0);
                        for n in nodes.iter() { n.wire.lock().unwrap().shutdown_delay = Some(Duration::from_millis(ms)); }
                        tokio::time::sleep(Duration::from_millis(7)).await;
                        let p2 = p.clone();
                        bg = Some(tokio::spawn(async move { p2.cleanup_expired().await; }));
                        tokio::time::sleep(Duration::from_millis(1)).await;
                        "ok".into()
                    }
                    ["pool", "racebg", ms] => {
                        // last op of a case: the PERIODIC reaper's next pass runs with session shutdowns that take `ms` each, and
                        // a request arrives while that pass is under way (detected by the first session it closes).  The model has
                        // no notion of "inside a pass": this op is judged by the oracles only.
                        let Some(p) = pool.as_ref() else { out.obs.push("nonode".into()); continue; };
                        let ms: u64 = ms.parse().unwrap_or(0);
                        for n in nodes.iter() { n.wire.lock().unwrap().shutdown_delay = Some(Duration::from_millis(ms)); }
                        let limit = 3 * cfg.0 + cfg.1 + 100;
                        let mut started = false;
                        for _ in 0..limit {
                            if idle_shadow.iter().any(|i| !was_closed[*i] && nodes[*i].session.is_closed()) { started = true; break; }
                            tokio::time::sleep(Duration::from_millis(1)).await;
                        }
                        let got = tokio::time::timeout(Duration::from_millis(ms * (nodes.len() as u64 + 2) + 1000), p.get_idle_session()).await.unwrap_or(None);
                        let o = match &got {
                            Some(sn) => {
                                let idx = nodes.iter().position(|n| Arc::ptr_eq(&n.session, sn)).unwrap_or(999);
                                idle_shadow.retain(|x| *x != idx);
                                if idx < nodes.len() { taken.push(idx); }
                                if sn.is_closed() { out.oracle.push(OracleFail { sig: "closed_session_handed_out/get_idle_session".into(), detail: format!("session {idx} is closed") }); }
                                // the application starts using it
                                if let Ok((st, _)) = sn.open_stream().await { held.push(st); if idx < open_streams.len() { open_streams[idx] += 1; } }
                                format!("some {idx}")
                            }
                            None => "none".into(),
                        };
                        // let the pass finish
                        tokio::time::sleep(Duration::from_millis(ms * (nodes.len() as u64 + 1) + 20)).await;
                        format!("raced={} {o}", started as u8)
                    }
                    ["pool", "adv", ms] => {
                        let ms: u64 = ms.parse().unwrap_or(0);
                        tokio::time::sleep(Duration::from_millis(ms)).await;
                        "ok".into()
                    }
                    ["pool", "state"] => {
                        let Some(p) = pool.as_ref() else { out.obs.push("nonode".into()); continue; };
                        if let Some(h) = bg.take() { let _ = tokio::time::timeout(WATCHDOG, h).await; }
                        let closed: Vec<String> = nodes.iter().enumerate().filter(|(_, n)| n.session.is_closed()).map(|(i, _)| i.to_string()).collect();
                        format!("idle={} closed=[{}]", p.idle_count().await, closed.join(","))
                    }
                    _ => "bad-op".into(),
                };
                // O (C12): sessions closed during this op by pool housekeeping must have no open stream
                for (i, n) in nodes.iter().enumerate() {
                    if i < was_closed.len() && !was_closed[i] && n.session.is_closed() && by_owner != Some(i) && open_streams[i] > 0 {
                        out.oracle.push(OracleFail { sig: "reaper_closed_busy_session/session_idle_since_creation".into(), detail: format!("session {i} was closed by pool housekeeping while {} stream(s) were open on it (interval {} ms, timeout {} ms, min_idle {})", open_streams[i], cfg.0, cfg.1, cfg.2) });
                    }
                }
                // O (C12): housekeeping never touches a session that a request has taken out of the pool
                for (i, n) in nodes.iter().enumerate() {
                    if i < was_closed.len() && !was_closed[i] && n.session.is_closed() && by_owner != Some(i) && taken.contains(&i) {
                        out.oracle.push(OracleFail { sig: "reaper_closed_taken_session/handed_out_during_cleanup".into(), detail: format!("session {i} had been handed out by get_idle_session and was closed by pool housekeeping afterwards (timeout {} ms, min_idle {})", cfg.1, cfg.2) });
                    }
                }
                // O (C12): housekeeping never closes a healthy session when that leaves fewer idle sessions than the configured minimum
                let closed_by_hk: Vec<usize> = nodes.iter().enumerate().filter(|(i, n)| *i < was_closed.len() && !was_closed[*i] && n.session.is_closed() && by_owner != Some(*i)).map(|(i, _)| i).collect();
                // (racebg takes a session out of the map in the same op: what is left afterwards says nothing about the pass)
                if !closed_by_hk.is_empty() && !matches!(toks.as_slice(), ["pool", "racebg", _]) {
                    if let Some(p) = pool.as_ref() {
                        let idle_after = p.idle_count().await;
                        // the sessions that count are the usable ones: entries of the idle map that are still open
                        // (a dead session that merely sits in the map is not an idle session anyone can be given)
                        let healthy_after = idle_shadow.iter().filter(|i| !nodes[**i].session.is_closed()).count();
                        if (idle_after as u64) < cfg.2 || ((healthy_after as u64) < cfg.2 && closed_by_hk.iter().any(|i| idle_shadow.contains(i))) {
                            lost.extend(closed_by_hk.iter().copied().filter(|i| idle_shadow.contains(i)));
                            out.oracle.push(OracleFail { sig: "fewer_than_min_idle/reaper".into(), detail: format!("pool housekeeping closed healthy session(s) {closed_by_hk:?} and left {idle_after} entries in the idle map, {healthy_after} of them open; min_idle is {} (interval {} ms, timeout {} ms)", cfg.2, cfg.0, cfg.1) });
                        }
                    }
                }
                out.tags.push(format!("op={}", toks.get(1).unwrap_or(&"")));
                out.obs.push(o);
                if !matches!(toks.as_slice(), ["pool", "adv", _]) { tokio::time::sleep_until(slot_end).await; }
            }
            if let Some(p) = pool { p.stop_cleanup_task().await; }
            for n in nodes.iter_mut() { n.shutdown(); }
        });
        out.nontrivial = case.lines.len() > 4;
        out
    }
}
