//! group `push` (C19): several client sessions of one process, schemes pushed by a scripted
//! server (UpdatePaddingScheme frames), the process-wide default and the scheme new sessions get.
use crate::g_frame::ref_encode;
use crate::g_pad::{allowed, parse_scheme_ref};
use crate::g_sess::md5_hex;
use crate::node::*;
use crate::schemes::*;
use crate::util::*;
use crate::Group;
use anytls_rs::padding::PaddingFactory;

pub struct PushGroup;

struct Sess { node: Node, scheme: Vec<u8>, pkt: u64, first: bool, settings_len: u64 }

impl Group for PushGroup {
    fn default_cases(&self, tier: &str) -> u64 { if tier == "thorough" { 5_000 } else { 300 } }

    fn fixed(&self, _tier: &str) -> Vec<Case> {
        // regression witness (DESIGN §6 D16): the default has been used, then two pushes in a row, then a new session
        let s1 = b"stop=3\n1=20-20\n2=30-30";
        let s2 = b"stop=2\n1=40-40";
        vec![Case { lines: vec![
            "push begin".into(), "push new".into(), "push nobuf 0".into(), "push ctl 0 1 Push 1 aa".into(),
            format!("push feed 0 {}", hex(&ref_encode(6, 0, s1))), "push state 0".into(), "push ctl 0 2 Push 1 bb".into(),
            format!("push feed 0 {}", hex(&ref_encode(6, 0, s2))), "push state 0".into(),
            "push new".into(), "push state 1".into(), "push nobuf 1".into(), "push ctl 1 3 Push 1 cc".into(),
        ] }]
    }

    fn generate(&self, rng: &mut Rng, _tier: &str, _idx: u64) -> Case {
        // process-scoped histories (fresh child process: nothing pushed yet, default used or not)
        let mut lines = if rng.chance(1, 4) {
            let cfg = match rng.below(3) { 0 => DEFAULT_SCHEME.as_bytes().to_vec(), _ => gen_scheme(rng, false) };
            vec![format!("push proc {} {}", hex(&cfg), rng.below(2))]
        } else { vec!["push begin".to_string()] };
        let proc_case = lines[0].starts_with("push proc");
        let mut n = 0u64;
        for _ in 0..rng.range(4, 22) {
            let k = rng.below(100);
            if n == 0 || k < 12 {
                lines.push("push new".into());
                lines.push(format!("push nobuf {n}"));
                lines.push(format!("push ctl {n} {} Push 1 {}", rng.next() % 100000, hex_compact(&{ let l = rng.below(30) as usize; rng.bytes(l) })));
                n += 1;
                continue;
            }
            let i = rng.below(n);
            if k < 40 {
                // a push: parseable scheme (small sizes), or something the client cannot parse, or an empty payload
                let raw = match rng.below(6) { 0 => gen_bad_scheme(rng), 1 => vec![], 2 => DEFAULT_SCHEME.as_bytes().to_vec(), 3 if proc_case => DEFAULT_SCHEME.as_bytes().to_vec(), _ => gen_scheme(rng, false) };
                lines.push(format!("push feed {i} {}", hex(&ref_encode(6, 0, &raw))));
            } else if k < 80 {
                let l = match rng.below(4) { 0 => 0, 1 => rng.range(1, 30) as usize, 2 => rng.range(80, 500) as usize, _ => rng.below(100) as usize };
                lines.push(format!("push ctl {i} {} Push 1 {}", rng.next() % 100000, hex_compact(&{ if l > 100 { vec![0x31; l] } else { rng.bytes(l) } })));
            } else if k < 95 {
                lines.push(format!("push state {i}"));
            } else {
                // unrelated frames keep flowing
                lines.push(format!("push feed {i} {}", hex(&ref_encode(9, 0, &[]))));
            }
        }
        for i in 0..n { lines.push(format!("push state {i}")); }
        lines.push("push new".into());
        lines.push(format!("push state {n}"));
        Case { lines }
    }

    fn exec(&self, case: &Case) -> Outcome {
        if case.lines.first().map(|l| l.starts_with("push proc")).unwrap_or(false) && std::env::var("VH_CHILD").is_err() {
            return exec_in_child("push", case);
        }
        let rt = runtime();
        let mut out = Outcome::default();
        rt.block_on(async {
            let mut sessions: Vec<Sess> = vec![];
            let mut client = None;
            let mut global: Vec<u8> = DEFAULT_SCHEME.as_bytes().to_vec();
            // in a `begin` case the harness itself has stored a scheme; in a `proc` case only real pushes count
            let mut pushed_any = !case.lines.first().map(|l| l.starts_with("push proc")).unwrap_or(false);
            for line in &case.lines {
                let toks: Vec<&str> = line.split_whitespace().collect();
                let o = match toks.as_slice() {
                    ["push", "begin"] => {
                        // normalise the process-wide default (the harness runs many cases in one process)
                        let r = PaddingFactory::update_default(DEFAULT_SCHEME.as_bytes());
                        if r.is_err() {
                            out.oracle.push(OracleFail { sig: "default_not_replaceable/update_default".into(), detail: "update_default failed although the scheme parses".into() });
                        }
                        client = Some(crate::e2e::client_for("127.0.0.1:9", anytls_rs::client::SessionPoolConfig::default(), PaddingFactory::default()));
                        global = DEFAULT_SCHEME.as_bytes().to_vec();
                        "ok".to_string()
                    }
                    ["push", "proc", cfg, used] => {
                        // a fresh process: nothing normalised, nothing pushed yet
                        let Some(cfg) = unhex(cfg) else { out.obs.push("bad-op".into()); continue; };
                        if *used == "1" { let _ = PaddingFactory::default(); }
                        match PaddingFactory::new(&cfg) {
                            Ok(f) => {
                                client = Some(crate::e2e::client_for("127.0.0.1:9", anytls_rs::client::SessionPoolConfig::default(), std::sync::Arc::new(f)));
                                global = cfg.clone();
                                out.tags.push(format!("proc/default_used={used}"));
                                "ok".to_string()
                            }
                            Err(_) => "reject".to_string(),
                        }
                    }
                    ["push", "new"] => {
                        let Some(c) = client.as_ref() else { out.obs.push("nonode".into()); continue; };
                        let factory = c.verif_padding();
                        let (node, o) = Node::client_with(factory).await;
                        let (_, sl) = node.session.verif_buffer_state().await;
                        // O (C19): a session opened after a push announces the pushed scheme
                        let want = format!("padding-md5={}", md5_hex(&global));
                        let (_, raw) = node.session.verif_padding().await;
                        if raw != global {
                            out.oracle.push(OracleFail { sig: "new_session_ignores_pushed_scheme/client_create_session".into(), detail: format!("the process adopted md5 {}, the new session uses md5 {}", md5_hex(&global), md5_hex(&raw)) });
                        }
                        let _ = want;
                        sessions.push(Sess { node, scheme: global.clone(), pkt: 1, first: true, settings_len: sl as u64 });
                        o
                    }
                    ["push", "nobuf", i] => {
                        let Some(s) = i.parse::<usize>().ok().and_then(|i| sessions.get_mut(i)) else { out.obs.push("nonode".into()); continue; };
                        s.node.op(&["nobuf"]).await
                    }
                    ["push", "feed", i, hx] => {
                        let Some(s) = i.parse::<usize>().ok().and_then(|i| sessions.get_mut(i)) else { out.obs.push("nonode".into()); continue; };
                        let o = s.node.op(&["feed", hx]).await;
                        // track what a correct client must have adopted
                        let bytes = unhex(hx).unwrap_or_default();
                        let (frames, _) = crate::g_frame::ref_parse(&bytes);
                        for (c, _, d) in frames {
                            if c == 6 && !d.is_empty() {
                                if parse_scheme_ref(&d).is_some() { s.scheme = d.clone(); global = d.clone(); pushed_any = true; out.tags.push("push/parseable".into()); } else { out.tags.push("push/unparseable".into()); }
                            }
                        }
                        if s.node.session.is_closed() {
                            out.oracle.push(OracleFail { sig: "push_disturbed_session/update_padding_scheme".into(), detail: "the session is closed after an UpdatePaddingScheme frame".into() });
                        }
                        o
                    }
                    ["push", "ctl", i, seed, c, sid, hx] => {
                        let Some(s) = i.parse::<usize>().ok().and_then(|i| sessions.get_mut(i)) else { out.obs.push("nonode".into()); continue; };
                        install_draws(seed.parse().unwrap_or(0));
                        let before = s.node.wire.lock().unwrap().writes.len();
                        let o = s.node.op(&["ctl", c, sid, hx]).await;
                        let writes: Vec<u64> = s.node.wire.lock().unwrap().writes[before..].iter().map(|x| x.len() as u64).collect();
                        let flen = 7 + unhex(hx).map(|d| d.len()).unwrap_or(0) as u64;
                        let remain = flen + if s.first { s.settings_len } else { 0 };
                        s.first = false;
                        // O (C19 via C05's acceptor): the packet is shaped by the scheme the session must be using now
                        if let Some((stop, map)) = parse_scheme_ref(&s.scheme) {
                            let ok = if s.pkt >= stop { writes == vec![remain] } else {
                                let specs = map.get(&s.pkt.to_string()).cloned().unwrap_or_default();
                                if specs.is_empty() { writes == vec![remain] } else { allowed(&specs, remain, &writes) }
                            };
                            if !ok {
                                out.oracle.push(OracleFail { sig: "packet_not_shaped_by_pushed_scheme/write_with_padding".into(), detail: format!("packet {} of {remain} bytes written as {:?} under scheme md5 {}", s.pkt, writes, md5_hex(&s.scheme)) });
                            }
                        }
                        s.pkt += 1;
                        o
                    }
                    ["push", "state", i] => {
                        let Some(s) = i.parse::<usize>().ok().and_then(|i| sessions.get_mut(i)) else { out.obs.push("nonode".into()); continue; };
                        let (m, raw) = s.node.session.verif_padding().await;
                        let g = PaddingFactory::default();
                        if raw != s.scheme {
                            out.oracle.push(OracleFail { sig: "pushed_scheme_not_adopted/update_padding_scheme".into(), detail: format!("session uses md5 {m}, the last parseable push was md5 {}", md5_hex(&s.scheme)) });
                        }
                        if pushed_any && g.raw_scheme() != &global[..] {
                            out.oracle.push(OracleFail { sig: "pushed_scheme_not_adopted/process_default".into(), detail: format!("process default md5 {}, last parseable push md5 {}", g.md5(), md5_hex(&global)) });
                        }
                        format!("md5={m} gmd5={} closed={} pkt={}", if pushed_any { g.md5().to_string() } else { "-".to_string() }, s.node.session.is_closed() as u8, s.node.session.verif_pkt_counter())
                    }
                    _ => "bad-op".to_string(),
                };
                out.obs.push(o);
            }
            if let Some(c) = client { c.stop_session_pool_cleanup().await; }
            for s in sessions.iter_mut() { s.node.shutdown(); }
        });
        anytls_rs::verif::set_draw_controller(None);
        out.nontrivial = out.tags.iter().any(|t| t.starts_with("push/"));
        out
    }
}

/// run one case in a fresh child process (process-wide statics of the library make some histories
/// process-scoped); the child is this binary in `--replay` mode
pub fn exec_in_child(group: &str, case: &Case) -> Outcome {
    let dir = std::env::temp_dir().join(format!("vh-child-{}-{}", std::process::id(), std::time::SystemTime::now().duration_since(std::time::UNIX_EPOCH).unwrap().as_nanos()));
    let base = std::env::var("VH_SCRATCH").map(std::path::PathBuf::from).unwrap_or(dir);
    let dir = base.join(format!("child-{}", std::time::SystemTime::now().duration_since(std::time::UNIX_EPOCH).unwrap().as_nanos()));
    std::fs::create_dir_all(&dir).unwrap();
    let f = dir.join("case.txt");
    std::fs::write(&f, format!("# case 0\n{}\n", case.lines.join("\n"))).unwrap();
    let exe = std::env::current_exe().unwrap();
    let st = std::process::Command::new(exe).args([group, "--replay", f.to_str().unwrap(), "--out", dir.to_str().unwrap()]).env("VH_CHILD", "1").output();
    let mut out = Outcome::default();
    match st {
        Ok(o) if o.status.success() => {
            let trace = std::fs::read_to_string(dir.join("trace.txt")).unwrap_or_default();
            for l in trace.lines() { if l.starts_with('#') || l.is_empty() { continue; } out.obs.push(l.split_once(" => ").map(|x| x.1.to_string()).unwrap_or_default()); }
            for l in std::fs::read_to_string(dir.join("oracle.jsonl")).unwrap_or_default().lines() {
                // {"case":0,"sig":"..","detail":".."}
                let sig = l.split("\"sig\":\"").nth(1).and_then(|x| x.split('"').next()).unwrap_or("child").to_string();
                let detail = l.split("\"detail\":\"").nth(1).map(|x| x.trim_end_matches("\"}").to_string()).unwrap_or_default();
                out.oracle.push(OracleFail { sig, detail });
            }
            let stats = std::fs::read_to_string(dir.join("stats.json")).unwrap_or_default();
            out.nontrivial = stats.contains("\"nontrivial\":1");
            out.tags.push("child-process".into());
        }
        other => {
            out.obs = case.lines.iter().map(|_| "CHILD-DIED".to_string()).collect();
            out.oracle.push(OracleFail { sig: format!("process_died/{group}_child"), detail: format!("{:?}", other.map(|o| o.status)) });
        }
    }
    let _ = std::fs::remove_dir_all(&dir);
    out
}
