//! group `hx` (C20): an established victim session (either role) fed hostile bytes — random, valid traffic
//! mutated by bit flips / truncation / duplication / reordering / length-field corruption, every
//! command x id x length class, hostile settings and scheme payloads — next to an independent sibling
//! session of the same process that must keep working.  The ops are the `sess` ops on two nodes `v`, `w`.
use crate::g_frame::ref_encode;
use crate::g_sess::*;
use crate::node::*;
use crate::schemes::*;
use crate::util::*;
use crate::Group;
use std::sync::atomic::{AtomicUsize, Ordering};

pub struct HostileGroup;

pub static PANICS: AtomicUsize = AtomicUsize::new(0);

fn ascii_junk(rng: &mut Rng, n: usize) -> Vec<u8> { (0..n).map(|_| (rng.next() % 128) as u8).collect() }

/// a frame of valid shape whose payload may be hostile; text-parsed payloads stay ASCII (the model's text
/// functions are ASCII-level; non-ASCII text goes through from_utf8_lossy in the code)
fn hostile_frame(rng: &mut Rng, md5: &str) -> Vec<u8> {
    let cmd = if rng.chance(1, 4) { rng.next() as u8 } else { rng.below(11) as u8 };
    let sid = *rng.pick(&[0u32, 1, 2, 3, 0x7fff_ffff, 0xffff_ffff]);
    let data: Vec<u8> = match cmd {
        4 | 10 => match rng.below(6) {
            0 => format!("v={}\npadding-md5={}", rng.pick(&["2", "0", "255", "256", "-1", "99999999999999999999", "2 ", " 2", "+2", "2\r"]), if rng.chance(1, 2) { md5 } else { "x" }).into_bytes(),
            1 => { let n = rng.below(80) as usize; ascii_junk(rng, n) },
            2 => b"v=2\nv=1\nv=3\n=\n==\nv\n\n\npadding-md5".to_vec(),
            3 => { let n = rng.below(40) as usize; vec![b'='; n] }
            4 => { let mut v = b"v=2\n".to_vec(); v.extend(ascii_junk(rng, 2000)); v }
            _ => vec![],
        },
        6 => match rng.below(6) {
            0 => gen_scheme(rng, true),
            1 => gen_bad_scheme(rng),
            2 => b"stop=3\n1=2147483648-2147483648\n2=9223372036854775807-1,4294967295-4294967295,65536-65536".to_vec(),
            3 => { let n = rng.below(200) as usize; ascii_junk(rng, n) },
            4 => b"stop=4294967295\n0=1-1".to_vec(),
            _ => vec![],
        },
        5 | 7 => { let n = rng.below(30) as usize; ascii_junk(rng, n) },
        _ => { let n = *rng.pick(&[0usize, 1, 7, 100, 65535]); if n > 200 { vec![rng.next() as u8; n] } else { rng.bytes(n) } }
    };
    ref_encode(cmd, sid, &data)
}

fn mutate(rng: &mut Rng, w: &mut Vec<u8>) {
    if w.is_empty() { return; }
    match rng.below(6) {
        0 => { let i = rng.below(w.len() as u64) as usize; if i < 7 || w[0] == 2 { w[i] ^= 1 << rng.below(8); } else { w[i] ^= 1 << rng.below(7); w[i] &= 0x7f; } }
        1 => { let k = rng.below(w.len() as u64) as usize; w.truncate(k); }
        2 => { let c = w.clone(); w.extend(c); }
        3 => { if w.len() >= 7 { w[5] = rng.next() as u8; w[6] = rng.next() as u8; } }
        4 => { if w.len() >= 1 { w[0] = rng.next() as u8; } }
        _ => { if w.len() >= 5 { let v = rng.next() as u32; w[1..5].copy_from_slice(&v.to_be_bytes()); } }
    }
}

impl Group for HostileGroup {
    fn default_cases(&self, tier: &str) -> u64 { if tier == "thorough" { 100_000 } else { 2_000 } }

    fn fixed(&self, _tier: &str) -> Vec<Case> {
        let mut v = vec![];
        let sch = DEFAULT_SCHEME.as_bytes();
        // every command x id class x length class on both roles (header says len, payload present)
        for role in ["client", "server"] {
            let mut lines = vec![reset_line("hx v", role, sch, 1, if role == "server" { "cb=1" } else { "" }), reset_line("hx w", role, sch, 2, if role == "server" { "cb=1" } else { "" })];
            if role == "client" { lines.push("hx v nobuf".into()); lines.push("hx w nobuf".into()); }
            for cmd in 0..=11u8 { for sid in [0u32, 1, 0xffff_ffff] { for len in [0usize, 1, 300] {
                if cmd == 5 { continue; } // Alert ends the session: separate case
                let d = if cmd == 4 || cmd == 6 || cmd == 10 { vec![b'a'; len] } else { vec![0x41; len] };
                lines.push(format!("hx v feed {}", hex_compact(&ref_encode(cmd, sid, &d))));
            } } }
            lines.push("hx v state".into());
            lines.push(format!("hx v feed {}", hex(&ref_encode(8, 77, &[]))));
            lines.push(format!("hx w feed {}", hex(&ref_encode(8, 78, &[]))));
            lines.push(format!("hx v feed {}", hex(&ref_encode(5, 0, b"die"))));
            lines.push("hx v state".into());
            lines.push(format!("hx w feed {}", hex(&ref_encode(8, 79, &[]))));
            lines.push("hx w state".into());
            v.push(Case { lines });
        }
        // the pushed overflow scheme (DESIGN §6 D3): a server can no longer crash a client with it
        v.push(Case { lines: vec![reset_line("hx v", "client", sch, 1, ""), reset_line("hx w", "client", sch, 2, ""), "hx v nobuf".into(),
            format!("hx v feed {}", hex(&ref_encode(6, 0, b"stop=3\n1=2147483648-2147483648\n2=70000-70000"))),
            "hx v ctl Push 1 aa".into(), "hx v ctl Push 1 bb".into(), "hx v state".into(), format!("hx w feed {}", hex(&ref_encode(8, 1, &[]))), "hx w state".into()] });
        v
    }

    fn generate(&self, rng: &mut Rng, _tier: &str, _idx: u64) -> Case {
        let role = if rng.chance(1, 2) { "client" } else { "server" };
        let scheme = if rng.chance(1, 2) { DEFAULT_SCHEME.as_bytes().to_vec() } else { gen_scheme(rng, false) };
        let md5 = md5_hex(&scheme);
        let opts = if role == "server" { "cb=1" } else { "" };
        let mut lines = vec![reset_line("hx v", role, &scheme, rng.next() % 100000, opts), reset_line("hx w", role, &scheme, rng.next() % 100000, opts)];
        if role == "client" { lines.push("hx v nobuf".into()); lines.push("hx w nobuf".into()); if rng.chance(1, 2) { lines.push("hx v open".into()); } }
        // the peer may also go away in the middle of it: from some point on the victim's transport refuses writes (the
        // replies it owes - keep-alive answers, SYNACKs, settings - fail; it must still end up closed cleanly)
        let nfeeds = rng.range(2, 14);
        let gone_at = if rng.chance(1, 4) { Some(rng.below(nfeeds)) } else { None };
        for fi in 0..nfeeds {
            if gone_at == Some(fi) { lines.push(format!("hx v budget {}", rng.below(3))); }
            let mut w: Vec<u8> = match rng.below(10) {
                0 => { let n = rng.below(40) as usize; rng.bytes(n) }
                1..=5 => hostile_frame(rng, &md5),
                6 => { let mut a = hostile_frame(rng, &md5); a.extend(hostile_frame(rng, &md5)); a }
                _ => gen_frame_bytes(rng, role == "client", &md5),
            };
            if rng.chance(1, 3) { mutate(rng, &mut w); }
            if w.is_empty() { continue; }
            // fragment the hostile bytes
            if rng.chance(1, 3) && w.len() > 1 { let k = rng.range(1, w.len() as u64 - 1) as usize; lines.push(format!("hx v feed {}", hex_compact(&w[..k]))); lines.push(format!("hx v feed {}", hex_compact(&w[k..]))); }
            else { lines.push(format!("hx v feed {}", hex_compact(&w))); }
            if rng.chance(1, 6) { lines.push("hx v state".into()); }
            if role == "client" && rng.chance(1, 8) { lines.push(format!("hx v ctl Push 1 {}", hex(&rng.bytes(5)))); }
        }
        lines.push("hx v state".into());
        // probes: the victim (if still open) and the sibling must answer a keep-alive request
        lines.push(format!("hx v feed {}", hex(&ref_encode(8, 4242, &[]))));
        lines.push(format!("hx w feed {}", hex(&ref_encode(8, 4343, &[]))));
        lines.push("hx w state".into());
        Case { lines }
    }

    fn exec(&self, case: &Case) -> Outcome {
        let rt = runtime();
        let mut out = Outcome::default();
        let p0 = PANICS.load(Ordering::SeqCst);
        rt.block_on(async {
            let mut v: Option<Node> = None;
            let mut w: Option<Node> = None;
            // every byte fed to each node, for the reference parse (is a probe a frame of the stream at all?)
            let mut fed_v: Vec<u8> = vec![];
            let mut fed_w: Vec<u8> = vec![];
            let rv = std::sync::Arc::new(std::sync::Mutex::new(Rng(0)));
            let rw = std::sync::Arc::new(std::sync::Mutex::new(Rng(0)));
            for line in &case.lines {
                let toks: Vec<&str> = line.split_whitespace().collect();
                if toks.len() < 3 || toks[0] != "hx" { out.obs.push("bad-op".into()); continue; }
                let which = toks[1];
                let slot = if which == "v" { &mut v } else { &mut w };
                if toks[2] == "reset" {
                    match parse_reset(&toks[3..]) {
                        Some((role, scheme, seed, cb, ss)) => {
                            *(if which == "v" { &rv } else { &rw }).lock().unwrap() = Rng(seed);
                            install_draws_shared(if which == "v" { rv.clone() } else { rw.clone() });
                            match Node::new(&role, &scheme, cb, ss, None).await {
                                Ok((n, o)) => { *slot = Some(n); out.obs.push(o); }
                                Err(_) => out.obs.push("reject".into()),
                            }
                        }
                        None => out.obs.push("bad-op".into()),
                    }
                    continue;
                }
                let Some(n) = slot.as_mut() else { out.obs.push("nonode".into()); continue; };
                install_draws_shared(if which == "v" { rv.clone() } else { rw.clone() });
                let o = n.op(&toks[2..]).await;
                if o.starts_with("blocked") {
                    out.oracle.push(OracleFail { sig: format!("blocked_forever/{}", toks[2]), detail: format!("`{}` did not complete within the virtual watchdog", short(line)) });
                }
                if toks[2] == "feed" { if let Some(b) = unhex(toks[3]) { if which == "v" { fed_v.extend(b) } else { fed_w.extend(b) } } }
                // O (C20): a keep-alive probe that is a frame of the byte stream (hostile bytes may legitimately have
                // left the decoder in the middle of a huge frame) must be answered by an open session
                let probe_is_frame = {
                    let all = if which == "v" { &fed_v } else { &fed_w };
                    let (frames, _) = crate::g_frame::ref_parse(all);
                    let upto = frames.iter().position(|(c, _, _)| *c == 5).unwrap_or(frames.len());
                    frames[..upto].iter().any(|(c, sid, d)| *c == 8 && (*sid == 4242 || *sid == 4343) && d.is_empty())
                };
                if toks[2] == "feed" && probe_is_frame && (toks[3].ends_with(&hex(&ref_encode(8, 4242, &[]))) || toks[3].ends_with(&hex(&ref_encode(8, 4343, &[])))) && toks[3].len() == 14 {
                    let closed = n.session.is_closed();
                    let answered = o.contains("HeartResponse:4242") || o.contains("HeartResponse:4343");
                    if which == "w" && (closed || !answered) {
                        out.oracle.push(OracleFail { sig: "sibling_session_affected/hostile_input".into(), detail: format!("the sibling session is closed={closed}, answered its probe={answered}") });
                    }
                    if which == "v" && !closed && !answered {
                        out.oracle.push(OracleFail { sig: "session_wedged/hostile_input".into(), detail: "the victim session is neither closed nor answering a keep-alive request".into() });
                    }
                    if which == "v" && closed && !n.wire.lock().unwrap().shutdown {
                        out.oracle.push(OracleFail { sig: "session_not_closed_cleanly/hostile_input".into(), detail: "the victim session is closed but its transport was not shut down".into() });
                    }
                }
                out.obs.push(o);
            }
            if let Some(mut n) = v.take() { n.shutdown(); }
            if let Some(mut n) = w.take() { n.shutdown(); }
        });
        anytls_rs::verif::set_draw_controller(None);
        let p1 = PANICS.load(Ordering::SeqCst);
        if p1 > p0 {
            out.oracle.push(OracleFail { sig: "task_panicked/hostile_input".into(), detail: format!("{} panic(s) in library tasks during this case", p1 - p0) });
        }
        out.nontrivial = case.lines.len() > 5;
        out.tags.push(format!("lines={}", std::cmp::min(case.lines.len() / 5 * 5, 30)));
        out
    }
}

fn short(s: &str) -> String { if s.len() > 160 { format!("{}...", &s[..160]) } else { s.to_string() } }
