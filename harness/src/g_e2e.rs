//! group `e2e`: scenarios on the real-loopback world (see e2e.rs).  Oracle-only (no Lean model is
//! driven here); every failure carries a signature `<violated clause>/<mechanism>`.
use crate::e2e::*;
use crate::util::*;
use crate::Group;
use anytls_rs::client::SessionPoolConfig;
use std::sync::atomic::Ordering;
use std::time::Duration;
use tokio::io::{AsyncReadExt, AsyncWriteExt};

pub struct E2eGroup;

fn pool_default() -> SessionPoolConfig { SessionPoolConfig::default() }

impl Group for E2eGroup {
    fn default_cases(&self, tier: &str) -> u64 { if tier == "thorough" { 150 } else { 0 } }

    fn fixed(&self, _tier: &str) -> Vec<Case> {
        let l = |s: &str| Case { lines: vec![s.to_string()] };
        let all = vec![
            l("e2e echo socks_ip 5000 2"), l("e2e echo socks_domain 100 1"), l("e2e echo direct 70000 3"), l("e2e echo http 20000 4"), l("e2e echo socks_ip 8192 5"), l("e2e echo http 8193 6"), l("e2e echo socks_ip6 3000 1"), l("e2e echo socks_magic 3000 1"),
            l("e2e halfclose socks 1000"), l("e2e halfclose direct 10"), l("e2e targetclose socks 2000"),
            l("e2e refused socks"), l("e2e reuse 6"), l("e2e reuse2 1500"), l("e2e reaper"),
            l("e2e badpreamble bitflip"), l("e2e badpreamble random"), l("e2e badpreamble truncated"), l("e2e badpreamble good"),
            l("e2e badpreamble good 1"), l("e2e badpreamble trimmed 1"), l("e2e badpreamble good 3"), l("e2e badpreamble trimmed 5"), l("e2e badpreamble lower 10"), l("e2e badpreamble straypause 0 3300"), l("e2e badpreamble goodpause 0 3300"), l("e2e badpreamble padpause 2 1200"),
            l("e2e pushe2e"), l("e2e preamble 77"), l("e2e finburst 5000 3 0"), l("e2e finburst 8192 4 0"), l("e2e finburst 3000 9 30"), l("e2e finburst 20000 2 0"), l("e2e finburst 65535 1 0"), l("e2e finburst 9000 1 0"), l("e2e finburst 1 1 0"), l("e2e udp 1 100 1472 9000"), l("e2e udp6 1 100 1472 65507 3"), l("e2e udp 65507 1 30000 2"), l("e2e udplate 17 1200 9000"), l("e2e early socks 300"), l("e2e early socks_domain 300"), l("e2e early socks_domain 40"),
            l("e2e slow up direct 6000000"), l("e2e slow down socks 6000000"), l("e2e slow up socks 3000000"), l("e2e slow down http 3000000"), l("e2e slow up http 3000000"),
            l("e2e blackhole all"), l("e2e noname"), l("e2e certreload BxCtAmB"), l("e2e certreload xBEC"), l("e2e certreload DADxB"),
        ];
        all.into_iter().filter(|c| wanted(&c.lines[0])).collect()
    }

    fn generate(&self, rng: &mut Rng, _tier: &str, _idx: u64) -> Case {
        let line = match rng.below(12) {
            0..=2 => format!("e2e echo {} {} {}", rng.pick(&["socks_ip", "socks_domain", "direct", "http", "socks_ip6", "socks_magic"]), rng.pick(&[1usize, 100, 4096, 8191, 8192, 8193, 16384, 65535, 65536, 200000, 1000000]), rng.range(1, 9)),
            3 => format!("e2e halfclose {} {}", rng.pick(&["socks", "direct"]), rng.pick(&[0usize, 1, 5000, 200000])),
            4 => format!("e2e targetclose socks {}", rng.pick(&[0usize, 1, 5000, 200000])),
            5 => format!("e2e reuse {}", rng.range(2, 12)),
            6 => if rng.chance(1, 4) { format!("e2e badpreamble {} {} {}", rng.pick(&["straypause", "goodpause", "padpause"]), rng.below(crate::g_auth::PASSWORDS.len() as u64), rng.pick(&[300u64, 1100, 2200, 3300, 5500, 11000])) } else { format!("e2e badpreamble {} {}", rng.pick(&["bitflip", "random", "truncated", "good", "good", "trimmed", "lower"]), rng.below(crate::g_auth::PASSWORDS.len() as u64)) },
            7 => format!("e2e {} {}", rng.pick(&["udp", "udp", "udp6", "udplate"]), (0..rng.range(1, 5)).map(|_| rng.pick(&[1usize, 2, 100, 1472, 9000, 30000, 65507]).to_string()).collect::<Vec<_>>().join(" ")),
            8 => format!("e2e early {} {}", rng.pick(&["socks", "socks_domain"]), rng.pick(&[1usize, 40, 300, 20000])),
            9 => format!("e2e slow {} {} {}", rng.pick(&["up", "down"]), rng.pick(&["socks", "http", "direct"]), rng.pick(&[1_000_000usize, 3_000_000, 6_000_000, 12_000_000])),
            10 => if rng.chance(1, 2) { format!("e2e blackhole {}", rng.pick(&["socks", "http", "direct"])) } else { format!("e2e certreload {}", (0..rng.range(1, 8)).map(|_| *rng.pick(&["A", "B", "C", "D", "x", "t", "m", "E"])).collect::<String>()) },
            _ => "e2e refused socks".to_string(),
        };
        if !wanted(&line) {
            // draw again from the wanted scenarios only
            let only = std::env::var("VH_ONLY").unwrap_or_default();
            let names: Vec<&str> = only.split(',').collect();
            let first = rng.pick(&names).to_string();
            let alt = match first.as_str() {
                "echo" => format!("e2e echo {} {} {}", rng.pick(&["socks_ip", "socks_domain", "direct", "http", "socks_ip6", "socks_magic"]), rng.pick(&[1usize, 100, 4096, 8191, 8192, 8193, 16384, 65535, 65536, 200000, 1000000]), rng.range(1, 9)),
                "halfclose" => format!("e2e halfclose {} {}", rng.pick(&["socks", "direct"]), rng.pick(&[0usize, 1, 5000, 200000])),
                "targetclose" => format!("e2e targetclose socks {}", rng.pick(&[0usize, 1, 5000, 200000])),
                "reuse" => if rng.chance(1, 4) { format!("e2e reuse2 {}", rng.pick(&[300u64, 1100, 1500, 2500])) } else { format!("e2e reuse {}", rng.range(2, 12)) },
                "finburst" => format!("e2e finburst {} {} {}", rng.pick(&[1usize, 100, 4096, 5000, 8192, 8193, 20000, 65535]), rng.range(1, 12), rng.pick(&[0u64, 0, 1, 30])),
                "badpreamble" => if rng.chance(1, 4) { format!("e2e badpreamble {} {} {}", rng.pick(&["straypause", "goodpause", "padpause"]), rng.below(crate::g_auth::PASSWORDS.len() as u64), rng.pick(&[300u64, 1100, 2200, 3300, 5500, 11000])) } else { format!("e2e badpreamble {} {}", rng.pick(&["bitflip", "random", "truncated", "good", "good", "trimmed", "lower"]), rng.below(crate::g_auth::PASSWORDS.len() as u64)) },
                "udp" => format!("e2e {} {}", rng.pick(&["udp", "udp", "udp6", "udplate"]), (0..rng.range(1, 5)).map(|_| rng.pick(&[1usize, 2, 100, 1472, 9000, 30000, 65507]).to_string()).collect::<Vec<_>>().join(" ")),
                "early" => format!("e2e early {} {}", rng.pick(&["socks", "socks_domain"]), rng.pick(&[1usize, 40, 300, 20000])),
                "refused" => "e2e refused socks".to_string(),
                "slow" => format!("e2e slow {} {} {}", rng.pick(&["up", "down"]), rng.pick(&["socks", "http", "direct"]), rng.pick(&[1_000_000usize, 3_000_000, 6_000_000, 12_000_000])),
                "blackhole" => format!("e2e blackhole {}", rng.pick(&["socks", "http", "direct"])),
                "noname" => "e2e noname".to_string(),
                "preamble" => format!("e2e preamble {}", rng.range(31, 900)),
                "certreload" => format!("e2e certreload {}", (0..rng.range(1, 8)).map(|_| *rng.pick(&["A", "B", "C", "D", "x", "t", "m", "E"])).collect::<String>()),
                "reaper" => "e2e reaper".to_string(),
                _ => "e2e pushe2e".to_string(),
            };
            return Case { lines: vec![alt] };
        }
        Case { lines: vec![line] }
    }

    fn exec(&self, case: &Case) -> Outcome {
        let mut out = Outcome::default();
        let runtime = rt();
        for line in &case.lines {
            let toks: Vec<String> = line.split_whitespace().map(|s| s.to_string()).collect();
            let res = runtime.block_on(async {
                match tokio::time::timeout(Duration::from_secs(60), scenario(&toks)).await {
                    Ok(r) => r,
                    Err(_) => Err("scenario exceeded 60 s".to_string()),
                }
            });
            match res {
                Ok((obs, fails)) => { out.obs.push(obs); out.oracle.extend(fails); }
                Err(e) => { out.obs.push(format!("infra-error {e}")); out.tags.push("infra-error".into()); }
            }
            out.tags.push(format!("scenario/{}", toks.get(1).cloned().unwrap_or_default()));
        }
        runtime.shutdown_timeout(Duration::from_millis(200));
        out.nontrivial = true;
        out
    }
}

/// scenario filter: env VH_ONLY = comma-separated scenario names (empty = all)
fn wanted(line: &str) -> bool {
    let only = std::env::var("VH_ONLY").unwrap_or_default();
    if only.is_empty() { return true; }
    let name = line.split_whitespace().nth(1).unwrap_or("");
    let name = if name == "udp6" || name == "udplate" { "udp" } else if name == "reuse2" { "reuse" } else { name };
    only.split(',').any(|x| x == name)
}

type Res = Result<(String, Vec<OracleFail>), String>;

fn fail(sig: &str, detail: String) -> OracleFail { OracleFail { sig: sig.to_string(), detail } }

async fn scenario(t: &[String]) -> Res {
    let s: Vec<&str> = t.iter().map(|x| x.as_str()).collect();
    match s.as_slice() {
        ["e2e", "echo", via, n, k] => echo(via, n.parse().map_err(|_| "n")?, k.parse().map_err(|_| "k")?).await,
        ["e2e", "halfclose", via, n] => halfclose(via, n.parse().map_err(|_| "n")?).await,
        ["e2e", "targetclose", "socks", n] => targetclose(n.parse().map_err(|_| "n")?).await,
        ["e2e", "refused", "socks"] => refused().await,
        ["e2e", "slow", dir, via, n] => slow(dir, via, n.parse().map_err(|_| "n")?).await,
        ["e2e", "blackhole", via] => blackhole_open(via).await,
        ["e2e", "noname"] => noname().await,
        ["e2e", "certreload", script] => certreload(script).await,
        ["e2e", "reuse", n] => reuse(n.parse().map_err(|_| "n")?).await,
        ["e2e", "reaper"] => reaper().await,
        ["e2e", "badpreamble", kind] => badpreamble(kind, 0, 0).await,
        ["e2e", "badpreamble", kind, pwi] => badpreamble(kind, pwi.parse().map_err(|_| "pwi")?, 0).await,
        ["e2e", "badpreamble", kind, pwi, ms] => badpreamble(kind, pwi.parse().map_err(|_| "pwi")?, ms.parse().map_err(|_| "ms")?).await,
        ["e2e", "reuse2", gap] => reuse2(gap.parse().map_err(|_| "gap")?).await,
        ["e2e", "pushe2e"] => pushe2e().await,
        ["e2e", "finburst", n, k, cut] => finburst(n.parse().map_err(|_| "n")?, k.parse().map_err(|_| "k")?, cut.parse().map_err(|_| "cut")?).await,
        ["e2e", "preamble", k] => preamble2(k.parse().map_err(|_| "k")?).await,
        ["e2e", "udp", sizes @ ..] => udp(&sizes.iter().filter_map(|x| x.parse().ok()).collect::<Vec<usize>>(), false).await,
        ["e2e", "udplate", sizes @ ..] => udplate(&sizes.iter().filter_map(|x| x.parse().ok()).collect::<Vec<usize>>()).await,
        ["e2e", "udp6", sizes @ ..] => udp(&sizes.iter().filter_map(|x| x.parse().ok()).collect::<Vec<usize>>(), true).await,
        ["e2e", "early", "socks", n] => early(n.parse().map_err(|_| "n")?, false).await,
        ["e2e", "early", "socks_domain", n] => early(n.parse().map_err(|_| "n")?, true).await,
        _ => Err("unknown scenario".into()),
    }
}

fn pattern(n: usize, tag: u8) -> Vec<u8> { (0..n).map(|i| (i as u32).wrapping_mul(2654435761).to_le_bytes()[1] ^ tag).collect() }

async fn echo(via: &str, n: usize, k: u8) -> Res {
    let w = World::start(None, None, pool_default(), true).await?;
    // socks_ip6 / http6: the target listens on the IPv6 loopback only (a destination of the special form ::/96)
    let v6 = via.ends_with('6');
    if v6 && std::net::TcpListener::bind("[::1]:0").is_err() { return Err("no IPv6 loopback on this host".into()); }
    let ip = if v6 { "[::1]".to_string() } else { format!("127.0.0.{}", k.max(1)) };
    let target = Target::start(&ip, Mode::Echo).await;
    let decoy = Target::start("127.0.0.1", Mode::Echo).await;
    let mut fails = vec![];
    let data = pattern(n, k);
    let got: Vec<u8>;
    match via {
        "socks_ip" | "socks_domain" | "socks_ip6" | "socks_magic" => {
            let ipb: Vec<u8> = if v6 { std::net::Ipv6Addr::LOCALHOST.octets().to_vec() } else { ip.split('.').map(|x| x.parse::<u8>().unwrap()).collect() };
            // socks_magic: an ordinary host name that merely contains the name the protocol reserves for UDP-over-TCP streams
            // (the server's resolver is seeded with it; it must be dialled like any other name)
            let magic = "my-udp-over-tcp.arpa.example.test";
            if via == "socks_magic" { anytls_rs::util::dns_cache::verif_dns::seed(magic, vec![target.addr]).await; }
            let r = if via == "socks_ip" { socks_connect(w.socks.unwrap(), 1, &ipb, target.addr.port()).await } else if v6 { socks_connect(w.socks.unwrap(), 4, &ipb, target.addr.port()).await } else if via == "socks_magic" { socks_connect(w.socks.unwrap(), 3, magic.as_bytes(), target.addr.port()).await } else { socks_connect(w.socks.unwrap(), 3, ip.as_bytes(), target.addr.port()).await };
            let mut s = match r {
                Ok(s) => s,
                Err(e) if e.starts_with("reply ") => {
                    // O (C16/C10): the requested target is listening and reachable from the server
                    fails.push(fail("valid_connect_refused/socks5", format!("CONNECT to the listening target {} was answered with failure ({e}); the target accepted {} connections", target.addr, target.accepted.load(Ordering::SeqCst))));
                    w.stop().await;
                    return Ok((format!("refused {e}"), fails));
                }
                Err(e) => return Err(e),
            };
            let d2 = data.clone();
            let (mut rd, mut wr) = s.split();
            let wfut = async { let _ = wr.write_all(&d2).await; };
            let rfut = async { let mut out = vec![]; let mut buf = vec![0u8; 65536]; let dl = tokio::time::Instant::now() + GUARD; while out.len() < n { match tokio::time::timeout_at(dl, rd.read(&mut buf)).await { Ok(Ok(0)) | Err(_) | Ok(Err(_)) => break, Ok(Ok(x)) => out.extend_from_slice(&buf[..x]) } } out };
            let (_, r) = tokio::join!(wfut, rfut);
            got = r;
        }
        "http" => {
            // CONNECT through the HTTP front-end, then the same echo through its relay loops
            let mut s = tokio::net::TcpStream::connect(w.http.unwrap()).await.map_err(|e| e.to_string())?;
            s.write_all(format!("CONNECT {}:{} HTTP/1.1\r\nHost: {}:{}\r\n\r\n", ip, target.addr.port(), ip, target.addr.port()).as_bytes()).await.map_err(|e| e.to_string())?;
            let rep = read_http_head(&mut s, Duration::from_secs(40)).await;
            if !rep.starts_with(b"HTTP/1.1 200") { return Err(format!("CONNECT refused: {}", String::from_utf8_lossy(&rep))); }
            let d2 = data.clone();
            let (mut rd, mut wr) = s.split();
            let wfut = async { let _ = wr.write_all(&d2).await; };
            let rfut = async { let mut out = vec![]; let mut buf = vec![0u8; 65536]; let dl = tokio::time::Instant::now() + GUARD; while out.len() < n { match tokio::time::timeout_at(dl, rd.read(&mut buf)).await { Ok(Ok(0)) | Err(_) | Ok(Err(_)) => break, Ok(Ok(x)) => out.extend_from_slice(&buf[..x]) } } out };
            let (_, r) = tokio::join!(wfut, rfut);
            got = r;
        }
        _ => {
            let (stream, session) = w.client.create_proxy_stream((ip.clone(), target.addr.port())).await.map_err(|e| e.to_string())?;
            for chunk in data.chunks(30000) { session.write_data_frame(stream.id(), bytes::Bytes::from(chunk.to_vec())).await.map_err(|e| e.to_string())?; }
            let mut out = vec![];
            let dl = tokio::time::Instant::now() + GUARD;
            while out.len() < n {
                let reader = stream.reader().clone();
                let fut = async move { let mut g = reader.lock().await; let mut b = vec![0u8; 65536]; let r = g.read(&mut b).await; (r, b) };
                match tokio::time::timeout_at(dl, fut).await { Ok((Ok(0), _)) | Err(_) | Ok((Err(_), _)) => break, Ok((Ok(x), b)) => out.extend_from_slice(&b[..x]) }
            }
            got = out;
        }
    }
    if got != data {
        fails.push(fail("e2e_bytes_differ/tunnel", format!("{} bytes sent, {} bytes echoed back (first difference at {:?})", data.len(), got.len(), got.iter().zip(data.iter()).position(|(a, b)| a != b))));
    }
    let (ta, da) = (target.accepted.load(Ordering::SeqCst), decoy.accepted.load(Ordering::SeqCst));
    if ta != 1 || da != 0 {
        fails.push(fail("wrong_destination_dialled/e2e", format!("requested {}: target accepted {ta}, decoy accepted {da}", target.addr)));
    }
    w.stop().await;
    Ok((format!("echoed={} target={ta} decoy={da}", got.len()), fails))
}

async fn halfclose(via: &str, n: usize) -> Res {
    let w = World::start(None, None, pool_default(), true).await?;
    let target = Target::start("127.0.0.1", Mode::Sink).await;
    let data = pattern(n, 7);
    let mut fails = vec![];
    let mut retained = String::new();
    if via == "socks" {
        let mut s = socks_connect(w.socks.unwrap(), 1, &[127, 0, 0, 1], target.addr.port()).await?;
        s.write_all(&data).await.map_err(|e| e.to_string())?;
        s.shutdown().await.map_err(|e| e.to_string())?;
        let arrived = wait_until(GUARD, || target.snapshot().first().map(|c| c.bytes.len() >= n).unwrap_or(false)).await;
        if !arrived { fails.push(fail("e2e_bytes_differ/tunnel", format!("{} of {n} bytes reached the target before the close", target.snapshot().first().map(|c| c.bytes.len()).unwrap_or(0)))); }
        let eof = wait_until(Duration::from_millis(500), || target.snapshot().first().map(|c| c.eof).unwrap_or(false)).await;
        if !eof { fails.push(fail("no_fin_on_local_eof/socks5_client_to_proxy", format!("the application half-closed after {n} bytes; the target received the bytes but no end of stream within 500 ms"))); }
        drop(s);
    } else {
        let (stream, session) = w.client.create_proxy_stream(("127.0.0.1".to_string(), target.addr.port())).await.map_err(|e| e.to_string())?;
        let sid = stream.id();
        if n > 0 { session.write_data_frame(sid, bytes::Bytes::from(data.clone())).await.map_err(|e| e.to_string())?; }
        let _ = wait_until(GUARD, || target.snapshot().first().map(|c| c.bytes.len() >= n).unwrap_or(false)).await;
        // the application is done with the stream in both directions
        { use tokio::io::AsyncWriteExt as _; let _ = n; }
        drop(stream);
        tokio::time::sleep(Duration::from_millis(300)).await;
        let (a, b) = session.verif_table_keys().await;
        retained = format!(" client_tables=[{}]/[{}]", a.len(), b.len());
        if a.contains(&sid) || b.contains(&sid) {
            fails.push(fail("stream_state_retained/client_tables", format!("stream {sid} was dropped by the application 300 ms ago; the client session still holds it (streams={a:?}, receive={b:?})")));
        }
        let eof = target.snapshot().first().map(|c| c.eof).unwrap_or(false);
        if !eof { fails.push(fail("no_fin_on_local_eof/direct_stream_drop", format!("the application dropped the stream; the target saw no end of stream"))); }
    }
    let snap = target.snapshot();
    let o = format!("data={} target_eof={}{retained}", snap.first().map(|c| c.bytes.len()).unwrap_or(0), snap.first().map(|c| c.eof as u8).unwrap_or(0));
    w.stop().await;
    Ok((o, fails))
}

async fn targetclose(n: usize) -> Res {
    let w = World::start(None, None, pool_default(), true).await?;
    let target = Target::start("127.0.0.1", Mode::CloseAfter(n)).await;
    let mut fails = vec![];
    let mut s = socks_connect(w.socks.unwrap(), 1, &[127, 0, 0, 1], target.addr.port()).await?;
    let (got, _) = read_n(&mut s, n, GUARD).await;
    if got.len() != n || got.iter().any(|b| *b != 0x5a) { fails.push(fail("e2e_bytes_differ/tunnel", format!("target sent {n} bytes, application read {}", got.len()))); }
    let (extra, eof) = read_n(&mut s, 1, Duration::from_millis(500)).await;
    if !eof { fails.push(fail("no_fin_on_local_eof/server_target_to_stream", format!("the target closed after {n} bytes; the application read them but saw no end of stream within 500 ms (extra bytes {})", extra.len()))); }
    w.stop().await;
    Ok((format!("read={} app_eof={}", got.len(), eof as u8), fails))
}

async fn refused() -> Res {
    let w = World::start(None, None, pool_default(), true).await?;
    let port = free_port();
    let mut fails = vec![];
    let r = socks_connect(w.socks.unwrap(), 1, &[127, 0, 0, 1], port).await;
    let o = match r {
        Ok(_) => { fails.push(fail("connected_reported_without_tunnel/socks5", format!("CONNECT to the closed port {port} was answered with 'succeeded'"))); "reply=0".to_string() }
        Err(e) if e.starts_with("reply ") => format!("reply=nonzero"),
        Err(e) => return Err(e),
    };
    w.stop().await;
    Ok((o, fails))
}

/// bytes through a tunnel whose far end applies back-pressure: `up` = the application writes to a target
/// that reads slowly through a 4 KiB receive buffer (the server's outbound writes are accepted only in
/// part); `down` = the target sends at once and the application reads slowly through a small buffer
/// (the front-end's writes to the application are accepted only in part)
async fn slow(dir: &str, via: &str, n: usize) -> Res {
    let w = World::start(None, None, pool_default(), true).await?;
    let mut fails = vec![];
    let long = Duration::from_secs(45);
    let open_app = |port: u16, small: bool| { let w = &w; async move {
        match via {
            "http" => {
                let mut s = if small { let sock = tokio::net::TcpSocket::new_v4().map_err(|e| e.to_string())?; let _ = sock.set_recv_buffer_size(4096); sock.connect(w.http.unwrap()).await.map_err(|e| e.to_string())? } else { tokio::net::TcpStream::connect(w.http.unwrap()).await.map_err(|e| e.to_string())? };
                s.write_all(format!("CONNECT 127.0.0.1:{port} HTTP/1.1\r\nHost: 127.0.0.1:{port}\r\n\r\n").as_bytes()).await.map_err(|e| e.to_string())?;
                let rep = read_http_head(&mut s, Duration::from_secs(40)).await;
                if !rep.starts_with(b"HTTP/1.1 200") { return Err(format!("CONNECT refused: {}", String::from_utf8_lossy(&rep))); }
                Ok::<_, String>(s)
            }
            _ => socks_connect_opts(w.socks.unwrap(), 1, &[127, 0, 0, 1], port, if small { Some(4096) } else { None }).await,
        }
    } };
    let o;
    if dir == "up" {
        let target = Target::start("127.0.0.1", Mode::SlowSink).await;
        let data = pattern(n, 11);
        if via == "direct" {
            let (stream, session) = w.client.create_proxy_stream(("127.0.0.1".to_string(), target.addr.port())).await.map_err(|e| e.to_string())?;
            for chunk in data.chunks(16384) { session.write_data_frame(stream.id(), bytes::Bytes::from(chunk.to_vec())).await.map_err(|e| e.to_string())?; }
            let _ = wait_until(long, || target.snapshot().first().map(|c| c.bytes.len() >= n).unwrap_or(false)).await;
            drop(stream);
        } else {
            let mut s = open_app(target.addr.port(), false).await?;
            let _ = tokio::time::timeout(long, s.write_all(&data)).await;
            let _ = wait_until(long, || target.snapshot().first().map(|c| c.bytes.len() >= n).unwrap_or(false)).await;
            drop(s);
        }
        // let a short tail settle, then compare
        tokio::time::sleep(Duration::from_millis(200)).await;
        let got = target.snapshot().first().map(|c| c.bytes.clone()).unwrap_or_default();
        if got != data {
            fails.push(fail("e2e_bytes_differ/tunnel_backpressure", format!("{} bytes written towards a slowly reading target, {} arrived there (first difference at {:?})", data.len(), got.len(), got.iter().zip(data.iter()).position(|(a, b)| a != b))));
        }
        o = format!("arrived={}", got.len());
    } else {
        let target = Target::start("127.0.0.1", Mode::Source(n)).await;
        let data = src_pattern(n);
        let mut got = vec![];
        if via == "direct" {
            let (stream, _session) = w.client.create_proxy_stream(("127.0.0.1".to_string(), target.addr.port())).await.map_err(|e| e.to_string())?;
            tokio::time::sleep(Duration::from_millis(300)).await;
            let dl = tokio::time::Instant::now() + long;
            while got.len() < n {
                let reader = stream.reader().clone();
                let fut = async move { let mut g = reader.lock().await; let mut b = vec![0u8; 24 * 1024 + 7]; let r = g.read(&mut b).await; (r, b) };
                match tokio::time::timeout_at(dl, fut).await { Ok((Ok(0), _)) | Err(_) | Ok((Err(_), _)) => break, Ok((Ok(x), b)) => got.extend_from_slice(&b[..x]) }
            }
        } else {
            let mut s = open_app(target.addr.port(), true).await?;
            tokio::time::sleep(Duration::from_millis(400)).await;
            let mut buf = vec![0u8; 24 * 1024 + 7];
            let dl = tokio::time::Instant::now() + long;
            let mut reads = 0u64;
            while got.len() < n {
                match tokio::time::timeout_at(dl, s.read(&mut buf)).await { Ok(Ok(0)) | Err(_) | Ok(Err(_)) => break, Ok(Ok(x)) => got.extend_from_slice(&buf[..x]) }
                reads += 1;
                if reads % 8 == 0 { tokio::time::sleep(Duration::from_millis(2)).await; }
            }
        }
        if got != data {
            fails.push(fail("e2e_bytes_differ/tunnel_backpressure", format!("the target sent {} bytes, the slowly reading application obtained {} (first difference at {:?})", data.len(), got.len(), got.iter().zip(data.iter()).position(|(a, b)| a != b))));
        }
        o = format!("read={}", got.len());
    }
    w.stop().await;
    Ok((o, fails))
}

/// opens towards a target that neither accepts nor refuses (the server's dial runs into its timeout);
/// `all` = through the SOCKS5 front-end, the HTTP front-end and the direct API at the same time
async fn blackhole_open(via: &str) -> Res {
    let Some((addr, _l, _keep)) = blackhole().await else { return Err("accept queue could not be saturated on this host".into()) };
    let w = World::start(None, None, pool_default(), true).await?;
    let mut fails = vec![];
    let vias: Vec<&str> = if via == "all" { vec!["socks", "http", "direct"] } else { vec![via] };
    let one = |via: &'static str| { let w = &w; async move {
        let t0 = std::time::Instant::now();
        let verdict: Result<(), String> = match via {
            "socks" => socks_connect(w.socks.unwrap(), 1, &[127, 0, 0, 1], addr.port()).await.map(|_| ()),
            "http" => {
                match tokio::net::TcpStream::connect(w.http.unwrap()).await {
                    Err(e) => Err(e.to_string()),
                    Ok(mut s) => {
                        if let Err(e) = s.write_all(format!("CONNECT 127.0.0.1:{p} HTTP/1.1\r\nHost: 127.0.0.1:{p}\r\n\r\n", p = addr.port()).as_bytes()).await { Err(e.to_string()) } else {
                            let (rep, _) = read_n(&mut s, 12, Duration::from_secs(40)).await;
                            if rep.starts_with(b"HTTP/1.1 200") { Ok(()) } else if rep.is_empty() { Err("no reply".into()) } else { Err(format!("reply {}", String::from_utf8_lossy(&rep))) }
                        }
                    }
                }
            }
            _ => match tokio::time::timeout(Duration::from_secs(40), w.client.create_proxy_stream(("127.0.0.1".to_string(), addr.port()))).await {
                Err(_) => Err("no outcome".into()),
                Ok(Ok(_)) => Ok(()),
                Ok(Err(e)) => Err(format!("reply {e}")),
            },
        };
        (via, verdict, t0.elapsed().as_secs())
    } };
    let mut results = vec![];
    {
        let mut futs = vec![];
        for v in &vias { let v: &'static str = match *v { "socks" => "socks", "http" => "http", _ => "direct" }; futs.push(one(v)); }
        let mut it = futs.into_iter();
        match vias.len() {
            3 => { let (a, b, c) = tokio::join!(it.next().unwrap(), it.next().unwrap(), it.next().unwrap()); results.extend([a, b, c]); }
            _ => results.push(it.next().unwrap().await),
        }
    }
    let mut obs = vec![];
    for (via, verdict, secs) in results {
        let o = match &verdict {
            Ok(()) => { fails.push(fail(&format!("connected_reported_without_tunnel/{}", if via == "direct" { "create_proxy_stream" } else if via == "http" { "http_connect" } else { "socks5" }), format!("the open towards the black-holed target {addr} was reported as connected after {secs} s; the server never connected"))); "connected".to_string() }
            Err(e) if e.starts_with("reply ") => "failure-reported".to_string(),
            Err(e) if e == "no outcome" || e == "guard" || e == "no reply" => { fails.push(fail("open_never_completes/unreachable_target", format!("{via}: no outcome of the open towards the black-holed target within 40 s ({e})"))); "none".to_string() }
            Err(e) => return Err(e.clone()),
        };
        obs.push(format!("{via}={o}"));
    }
    w.stop().await;
    Ok((obs.join(" "), fails))
}

/// opens towards a name that does not resolve (the server cannot even dial): through the direct API and
/// through the SOCKS5 front-end
async fn noname() -> Res {
    let w = World::start(None, None, pool_default(), true).await?;
    let mut fails = vec![];
    // names that do not resolve: plain, and long ones with multi-byte characters at every alignment (a server that cuts
    // its failure reason somewhere may cut inside a character)
    let jp = "日本語のドメイン名.".repeat(5);
    let names: Vec<String> = vec!["no-such-host.invalid".to_string(), format!("w.{jp}invalid"), format!("ww.{jp}invalid"), format!("www.{jp}invalid"), format!("{}.invalid", "é".repeat(100))];
    let mut obs = vec![];
    for name in &names {
        let name = name.as_str();
        let t0 = std::time::Instant::now();
        let (r, r2) = tokio::join!(
            async { let r = tokio::time::timeout(Duration::from_secs(45), w.client.create_proxy_stream((name.to_string(), 80))).await; (r, t0.elapsed().as_millis()) },
            socks_connect(w.socks.unwrap(), 3, name.as_bytes(), 80));
        let (r, ms) = r;
        let o1 = match r {
            Err(_) => { fails.push(fail("open_never_completes/unresolvable_target", format!("{name}: no outcome within 45 s"))); "none" }
            Ok(Ok(_)) => { fails.push(fail("connected_reported_without_tunnel/create_proxy_stream", format!("the unresolvable name {name} was reported as connected"))); "connected" }
            Ok(Err(e)) => {
                // the server could not connect: the opener is owed the server's reason, not its own timeout
                if e.to_string().contains("SYNACK timeout") { fails.push(fail("failure_reason_lost/unresolvable_target", format!("the server failed to resolve {name}; the opener waited {ms} ms and got `{e}` instead of the server's reason"))); "own-timeout" } else { "failure-reported" }
            }
        };
        let o2 = match r2 {
            Ok(_) => { fails.push(fail("connected_reported_without_tunnel/socks5", format!("CONNECT to the unresolvable name {name} was answered with 'succeeded'"))); "reply=0" }
            Err(e) if e.starts_with("reply ") => "reply=nonzero",
            Err(e) if e == "guard" => { fails.push(fail("open_never_completes/unresolvable_target", format!("socks5, {name}: no reply within 40 s"))); "none" }
            Err(e) => return Err(e),
        };
        obs.push(format!("direct={o1} socks={o2}"));
    }
    w.stop().await;
    Ok((obs.join(" | "), fails))
}

/// certificate hot-reload through a real listening server wired like the server binary
/// (`Server::new_with_reloadable_tls` on the reloader's acceptor cell).  The server starts with pair A; each
/// letter of the script is one step while the server sits idle in accept(): A|B|C = that valid pair is put on
/// disk, x = the key file alone is replaced by another pair's key, t = the certificate file is truncated,
/// m = the certificate file is removed, E = an expired pair; then reload(), then two handshakes at once.
/// Every handshake must present the pair of the last successful reload; a session opened before the first
/// step must still carry data after the last one.
async fn certreload(script: &str) -> Res {
    use anytls_rs::util::{CertReloader, CertReloaderConfig};
    // (A and D share their serial number: D is a renewal of A that keeps the serial)
    let pairs: Vec<crate::g_cert::Pair> = vec![crate::g_cert::make_pair_with("a", false, Some(0x4131), 2036), crate::g_cert::make_pair("b", false), crate::g_cert::make_pair("c", false), crate::g_cert::make_pair("e", true), crate::g_cert::make_pair_with("a", false, Some(0x4131), 2037)];
    let idx = |c: char| match c { 'A' => 0usize, 'B' => 1, 'C' => 2, 'D' => 4, _ => 3 };
    let name_of = |der: &[u8]| -> String { pairs.iter().position(|p| p.cert_der == der).map(|i| ["A", "B", "C", "E", "D"][i].to_string()).unwrap_or("?".into()) };
    let dir = tempfile::TempDir::new().map_err(|e| e.to_string())?;
    let (cp, kp) = (dir.path().join("cert.pem"), dir.path().join("key.pem"));
    std::fs::write(&cp, &pairs[0].cert_pem).map_err(|e| e.to_string())?;
    std::fs::write(&kp, &pairs[0].key_pem).map_err(|e| e.to_string())?;
    let reloader = std::sync::Arc::new(CertReloader::new(CertReloaderConfig { cert_path: cp.clone(), key_path: kp.clone(), watch_enabled: false, debounce_ms: 500, check_expiry: true, expiry_warning_days: 30 }).map_err(|e| e.to_string())?);
    let server = std::sync::Arc::new(anytls_rs::server::Server::new_with_reloadable_tls("pw", reloader.get_acceptor_ref(), anytls_rs::padding::PaddingFactory::default(), None));
    let mut addr = None;
    let mut task = None;
    for _ in 0..5 {
        let a: std::net::SocketAddr = format!("127.0.0.1:{}", free_port()).parse().unwrap();
        let s2 = server.clone();
        let t = tokio::spawn(async move { let _ = s2.listen(&a.to_string()).await; });
        let mut up = false;
        for _ in 0..100 { if t.is_finished() { break; } if tokio::net::TcpStream::connect(a).await.is_ok() { up = true; break; } tokio::time::sleep(Duration::from_millis(10)).await; }
        if up { addr = Some(a); task = Some(t); break; }
        t.abort();
    }
    let (Some(addr), Some(task)) = (addr, task) else { return Err("server did not start".into()) };
    let served = || async {
        let cfg = anytls_rs::util::tls::create_client_config().map_err(|e| e.to_string())?;
        let connector = tokio_rustls::TlsConnector::from(cfg);
        let tcp = tokio::net::TcpStream::connect(addr).await.map_err(|e| e.to_string())?;
        let name = tokio_rustls::rustls::pki_types::ServerName::IpAddress(std::net::IpAddr::V4(std::net::Ipv4Addr::LOCALHOST).into());
        let tls = tokio::time::timeout(Duration::from_secs(5), connector.connect(name, tcp)).await.map_err(|_| "handshake timed out".to_string())?.map_err(|e| format!("handshake failed: {e}"))?;
        let der = tls.get_ref().1.peer_certificates().and_then(|v| v.first().map(|d| d.as_ref().to_vec())).unwrap_or_default();
        Ok::<Vec<u8>, String>(der)
    };
    let mut fails = vec![];
    let mut obs = vec![];
    // a session (and a stream to an echo target) established before any reload
    let target = Target::start("127.0.0.1", Mode::Echo).await;
    let client = client_for(&addr.to_string(), pool_default(), anytls_rs::padding::PaddingFactory::default());
    let (stream, session) = client.create_proxy_stream(("127.0.0.1".to_string(), target.addr.port())).await.map_err(|e| e.to_string())?;
    let round = |tag: u8| { let (stream, session) = (stream.clone(), session.clone()); async move {
        if session.write_data_frame(stream.id(), bytes::Bytes::from(vec![tag; 5])).await.is_err() { return false; }
        let reader = stream.reader().clone();
        let fut = async move { let mut g = reader.lock().await; let mut b = [0u8; 5]; g.read_exact(&mut b).await.map(|_| b) };
        matches!(tokio::time::timeout(Duration::from_secs(5), fut).await, Ok(Ok(b)) if b == [tag; 5])
    } };
    if !round(1).await { return Err("echo before the first reload failed".into()); }
    let mut active = 0usize;
    let first = served().await?;
    if first != pairs[0].cert_der { fails.push(fail("wrong_certificate_served/initial", format!("initial pair A configured, handshake presented {}", name_of(&first)))); }
    for c in script.chars() {
        // the previous handshakes are over: the listener is parked in accept() again
        tokio::time::sleep(Duration::from_millis(40)).await;
        let valid = match c {
            'A' | 'B' | 'C' | 'E' | 'D' => { let p = &pairs[idx(c)]; std::fs::write(&cp, &p.cert_pem).map_err(|e| e.to_string())?; std::fs::write(&kp, &p.key_pem).map_err(|e| e.to_string())?; c != 'E' }
            'x' => { std::fs::write(&kp, &pairs[[1usize, 2, 0, 0, 1][active]].key_pem).map_err(|e| e.to_string())?; false }
            't' => { let full = pairs[[1usize, 2, 0, 0, 1][active]].cert_pem.as_bytes().to_vec(); std::fs::write(&cp, &full[..full.len() / 2]).map_err(|e| e.to_string())?; false }
            'm' => { let _ = std::fs::remove_file(&cp); false }
            _ => return Err("bad script".into()),
        };
        let r = reloader.reload();
        if r.is_ok() != valid {
            fails.push(fail(if r.is_ok() { "invalid_pair_accepted/cert_reload" } else { "valid_pair_refused/cert_reload" }, format!("step {c}: reload returned {}", if r.is_ok() { "Ok" } else { "Err" })));
        }
        if r.is_ok() && valid { active = idx(c); }
        let h1 = served().await?;
        let h2 = served().await?;
        let want = ["A", "B", "C", "E", "D"][active];
        for (k, h) in [(1, &h1), (2, &h2)] {
            if *h != pairs[active].cert_der && r.is_ok() == valid {
                fails.push(fail(&format!("wrong_certificate_served/handshake_{k}_after_reload"), format!("step {c}: the last successful reload installed pair {want}; handshake number {k} after the step was served with {}", name_of(h))));
            }
        }
        obs.push(format!("{c}:{}:{}{}", if r.is_ok() { "ok" } else { "err" }, name_of(&h1), name_of(&h2)));
    }
    let alive = round(2).await;
    if !alive { fails.push(fail("established_session_disturbed/cert_reload", format!("a session opened before the reloads `{script}` no longer carries data"))); }
    drop(stream);
    client.stop_session_pool_cleanup().await;
    task.abort();
    Ok((format!("{} session_alive={}", obs.join(" "), alive as u8), fails))
}

async fn reuse(n: usize) -> Res {
    let w = World::start(None, None, pool_default(), false).await?;
    let target = Target::start("127.0.0.1", Mode::Echo).await;
    let mut ids: Vec<u64> = vec![];
    let mut fails = vec![];
    for i in 0..n {
        let (stream, session) = w.client.create_proxy_stream(("127.0.0.1".to_string(), target.addr.port())).await.map_err(|e| e.to_string())?;
        session.write_data_frame(stream.id(), bytes::Bytes::from(vec![i as u8; 4])).await.map_err(|e| e.to_string())?;
        let reader = stream.reader().clone();
        let fut = async move { let mut g = reader.lock().await; let mut b = [0u8; 4]; g.read_exact(&mut b).await.map(|_| b) };
        match tokio::time::timeout(GUARD, fut).await { Ok(Ok(b)) if b == [i as u8; 4] => {} other => fails.push(fail("e2e_bytes_differ/tunnel", format!("request {i}: echo {:?}", other.map(|r| r.map(|b| b.to_vec()).map_err(|e| e.to_string()))))) }
        ids.push(session.id());
        drop(stream);
        // the request is over (no overlap with the next one)
        tokio::time::sleep(Duration::from_millis(20)).await;
    }
    // renumber session identities in order of first appearance
    let mut seen: Vec<u64> = vec![];
    let canon: Vec<usize> = ids.iter().map(|x| { if let Some(p) = seen.iter().position(|y| y == x) { p } else { seen.push(*x); seen.len() - 1 } }).collect();
    let dials = w.relay.accepted.load(Ordering::SeqCst);
    if n >= 3 && dials > 1 {
        fails.push(fail("sequential_request_redialled/never_reinserted", format!("{n} non-overlapping requests used sessions {canon:?} over {dials} TLS connections (a healthy idle session existed from the second request on)")));
    }
    w.stop().await;
    Ok((format!("sessions={canon:?} dials={dials}"), fails))
}

/// two non-overlapping requests under a valid but unusual pool configuration (idle timeout shorter than the check
/// interval - the same pair is the session's keep-alive timeout and interval), `gap` ms apart: the second one must be
/// served by the first one's session, which is healthy and idle
async fn reuse2(gap: u64) -> Res {
    let pool = SessionPoolConfig { check_interval: Duration::from_secs(5), idle_timeout: Duration::from_secs(1), min_idle_sessions: 1 };
    let w = World::start(None, None, pool, false).await?;
    let target = Target::start("127.0.0.1", Mode::Echo).await;
    let mut fails = vec![];
    let mut ids: Vec<u64> = vec![];
    let mut closed_first = false;
    let mut first: Option<std::sync::Arc<anytls_rs::session::Session>> = None;
    for i in 0..2u8 {
        let (stream, session) = w.client.create_proxy_stream(("127.0.0.1".to_string(), target.addr.port())).await.map_err(|e| e.to_string())?;
        session.write_data_frame(stream.id(), bytes::Bytes::from(vec![i; 4])).await.map_err(|e| e.to_string())?;
        let reader = stream.reader().clone();
        let fut = async move { let mut g = reader.lock().await; let mut b = [0u8; 4]; g.read_exact(&mut b).await.map(|_| b) };
        match tokio::time::timeout(GUARD, fut).await { Ok(Ok(b)) if b == [i; 4] => {} other => fails.push(fail("e2e_bytes_differ/tunnel", format!("request {i}: echo {:?}", other.map(|r| r.map(|b| b.to_vec()).map_err(|e| e.to_string()))))) }
        ids.push(session.id());
        if i == 0 { first = Some(session.clone()); }
        drop(stream);
        if i == 0 { tokio::time::sleep(Duration::from_millis(gap)).await; closed_first = first.as_ref().map(|s| s.is_closed()).unwrap_or(true); }
    }
    let dials = w.relay.accepted.load(Ordering::SeqCst);
    // O (C13): the first session was open and idle when the second request arrived - it must have served it
    if !closed_first && (dials != 1 || ids[0] != ids[1]) {
        fails.push(fail("second_request_redialled/healthy_idle_session", format!("two requests {gap} ms apart (check interval 5 s, idle timeout 1 s, idle minimum 1): the first session was still open, yet the second request used another one ({dials} TLS connections)")));
    }
    w.stop().await;
    Ok((format!("same={} dials={dials} first_closed={}", (ids[0] == ids[1]) as u8, closed_first as u8), fails))
}

async fn reaper() -> Res {
    let pool = SessionPoolConfig { check_interval: Duration::from_millis(100), idle_timeout: Duration::from_millis(250), min_idle_sessions: 0 };
    let w = World::start(None, None, pool, false).await?;
    let target = Target::start("127.0.0.1", Mode::Echo).await;
    let mut fails = vec![];
    let (stream, session) = w.client.create_proxy_stream(("127.0.0.1".to_string(), target.addr.port())).await.map_err(|e| e.to_string())?;
    // the stream stays open and in use across several reaper ticks
    let mut ok_rounds = 0;
    for i in 0..8u8 {
        tokio::time::sleep(Duration::from_millis(100)).await;
        if session.write_data_frame(stream.id(), bytes::Bytes::from(vec![i; 3])).await.is_err() { break; }
        let reader = stream.reader().clone();
        let fut = async move { let mut g = reader.lock().await; let mut b = [0u8; 3]; g.read_exact(&mut b).await.map(|_| b) };
        match tokio::time::timeout(Duration::from_secs(2), fut).await { Ok(Ok(b)) if b == [i; 3] => ok_rounds += 1, _ => break }
    }
    let closed = session.is_closed();
    if closed || ok_rounds < 8 {
        fails.push(fail("reaper_closed_busy_session/session_idle_since_creation", format!("a session with an open, active stream was closed by pool housekeeping after {ok_rounds} of 8 round trips (idle_timeout 250 ms, min_idle 0)")));
    }
    drop(stream);
    w.stop().await;
    Ok((format!("rounds={ok_rounds} closed={}", closed as u8), fails))
}

/// a hand-made preamble against a real server configured with password number `pwi` of the auth group's list
/// (surrounding whitespace, line ends, non-ASCII ...): kinds good | bitflip | random | truncated | trimmed
/// (digest of the password without its trailing whitespace) | lower (digest of the lower-cased password)
async fn badpreamble(kind: &str, pwi: usize, pause_ms: u64) -> Res {
    use sha2::{Digest, Sha256};
    let pw = crate::g_auth::PASSWORDS[pwi % crate::g_auth::PASSWORDS.len()].to_string();
    // (a server cannot be configured with an empty password through this scenario: empty means "the default")
    let pw = if pw.is_empty() { "pw".to_string() } else { pw };
    *WORLD_PW.lock().unwrap() = pw.clone();
    let w = World::start(None, None, pool_default(), false).await;
    WORLD_PW.lock().unwrap().clear();
    let w = w?;
    let target = Target::start("127.0.0.1", Mode::Greeter).await;
    let mut fails = vec![];
    let sha = |p: &str| { let mut h = Sha256::new(); h.update(p.as_bytes()); h.finalize().to_vec() };
    let mut hash = sha(&pw);
    let kind = match kind {
        // a relative that coincides with the password itself is the password
        "trimmed" if pw.trim_end() == pw => "good",
        "lower" if pw.to_lowercase() == pw => "good",
        k => k,
    };
    match kind { "bitflip" => hash[31] ^= 1, "random" => { hash = pattern(32, 9); } "truncated" => { hash.truncate(20); } "trimmed" => { hash = sha(pw.trim_end()); } "lower" => { hash = sha(&pw.to_lowercase()); } _ => {} }
    let cfg = anytls_rs::util::tls::create_client_config().map_err(|e| e.to_string())?;
    let connector = tokio_rustls::TlsConnector::from(cfg);
    let tcp = tokio::net::TcpStream::connect(w.server_addr).await.map_err(|e| e.to_string())?;
    let name = tokio_rustls::rustls::pki_types::ServerName::IpAddress(std::net::IpAddr::V4(std::net::Ipv4Addr::LOCALHOST).into());
    let mut tls = connector.connect(name, tcp).await.map_err(|e| e.to_string())?;
    // kinds with a pause inside the preamble (`pause_ms` of real time): `straypause` = five stray bytes, pause, then a
    // complete genuine preamble and an open (what was received does not start with the hash: no session); `goodpause` /
    // `padpause` = the genuine preamble with a pause right after the hash / inside the declared padding (a session)
    let paused = matches!(kind, "straypause" | "goodpause" | "padpause");
    let kind = match kind { "straypause" => "stray", "goodpause" => "good", "padpause" => "goodpad", k => k };
    let mut msg = hash.clone();
    if kind == "goodpad" {
        msg.extend_from_slice(&[1, 44]);
        msg.extend(vec![0u8; 300]);
        msg.extend(crate::g_frame::ref_encode(4, 0, b"v=2"));
        msg.extend(crate::g_frame::ref_encode(1, 1, &[]));
        let mut dest = vec![1u8, 127, 0, 0, 1];
        dest.extend_from_slice(&target.addr.port().to_be_bytes());
        msg.extend(crate::g_frame::ref_encode(2, 1, &dest));
    } else if kind != "truncated" {
        msg.extend_from_slice(&[0, 3, 0, 0, 0]);
        msg.extend(crate::g_frame::ref_encode(4, 0, b"v=2"));
        msg.extend(crate::g_frame::ref_encode(1, 1, &[]));
        let mut dest = vec![1u8, 127, 0, 0, 1];
        dest.extend_from_slice(&target.addr.port().to_be_bytes());
        msg.extend(crate::g_frame::ref_encode(2, 1, &dest));
    }
    if paused {
        let (first, second): (Vec<u8>, Vec<u8>) = match kind {
            "stray" => (vec![0x16, 0x03, 0x01, 0x02, 0x00], msg.clone()),
            "goodpad" => (msg[..34 + 100].to_vec(), msg[34 + 100..].to_vec()),
            _ => (msg[..32].to_vec(), msg[32..].to_vec()),
        };
        tls.write_all(&first).await.map_err(|e| e.to_string())?;
        tls.flush().await.map_err(|e| e.to_string())?;
        tokio::time::sleep(Duration::from_millis(pause_ms)).await;
        tls.write_all(&second).await.map_err(|e| e.to_string())?;
        tls.flush().await.map_err(|e| e.to_string())?;
    } else {
        tls.write_all(&msg).await.map_err(|e| e.to_string())?;
        tls.flush().await.map_err(|e| e.to_string())?;
    }
    let good = kind == "good" || kind == "goodpad";
    let mut buf = vec![0u8; 4096];
    let reply = match tokio::time::timeout(Duration::from_millis(if good { 3000 } else { 400 }), tls.read(&mut buf)).await { Ok(Ok(n)) => n, _ => 0 };
    if good { let _ = wait_until(Duration::from_secs(3), || target.accepted.load(Ordering::SeqCst) >= 1).await; }
    let dialled = target.accepted.load(Ordering::SeqCst);
    if good {
        if dialled != 1 || reply == 0 { fails.push(fail("valid_preamble_not_served/server_connection", format!("a correct preamble followed by SYN+destination: target dialled {dialled} times, {reply} reply bytes"))); }
    } else if dialled != 0 || reply != 0 {
        fails.push(fail("session_without_password/server_connection", format!("preamble kind `{kind}`: the server dialled the target {dialled} times and sent {reply} reply bytes")));
    }
    w.stop().await;
    Ok((format!("dialled={dialled} reply={}", (reply > 0) as u8), fails))
}

/// a peer that sends a burst of data frames and the stream's FIN right behind them (what a peer that writes and closes
/// does; this crate's own client never sends FIN, so only a hand-made client can): the server's relay must hand every
/// byte to the target before the target sees end of stream.  `cut` = 0: everything in one TLS write; otherwise the
/// FIN travels in a second write `cut` ms later.
async fn finburst(n: usize, k: usize, cut: u64) -> Res {
    use sha2::{Digest, Sha256};
    let w = World::start(None, None, pool_default(), false).await?;
    // the target answers only after it has seen the end of the request (a half-close protocol): 700 bytes, then it closes
    let target = Target::start("127.0.0.1", Mode::ReplyAtEof(700)).await;
    let mut fails = vec![];
    let hash = { let mut h = Sha256::new(); h.update(b"pw"); h.finalize().to_vec() };
    let cfg = anytls_rs::util::tls::create_client_config().map_err(|e| e.to_string())?;
    let connector = tokio_rustls::TlsConnector::from(cfg);
    let tcp = tokio::net::TcpStream::connect(w.server_addr).await.map_err(|e| e.to_string())?;
    let name = tokio_rustls::rustls::pki_types::ServerName::IpAddress(std::net::IpAddr::V4(std::net::Ipv4Addr::LOCALHOST).into());
    let mut tls = connector.connect(name, tcp).await.map_err(|e| e.to_string())?;
    let mut msg = hash.clone();
    msg.extend_from_slice(&[0, 0]);
    msg.extend(crate::g_frame::ref_encode(4, 0, b"v=2"));
    msg.extend(crate::g_frame::ref_encode(1, 1, &[]));
    let mut dest = vec![1u8, 127, 0, 0, 1];
    dest.extend_from_slice(&target.addr.port().to_be_bytes());
    msg.extend(crate::g_frame::ref_encode(2, 1, &dest));
    tls.write_all(&msg).await.map_err(|e| e.to_string())?;
    tls.flush().await.map_err(|e| e.to_string())?;
    // wait for the server's verdict on the open (SYNACK), so that the relay exists
    let mut buf = vec![0u8; 4096];
    let _ = tokio::time::timeout(Duration::from_secs(5), tls.read(&mut buf)).await;
    let mut sent = vec![];
    let mut burst = vec![];
    for i in 0..k { let d = pattern(n, 0x40 + i as u8); burst.extend(crate::g_frame::ref_encode(2, 1, &d)); sent.extend(d); }
    let fin = crate::g_frame::ref_encode(3, 1, &[]);
    if cut == 0 { burst.extend(fin); tls.write_all(&burst).await.map_err(|e| e.to_string())?; tls.flush().await.map_err(|e| e.to_string())?; }
    else {
        tls.write_all(&burst).await.map_err(|e| e.to_string())?; tls.flush().await.map_err(|e| e.to_string())?;
        tokio::time::sleep(Duration::from_millis(cut)).await;
        tls.write_all(&fin).await.map_err(|e| e.to_string())?; tls.flush().await.map_err(|e| e.to_string())?;
    }
    let total = sent.len();
    let _ = wait_until(Duration::from_secs(4), || target.snapshot().first().map(|c| c.eof || c.bytes.len() >= total).unwrap_or(false)).await;
    let _ = wait_until(Duration::from_millis(1500), || target.snapshot().first().map(|c| c.eof).unwrap_or(false)).await;
    let (got, eof) = target.snapshot().first().map(|c| (c.bytes.clone(), c.eof)).unwrap_or_default();
    // O (C08): end of stream reaches the target after, and only after, every byte sent before the FIN
    // O (C08): ... and the other direction keeps working: the answer the target sends after that reaches the peer
    let mut back: Vec<u8> = vec![];
    let mut raw: Vec<u8> = vec![];
    let dl = tokio::time::Instant::now() + Duration::from_secs(3);
    if got == sent && eof {
        while back.len() < 700 {
            match tokio::time::timeout_at(dl, tls.read(&mut buf)).await {
                Ok(Ok(k)) if k > 0 => {
                    raw.extend_from_slice(&buf[..k]);
                    let (frames, rest) = crate::g_frame::ref_parse(&raw);
                    for (c, sid, d) in frames { if c == 2 && sid == 1 { back.extend_from_slice(&d); } }
                    raw = rest;
                }
                _ => break,
            }
        }
        if back != src_pattern(700) { fails.push(fail("reverse_direction_cut_by_fin/server_relay", format!("after the peer's FIN the target answered with 700 bytes; {} of them reached the peer", back.len()))); }
    }
    if got != sent { fails.push(fail("eof_before_all_data/server_relay", format!("the peer sent {k} frames of {n} bytes and FIN; the target received {} of {} bytes (end of stream seen: {eof})", got.len(), total))); }
    else if !eof { fails.push(fail("fin_not_delivered/server_relay", format!("the peer sent {total} bytes and FIN; the target received the bytes and no end of stream"))); }
    w.stop().await;
    Ok((format!("delivered={}/{} eof={} back={}", got.len(), total, eof as u8, back.len()), fails))
}

async fn pushe2e() -> Res {
    // a fresh child process would be needed to see the "nothing pushed yet" state; the harness process may
    // already hold a pushed scheme, so the client is configured with a scheme of its own and the server
    // with a different one: the first session must be pushed the server's scheme, later ones must announce it
    let sscheme = b"stop=3\n1=30-60\n2=20-40,c,50-90";
    let cscheme = b"stop=2\n1=10-20";
    let w = World::start(Some(sscheme), Some(cscheme), pool_default(), false).await?;
    let target = Target::start("127.0.0.1", Mode::Echo).await;
    let mut fails = vec![];
    let want = format!("{:x}", md5::compute(sscheme));
    let mut md5s = vec![];
    for i in 0..4u8 {
        let (stream, session) = w.client.create_proxy_stream(("127.0.0.1".to_string(), target.addr.port())).await.map_err(|e| e.to_string())?;
        session.write_data_frame(stream.id(), bytes::Bytes::from(vec![i; 4])).await.map_err(|e| e.to_string())?;
        let reader = stream.reader().clone();
        let fut = async move { let mut g = reader.lock().await; let mut b = [0u8; 4]; g.read_exact(&mut b).await.map(|_| b) };
        let _ = tokio::time::timeout(GUARD, fut).await;
        let (m, _) = session.verif_padding().await;
        md5s.push((session.id(), m));
        drop(stream);
        tokio::time::sleep(Duration::from_millis(20)).await;
    }
    let first = md5s[0].0;
    for (id, m) in &md5s {
        if *m != want {
            let which = if *id == first { "pushed_scheme_not_adopted/e2e_first_session" } else { "new_session_ignores_pushed_scheme/e2e_later_session" };
            fails.push(fail(which, format!("session uses scheme md5 {m}, the server's scheme is md5 {want}")));
        }
    }
    let distinct = { let mut v: Vec<u64> = md5s.iter().map(|x| x.0).collect(); v.dedup(); v.len() };
    w.stop().await;
    Ok((format!("sessions={distinct} adopted={}", md5s.iter().filter(|x| x.1 == want).count()), fails))
}

/// the preamble of a session dialled after a push: a hand-made TLS server reads the plaintext the client sends.
/// Connection 1: the preamble is read, a scheme B whose line 0 is `k-k` is pushed, the server hangs up.
/// Connection 2 (dialled afresh for the next request): its Settings must announce B and its preamble must carry
/// exactly k bytes of padding (line 0 of the scheme that session runs).
async fn preamble2(k: usize) -> Res {
    let scheme_b = format!("stop=3\n0={k}-{k}\n1=300-300\n2=300-300");
    let want_md5 = format!("{:x}", md5::compute(scheme_b.as_bytes()));
    let listener = tokio::net::TcpListener::bind("127.0.0.1:0").await.map_err(|e| e.to_string())?;
    let addr = listener.local_addr().map_err(|e| e.to_string())?;
    let acceptor = tokio_rustls::TlsAcceptor::from(anytls_rs::util::tls::create_server_config().map_err(|e| e.to_string())?);
    let (tx, mut rx) = tokio::sync::mpsc::unbounded_channel::<(usize, usize, String)>();
    let sb = scheme_b.clone();
    let srv = tokio::spawn(async move {
        async fn read_preamble<R: AsyncReadExt + Unpin>(r: &mut R) -> Option<usize> {
            let mut hash = [0u8; 32]; r.read_exact(&mut hash).await.ok()?;
            let mut len = [0u8; 2]; r.read_exact(&mut len).await.ok()?;
            let len = u16::from_be_bytes(len) as usize;
            let mut pad = vec![0u8; len]; r.read_exact(&mut pad).await.ok()?;
            Some(len)
        }
        async fn read_frame<R: AsyncReadExt + Unpin>(r: &mut R) -> Option<(u8, Vec<u8>)> {
            let mut head = [0u8; 7]; r.read_exact(&mut head).await.ok()?;
            let len = u16::from_be_bytes([head[5], head[6]]) as usize;
            let mut data = vec![0u8; len]; r.read_exact(&mut data).await.ok()?;
            Some((head[0], data))
        }
        for n in 1..=2usize {
            let Ok((tcp, _)) = listener.accept().await else { return };
            let Ok(mut conn) = acceptor.accept(tcp).await else { return };
            let Some(len) = read_preamble(&mut conn).await else { return };
            if n == 1 {
                let _ = tx.send((1, len, String::new()));
                conn.write_all(&crate::g_frame::ref_encode(6, 0, sb.as_bytes())).await.ok();
                conn.flush().await.ok();
                tokio::time::sleep(Duration::from_millis(200)).await;
                let _ = conn.shutdown().await;
            } else {
                let mut md5 = String::new();
                for _ in 0..8 {
                    let Some((cmd, data)) = read_frame(&mut conn).await else { break };
                    if cmd == 4 { md5 = String::from_utf8_lossy(&data).lines().find_map(|l| l.strip_prefix("padding-md5=").map(|x| x.to_string())).unwrap_or_default(); break; }
                }
                let _ = tx.send((2, len, md5));
                tokio::time::sleep(Duration::from_secs(2)).await;
            }
        }
    });
    let client = client_for(&addr.to_string(), pool_default(), std::sync::Arc::new(anytls_rs::padding::PaddingFactory::new(b"stop=3\n0=30-30\n1=100-200\n2=100-200")?));
    let mut fails = vec![];
    let s1 = client.create_stream().await.map_err(|e| e.to_string())?;
    let first = tokio::time::timeout(GUARD, rx.recv()).await.map_err(|_| "no first preamble")?.ok_or("server gone")?;
    let _ = wait_until(GUARD, || s1.is_closed()).await;
    // the push has been processed before the hang-up was (same byte stream): the next session is dialled afresh
    let s2 = client.create_stream().await.map_err(|e| e.to_string())?;
    let (stream, _rx) = s2.open_stream().await.map_err(|e| e.to_string())?;
    s2.disable_buffering();
    let _ = s2.write_data_frame(stream.id(), bytes::Bytes::from_static(b"hello")).await;
    let second = tokio::time::timeout(GUARD, rx.recv()).await.map_err(|_| "no second preamble")?.ok_or("server gone")?;
    if second.2 != want_md5 {
        fails.push(fail("new_session_ignores_pushed_scheme/e2e_later_session", format!("the session dialled after the push announces scheme md5 {}, the pushed scheme is md5 {want_md5}", second.2)));
    } else if second.1 != k {
        // O (C05): the preamble carries exactly the padding length of line 0 of the scheme the session runs
        fails.push(fail("preamble_padding_not_line0/later_session", format!("the session dialled after the push runs the pushed scheme (line 0 = {k}-{k}) but its preamble carries {} bytes of padding", second.1)));
    }
    client.stop_session_pool_cleanup().await;
    srv.abort();
    Ok((format!("first={} second={} announced_pushed={}", if first.1 > 0 { "padded" } else { "bare" }, second.1, (second.2 == want_md5) as u8), fails))
}

async fn udp(sizes: &[usize], v6: bool) -> Res {
    // v6: the target is a UDP socket on the IPv6 loopback (the association names an IPv6 destination)
    if v6 && std::net::UdpSocket::bind("[::1]:0").is_err() { return Err("no IPv6 loopback on this host".into()); }
    let w = World::start(None, None, pool_default(), false).await?;
    let tsock = tokio::net::UdpSocket::bind(if v6 { "[::1]:0" } else { "127.0.0.1:0" }).await.map_err(|e| e.to_string())?;
    let taddr = tsock.local_addr().map_err(|e| e.to_string())?;
    let seen = std::sync::Arc::new(std::sync::Mutex::new(Vec::<Vec<u8>>::new()));
    let s2 = seen.clone();
    let ttask = tokio::spawn(async move {
        let mut buf = vec![0u8; 70000];
        loop { let Ok((n, from)) = tsock.recv_from(&mut buf).await else { break }; s2.lock().unwrap().push(buf[..n].to_vec()); let _ = tsock.send_to(&buf[..n], from).await; }
    });
    let local = w.client.create_udp_proxy("127.0.0.1:0", taddr).await.map_err(|e| e.to_string())?;
    let app = tokio::net::UdpSocket::bind("127.0.0.1:0").await.map_err(|e| e.to_string())?;
    let mut fails = vec![];
    let mut okc = 0;
    for (i, n) in sizes.iter().enumerate() {
        let d = pattern(*n, i as u8 + 1);
        app.send_to(&d, local).await.map_err(|e| e.to_string())?;
        let mut buf = vec![0u8; 70000];
        match tokio::time::timeout(Duration::from_secs(3), app.recv_from(&mut buf)).await {
            Ok(Ok((k, _))) if buf[..k] == d[..] => okc += 1,
            Ok(Ok((k, _))) => fails.push(fail("datagram_changed/udp_tunnel", format!("datagram {i} of {n} bytes came back as {k} bytes"))),
            _ => fails.push(fail("datagram_lost/udp_tunnel", format!("datagram {i} of {n} bytes: no reply within 3 s (lock-step, loopback)"))),
        }
    }
    let at_target = seen.lock().unwrap().clone();
    if at_target.len() != sizes.len() || at_target.iter().zip(sizes.iter()).any(|(d, n)| d.len() != *n) {
        fails.push(fail("datagram_boundaries_changed/udp_tunnel", format!("sent sizes {sizes:?}, target received sizes {:?}", at_target.iter().map(|d| d.len()).collect::<Vec<_>>())));
    }
    ttask.abort();
    w.stop().await;
    Ok((format!("ok={okc}/{}", sizes.len()), fails))
}

/// an association towards a target that is not there yet: the first datagram meets a closed port (the host answers with
/// ICMP port unreachable), then the target comes up - every datagram sent from then on must be delivered and answered
async fn udplate(sizes: &[usize]) -> Res {
    let w = World::start(None, None, pool_default(), false).await?;
    // reserve a port and release it again
    let taddr = { let s = std::net::UdpSocket::bind("127.0.0.1:0").map_err(|e| e.to_string())?; s.local_addr().map_err(|e| e.to_string())? };
    let local = w.client.create_udp_proxy("127.0.0.1:0", taddr).await.map_err(|e| e.to_string())?;
    let app = tokio::net::UdpSocket::bind("127.0.0.1:0").await.map_err(|e| e.to_string())?;
    app.send_to(b"nobody home", local).await.map_err(|e| e.to_string())?;
    tokio::time::sleep(Duration::from_millis(500)).await;
    let tsock = match tokio::net::UdpSocket::bind(taddr).await { Ok(s) => s, Err(_) => { w.stop().await; return Ok(("port-taken".into(), vec![])); } };
    let ttask = tokio::spawn(async move {
        let mut buf = vec![0u8; 70000];
        loop { let Ok((n, from)) = tsock.recv_from(&mut buf).await else { break }; let _ = tsock.send_to(&buf[..n], from).await; }
    });
    let mut fails = vec![];
    let mut okc = 0;
    for (i, n) in sizes.iter().enumerate() {
        let d = pattern(*n, i as u8 + 1);
        app.send_to(&d, local).await.map_err(|e| e.to_string())?;
        let mut buf = vec![0u8; 70000];
        match tokio::time::timeout(Duration::from_secs(3), app.recv_from(&mut buf)).await {
            Ok(Ok((k, _))) if buf[..k] == d[..] => okc += 1,
            Ok(Ok((k, _))) => fails.push(fail("datagram_changed/udp_tunnel", format!("datagram {i} of {n} bytes came back as {k} bytes"))),
            _ => fails.push(fail("datagram_lost/udp_tunnel_after_unreachable", format!("the target came up after the association's first datagram met a closed port; datagram {i} of {n} bytes sent afterwards: no reply within 3 s"))),
        }
    }
    ttask.abort();
    w.stop().await;
    Ok((format!("ok={okc}/{}", sizes.len()), fails))
}

async fn early(n: usize, domain: bool) -> Res {
    // the application pipelines its first bytes right behind the CONNECT request (before the reply)
    let w = World::start(None, None, pool_default(), true).await?;
    let target = Target::start("127.0.0.1", Mode::Sink).await;
    let mut fails = vec![];
    let mut s = tokio::net::TcpStream::connect(w.socks.unwrap()).await.map_err(|e| e.to_string())?;
    s.write_all(&[5, 1, 0]).await.map_err(|e| e.to_string())?;
    let mut r = [0u8; 2];
    s.read_exact(&mut r).await.map_err(|e| e.to_string())?;
    // (domain: the request names the target as `localhost`, a name of 9 bytes - far below the 255 a parser must allow for)
    let mut req = if domain { let mut r = vec![5u8, 1, 0, 3, 9]; r.extend_from_slice(b"localhost"); r } else { vec![5, 1, 0, 1, 127, 0, 0, 1] };
    req.extend_from_slice(&target.addr.port().to_be_bytes());
    let data = pattern(n, 3);
    req.extend_from_slice(&data);
    s.write_all(&req).await.map_err(|e| e.to_string())?;
    let mut rep = [0u8; 10];
    tokio::time::timeout(GUARD, s.read_exact(&mut rep)).await.map_err(|_| "guard")?.map_err(|e| e.to_string())?;
    let arrived = wait_until(Duration::from_secs(3), || target.snapshot().first().map(|c| c.bytes.len() >= n).unwrap_or(false)).await;
    let got = target.snapshot().first().map(|c| c.bytes.clone()).unwrap_or_default();
    if rep[1] != 0 { fails.push(fail("connect_failed/socks5", format!("reply {}", rep[1]))); }
    if !arrived || got != data { fails.push(fail("early_bytes_lost/socks5", format!("{n} bytes sent right behind the request, {} reached the target", got.len()))); }
    w.stop().await;
    Ok((format!("reply={} delivered={}", rep[1], got.len()), fails))
}
