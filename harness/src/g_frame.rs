//! group `frame` (C03): real `FrameCodec::encode/decode` in-process.
use crate::util::*;
use crate::Group;
use anytls_rs::protocol::{Command, Frame, FrameCodec};
use bytes::{Bytes, BytesMut};
use tokio_util::codec::{Decoder, Encoder};

pub struct FrameGroup;

pub const CMD_NAMES: [&str; 11] = [
    "Waste", "Syn", "Push", "Fin", "Settings", "Alert", "UpdatePaddingScheme", "SynAck",
    "HeartRequest", "HeartResponse", "ServerSettings",
];

pub fn cmd_name(c: Command) -> &'static str {
    match c {
        Command::Waste => "Waste",
        Command::Syn => "Syn",
        Command::Push => "Push",
        Command::Fin => "Fin",
        Command::Settings => "Settings",
        Command::Alert => "Alert",
        Command::UpdatePaddingScheme => "UpdatePaddingScheme",
        Command::SynAck => "SynAck",
        Command::HeartRequest => "HeartRequest",
        Command::HeartResponse => "HeartResponse",
        Command::ServerSettings => "ServerSettings",
    }
}

pub fn cmd_of_name(s: &str) -> Option<Command> {
    Some(match s {
        "Waste" => Command::Waste,
        "Syn" => Command::Syn,
        "Push" => Command::Push,
        "Fin" => Command::Fin,
        "Settings" => Command::Settings,
        "Alert" => Command::Alert,
        "UpdatePaddingScheme" => Command::UpdatePaddingScheme,
        "SynAck" => Command::SynAck,
        "HeartRequest" => Command::HeartRequest,
        "HeartResponse" => Command::HeartResponse,
        "ServerSettings" => Command::ServerSettings,
        _ => return None,
    })
}

pub fn show_frame(f: &Frame) -> String {
    format!("{}:{}:{}", cmd_name(f.cmd), f.stream_id, hex_compact(&f.data))
}

pub fn show_frames(fs: &[Frame]) -> String {
    format!("[{}]", fs.iter().map(show_frame).collect::<Vec<_>>().join(","))
}

const SIDS: [u32; 8] = [0, 1, 2, 255, 65536, 0x7fff_ffff, 0x8000_0000, 0xffff_ffff];
const LENS_OK: [usize; 12] = [0, 1, 2, 6, 7, 8, 255, 256, 1000, 8192, 65534, 65535];
const LENS_OVER: [usize; 4] = [65536, 65537, 70000, 131072];

fn gen_payload(rng: &mut Rng, len: usize) -> Vec<u8> {
    if len >= 2048 {
        // large payloads are uniform so that lines stay short
        vec![rng.next() as u8; len]
    } else {
        rng.bytes(len)
    }
}

/// independent reference encoding used by the oracle and by the generators
pub fn ref_encode(cmd_byte: u8, sid: u32, data: &[u8]) -> Vec<u8> {
    let mut v = vec![cmd_byte];
    v.extend_from_slice(&sid.to_be_bytes());
    v.extend_from_slice(&(data.len() as u16).to_be_bytes());
    v.extend_from_slice(data);
    v
}

fn gen_wire(rng: &mut Rng, max_frames: u64) -> (Vec<u8>, usize) {
    let n = rng.range(1, max_frames) as usize;
    let mut w = vec![];
    for _ in 0..n {
        let cmd = if rng.chance(1, 3) { rng.next() as u8 } else { rng.below(11) as u8 };
        let sid = if rng.chance(1, 2) { *rng.pick(&SIDS) } else { rng.next() as u32 };
        let len = if rng.chance(1, 8) { *rng.pick(&LENS_OK) } else { rng.below(40) as usize };
        let d = gen_payload(rng, len);
        w.extend(ref_encode(cmd, sid, &d));
    }
    (w, n)
}

fn cut(rng: &mut Rng, w: &[u8]) -> Vec<Vec<u8>> {
    if w.is_empty() {
        return vec![vec![]];
    }
    let k = rng.below(6) as usize;
    let mut cuts: Vec<usize> = (0..k)
        .map(|_| {
            if rng.chance(1, 2) {
                // near a header boundary at the front
                rng.below(std::cmp::min(16, w.len() as u64 + 1)) as usize
            } else {
                rng.below(w.len() as u64 + 1) as usize
            }
        })
        .collect();
    cuts.sort();
    let mut out = vec![];
    let mut prev = 0;
    for c in cuts {
        out.push(w[prev..c].to_vec());
        prev = c;
    }
    out.push(w[prev..].to_vec());
    out
}

impl Group for FrameGroup {
    fn default_cases(&self, tier: &str) -> u64 {
        if tier == "thorough" { 100_000 } else { 3_000 }
    }

    fn fixed(&self, tier: &str) -> Vec<Case> {
        let mut v = vec![];
        // every command x boundary ids x boundary lengths (including attempted oversize)
        for c in CMD_NAMES {
            for sid in [0u32, 1, 0xffff_ffff] {
                for len in LENS_OK.iter().chain(LENS_OVER.iter()) {
                    if tier != "thorough" && c != "Push" && c != "Waste" && *len > 256 && *len != 65535 && *len != 65536 {
                        continue;
                    }
                    let d = vec![0xA5u8; *len];
                    v.push(Case { lines: vec![format!("frame enc {} {} {}", c, sid, hex_compact(&d))] });
                }
            }
        }
        // all 256 command bytes decode
        for b in 0..=255u8 {
            let w = ref_encode(b, 3, &[1, 2, 3]);
            v.push(Case { lines: vec![format!("frame dec {}", hex(&w))] });
        }
        // every truncation of a short frame
        let w = ref_encode(2, 0x01020304, &[9, 8, 7, 6]);
        for k in 0..=w.len() {
            v.push(Case { lines: vec![format!("frame dec {}", hex(&w[..k]))] });
        }
        // every single cut of a two-frame string
        let mut w2 = ref_encode(2, 7, &[0xaa, 0xbb]);
        w2.extend(ref_encode(200, 1, &[9]));
        w2.push(3);
        for k in 0..=w2.len() {
            v.push(Case { lines: vec![format!("frame feed {} {}", hex(&w2[..k]), hex(&w2[k..]))] });
        }
        v
    }

    fn generate(&self, rng: &mut Rng, _tier: &str, _idx: u64) -> Case {
        let kind = rng.below(10);
        let line = if kind < 2 {
            let c = *rng.pick(&CMD_NAMES);
            let sid = if rng.chance(1, 2) { *rng.pick(&SIDS) } else { rng.next() as u32 };
            let len = match rng.below(10) {
                0 => *rng.pick(&LENS_OVER),
                1..=3 => *rng.pick(&LENS_OK),
                _ => rng.below(64) as usize,
            };
            let d = gen_payload(rng, len);
            format!("frame enc {} {} {}", c, sid, hex_compact(&d))
        } else if kind < 4 {
            // malformed: random bytes, truncations, length-field corruption
            let (mut w, _) = gen_wire(rng, 2);
            match rng.below(4) {
                0 => { let k = rng.below(24) as usize; w = rng.bytes(k); }
                1 => { let k = rng.below(w.len() as u64 + 1) as usize; w.truncate(k); }
                2 => { if w.len() >= 7 { w[5] = rng.next() as u8; w[6] = rng.next() as u8; } }
                _ => {}
            }
            format!("frame dec {}", hex_compact(&w))
        } else {
            let (mut w, _) = gen_wire(rng, 6);
            if rng.chance(1, 3) {
                let k = rng.below(12) as usize;
                let t = rng.bytes(k);
                w.extend(t);
            }
            let chunks = cut(rng, &w);
            format!("frame feed {}", chunks.iter().map(|c| hex_compact(c)).collect::<Vec<_>>().join(" "))
        };
        Case { lines: vec![line] }
    }

    fn exec(&self, case: &Case) -> Outcome {
        let mut out = Outcome::default();
        for line in &case.lines {
            let toks: Vec<&str> = line.split_whitespace().collect();
            let obs = match toks.as_slice() {
                ["frame", "enc", c, sid, hx] => {
                    let (Some(cmd), Ok(sid), Some(d)) = (cmd_of_name(c), sid.parse::<u32>(), unhex(hx)) else {
                        out.obs.push("bad-op".into());
                        continue;
                    };
                    out.tags.push(format!("enc/len={}", len_class(d.len())));
                    out.nontrivial = true;
                    let mut buf = BytesMut::new();
                    let r = FrameCodec.encode(Frame::with_data(cmd, sid, Bytes::from(d.clone())), &mut buf);
                    match r {
                        Ok(()) => {
                            // O1: header/payload agreement; nothing but header+payload
                            let ok_shape = buf.len() == 7 + d.len()
                                && buf.len() >= 7
                                && u16::from_be_bytes([buf[5], buf[6]]) as usize == d.len()
                                && buf[7..] == d[..]
                                && buf[0] == cmd as u8
                                && buf[1..5] == sid.to_be_bytes();
                            if !ok_shape {
                                out.oracle.push(OracleFail {
                                    sig: "encode_header_mismatch/frame_codec_encode".into(),
                                    detail: format!("payload {} bytes, emitted {} bytes, length field {}", d.len(), buf.len(),
                                        if buf.len() >= 7 { u16::from_be_bytes([buf[5], buf[6]]) as i64 } else { -1 }),
                                });
                            } else {
                                // O2: round trip with a tail
                                let mut b2 = BytesMut::from(&buf[..]);
                                b2.extend_from_slice(&[0xEE, 0xEF]);
                                match FrameCodec.decode(&mut b2) {
                                    Ok(Some(f)) if f.cmd == cmd && f.stream_id == sid && f.data[..] == d[..] && b2[..] == [0xEE, 0xEF] => {}
                                    other => out.oracle.push(OracleFail {
                                        sig: "roundtrip_mismatch/frame_codec".into(),
                                        detail: format!("decode(encode(f)) = {:?}", other.map(|o| o.map(|f| show_frame(&f)))),
                                    }),
                                }
                            }
                            format!("ok {}", hex_compact(&buf))
                        }
                        Err(_) => {
                            if d.len() <= 65535 {
                                out.oracle.push(OracleFail {
                                    sig: "encode_refused_legal/frame_codec_encode".into(),
                                    detail: format!("payload {} bytes refused", d.len()),
                                });
                            }
                            if !buf.is_empty() {
                                out.oracle.push(OracleFail {
                                    sig: "encode_error_emitted_bytes/frame_codec_encode".into(),
                                    detail: format!("{} bytes emitted on error", buf.len()),
                                });
                            }
                            "err-oversize".to_string()
                        }
                    }
                }
                ["frame", "dec", hx] => {
                    let Some(b) = unhex(hx) else { out.obs.push("bad-op".into()); continue; };
                    let mut buf = BytesMut::from(&b[..]);
                    let r = FrameCodec.decode(&mut buf);
                    out.tags.push(format!("dec/{}", if b.len() < 7 { "short" } else if b[0] > 10 { "unknown_cmd" } else { "known_cmd" }));
                    match r {
                        Ok(None) => {
                            if buf[..] != b[..] {
                                out.oracle.push(OracleFail { sig: "incomplete_consumed/frame_codec_decode".into(), detail: format!("buffer changed from {} to {} bytes", b.len(), buf.len()) });
                            }
                            let need = if b.len() >= 7 { 7 + u16::from_be_bytes([b[5], b[6]]) as usize } else { 7 };
                            if b.len() >= need {
                                out.oracle.push(OracleFail { sig: "complete_not_decoded/frame_codec_decode".into(), detail: format!("{} bytes available, {} needed", b.len(), need) });
                            }
                            out.nontrivial |= !b.is_empty();
                            format!("none rest={}", buf.len())
                        }
                        Ok(Some(f)) => {
                            out.nontrivial = true;
                            let len = u16::from_be_bytes([b[5], b[6]]) as usize;
                            let exp_cmd = if b[0] <= 10 { b[0] } else { 0 };
                            if f.cmd as u8 != exp_cmd || f.stream_id.to_be_bytes() != b[1..5] || f.data[..] != b[7..7 + len] || buf[..] != b[7 + len..] {
                                out.oracle.push(OracleFail { sig: "decode_mismatch/frame_codec_decode".into(), detail: format!("decoded {} from {}", show_frame(&f), hex_compact(&b)) });
                            }
                            format!("some {} rest={}", show_frame(&f), buf.len())
                        }
                        Err(e) => {
                            out.oracle.push(OracleFail { sig: "decode_failed/frame_codec_decode".into(), detail: e.to_string() });
                            "err".to_string()
                        }
                    }
                }
                ["frame", "feed", chunks @ ..] => {
                    let mut cs = vec![];
                    let mut bad = false;
                    for c in chunks { match unhex(c) { Some(b) => cs.push(b), None => bad = true } }
                    if bad { out.obs.push("bad-op".into()); continue; }
                    let whole: Vec<u8> = cs.concat();
                    let run = |pieces: &[Vec<u8>]| -> Result<(Vec<Frame>, Vec<u8>), String> {
                        let mut buf = BytesMut::new();
                        let mut fs = vec![];
                        for p in pieces {
                            buf.extend_from_slice(p);
                            loop {
                                match FrameCodec.decode(&mut buf) {
                                    Ok(Some(f)) => fs.push(f),
                                    Ok(None) => break,
                                    Err(e) => return Err(e.to_string()),
                                }
                            }
                        }
                        Ok((fs, buf.to_vec()))
                    };
                    let a = run(&cs);
                    let b = run(&[whole.clone()]);
                    out.tags.push(format!("feed/chunks={}", std::cmp::min(cs.len(), 7)));
                    match (&a, &b) {
                        (Ok((fa, ra)), Ok((fb, rb))) => {
                            if fa != fb || ra != rb {
                                out.oracle.push(OracleFail { sig: "chunking_dependent/frame_codec_decode".into(), detail: format!("chunked {} rest {} vs whole {} rest {}", show_frames(fa), ra.len(), show_frames(fb), rb.len()) });
                            }
                            // reference parse
                            let (rf, rr) = ref_parse(&whole);
                            let same = rf.len() == fb.len() && rf.iter().zip(fb.iter()).all(|((c, s, d), f)| *c == f.cmd as u8 && *s == f.stream_id && d[..] == f.data[..]) && rr == *rb;
                            if !same {
                                out.oracle.push(OracleFail { sig: "decode_mismatch/frame_codec_decode".into(), detail: format!("whole decode {} differs from the reference parse ({} frames)", show_frames(fb), rf.len()) });
                            }
                            out.nontrivial = !fa.is_empty() && cs.len() > 1;
                            format!("{} rest={}", show_frames(fa), hex_compact(ra))
                        }
                        _ => {
                            out.oracle.push(OracleFail { sig: "decode_failed/frame_codec_decode".into(), detail: format!("{:?} / {:?}", a.as_ref().err(), b.as_ref().err()) });
                            "err".to_string()
                        }
                    }
                }
                _ => "bad-op".to_string(),
            };
            out.obs.push(obs);
        }
        out
    }
}

pub fn len_class(n: usize) -> &'static str {
    match n {
        0 => "0",
        1..=6 => "1-6",
        7..=255 => "7-255",
        256..=65533 => "256-65533",
        65534 => "65534",
        65535 => "65535",
        65536 => "65536",
        _ => ">65536",
    }
}

/// reference parser: (cmd byte mapped: unknown -> 0, sid, data)*, residue
pub fn ref_parse(mut b: &[u8]) -> (Vec<(u8, u32, Vec<u8>)>, Vec<u8>) {
    let mut fs = vec![];
    loop {
        if b.len() < 7 { break; }
        let len = u16::from_be_bytes([b[5], b[6]]) as usize;
        if b.len() < 7 + len { break; }
        let cmd = if b[0] <= 10 { b[0] } else { 0 };
        fs.push((cmd, u32::from_be_bytes([b[1], b[2], b[3], b[4]]), b[7..7 + len].to_vec()));
        b = &b[7 + len..];
    }
    (fs, b.to_vec())
}
