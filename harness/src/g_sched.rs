//! group `sched` (C11, C09): several tasks write / open / close on ONE real session concurrently under a
//! controlled scheduler.  Every task parks at the library's scheduling points (`verif::point`, feature
//! verif) and before each of its operations; a `pick` line releases exactly one parked task, then everything
//! runs to quiescence (paused clock).  Termination causes (transport write failure, EOF / read error /
//! Alert seen by the receive loop, `close()` by a task) are injected at any position of the schedule.
use crate::g_sess::{parse_reset, reset_line};
use crate::node::*;
use crate::util::*;
use crate::Group;
use bytes::Bytes;
use std::sync::{Arc, Mutex};

pub struct SchedGroup;

tokio::task_local! { static TID: usize; }

#[derive(Clone, Debug, PartialEq)]
enum St { Parked(String), Running, Done }

struct Ctl {
    st: Vec<St>,
    go: Vec<Arc<tokio::sync::Notify>>,
    results: Vec<Vec<String>>,
    /// (task, op index, op text, session already closed when the op started, result)
    oplog: Vec<(usize, usize, String, bool, String)>,
    opened: Vec<Handle>,
    /// per opened stream: its reader has reached end of stream (or the error)
    eofs: Vec<bool>,
    /// per opened stream: the state of its pending-open slot at the drain
    verdicts: Vec<String>,
    /// a write_frame made its buffering decision while buffering was already off (from then on the buffer must stay empty)
    unbuffered_decide: bool,
}

async fn park(ctl: &Arc<Mutex<Ctl>>, tid: usize, name: &str) {
    let n = { let mut c = ctl.lock().unwrap(); c.st[tid] = St::Parked(name.to_string()); c.go[tid].clone() };
    n.notified().await;
    ctl.lock().unwrap().st[tid] = St::Running;
}

pub const SCHEMES: &[&str] = &[
    "stop=6\n0=20-20\n1=30-30,40-40\n2=10-10,c,25-25,25-25\n3=50-50\n4=8-8,8-8,8-8\n5=60-60",
    "stop=3\n0=9-9\n1=9-9,9-9,9-9,9-9\n2=100-100,c,100-100",
    "stop=0",
    crate::schemes::DEFAULT_SCHEME,
];

fn gen_prog(rng: &mut Rng, tid: usize, with_close: bool) -> String {
    let n = rng.range(1, 4);
    let mut ops: Vec<String> = vec![];
    let mut opened: Vec<u32> = vec![];
    // what the real client does for a request: open, stop buffering, write the destination, then data
    if rng.chance(1, 2) { ops.push("open".into()); ops.push("nobuf".into()); ops.push(format!("o{}", rng.pick(&[7u32, 30, 300]))); opened.push(0); }
    for _ in 0..n {
        let k = rng.below(100);
        if k < 30 { ops.push("open".into()); opened.push(0); }
        else if k < 50 && !opened.is_empty() { ops.push(format!("o{}", rng.pick(&[1u32, 5, 30, 200, 70000]))); }
        else if k < 65 { let sid = if !opened.is_empty() && rng.chance(2, 3) { 1 + tid as u32 } else { rng.range(1, 4) as u32 }; ops.push(format!("d{}.{}", sid, rng.pick(&[1u32, 5, 30, 200, 70000]))); }
        else if k < 80 { ops.push(format!("w{}.{}.{}", rng.pick(&[0u32, 8, 9, 3]), 100 * (tid as u32 + 1) + rng.below(3) as u32, rng.pick(&[0u32, 3, 40]))); }
        else if k < 92 { ops.push("nobuf".into()); }
        else if with_close { ops.push("close".into()); } else { ops.push("nobuf".into()); }
    }
    ops.join(";")
}

impl Group for SchedGroup {
    fn default_cases(&self, tier: &str) -> u64 { if tier == "thorough" { 20_000 } else { 1_200 } }

    fn fixed(&self, tier: &str) -> Vec<Case> {
        let mut v = vec![];
        // every schedule prefix over {0,1,2}^k for the canonical scenarios: two / three tasks opening and writing on a
        // fresh client session (first writes while the initial buffer is flushed), with and without a termination cause
        let scen: Vec<(usize, Vec<&str>, Option<(&str, usize)>)> = vec![
            (0, vec!["open;nobuf;o30", "open;nobuf;o5"], None),
            (1, vec!["nobuf;open;o200", "open;o30", "w8.300.0"], None),
            (0, vec!["nobuf;d1.70000", "w9.200.3;open"], None),
            (0, vec!["nobuf;open;o30", "open;o5", "close"], None),
            (0, vec!["nobuf;open;o30", "open;o5"], Some(("eof", 3))),
            (1, vec!["nobuf;open;o200", "open;o30"], Some(("budget 1", 2))),
            (0, vec!["nobuf;open;o30", "d1.5;open;o9"], Some(("alert", 5))),
            (1, vec!["nobuf;open;o200", "close", "open;o9"], Some(("budget 2", 0))),
            // a transport that takes a few bytes per write call, before and after the padded start-up phase
            (2, vec!["nobuf;open;o30", "open;o5;w8.200.40"], Some(("shortw 3", 0))),
            (1, vec!["nobuf;open;o200;o30;o30", "open;o30;o5"], Some(("shortw 7", 0))),
        ];
        // the peer's answer (SYNACK, data) arrives at every point of an open in progress (one task, then two)
        for (tasks, npicks) in [(vec!["nobuf;open;o5"], 14usize), (vec!["nobuf;open;o5", "open;o3"], 22)] {
            for verdict in ["ok", "no"] {
                for at in 0..npicks {
                    let mut lines = vec![reset_line("sched", "client", SCHEMES[2].as_bytes(), 7, "")];
                    for t in &tasks { lines.push(format!("sched task {t}")); }
                    lines.push("sched go".into());
                    for k in 0..npicks {
                        if k == at {
                            let mut b = crate::g_frame::ref_encode(7, 1, if verdict == "ok" { b"" } else { b"no route" });
                            b.extend(crate::g_frame::ref_encode(2, 1, b"early-data"));
                            lines.push(format!("sched feed {}", hex(&b)));
                        }
                        lines.push("sched pick 0".into());
                    }
                    lines.push("sched drain".into());
                    v.push(Case { lines });
                }
            }
        }
        // the transport stalls (a write that neither completes nor fails) at step s, the session dies at step c: whoever
        // does not depend on the stalled write - readers, pending opens, later attempts - must still be released
        for (s_at, c_at) in [(3usize, 4usize), (4, 6), (5, 6), (5, 8), (6, 7), (6, 10), (7, 9), (8, 9), (9, 12), (10, 11)] {
            for cause in ["eof", "rderr", "alert"] {
                let mut lines = vec![reset_line("sched", "client", SCHEMES[2].as_bytes(), 7, "")];
                for t in ["nobuf;open;o200;o30", "open", "d1.5;open"] { lines.push(format!("sched task {t}")); }
                lines.push("sched go".into());
                for step in 0..14usize {
                    if step == s_at { lines.push("sched stall".into()); }
                    if step == c_at { lines.push(format!("sched {cause}")); }
                    lines.push(format!("sched pick {}", step % 3));
                }
                lines.push("sched drain".into());
                v.push(Case { lines });
            }
        }
        let depth = if tier == "thorough" { 7 } else { 4 };
        for (si, tasks, fault) in &scen {
            let mut total = 1usize;
            for _ in 0..depth { total *= 3; }
            for code in 0..total {
                let mut lines = vec![reset_line("sched", "client", SCHEMES[*si].as_bytes(), 7, "")];
                for t in tasks { lines.push(format!("sched task {t}")); }
                lines.push("sched go".into());
                let mut c = code;
                for step in 0..depth {
                    if let Some((f, at)) = fault { if *at == step { lines.push(format!("sched {f}")); } }
                    lines.push(format!("sched pick {}", c % 3));
                    c /= 3;
                }
                lines.push("sched drain".into());
                v.push(Case { lines });
            }
        }
        v
    }

    fn generate(&self, rng: &mut Rng, _tier: &str, _idx: u64) -> Case {
        let scheme = SCHEMES[rng.below(SCHEMES.len() as u64) as usize];
        let role = if rng.chance(1, 6) { "server" } else { "client" };
        let mut lines = vec![reset_line("sched", role, scheme.as_bytes(), rng.next() % 1000, "")];
        let shortw = rng.chance(1, 3);
        if shortw { lines.push(format!("sched shortw {}", rng.pick(&[1u32, 3, 7, 17, 64]))); }
        let nt = rng.range(2, 4) as usize;
        let with_fault = rng.chance(1, 2);
        for t in 0..nt { lines.push(format!("sched task {}", gen_prog(rng, t, with_fault))); }
        lines.push("sched go".into());
        let steps = rng.range(3, 40);
        let fault_at = if with_fault && rng.chance(2, 3) { Some(rng.below(steps)) } else { None };
        let feeds: Vec<u64> = if role == "client" && rng.chance(1, 2) { (0..rng.range(1, 3)).map(|_| rng.below(steps)).collect() } else { vec![] };
        for s in 0..steps {
            if feeds.contains(&s) {
                let mut b = vec![];
                for _ in 0..rng.range(1, 3) {
                    let sid = rng.range(1, 3) as u32;
                    match rng.below(6) { 0 => b.extend(crate::g_frame::ref_encode(7, sid, b"")), 1 => b.extend(crate::g_frame::ref_encode(7, sid, b"no route")), 2 => b.extend(crate::g_frame::ref_encode(3, sid, b"")), 3 => b.extend(crate::g_frame::ref_encode(0, 0, &[0u8; 9])), _ => { let n = rng.range(1, 12) as usize; b.extend(crate::g_frame::ref_encode(2, sid, &vec![0x70 + sid as u8; n])) } }
                }
                lines.push(format!("sched feed {}", hex(&b)));
            }
            if fault_at == Some(s) && !shortw && rng.chance(1, 4) { lines.push("sched stall".into()); for _ in 0..rng.below(4) { lines.push(format!("sched pick {}", rng.below(6))); } }
            if fault_at == Some(s) {
                // (the write budget counts write calls: it is not combined with short writes)
                lines.push(match rng.below(if shortw { 3 } else { 5 }) { 0 => "sched eof".into(), 1 => "sched rderr".into(), 2 => "sched alert".into(), _ => format!("sched budget {}", rng.below(4)) });
            }
            lines.push(format!("sched pick {}", rng.below(6)));
        }
        lines.push("sched drain".into());
        Case { lines }
    }

    fn exec(&self, case: &Case) -> Outcome {
        let rt = runtime();
        let mut out = Outcome::default();
        rt.block_on(async {
            let mut node: Option<Node> = None;
            let ctl = Arc::new(Mutex::new(Ctl { st: vec![], go: vec![], results: vec![], oplog: vec![], opened: vec![], eofs: vec![], verdicts: vec![], unbuffered_decide: false }));
            let mut progs: Vec<Vec<String>> = vec![];
            let mut joins: Vec<tokio::task::JoinHandle<()>> = vec![];
            let mut cause: Option<String> = None;
            // a transport whose writes neither complete nor fail (outside the model: from here on oracle-only)
            let mut stalled = false;
            // inbound frames fed while a stream's SYN was already on the wire: what its reader / opener must get
            let mut fed_data: std::collections::BTreeMap<u32, Vec<u8>> = Default::default();
            let mut fed_verdict: std::collections::BTreeMap<u32, bool> = Default::default();
            let mut fed_fin: std::collections::BTreeSet<u32> = Default::default();
            let mut any_verdict: std::collections::BTreeSet<u32> = Default::default();
            {
                let c2 = ctl.clone();
                anytls_rs::verif::set_point_controller(Some(Arc::new(move |name: &'static str| {
                    let c3 = c2.clone();
                    Box::pin(async move {
                        if let Ok(tid) = TID.try_with(|t| *t) { park(&c3, tid, name).await; }
                    })
                })));
            }
            for line in &case.lines {
                let toks: Vec<&str> = line.split_whitespace().collect();
                if toks.first() != Some(&"sched") { out.obs.push("bad-op".into()); continue; }
                let toks = &toks[1..];
                out.tags.push(format!("op={}", toks.first().copied().unwrap_or("")));
                if toks.first() == Some(&"reset") {
                    match parse_reset(&toks[1..]) {
                        Some((role, scheme, seed, cb, ss)) => {
                            install_draws(seed);
                            match Node::new(&role, &scheme, cb, ss, None).await {
                                Ok((n, o)) => { node = Some(n); out.obs.push(o); out.tags.push(format!("role={role}")); }
                                Err(_) => out.obs.push("reject".into()),
                            }
                        }
                        None => out.obs.push("bad-op".into()),
                    }
                    continue;
                }
                let Some(n) = node.as_mut() else { out.obs.push("nonode".into()); continue; };
                match toks {
                    ["task", prog] => {
                        progs.push(prog.split(';').map(|s| s.to_string()).collect());
                        out.obs.push("ok".into());
                    }
                    ["go"] => {
                        for (tid, prog) in progs.iter().enumerate() {
                            { let mut c = ctl.lock().unwrap(); c.st.push(St::Running); c.go.push(Arc::new(tokio::sync::Notify::new())); c.results.push(vec![]); }
                            let (session, c2, prog) = (n.session.clone(), ctl.clone(), prog.clone());
                            joins.push(tokio::spawn(TID.scope(tid, async move {
                                let mut my_last_sid: u32 = 0;
                                for (oi, op) in prog.iter().enumerate() {
                                    park(&c2, tid, "op").await;
                                    let was_closed = session.is_closed();
                                    let marker = vec![65u8 + tid as u8];
                                    let r: String = if op == "open" {
                                        match session.open_stream().await {
                                            Ok((stream, rx)) => { my_last_sid = stream.id(); c2.lock().unwrap().opened.push(Handle { stream, synack_rx: Some(rx), synack_seen: None }); "ok".into() }
                                            Err(e) => res_str(&Err(e)),
                                        }
                                    } else if op == "nobuf" { session.disable_buffering(); "ok".into() }
                                    else if op == "close" { res_str(&session.close().await) }
                                    else if let Some(rest) = op.strip_prefix('w') {
                                        let p: Vec<u32> = rest.split('.').filter_map(|x| x.parse().ok()).collect();
                                        let f = anytls_rs::protocol::Frame { cmd: anytls_rs::protocol::Command::from(p[0] as u8), stream_id: p[1], data: Bytes::from(marker.repeat(p[2] as usize)) };
                                        res_str(&session.write_control_frame(f).await)
                                    } else if let Some(rest) = op.strip_prefix('o') {
                                        // data on the stream this task opened last (0 if it has none)
                                        let len: usize = rest.parse().unwrap_or(0);
                                        res_str(&session.write_data_frame(my_last_sid, Bytes::from(marker.repeat(len))).await)
                                    } else if let Some(rest) = op.strip_prefix('d') {
                                        let p: Vec<u32> = rest.split('.').filter_map(|x| x.parse().ok()).collect();
                                        res_str(&session.write_data_frame(p[0], Bytes::from(marker.repeat(p[1] as usize))).await)
                                    } else { "bad".into() };
                                    let mut c = c2.lock().unwrap();
                                    c.results[tid].push(r.clone());
                                    c.oplog.push((tid, oi, op.clone(), was_closed, r));
                                }
                                c2.lock().unwrap().st[tid] = St::Done;
                            })));
                        }
                        settle().await;
                        out.obs.push(format!("{}{}", status(&ctl), n.delta().await));
                    }
                    ["pick", k] => {
                        let k: usize = k.parse().unwrap_or(0);
                        let parked: Vec<usize> = { let c = ctl.lock().unwrap(); (0..c.st.len()).filter(|i| matches!(c.st[*i], St::Parked(_))).collect() };
                        if parked.is_empty() { out.obs.push(format!("none {}{}", status(&ctl), n.delta().await)); continue; }
                        let t = parked[k % parked.len()];
                        let at_locked = matches!(&ctl.lock().unwrap().st[t], St::Parked(p) if p == "wf:locked");
                        if at_locked && !n.session.is_closed() && !n.session.verif_buffering() { ctl.lock().unwrap().unbuffered_decide = true; }
                        { let c = ctl.lock().unwrap(); c.go[t].notify_one(); }
                        settle().await;
                        out.obs.push(format!("t={t} {}{}", status(&ctl), n.delta().await));
                    }
                    ["eof"] | ["rderr"] | ["alert"] => {
                        if cause.is_none() { cause = Some(toks[0].to_string()); }
                        match toks[0] {
                            "eof" => { n.feed.lock().unwrap().eof = true; }
                            "rderr" => { n.feed.lock().unwrap().err = true; }
                            _ => { n.feed.lock().unwrap().chunks.push_back(crate::g_frame::ref_encode(5, 0, b"bye")); }
                        }
                        wake(&n.feed);
                        settle().await;
                        out.obs.push(format!("{}{}", status(&ctl), n.delta().await));
                    }
                    ["feed", hx] => {
                        let Some(bytes) = unhex(hx) else { out.obs.push("bad-op".into()); continue; };
                        let on_wire: std::collections::BTreeSet<u32> = { let w = n.wire.lock().unwrap().writes.concat(); crate::g_frame::ref_parse(&w).0.iter().filter(|f| f.0 == 1).map(|f| f.1).collect() };
                        if !n.session.is_closed() {
                            for (c, sid, d) in crate::g_frame::ref_parse(&bytes).0 {
                                // the first answer wins, whenever it came; only answers that follow the SYN on the wire are constrained
                                let first = (c == 7 || c == 3) && any_verdict.insert(sid);
                                if !on_wire.contains(&sid) { if c == 3 { fed_fin.insert(sid); } continue; }
                                if c == 2 && !fed_fin.contains(&sid) { fed_data.entry(sid).or_default().extend_from_slice(&d); }
                                if c == 7 && first { fed_verdict.insert(sid, d.is_empty()); }
                                if c == 3 { fed_fin.insert(sid); if first { fed_verdict.insert(sid, false); } }
                            }
                        }
                        n.feed.lock().unwrap().chunks.push_back(bytes);
                        wake(&n.feed);
                        settle().await;
                        out.obs.push(format!("{}{}", status(&ctl), n.delta().await));
                    }
                    ["stall"] => {
                        n.wire.lock().unwrap().stall = true;
                        stalled = true;
                        out.obs.push("ok".into());
                    }
                    ["shortw", k] => {
                        // back-pressure: the transport accepts at most k bytes per write call (the model's transport
                        // takes whole buffers; `write_all` makes the two indistinguishable on the wire)
                        n.wire.lock().unwrap().max_write = k.parse::<usize>().ok().filter(|k| *k > 0);
                        n.coalesce = *k != "0";
                        out.obs.push("ok".into());
                    }
                    ["budget", k] => {
                        n.wire.lock().unwrap().budget = if *k == "none" { None } else { k.parse().ok() };
                        out.obs.push("ok".into());
                    }
                    ["drain"] => {
                        for _ in 0..400 {
                            let parked: Vec<usize> = { let c = ctl.lock().unwrap(); (0..c.st.len()).filter(|i| matches!(c.st[*i], St::Parked(_))).collect() };
                            let Some(t) = parked.first().copied() else { break };
                            let at_locked = matches!(&ctl.lock().unwrap().st[t], St::Parked(p) if p == "wf:locked");
                            if at_locked && !n.session.is_closed() && !n.session.verif_buffering() { ctl.lock().unwrap().unbuffered_decide = true; }
                            { let c = ctl.lock().unwrap(); c.go[t].notify_one(); }
                            settle().await;
                        }
                        let head = format!("{}{}", status(&ctl), n.delta().await);
                        // the observers take the session's locks: a lock that is never released must not hang the harness
                        let (a, b) = tokio::time::timeout(WATCHDOG, n.session.verif_table_keys()).await.unwrap_or((vec![9999], vec![9999]));
                        let (bf, bl) = match tokio::time::timeout(WATCHDOG, n.session.verif_buffer_state()).await {
                            Ok(x) => x,
                            Err(_) => { if !stalled { out.oracle.push(OracleFail { sig: "lock_never_released/session_concurrent".into(), detail: "the session's buffer lock is still held after every task was released: some task is stuck inside write_frame".into() }); } (false, 9999) }
                        };
                        let fmt = |v: &Vec<u32>| v.iter().map(|x| x.to_string()).collect::<Vec<_>>().join(",");
                        let mut objs: Vec<(u32, String)> = vec![];
                        let closed_now = n.session.is_closed();
                        let streams: Vec<Arc<anytls_rs::session::Stream>> = ctl.lock().unwrap().opened.iter().map(|h| h.stream.clone()).collect();
                        let mut datas: Vec<Vec<u8>> = vec![];
                        let mut eofs: Vec<bool> = vec![];
                        for st in &streams { let (d, e) = read_all_available(st).await; eofs.push(e); datas.push(if closed_now { vec![] } else { d }); }
                        ctl.lock().unwrap().eofs = eofs;
                        let mut verdicts_tmp: Vec<String> = vec![];
                        {
                            let mut c = ctl.lock().unwrap();
                            for (k, hd) in c.opened.iter_mut().enumerate() {
                                let sy = match hd.synack_rx.as_mut().map(|rx| rx.try_recv()) {
                                    Some(Ok(Ok(()))) => "ok".to_string(),
                                    Some(Ok(Err(e))) => format!("err {}", hex(e.to_string().as_bytes())),
                                    Some(Err(tokio::sync::oneshot::error::TryRecvError::Empty)) => "pending".into(),
                                    _ => "dropped".into(),
                                };
                                let sid = hd.stream.id();
                                verdicts_tmp.push(sy.clone());
                                // O (C01/C10): what arrived for a stream whose SYN was on the wire reaches its reader / its opener
                                if !closed_now && cause.is_none() {
                                    if let Some(want) = fed_data.get(&sid) {
                                        if !datas[k].ends_with(want) { out.oracle.push(OracleFail { sig: "inbound_data_lost/open_in_progress".into(), detail: format!("stream {sid}: {} bytes arrived after its SYN was on the wire, its reader obtains {} bytes", want.len(), datas[k].len()) }); }
                                    }
                                    if let Some(ok) = fed_verdict.get(&sid) {
                                        if sy == "pending" || (*ok != (sy == "ok")) { out.oracle.push(OracleFail { sig: "verdict_lost/open_in_progress".into(), detail: format!("stream {sid}: the peer's answer ({}) arrived after the SYN was on the wire, the opener sees '{}'", if *ok { "ok" } else { "refusal / FIN" }, &sy[..sy.len().min(40)]) }); }
                                    }
                                }
                                objs.push((sid, format!("{}:{}:{}:{}", sid, hd.stream.is_closed() as u8, sy, if closed_now { "?".to_string() } else { hex(&datas[k]) })));
                            }
                        }
                        ctl.lock().unwrap().verdicts = verdicts_tmp;
                        objs.sort();
                        out.obs.push(format!("{head} closed={} streams=[{}] recv=[{}] buf={},{} objs=[{}]", n.session.is_closed() as u8, fmt(&a), fmt(&b), bf as u8, bl, objs.iter().map(|x| x.1.clone()).collect::<Vec<_>>().join(",")));
                        oracles(&mut out, &ctl, n, &progs, &cause, stalled).await;
                    }
                    _ => out.obs.push("bad-op".into()),
                }
            }
            for j in joins { j.abort(); }
            if let Some(mut n) = node.take() { n.shutdown(); }
        });
        anytls_rs::verif::set_point_controller(None);
        anytls_rs::verif::set_draw_controller(None);
        out.nontrivial = case.lines.len() > 6;
        out
    }
}

fn status(ctl: &Arc<Mutex<Ctl>>) -> String {
    let c = ctl.lock().unwrap();
    (0..c.st.len()).map(|i| {
        let s = match &c.st[i] { St::Parked(p) => format!("@{p}"), St::Running => "blocked".into(), St::Done => "done".into() };
        format!("T{i}:{s}[{}]", c.results[i].join(","))
    }).collect::<Vec<_>>().join(" ")
}

/// independent of the model: the clauses of C11 and C09 read off the recorded transport and the task results
async fn oracles(out: &mut Outcome, ctl: &Arc<Mutex<Ctl>>, n: &mut Node, progs: &[Vec<String>], cause: &Option<String>, stalled: bool) {
    let wire_bytes: Vec<u8> = n.wire.lock().unwrap().writes.concat();
    let shut = n.wire.lock().unwrap().shutdown;
    let closed = n.session.is_closed();
    let budget_hit = n.wire.lock().unwrap().budget == Some(0);
    let (frames, rest) = crate::g_frame::ref_parse(&wire_bytes);
    let c = ctl.lock().unwrap();
    let any_close_op = progs.iter().any(|p| p.iter().any(|o| o == "close"));
    let terminated = closed || cause.is_some();
    // ---- C09: nothing blocks forever; closed, shut down; later attempts fail; streams released
    for (i, s) in c.st.iter().enumerate() {
        // (with a stalled transport the writer inside it, and whoever queues behind its locks, cannot finish: not judged)
        if *s != St::Done && !stalled {
            out.oracle.push(OracleFail { sig: "task_never_finishes/session_concurrent".into(), detail: format!("task {i} is {:?} after every parked task was released (session closed: {closed})", s) });
        }
    }
    if terminated {
        if !closed { out.oracle.push(OracleFail { sig: "not_closed_after_cause/session_concurrent".into(), detail: format!("cause {:?}: is_closed is false", cause) }); }
        if closed && !shut && !stalled { out.oracle.push(OracleFail { sig: "transport_not_shut_down/session_concurrent".into(), detail: format!("session closed (cause {:?}, close op: {any_close_op}, write failure: {budget_hit}) but the transport was never shut down", cause) }); }
        for (tid, oi, op, was_closed, r) in &c.oplog {
            if *was_closed && r == "ok" && op != "nobuf" && op != "close" {
                out.oracle.push(OracleFail { sig: "attempt_after_close_succeeds/session_concurrent".into(), detail: format!("task {tid} op {oi} `{op}` started after the session was closed and returned ok") });
            }
        }
        for (k, hd) in c.opened.iter().enumerate() {
            if !hd.stream.is_closed() && !c.eofs.get(k).copied().unwrap_or(false) {
                out.oracle.push(OracleFail { sig: "stream_not_released/session_concurrent".into(), detail: format!("stream {} of the closed session is not closed: its reader never reaches end of stream", hd.stream.id()) });
            }
        }
    }
    if terminated && closed {
        for (k, hd) in c.opened.iter().enumerate() {
            if c.verdicts.get(k).map(|v| v == "pending").unwrap_or(false) {
                out.oracle.push(OracleFail { sig: "pending_open_unresolved/session_concurrent".into(), detail: format!("the session is closed and the open of stream {} is still pending: its opener waits for the 30 s timer", hd.stream.id()) });
            }
        }
    }
    if stalled { return; }
    // ---- C11: once a write_frame has decided with buffering off, the buffer was flushed and nothing is ever buffered again
    if c.unbuffered_decide && !closed && no_failure_early(n) {
        let bl = tokio::time::timeout(WATCHDOG, n.session.verif_buffer_state()).await.map(|x| x.1).unwrap_or(0);
        if bl > 0 {
            out.oracle.push(OracleFail { sig: "frame_stranded_in_buffer/wire".into(), detail: format!("{bl} bytes sit in the send buffer although a write_frame ran with buffering off before: an accepted frame never reached the transport") });
        }
    }
    // ---- C02: every stream of a session has its own id
    {
        let mut ids: Vec<u32> = c.opened.iter().map(|h| h.stream.id()).collect();
        ids.sort();
        if let Some(w) = ids.windows(2).find(|w| w[0] == w[1]) {
            out.oracle.push(OracleFail { sig: "stream_id_reused/open_stream".into(), detail: format!("two streams opened on this session both have id {} (ids {:?})", w[0], ids) });
        }
        let mut syns: Vec<u32> = frames.iter().filter(|f| f.0 == 1).map(|f| f.1).collect();
        syns.sort();
        if let Some(w) = syns.windows(2).find(|w| w[0] == w[1]) {
            out.oracle.push(OracleFail { sig: "stream_id_reused/open_stream".into(), detail: format!("two SYN frames for id {} on the wire", w[0]) });
        }
    }
    // ---- C11: the wire is a sequence of whole frames; per-task order; Settings first; SYN before PSH; nothing lost
    let no_failure = !budget_hit;
    if no_failure && !rest.is_empty() && c.st.iter().all(|s| *s == St::Done) {
        out.oracle.push(OracleFail { sig: "frame_torn/wire".into(), detail: format!("{} trailing bytes on the wire do not form a frame", rest.len()) });
    }
    if n.is_client {
        if let Some((cmd, _, _)) = frames.first() { if *cmd != 4 { out.oracle.push(OracleFail { sig: "settings_not_first/wire".into(), detail: format!("first frame on the wire has command {cmd}") }); } }
    }
    // per-task order and loss: the frames each task submitted with result ok, in order, as (cmd, sid, payload length)
    for (tid, prog) in progs.iter().enumerate() {
        let marker = 65u8 + tid as u8;
        // what the wire carries from this task: control frames by sid range, data frames by marker
        let mine: Vec<(u8, u32, usize)> = frames.iter().filter(|(cmd, sid, d)| (*cmd == 2 && d.first() == Some(&marker)) || (*cmd != 2 && *cmd != 1 && *cmd != 4 && *sid / 100 == tid as u32 + 1)).map(|(c, s, d)| (*c, *s, d.len())).collect();
        let mut want: Vec<(u8, u32, usize)> = vec![];
        let mut all_ok = true;
        for (oi, op) in prog.iter().enumerate() {
            let r = c.results[tid].get(oi).cloned().unwrap_or_default();
            if let Some(rest) = op.strip_prefix('w') {
                let p: Vec<u32> = rest.split('.').filter_map(|x| x.parse().ok()).collect();
                if r == "ok" { want.push((p[0] as u8, p[1], p[2] as usize)); } else { all_ok = false; }
            } else if op.starts_with('o') {
                // the stream id is the task's own: compare lengths only (sid filled in from the wire below)
                let len: usize = op[1..].parse().unwrap_or(0);
                if r == "ok" { let mut left = len; while left > 0 { let k = left.min(65535); want.push((2, u32::MAX, k)); left -= k; } } else { all_ok = false; }
            } else if let Some(rest) = op.strip_prefix('d') {
                let p: Vec<u32> = rest.split('.').filter_map(|x| x.parse().ok()).collect();
                if r == "ok" {
                    let mut left = p[1] as usize;
                    if left == 0 { want.push((2, p[0], 0)); }
                    while left > 0 { let k = left.min(65535); want.push((2, p[0], k)); left -= k; }
                } else { all_ok = false; }
            }
        }
        // zero-length data frames carry no marker: leave them out of the comparison
        let want: Vec<(u8, u32, usize)> = want.into_iter().filter(|w| !(w.0 == 2 && w.2 == 0)).collect();
        // own-stream data: the id is whatever the open returned
        let want: Vec<(u8, u32, usize)> = want.iter().enumerate().map(|(i, w)| if w.1 == u32::MAX { (w.0, mine.get(i).map(|m| m.1).unwrap_or(0), w.2) } else { *w }).collect();
        let buffered = tokio::time::timeout(WATCHDOG, n.session.verif_buffer_state()).await.map(|x| x.1 > 0).unwrap_or(true);
        if all_ok && no_failure && !buffered && !closed {
            if mine != want {
                out.oracle.push(OracleFail { sig: "task_frames_lost_or_reordered/wire".into(), detail: format!("task {tid} submitted {:?} (all ok), the wire carries {:?}", want, mine) });
            }
        } else {
            // with failures: what is there must still be in submission order (a subsequence check on the ok-prefix)
            let mut it = want.iter();
            let in_order = mine.iter().all(|m| it.any(|w| w == m)) || !all_ok;
            if !in_order { out.oracle.push(OracleFail { sig: "task_frames_reordered/wire".into(), detail: format!("task {tid}: wire order {:?} is not the submission order {:?}", mine, want) }); }
        }
    }
    // SYN before PSH: a task's data on the stream it opened itself (op `o`) follows that stream's SYN
    for (k, hd) in c.opened.iter().enumerate() {
        let sid = hd.stream.id();
        let Some(owner) = owner_of(&c, sid) else { continue };
        let _ = k;
        let marker = 65u8 + owner as u8;
        let first_syn = frames.iter().position(|f| f.0 == 1 && f.1 == sid);
        let first_own = frames.iter().position(|f| f.0 == 2 && f.1 == sid && f.2.first() == Some(&marker));
        // only `o` ops are known to follow the open in program order
        let has_o = progs[owner].iter().any(|o| o.starts_with('o'));
        let has_d_same = progs[owner].iter().any(|o| o.starts_with(&format!("d{sid}.")));
        if let Some(p) = first_own {
            if has_o && !has_d_same && first_syn.map(|s| s > p).unwrap_or(true) {
                out.oracle.push(OracleFail { sig: "data_before_syn/wire".into(), detail: format!("stream {sid} opened by task {owner}: its first data frame is frame #{p} of the wire, its SYN is {:?}", first_syn) });
            }
        }
    }
}

fn no_failure_early(n: &Node) -> bool { n.wire.lock().unwrap().budget != Some(0) }

/// which task's open produced stream `sid` (from the order in which opens registered: not observable directly;
/// approximated by the marker-free rule: the task whose oplog has an ok open and whose handle has that id)
fn owner_of(c: &Ctl, sid: u32) -> Option<usize> {
    // handles were pushed by the opening task right after open_stream returned: same order as the ok-open entries of the oplog
    let ok_opens: Vec<usize> = c.oplog.iter().filter(|(_, _, op, _, r)| op == "open" && r == "ok").map(|x| x.0).collect();
    c.opened.iter().position(|h| h.stream.id() == sid).and_then(|i| ok_opens.get(i).copied())
}
