//! group `auth` (C06): real `authenticate_client` on a scripted reader (any fragmentation, EOF at
//! any offset), and the server-connection sequence `authenticate_client` → `Session::new_server`
//! on the same reader (as `handle_connection` does after the TLS handshake).
use crate::g_frame::ref_encode;
use crate::node::*;
use crate::util::*;
use crate::Group;
use sha2::{Digest, Sha256};
use std::sync::{Arc, Mutex};

pub struct AuthGroup;

pub const PASSWORDS: &[&str] = &["pw", "hunter2\n", "hunter2 ", " hunter2", "hunter2\r\n", "pass word\t", "", " ", "\n", "P\u{e4}ss w\u{f6}rd", "MiXeD", "x\u{a0}", "0123456789abcdef0123456789abcdef0123456789abcdef0123456789abcdef0123456789abcdef", "tab\tinside", "nul\u{0}byte"];

fn sha(p: &str) -> Vec<u8> { let mut h = Sha256::new(); h.update(p.as_bytes()); h.finalize().to_vec() }

fn cut(rng: &mut Rng, w: &[u8]) -> Vec<Vec<u8>> {
    let k = rng.below(5) as usize;
    let mut cuts: Vec<usize> = (0..k).map(|_| if rng.chance(1, 2) { rng.below(std::cmp::min(40, w.len() as u64 + 1)) as usize } else { rng.below(w.len() as u64 + 1) as usize }).collect();
    cuts.sort();
    let mut out = vec![];
    let mut prev = 0;
    for c in cuts { if c > prev { out.push(w[prev..c].to_vec()); prev = c; } }
    if prev < w.len() || out.is_empty() { out.push(w[prev..].to_vec()); }
    out
}

fn line(kind: &str, exp: &[u8], eof: bool, chunks: &[Vec<u8>]) -> String {
    format!("auth {kind} {} {} {}", hex(exp), eof as u8, chunks.iter().map(|c| hex_compact(c)).collect::<Vec<_>>().join(" "))
}

/// m*b + d for every buffer size b, m >= 1, d in {-1, 0, 1}, within the 16-bit length field
fn boundary_lens(bufs: &[usize]) -> Vec<usize> {
    let mut v = vec![];
    for b in bufs { let mut m = 1; while m * b <= 65536 { for d in [-1i64, 0, 1] { let x = (m * b) as i64 + d; if x >= 0 && x <= 65535 { v.push(x as usize); } } m += 1; } }
    v
}

impl Group for AuthGroup {
    fn default_cases(&self, tier: &str) -> u64 { if tier == "thorough" { 30_000 } else { 1_000 } }

    fn fixed(&self, tier: &str) -> Vec<Case> {
        let exp = sha("correct horse");
        let mut v = vec![];
        let tail = ref_encode(1, 1, &[]); // a SYN right after the preamble
        let mk = |h: &[u8]| { let mut w = h.to_vec(); w.extend_from_slice(&[0, 3, 9, 9, 9]); w.extend_from_slice(&tail); w };
        // every single-bit deviation of the hash (256) and every single-byte substitution (32 x 255)
        for bit in 0..256 {
            let mut h = exp.clone();
            h[bit / 8] ^= 1 << (bit % 8);
            v.push(Case { lines: vec![line("conn", &exp, false, &[mk(&h)])] });
        }
        for i in 0..32 {
            for d in 1..=255u8 {
                let mut h = exp.clone();
                h[i] = h[i].wrapping_add(d);
                v.push(Case { lines: vec![line("v", &exp, false, &[mk(&h)])] });
            }
        }
        // every truncation of a valid preamble with 5 bytes of declared padding, with and without EOF
        let mut w = exp.clone(); w.extend_from_slice(&[0, 5, 1, 2, 3, 4, 5]); w.extend_from_slice(&tail);
        for k in 0..=w.len() {
            v.push(Case { lines: vec![line("conn", &exp, false, &[w[..k].to_vec()])] });
            v.push(Case { lines: vec![line("v", &exp, true, &[w[..k].to_vec()])] });
        }
        // a pause of 1 ms .. 40 s at every cut of a valid preamble, and junk / pause / the right preamble (the bytes are
        // what counts, not when they arrive)
        for k in 1..w.len() {
            for ms in [1u64, 1500, 2500, 11000, 40000] {
                if ms != 2500 && k % 5 != 0 { continue; }
                v.push(Case { lines: vec![format!("auth v {} 0 {} ~{ms} {}", hex(&exp), hex_compact(&w[..k]), hex_compact(&w[k..]))] });
            }
        }
        for k in [1usize, 7, 31] {
            let mut junk = vec![0x5au8; k]; junk.extend_from_slice(&w);
            v.push(Case { lines: vec![format!("auth conn {} 0 {} ~2500 {}", hex(&exp), hex_compact(&junk[..k]), hex_compact(&junk[k..]))] });
        }
        // declared padding lengths at the boundaries of every plausible buffer size (a chunked skip loop goes wrong there)
        let mut bl: Vec<usize> = boundary_lens(if tier == "thorough" { &[512, 1000, 1024, 1460, 2048, 4096, 8192, 16384, 32768] } else { &[4096, 8192, 16384, 32768] });
        for j in 0..16 { for d in [-1i64, 0, 1] { let x = (1i64 << j) + d; if x >= 0 && x <= 65535 { bl.push(x as usize); } } }
        bl.sort(); bl.dedup();
        for p in bl {
            let mut w = exp.clone(); w.extend_from_slice(&(p as u16).to_be_bytes()); w.extend(vec![0u8; p]); w.extend_from_slice(&tail);
            v.push(Case { lines: vec![line("conn", &exp, false, &[w.clone()])] });
        }
        // declared padding lengths
        for p in [0usize, 1, 2, 255, 256, 257, 65534, 65535] {
            let mut w = exp.clone(); w.extend_from_slice(&(p as u16).to_be_bytes()); w.extend(vec![0u8; p]); w.extend_from_slice(&tail);
            v.push(Case { lines: vec![line("conn", &exp, false, &[w.clone()])] });
            // one byte short of the declared padding
            let mut w2 = w.clone(); w2.truncate(34 + p.saturating_sub(1));
            v.push(Case { lines: vec![line("conn", &exp, false, &[w2])] });
        }
        // structured multi-byte deviations: equal delta in two bytes (for every pair of positions), two bytes
        // swapped, rotations, reversal, complement, all bytes xor k
        for i in 0..32 {
            for j in (i + 1)..32 {
                let mut h = exp.clone();
                let d = 1u8 << ((i + j) % 8);
                h[i] ^= d; h[j] ^= d;
                v.push(Case { lines: vec![line("v", &exp, false, &[mk(&h)])] });
                let mut h2 = exp.clone();
                h2.swap(i, j);
                if h2 != exp { v.push(Case { lines: vec![line("v", &exp, false, &[mk(&h2)])] }); }
            }
        }
        for r in 1..32 { let mut h = exp.clone(); h.rotate_left(r); v.push(Case { lines: vec![line("v", &exp, false, &[mk(&h)])] }); }
        { let mut h = exp.clone(); h.reverse(); v.push(Case { lines: vec![line("conn", &exp, false, &[mk(&h)])] }); }
        for k in [0xffu8, 0x01, 0x80, 0x55] { let h: Vec<u8> = exp.iter().map(|b| b ^ k).collect(); v.push(Case { lines: vec![line("conn", &exp, false, &[mk(&h)])] }); }
        // a correct prefix of every length followed by zeros / by the wrong tail
        for k in 0..32 { let mut h = exp.clone(); for b in h[k..].iter_mut() { *b = 0; } if h != exp { v.push(Case { lines: vec![line("v", &exp, false, &[mk(&h)])] }); } }
        // configured passwords of every shape (surrounding whitespace, line ends, case, empty, non-ASCII, long) against
        // the digest of the password itself and of its near relatives
        for pw in PASSWORDS {
            let mut rel: Vec<String> = vec![pw.to_string(), pw.trim().to_string(), pw.trim_end().to_string(), pw.trim_start().to_string(), pw.to_lowercase(), pw.to_uppercase(), format!("{pw}\n"), format!("{pw} "), format!(" {pw}"), pw.replace(' ', ""), pw.chars().take(pw.chars().count().saturating_sub(1)).collect()];
            rel.dedup();
            for r in rel {
                let mut w = sha(&r); w.extend_from_slice(&[0, 2, 9, 9]); w.extend_from_slice(&tail);
                v.push(Case { lines: vec![format!("auth pw {} 0 {}", hex_compact(pw.as_bytes()), hex_compact(&w))] });
            }
        }
        // hashes of related passwords
        for p in ["correct horse ", "Correct horse", "correct hors", "correct horse\n", "correct horsf", "", "correct  horse"] {
            v.push(Case { lines: vec![line("conn", &exp, false, &[mk(&sha(p))])] });
        }
        v
    }

    fn generate(&self, rng: &mut Rng, _tier: &str, _idx: u64) -> Case {
        let pw = format!("pw{}", rng.below(50));
        let exp = sha(&pw);
        let good = rng.chance(2, 3);
        let mut h = if good { exp.clone() } else if rng.chance(1, 2) { sha(&format!("pw{}", rng.below(50) + 100)) } else { rng.bytes(32) };
        if !good && rng.chance(1, 3) { h = exp.clone(); let i = rng.below(32) as usize; h[i] ^= 1 << rng.below(8); }
        let p = match rng.below(7) { 0 => 0, 1 => 1, 2 => 255, 3 => 256, 4 => *rng.pick(&[65534usize, 65535]), 5 => { let bl = boundary_lens(&[512, 1000, 1024, 1460, 2048, 4096, 8192, 16384, 32768]); *rng.pick(&bl) } _ => rng.below(600) as usize };
        let mut w = h.clone();
        w.extend_from_slice(&(p as u16).to_be_bytes());
        let fill = rng.next() as u8;
        w.extend(vec![fill; p]);
        // what follows: frames (SYN, PSH with a destination, Settings) or garbage
        let nf = rng.below(4);
        for i in 0..nf {
            match rng.below(4) {
                0 => w.extend(ref_encode(1, i as u32 + 1, &[])),
                1 => w.extend(ref_encode(2, 1, &[1, 127, 0, 0, 1, 0, 80])),
                2 => w.extend(ref_encode(4, 0, b"v=2")),
                _ => { let n = rng.below(9) as usize; w.extend(rng.bytes(n)); }
            }
        }
        if rng.chance(1, 4) { let k = rng.below(w.len() as u64 + 1) as usize; w.truncate(k); }
        let chunks = cut(rng, &w);
        let kind = if rng.chance(1, 2) { "conn" } else { "v" };
        let eof = kind == "v" && rng.chance(1, 2);
        if chunks.len() >= 2 && rng.chance(1, 5) {
            // the same with pauses between some of the chunks
            let mut toks: Vec<String> = vec![];
            for (i, c) in chunks.iter().enumerate() { if i > 0 && rng.chance(1, 2) { toks.push(format!("~{}", rng.pick(&[1u64, 900, 2100, 5000, 21000, 61000]))); } toks.push(hex_compact(c)); }
            return Case { lines: vec![format!("auth {kind} {} {} {}", hex(&exp), eof as u8, toks.join(" "))] };
        }
        if rng.chance(1, 8) {
            // the same through the configuration step: password in, digest derived by the code
            let pw = *rng.pick(PASSWORDS);
            let rel = match rng.below(6) { 0 => pw.trim().to_string(), 1 => pw.trim_end().to_string(), 2 => pw.to_lowercase(), 3 => format!("{pw}\n"), _ => pw.to_string() };
            let mut w = sha(&rel);
            w.extend_from_slice(&(p as u16).to_be_bytes());
            w.extend(vec![fill; p]);
            let chunks = cut(rng, &w);
            return Case { lines: vec![format!("auth pw {} {} {}", hex_compact(pw.as_bytes()), eof as u8, chunks.iter().map(|c| hex_compact(c)).collect::<Vec<_>>().join(" "))] };
        }
        Case { lines: vec![line(kind, &exp, eof, &chunks)] }
    }

    fn exec(&self, case: &Case) -> Outcome {
        let rt = runtime();
        let mut out = Outcome::default();
        rt.block_on(async {
            let mut stalls: Vec<(usize, u64)> = vec![];
            for l in &case.lines {
                let toks: Vec<&str> = l.split_whitespace().collect();
                let (kind, exp, eof, chunks) = match toks.as_slice() {
                    ["auth", kind, exp, eof, chunks @ ..] => {
                        // stall tokens `~ms` are positions in the chunk list (number of chunks before them)
                        stalls.clear();
                        let mut k = 0usize;
                        for c in chunks.iter() { if let Some(ms) = c.strip_prefix('~') { stalls.push((k, ms.parse::<u64>().unwrap_or(0))); } else { k += 1; } }
                        (*kind, unhex(exp), *eof == "1", chunks.iter().filter(|c| !c.starts_with('~')).map(|c| unhex(c)).collect::<Option<Vec<_>>>())
                    }
                    _ => { out.obs.push("bad-op".into()); continue; }
                };
                let (Some(exp), Some(chunks)) = (exp, chunks) else { out.obs.push("bad-op".into()); continue; };
                // kind `pw`: the second field is the configured password; the digest the server compares with is
                // derived by the code's own configuration step, the oracle's by an independent SHA-256
                let (exp, e32) = if kind == "pw" {
                    let Ok(pw) = String::from_utf8(exp.clone()) else { out.obs.push("bad-op".into()); continue; };
                    (sha(&pw), anytls_rs::util::hash_password(&pw))
                } else {
                    if exp.len() != 32 { out.obs.push("bad-op".into()); continue; }
                    let mut e32 = [0u8; 32];
                    e32.copy_from_slice(&exp);
                    (exp, e32)
                };
                let all: Vec<u8> = chunks.concat();
                let feed = Arc::new(Mutex::new(FeedState::default()));
                let mut reader = ScriptReader(feed.clone());
                let factory = Arc::new(anytls_rs::padding::PaddingFactory::new(b"stop=0").unwrap());
                // `~ms` tokens between chunks: the bytes so far have arrived, the rest follows ms (virtual) later
                let r = if stalls.is_empty() {
                    for c in &chunks { if !c.is_empty() { feed.lock().unwrap().chunks.push_back(c.clone()); } }
                    feed.lock().unwrap().eof = eof;
                    tokio::time::timeout(std::time::Duration::from_millis(5), anytls_rs::util::authenticate_client(&mut reader, &e32, &factory)).await
                } else {
                    let fut = anytls_rs::util::authenticate_client(&mut reader, &e32, &factory);
                    tokio::pin!(fut);
                    let mut done = None;
                    for (i, c) in chunks.iter().enumerate() {
                        if !c.is_empty() { feed.lock().unwrap().chunks.push_back(c.clone()); crate::node::wake(&feed); }
                        let ms = stalls.iter().filter(|(at, _)| *at == i + 1).map(|x| x.1).sum::<u64>();
                        if ms > 0 && done.is_none() {
                            tokio::select! { r = &mut fut => { done = Some(r); } _ = tokio::time::sleep(std::time::Duration::from_millis(ms)) => {} }
                        }
                    }
                    feed.lock().unwrap().eof = eof;
                    crate::node::wake(&feed);
                    match done { Some(r) => Ok(r), None => tokio::time::timeout(std::time::Duration::from_millis(5), &mut fut).await }
                };
                let consumed = feed.lock().unwrap().consumed;
                let verdict = match &r {
                    Err(_) => "more",
                    Ok(Ok(())) => "accept",
                    Ok(Err(anytls_rs::util::AnyTlsError::AuthenticationFailed)) => "reject",
                    Ok(Err(_)) => "err-eof",
                };
                // O (C06): accept iff the first 32 bytes are the hash (and the declared padding arrived)
                let hash_ok = all.len() >= 32 && all[..32] == exp[..];
                let complete = hash_ok && all.len() >= 34 && all.len() >= 34 + u16::from_be_bytes([all[32], all[33]]) as usize;
                if (verdict == "accept") != complete {
                    out.oracle.push(OracleFail { sig: "accept_iff_hash/authenticate_client".into(), detail: format!("verdict {verdict} for a preamble whose hash matches={hash_ok}, complete={complete}") });
                }
                if verdict == "accept" && consumed != 34 + u16::from_be_bytes([all[32], all[33]]) as usize {
                    out.oracle.push(OracleFail { sig: "padding_not_skipped_exactly/authenticate_client".into(), detail: format!("consumed {consumed} bytes") });
                }
                out.tags.push(format!("{kind}/{verdict}"));
                out.nontrivial = true;
                if kind == "v" || kind == "pw" {
                    out.obs.push(format!("{verdict} consumed={consumed}"));
                    continue;
                }
                // the server connection: a session only after an accepted preamble
                if verdict != "accept" {
                    out.obs.push(format!("{verdict} nosession"));
                    continue;
                }
                let mut node = Node::server_on(reader, feed.clone(), b"stop=0").await;
                let st = node.op(&["state"]).await;
                // O: frames are parsed from the first byte after the padding
                let after = &all[consumed..];
                let (frames, _) = crate::g_frame::ref_parse(after);
                let mut expect: Vec<u32> = vec![];
                for (c, sid, _) in &frames { if *c == 1 { if !expect.contains(sid) { expect.push(*sid); } } if *c == 3 { expect.retain(|x| x != sid); } if *c == 5 { expect.clear(); break; } }
                expect.sort();
                let want = format!("streams=[{}]", expect.iter().map(|x| x.to_string()).collect::<Vec<_>>().join(","));
                if !st.contains(&want) {
                    out.oracle.push(OracleFail { sig: "parse_start_wrong/server_connection".into(), detail: format!("expected {want}, session reports {}", st.split(" | ").next().unwrap_or("")) });
                }
                out.obs.push(format!("accept {}", st.split(" | ").next().unwrap_or("")));
                node.shutdown();
            }
        });
        out
    }
}
