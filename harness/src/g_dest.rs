//! group `dest` (C07, C15): destination headers, UDP-over-TCP framing and the resolver cache,
//! driven through the real (private, hook-exposed) readers/encoders and through the real
//! `Client::create_proxy_stream` on a pool pre-seeded with a session on an in-memory transport.
use crate::node::*;
use crate::util::*;
use crate::Group;
use anytls_rs::session::{Stream, StreamReader};
use bytes::Bytes;
use std::net::{IpAddr, Ipv4Addr, Ipv6Addr, SocketAddr};
use std::sync::Arc;
use tokio::sync::mpsc;

pub struct DestGroup;

pub fn cut(rng: &mut Rng, w: &[u8]) -> Vec<Vec<u8>> {
    let k = rng.below(5) as usize;
    let mut cuts: Vec<usize> = (0..k).map(|_| rng.below(w.len() as u64 + 1) as usize).collect();
    cuts.sort();
    let mut out = vec![];
    let mut prev = 0;
    for c in cuts { out.push(w[prev..c].to_vec()); prev = c; }
    out.push(w[prev..].to_vec());
    // empty chunks are legal (zero-length data frames)
    out
}

fn chunks_str(cs: &[Vec<u8>]) -> String { cs.iter().map(|c| hex_compact(c)).collect::<Vec<_>>().join(" ") }

/// the same with pauses (`~ms`, virtual time) between some of the chunks, in a fifth of the fragmented cases
fn chunks_str_paused(rng: &mut Rng, cs: &[Vec<u8>]) -> String {
    if cs.len() < 2 || !rng.chance(1, 5) { return chunks_str(cs); }
    let mut toks = vec![];
    for (i, c) in cs.iter().enumerate() { if i > 0 && rng.chance(1, 2) { toks.push(format!("~{}", rng.pick(&[1u64, 900, 2100, 11000, 31000, 61000]))); } toks.push(hex_compact(c)); }
    toks.join(" ")
}

fn gen_domain(rng: &mut Rng) -> Vec<u8> {
    let len = *rng.pick(&[1usize, 2, 3, 9, 63, 64, 254, 255]);
    match rng.below(6) {
        0 => b"localhost".to_vec(),
        1 => b"127.0.0.1".to_vec(),
        2 => "b\u{fc}cher.example".as_bytes().to_vec(),
        _ => (0..len).map(|i| b"abcdefghijklmnopqrstuvwxyz0123456789-."[(i * 7 + rng.below(3) as usize) % 38]).collect(),
    }
}

/// three distinct host names: short ones, or long ones (up to the 253-byte name limit) that share a
/// long common prefix, differ in one label only, or are prefixes of one another
fn gen_hosts(rng: &mut Rng) -> [Vec<u8>; 3] {
    let label = |rng: &mut Rng, n: usize| -> Vec<u8> { (0..n).map(|_| b"abcdefghijklmnopqrstuvwxyz0123456789"[rng.below(36) as usize]).collect() };
    match rng.below(4) {
        0 => [b"a.test".to_vec(), b"b.test".to_vec(), b"c.test".to_vec()],
        1 => {
            // common prefix of 1..240 bytes made of labels of at most 63 bytes, distinct tails
            let plen = *rng.pick(&[1usize, 15, 31, 32, 62, 63, 64, 65, 100, 127, 128, 200, 240]);
            let mut pre = vec![];
            while pre.len() < plen { let r = rng.range(1, 63) as usize; let n = (plen - pre.len()).min(r); pre.extend(label(rng, n)); if pre.len() < plen { pre.push(b'.'); } }
            let mk = |t: &[u8]| { let mut v = pre.clone(); v.extend_from_slice(t); v };
            [mk(b"x.test"), mk(b"y.test"), mk(b"x.tesu")]
        }
        2 => {
            // each a proper prefix of the next
            let a = { let n = rng.range(1, 60) as usize; let mut v = label(rng, n); v.extend_from_slice(b".test"); v };
            let b = { let n = rng.range(1, 40) as usize; let mut v = a.clone(); v.extend(label(rng, n)); v };
            let c = { let n = rng.range(1, 63) as usize; let mut v = b.clone(); v.push(b'.'); v.extend(label(rng, n)); v };
            [a, b, c]
        }
        _ => {
            // same length, one byte differs at a random position
            let n = rng.range(3, 63) as usize;
            let base = label(rng, n);
            let mut v = [base.clone(), base.clone(), base.clone()];
            let i = rng.below(n as u64) as usize;
            v[0][i] = b'a'; v[1][i] = b'b'; v[2][i] = b'c';
            for h in v.iter_mut() { h.extend_from_slice(b".test"); }
            v
        }
    }
}

fn enc_dest(kind: u8, addr: &[u8], port: u16) -> Vec<u8> {
    let mut v = vec![kind];
    if kind == 3 { v.push(addr.len() as u8); }
    v.extend_from_slice(addr);
    v.extend_from_slice(&port.to_be_bytes());
    v
}

const PORTS: [u16; 8] = [0, 1, 80, 255, 256, 443, 65534, 65535];

fn new_stream(chunks: &[Vec<u8>], open: bool) -> (Arc<Stream>, Option<mpsc::UnboundedSender<Bytes>>) {
    let (tx, rx) = mpsc::unbounded_channel::<Bytes>();
    let (wtx, _wrx) = mpsc::unbounded_channel::<(u32, Bytes)>();
    for c in chunks { let _ = tx.send(Bytes::from(c.clone())); }
    let reader = StreamReader::new(1, rx);
    let (stream, _rx) = Stream::new(1, reader, wtx);
    (Arc::new(stream), if open { Some(tx) } else { None })
}

/// chunk tokens with pauses: `~ms` between two chunks = the rest arrives ms (virtual) later.  Returns the chunks
/// and, for each pause, (number of chunks before it, ms).
fn split_pauses(toks: &[&str]) -> Option<(Vec<Vec<u8>>, Vec<(usize, u64)>)> {
    let mut cs = vec![];
    let mut ps = vec![];
    for t in toks { if let Some(ms) = t.strip_prefix('~') { ps.push((cs.len(), ms.parse().ok()?)); } else { cs.push(unhex(t)?); } }
    Some((cs, ps))
}

/// run `fut` (a decoder reading from the stream whose sender is `tx`) while the chunks arrive with the given pauses
async fn feed_paused<T>(fut: impl std::future::Future<Output = T>, tx: mpsc::UnboundedSender<Bytes>, chunks: &[Vec<u8>], pauses: &[(usize, u64)], keep_open: bool) -> Option<T> {
    tokio::pin!(fut);
    let mut done = None;
    for i in 0..=chunks.len() {
        let ms: u64 = pauses.iter().filter(|(at, _)| *at == i).map(|x| x.1).sum();
        if ms > 0 && done.is_none() {
            tokio::select! { r = &mut fut => { done = Some(r); } _ = tokio::time::sleep(std::time::Duration::from_millis(ms)) => {} }
        }
        if i < chunks.len() { let _ = tx.send(Bytes::from(chunks[i].clone())); }
    }
    let _keep = if keep_open { Some(tx) } else { drop(tx); None };
    match done { Some(r) => Some(r), None => tokio::time::timeout(std::time::Duration::from_millis(1), &mut fut).await.ok() }
}

fn canon_ip(s: &str) -> Option<Vec<u8>> {
    match s.parse::<IpAddr>().ok()? { IpAddr::V4(a) => Some(a.octets().to_vec()), IpAddr::V6(a) => Some(a.octets().to_vec()) }
}

/// IPv6 addresses of every special form (a uniformly random one is never in any of these ranges)
pub const V6_SPECIAL: &[[u8; 16]] = &[
    [0; 16],                                                        // ::
    [0, 0, 0, 0, 0, 0, 0, 0, 0, 0, 0, 0, 0, 0, 0, 1],               // ::1
    [0, 0, 0, 0, 0, 0, 0, 0, 0, 0, 0, 0, 10, 1, 2, 3],              // ::10.1.2.3 (IPv4-compatible)
    [0, 0, 0, 0, 0, 0, 0, 0, 0, 0, 0, 0, 0, 0, 1, 0],               // ::1:0
    [0, 0, 0, 0, 0, 0, 0, 0, 0, 0, 0xff, 0xff, 127, 0, 0, 1],       // ::ffff:127.0.0.1 (IPv4-mapped)
    [0, 0, 0, 0, 0, 0, 0, 0, 0, 0, 0xff, 0xff, 0, 0, 0, 0],         // ::ffff:0.0.0.0
    [0, 0x64, 0xff, 0x9b, 0, 0, 0, 0, 0, 0, 0, 0, 192, 0, 2, 33],   // 64:ff9b::192.0.2.33 (NAT64)
    [0xfe, 0x80, 0, 0, 0, 0, 0, 0, 0, 0, 0, 0, 0, 0, 0, 1],         // fe80::1
    [0xff, 0x02, 0, 0, 0, 0, 0, 0, 0, 0, 0, 0, 0, 0, 0, 1],         // ff02::1
    [0x20, 0x01, 0x0d, 0xb8, 0, 0, 0, 0, 0, 0, 0, 0, 0, 0, 0, 5],   // 2001:db8::5
    [0x20, 0x02, 0x7f, 0, 0, 1, 0, 0, 0, 0, 0, 0, 0, 0, 0, 0],      // 2002:7f00:1:: (6to4)
    [0xff; 16],
    [0, 0, 0, 0, 0, 0, 0, 0, 0, 0, 0, 1, 0, 0, 0, 0],               // ::1:0:0
];
pub const V4_SPECIAL: &[[u8; 4]] = &[[0, 0, 0, 0], [0, 0, 0, 1], [127, 0, 0, 1], [255, 255, 255, 255], [10, 0, 0, 1], [169, 254, 1, 1], [224, 0, 0, 1]];

fn gen_v6(rng: &mut Rng) -> Vec<u8> {
    match rng.below(4) {
        0 => rng.pick(V6_SPECIAL).to_vec(),
        1 => { let mut a = vec![0u8; 12]; if rng.chance(1, 2) { a[10] = 0xff; a[11] = 0xff; } a.extend(rng.bytes(4)); a }
        2 => { let mut a = vec![0u8; 16]; let k = rng.below(16) as usize; a[k] = rng.next() as u8; a }
        _ => rng.bytes(16),
    }
}
fn gen_v4(rng: &mut Rng) -> Vec<u8> { if rng.chance(1, 3) { rng.pick(V4_SPECIAL).to_vec() } else { rng.bytes(4) } }

impl Group for DestGroup {
    fn default_cases(&self, tier: &str) -> u64 { if tier == "thorough" { 60_000 } else { 3_000 } }

    fn fixed(&self, _tier: &str) -> Vec<Case> {
        let mut v = vec![];
        // every cut position of a short domain destination
        let w = { let mut w = enc_dest(3, b"a.b", 443); w.extend_from_slice(b"TAIL"); w };
        for k in 0..=w.len() { v.push(Case { lines: vec![format!("dest dec 1 {} {}", hex(&w[..k]), hex(&w[k..]))] }); }
        // the relay loop: a datagram cut in two with a pause of 1 ms .. 61 s between the pieces, followed by another one
        for (k, ms) in [(1usize, 2500u64), (2, 6000), (3, 1), (300, 6000), (502, 11000), (1000, 61000), (1201, 6000)] {
            let d1: Vec<u8> = (0..1200usize).map(|i| (i * 7 % 251) as u8).collect();
            let mut w = (d1.len() as u16).to_be_bytes().to_vec(); w.extend_from_slice(&d1);
            let d2 = vec![0x5au8; 30];
            let mut w2 = (d2.len() as u16).to_be_bytes().to_vec(); w2.extend_from_slice(&d2);
            v.push(Case { lines: vec![format!("dest udprelay 000401020304 {} ~{ms} {} {}", hex_compact(&w[..k]), hex_compact(&w[k..]), hex_compact(&w2))] });
        }
        // an abandoned read into a large buffer, then data, then reads into small buffers
        v.push(Case { lines: vec![format!("dest aread r:64 c:{} c:{} x r:8 r:8 r:8 r:8 r:8 r:8 r:8", hex(&(0u8..36).collect::<Vec<u8>>()), hex(&(100u8..110).collect::<Vec<u8>>()))] });
        v.push(Case { lines: vec!["dest aread r:3 r:100 c:0102030405 r:2 r:2 r:2 r:2 x r:1".to_string()] });
        // the opposite direction: a long datagram followed by shorter ones (a stale receive buffer must not show)
        v.push(Case { lines: vec![format!("dest udpback {} 0102 03 {}", hex_compact(&vec![0xabu8; 1472]), hex_compact(&vec![0x11u8; 65507]))] });
        v.push(Case { lines: vec!["dest udpback 01 0203 040506 07".to_string()] });
        // ... and with a pause at every cut
        for k in 1..w.len() { v.push(Case { lines: vec![format!("dest dec 1 {} ~2500 {}", hex(&w[..k]), hex(&w[k..]))] }); }
        // regression witness of the cache defect (DESIGN §6 D6): same host, other port
        v.push(Case { lines: vec!["dns clear".into(), "dns rlocal2 80 443".into(), "dns rlocal2 8080 80".into(), "dns clear".into(), "dns rlocal2 443 80".into()] });
        v.push(Case { lines: vec!["dns clear".into(), format!("dns seed {} 7f000001:80", hex(b"h.test")), format!("dns resolve {} 443", hex(b"h.test")), "dns rlocal 80".into(), "dns rlocal 443".into()] });
        // every special IPv4 / IPv6 form through the real client encoder and the real server decoder
        for a in V6_SPECIAL { v.push(Case { lines: vec![format!("dest enc 4 {} 443", hex_compact(a))] }); v.push(Case { lines: vec![format!("dest dec 1 {}", hex(&enc_dest(4, a, 8080)))] }); }
        for a in V4_SPECIAL { v.push(Case { lines: vec![format!("dest enc 1 {} 80", hex_compact(a))] }); v.push(Case { lines: vec![format!("dest dec 1 {}", hex(&enc_dest(1, a, 8080)))] }); }
        // domain length boundaries through the real client
        for l in [1usize, 255, 256, 300] { v.push(Case { lines: vec![format!("dest enc 3 {} 443", hex_compact(&vec![b'a'; l]))] }); }
        v
    }

    fn generate(&self, rng: &mut Rng, _tier: &str, _idx: u64) -> Case {
        let port = if rng.chance(1, 2) { *rng.pick(&PORTS) } else { rng.next() as u16 };
        let k = rng.below(100);
        let open = rng.chance(2, 3) as u8;
        if k < 30 {
            // server-side destination reader
            let (kind, addr) = match rng.below(5) { 0 => (1u8, gen_v4(rng)), 1 => (4, gen_v6(rng)), 2 => (4, { let mut a = vec![0u8; 10]; a.extend_from_slice(&[0xff, 0xff]); a.extend(rng.bytes(4)); a }), _ => (3, gen_domain(rng)) };
            let mut w = enc_dest(kind, &addr, port);
            match rng.below(8) { 0 => { let n = rng.below(w.len() as u64) as usize; w.truncate(n); } 1 => { w[0] = rng.next() as u8; } 2 => { if kind == 3 { w[1] = 0; } } 3 => { if kind == 3 && w.len() > 4 { w[3] = 0xff; } } _ => {} }
            if rng.chance(1, 2) { let n = rng.below(10) as usize; w.extend(rng.bytes(n)); }
            return Case { lines: vec![format!("dest dec {} {}", open, { let cs = cut(rng, &w); chunks_str_paused(rng, &cs) })] };
        }
        if k < 42 {
            let (kind, addr) = match rng.below(4) { 0 | 1 => (1u8, gen_v4(rng)), 2 => (4, gen_v6(rng)), _ => (3, b"127.0.0.1".to_vec()) };
            let mut w = vec![if rng.chance(1, 10) { rng.next() as u8 } else { 1 }];
            w.extend(enc_dest(kind, &addr, port));
            if rng.chance(1, 6) { let n = rng.below(w.len() as u64) as usize; w.truncate(n); }
            if rng.chance(1, 2) { let n = rng.below(10) as usize; w.extend(rng.bytes(n)); }
            return Case { lines: vec![format!("dest udpreq {} {}", open, { let cs = cut(rng, &w); chunks_str_paused(rng, &cs) })] };
        }
        if k < 54 {
            let (kind, addr) = match rng.below(4) { 0 => (1u8, gen_v4(rng)), 1 => (4, gen_v6(rng)), _ => (3, if rng.chance(1, 5) { vec![b'x'; *rng.pick(&[255usize, 256, 257, 400])] } else { gen_domain(rng) }) };
            // a name that spells an IP literal is classified as an IP by the client: not a domain request
            let addr = if kind == 3 && String::from_utf8(addr.clone()).ok().map(|s| s.parse::<IpAddr>().is_ok()).unwrap_or(false) { b"localhost".to_vec() } else { addr };
            return Case { lines: vec![format!("dest enc {} {} {}", kind, hex_compact(&addr), port)] };
        }
        if k < 62 {
            let n = *rng.pick(&[0usize, 1, 2, 255, 256, 1472, 65506, 65507, 65535, 65536, 70000]);
            let side = if rng.chance(1, 2) { "c" } else { "s" };
            return Case { lines: vec![format!("dest dgenc {} {}", side, hex_compact(&{ if n > 300 { vec![0x42; n] } else { rng.bytes(n) } }))] };
        }
        if k < 85 {
            // a sequence of datagrams, prefix possibly split across chunks
            let nd = rng.range(1, 5);
            let mut w = vec![];
            for _ in 0..nd {
                let n = if rng.chance(1, 8) { *rng.pick(&[1usize, 255, 256, 1472, 65507, 65535]) } else { rng.range(1, 40) as usize };
                let d = if n > 300 { vec![rng.next() as u8; n] } else { rng.bytes(n) };
                w.extend_from_slice(&(n as u16).to_be_bytes());
                w.extend(d);
            }
            match rng.below(8) { 0 => { w.extend_from_slice(&[0, 0]); w.extend(rng.bytes(3)); } 1 => { let n = rng.below(w.len() as u64) as usize; w.truncate(n); } _ => {} }
            let side = if rng.chance(1, 2) { "c" } else { "s" };
            return Case { lines: vec![format!("dest dgdec {} {} {}", side, open, chunks_str(&cut(rng, &w)))] };
        }
        if k < 86 {
            // the opposite direction of the relay: 1-5 datagrams from the target, long ones before short ones
            let nd = rng.range(1, 5);
            let mut toks = vec![];
            for _ in 0..nd { let n = if rng.chance(1, 3) { *rng.pick(&[1usize, 2, 255, 256, 1472, 9000, 65507]) } else { rng.range(1, 60) as usize }; let d = if n > 300 { let mut d = vec![rng.next() as u8; n]; d[n - 1] ^= 0x3c; d } else { rng.bytes(n) }; toks.push(hex_compact(&d)); }
            return Case { lines: vec![format!("dest udpback {}", toks.join(" "))] };
        }
        if k < 88 {
            // the relay loop on 1-4 datagrams cut at random, pauses between some pieces
            let nd = rng.range(1, 4);
            let mut w = vec![];
            for _ in 0..nd { let n = if rng.chance(1, 6) { *rng.pick(&[1usize, 255, 256, 1472, 9000]) } else { rng.range(1, 60) as usize }; let d = rng.bytes(n.min(300)); let d = if n > 300 { vec![d[0]; n] } else { d }; w.extend_from_slice(&(d.len() as u16).to_be_bytes()); w.extend(d); }
            let cs = cut(rng, &w);
            let mut toks = vec![];
            for (i, c) in cs.iter().enumerate() { if i > 0 && rng.chance(1, 2) { toks.push(format!("~{}", rng.pick(&[1u64, 900, 2100, 5100, 11000, 61000]))); } toks.push(hex_compact(c)); }
            return Case { lines: vec![format!("dest udprelay {}", toks.join(" "))] };
        }
        if k < 91 {
            // reads through the AsyncRead side of an owned Stream: buffers of assorted sizes, abandoned reads, chunks in between
            let mut toks = vec![];
            let mut closed = false;
            for _ in 0..rng.range(3, 14) {
                match rng.below(10) {
                    0..=3 => toks.push(format!("r:{}", rng.pick(&[1usize, 2, 3, 8, 9, 64, 100, 8192]))),
                    4..=7 => if !closed { let n = if rng.chance(1, 6) { *rng.pick(&[0usize, 1, 300]) } else { rng.range(1, 40) as usize }; toks.push(format!("c:{}", hex_compact(&rng.bytes(n)))); },
                    8 => { toks.push("x".into()); closed = true; }
                    _ => toks.push(format!("r:{}", rng.range(1, 50))),
                }
            }
            for _ in 0..4 { toks.push(format!("r:{}", rng.pick(&[1usize, 8, 64]))); }
            return Case { lines: vec![format!("dest aread {}", toks.join(" "))] };
        }
        // resolver histories over seeded names, literals and localhost
        let hosts: [Vec<u8>; 3] = gen_hosts(rng);
        let mut lines = vec!["dns clear".to_string()];
        let mut seeded = [false; 3];
        for _ in 0..rng.range(3, 14) {
            let hi = rng.below(3) as usize;
            let h = &hosts[hi][..];
            match rng.below(10) {
                0..=2 => {
                    let n = rng.range(1, 3);
                    let addrs: Vec<String> = (0..n).map(|_| format!("{}:{}", hex(&[10, hi as u8, rng.below(4) as u8, rng.below(250) as u8 + 1]), rng.pick(&PORTS))).collect();
                    lines.push(format!("dns seed {} {}", hex(h), addrs.join(",")));
                    seeded[hi] = true;
                }
                3 => { lines.push(format!("dns expire {}", hex(h))); seeded[hi] = false; }
                4..=7 => {
                    if !seeded[hi] {
                        lines.push(format!("dns seed {} {}:{}", hex(h), hex(&[10, hi as u8, 0, 9]), rng.pick(&PORTS)));
                        seeded[hi] = true;
                    }
                    lines.push(format!("dns resolve {} {}", hex(h), rng.pick(&PORTS)));
                }
                8 => if rng.chance(1, 2) { lines.push(format!("dns rlocal {}", rng.pick(&PORTS))) } else { if rng.chance(1, 2) { lines.push("dns clear".into()); } lines.push(format!("dns rlocal2 {} {}", rng.pick(&PORTS), rng.pick(&PORTS))) },
                _ => { let n = if rng.chance(1, 2) { 4 } else { 16 }; let ip = rng.bytes(n); lines.push(format!("dns literal {} {}", hex(&ip), rng.pick(&PORTS))); }
            }
        }
        Case { lines }
    }

    fn exec(&self, case: &Case) -> Outcome {
        let rt = runtime();
        let mut out = Outcome::default();
        rt.block_on(async {
            // what each name was last seeded with (reference for the resolver histories)
            let mut table: std::collections::HashMap<String, String> = Default::default();
            for line in &case.lines {
                let toks: Vec<&str> = line.split_whitespace().collect();
                let o = exec_line(&toks, &mut out).await;
                match toks[..] {
                    ["dns", "clear"] => table.clear(),
                    ["dns", "seed", h, addrs] => { table.insert(h.to_string(), addrs.to_string()); }
                    ["dns", "resolve", h, _] => {
                        // O (C07): a cached answer for a name is one of the addresses of that very name
                        if let (Some(addrs), Some(ip)) = (table.get(h), o.strip_prefix("ok ").and_then(|r| r.split(' ').next())) {
                            if !addrs.split(',').any(|a| a.split(':').next() == Some(ip)) {
                                out.oracle.push(OracleFail { sig: "answer_of_another_name/resolve_host_with_cache".into(), detail: format!("name {h} has {addrs}, resolved to {ip}") });
                            }
                        }
                    }
                    _ => {}
                }
                out.tags.push(format!("{}/{}", toks.get(0).unwrap_or(&""), toks.get(1).unwrap_or(&"")));
                out.obs.push(o);
            }
        });
        out.nontrivial = true;
        out
    }
}

async fn rest_of(stream: &Arc<Stream>) -> String {
    let (b, _) = read_all_available(stream).await;
    hex_compact(&b)
}

async fn exec_line(toks: &[&str], out: &mut Outcome) -> String {
    let t1 = std::time::Duration::from_millis(1);
    match toks {
        ["dest", "dec", open, chunks @ ..] => {
            let Some((cs, pauses)) = split_pauses(chunks) else { return "bad-op".into() };
            let all = cs.concat();
            let (stream, keep) = if pauses.is_empty() { new_stream(&cs, *open == "1") } else { new_stream(&[], true) };
            let res = if pauses.is_empty() { let r = tokio::time::timeout(t1, anytls_rs::server::handler::verif_handler::read_socks_addr(stream.clone())).await.ok(); drop(keep); r }
                else { feed_paused(anytls_rs::server::handler::verif_handler::read_socks_addr(stream.clone()), keep.unwrap(), &cs, &pauses, *open == "1").await };
            match res {
                None => "block".into(),
                Some(Err(_)) => "err".into(),
                Some(Ok((addr, port))) => {
                    let atyp = all.first().copied().unwrap_or(0);
                    let shown = if atyp == 3 { format!("name {}", hex_compact(addr.as_bytes())) } else { format!("ip {}", canon_ip(&addr).map(|b| hex(&b)).unwrap_or("?".into())) };
                    // O (C07): what was decoded is what the bytes say (reference decoding)
                    let refd = ref_dest(&all);
                    if refd.as_ref().map(|(s, p, _)| (s.clone(), *p)) != Some((shown.clone(), port)) {
                        out.oracle.push(OracleFail { sig: "destination_changed/read_socks_addr".into(), detail: format!("decoded {shown}:{port}, reference {:?}", refd.map(|(s, p, _)| format!("{s}:{p}"))) });
                    }
                    format!("ok {shown} {port} rest={}", rest_of(&stream).await)
                }
            }
        }
        ["dest", "udpreq", open, chunks @ ..] => {
            let Some((cs, pauses)) = split_pauses(chunks) else { return "bad-op".into() };
            let all = cs.concat();
            let (stream, keep) = if pauses.is_empty() { new_stream(&cs, *open == "1") } else { new_stream(&[], true) };
            let reader = stream.reader().clone();
            let fut = async move { let mut g = reader.lock().await; anytls_rs::server::udp_proxy::verif_udp_server::read_initial_request(&mut g).await };
            let res = if pauses.is_empty() { let r = tokio::time::timeout(t1, fut).await.ok(); drop(keep); r } else { feed_paused(fut, keep.unwrap(), &cs, &pauses, *open == "1").await };
            match res {
                None => "block".into(),
                Some(Err(_)) => "err".into(),
                Some(Ok(sa)) => {
                    let atyp = all.get(1).copied().unwrap_or(0);
                    let ipb = match sa.ip() { IpAddr::V4(a) => a.octets().to_vec(), IpAddr::V6(a) => a.octets().to_vec() };
                    let refd = ref_dest(&all[1..]);
                    let shown = if atyp == 3 { refd.as_ref().map(|(s, _, _)| s.clone()).unwrap_or("?".into()) } else { format!("ip {}", hex(&ipb)) };
                    if atyp == 3 {
                        // the name was resolved: port must be the requested one, and a literal must map to itself
                        if let Some((name, p, _)) = &refd {
                            let lit = name.strip_prefix("name ").and_then(|h| unhex(h)).and_then(|b| String::from_utf8(b).ok()).and_then(|s| s.parse::<IpAddr>().ok());
                            if sa.port() != *p || lit.map(|l| l != sa.ip()).unwrap_or(false) {
                                out.oracle.push(OracleFail { sig: "destination_changed/read_initial_request".into(), detail: format!("resolved to {sa}, requested {name}:{p}") });
                            }
                        }
                    } else if refd.as_ref().map(|(s, p, _)| (s.clone(), *p)) != Some((shown.clone(), sa.port())) {
                        out.oracle.push(OracleFail { sig: "destination_changed/read_initial_request".into(), detail: format!("decoded {sa}") });
                    }
                    format!("ok {shown} {} rest={}", sa.port(), rest_of(&stream).await)
                }
            }
        }
        ["dest", "enc", kind, hx, port] => {
            let (Ok(kind), Some(addr), Ok(port)) = (kind.parse::<u8>(), unhex(hx), port.parse::<u16>()) else { return "bad-op".into() };
            let host = match kind {
                1 if addr.len() == 4 => Ipv4Addr::new(addr[0], addr[1], addr[2], addr[3]).to_string(),
                4 if addr.len() == 16 => { let mut a = [0u8; 16]; a.copy_from_slice(&addr); Ipv6Addr::from(a).to_string() }
                3 => match String::from_utf8(addr.clone()) { Ok(s) => s, Err(_) => return "bad-op".into() },
                _ => return "bad-op".into(),
            };
            // a domain that happens to spell an IP literal is classified as an IP by the client
            if kind == 3 && host.parse::<IpAddr>().is_ok() { return "skip".into(); }
            let client = crate::e2e::offline_client();
            let (node, _) = Node::new("client", b"stop=0", false, vec![], None).await.unwrap();
            client.verif_pool().add_idle_session(node.session.clone()).await;
            let c2 = client.clone();
            let h2 = host.clone();
            let jh = tokio::spawn(async move { c2.create_proxy_stream((h2, port)).await.map(|_| ()) });
            settle().await;
            let all: Vec<u8> = node.wire.lock().unwrap().writes.concat();
            let (frames, _) = crate::g_frame::ref_parse(&all);
            let psh: Vec<&(u8, u32, Vec<u8>)> = frames.iter().filter(|(c, _, _)| *c == 2).collect();
            jh.abort();
            client.stop_session_pool_cleanup().await;
            let res = if psh.is_empty() { "none".to_string() } else { format!("ok {}", hex_compact(&psh[0].2)) };
            // O (C07): the destination bytes decode (reference) to the requested host and port
            if let Some(p) = psh.first() {
                let want = if kind == 3 { format!("name {}", hex_compact(&addr)) } else { format!("ip {}", hex(&addr)) };
                let got = ref_dest(&p.2);
                if got.as_ref().map(|(s, pt, rest)| (s.clone(), *pt, rest.len())) != Some((want.clone(), port, 0)) {
                    out.oracle.push(OracleFail { sig: "destination_changed/create_proxy_stream".into(), detail: format!("requested {want}:{port}, encoded as {:?}", got.map(|(s, p, _)| format!("{s}:{p}"))) });
                }
            } else if !(kind == 3 && addr.len() > 255) {
                out.oracle.push(OracleFail { sig: "destination_not_sent/create_proxy_stream".into(), detail: format!("no destination bytes for kind {kind} len {}", addr.len()) });
            }
            res
        }
        ["dest", "dgenc", side, hx] => {
            let Some(d) = unhex(hx) else { return "bad-op".into() };
            let r = if *side == "c" { anytls_rs::client::udp_client::verif_udp_client::encode_udp_packet(&d) } else { anytls_rs::server::udp_proxy::verif_udp_server::encode_udp_packet_simple(&d) };
            match r {
                Ok(b) => {
                    if d.len() > 65535 || b.len() != d.len() + 2 || u16::from_be_bytes([b[0], b[1]]) as usize != d.len() || b[2..] != d[..] {
                        out.oracle.push(OracleFail { sig: "datagram_encoding_wrong/encode_udp_packet".into(), detail: format!("{} payload bytes encoded as {} bytes", d.len(), b.len()) });
                    }
                    format!("ok {}", hex_compact(&b))
                }
                Err(_) => { if d.len() <= 65535 { out.oracle.push(OracleFail { sig: "datagram_refused/encode_udp_packet".into(), detail: format!("{} bytes refused", d.len()) }); } "err".into() }
            }
        }
        ["dest", "dgdec", side, open, chunks @ ..] => {
            let Some(cs) = chunks.iter().map(|c| unhex(c)).collect::<Option<Vec<_>>>() else { return "bad-op".into() };
            let all = cs.concat();
            let (stream, _keep) = new_stream(&cs, *open == "1");
            let mut got: Vec<Vec<u8>> = vec![];
            let end;
            loop {
                let reader = stream.reader().clone();
                let s = side.to_string();
                let fut = async move {
                    let mut g = reader.lock().await;
                    if s == "c" { anytls_rs::client::udp_client::verif_udp_client::read_udp_packet(&mut g).await } else { anytls_rs::server::udp_proxy::verif_udp_server::read_udp_packet(&mut g).await }
                };
                match tokio::time::timeout(t1, fut).await {
                    Err(_) => { end = "block"; break; }
                    Ok(Err(_)) => { end = "err"; break; }
                    Ok(Ok(d)) => { if d.is_empty() { end = "zero"; break; } got.push(d); }
                }
            }
            // O (C15): reference split of the byte stream into datagrams
            let mut refd: Vec<Vec<u8>> = vec![];
            let mut b = &all[..];
            while b.len() >= 2 { let n = u16::from_be_bytes([b[0], b[1]]) as usize; if n == 0 || b.len() < 2 + n { break; } refd.push(b[2..2 + n].to_vec()); b = &b[2 + n..]; }
            if refd != got {
                out.oracle.push(OracleFail { sig: "datagram_boundaries_changed/read_udp_packet".into(), detail: format!("{} datagrams read, {} encoded", got.len(), refd.len()) });
            }
            format!("[{}] end={end}", got.iter().map(|d| hex_compact(d)).collect::<Vec<_>>().join(","))
        }
        ["dest", "udprelay", chunks @ ..] => {
            // the server's relay loop itself (handle_udp_over_tcp) on a hand-made stream and a real loopback UDP socket as
            // the target: the length-prefixed datagrams arrive in the given chunks, with pauses (`~ms`) between them
            let Some((cs, pauses)) = split_pauses(chunks) else { return "bad-op".into() };
            let Ok(target) = tokio::net::UdpSocket::bind("127.0.0.1:0").await else { return "bad-op".into() };
            let port = target.local_addr().map(|a| a.port()).unwrap_or(0);
            let (stream, keep) = new_stream(&[], true);
            let tx = keep.unwrap();
            let relay = tokio::spawn(anytls_rs::server::udp_proxy::handle_udp_over_tcp(stream.clone()));
            let mut req = vec![1u8, 1, 127, 0, 0, 1];
            req.extend_from_slice(&port.to_be_bytes());
            let _ = tx.send(Bytes::from(req));
            tokio::time::sleep(std::time::Duration::from_millis(5)).await;
            let mut got: Vec<Vec<u8>> = vec![];
            let mut buf = vec![0u8; 70000];
            for i in 0..=cs.len() {
                let ms: u64 = pauses.iter().filter(|(at, _)| *at == i).map(|x| x.1).sum();
                if ms > 0 { tokio::time::sleep(std::time::Duration::from_millis(ms)).await; }
                if i < cs.len() { let _ = tx.send(Bytes::from(cs[i].clone())); }
                // what has reached the target so far
                while let Ok(Ok((n, _))) = tokio::time::timeout(std::time::Duration::from_millis(20), target.recv_from(&mut buf)).await { got.push(buf[..n].to_vec()); }
            }
            while let Ok(Ok((n, _))) = tokio::time::timeout(std::time::Duration::from_millis(200), target.recv_from(&mut buf)).await { got.push(buf[..n].to_vec()); }
            relay.abort();
            // O (C15): the target receives exactly the complete datagrams of the byte stream, each once, in order
            let all = cs.concat();
            let mut want: Vec<Vec<u8>> = vec![];
            let mut off = 0usize;
            while off + 2 <= all.len() { let n = u16::from_be_bytes([all[off], all[off + 1]]) as usize; if n == 0 || off + 2 + n > all.len() { break; } want.push(all[off + 2..off + 2 + n].to_vec()); off += 2 + n; }
            if got != want {
                out.oracle.push(OracleFail { sig: "datagram_boundaries_changed/stream_to_udp".into(), detail: format!("{} datagrams encoded in the stream (sizes {:?}), the target received {} (sizes {:?})", want.len(), want.iter().map(|d| d.len()).collect::<Vec<_>>(), got.len(), got.iter().map(|d| d.len()).collect::<Vec<_>>()) });
            }
            format!("[{}]", got.iter().map(|d| hex_compact(d)).collect::<Vec<_>>().join(","))
        }
        ["dest", "aread", script @ ..] => {
            // the `AsyncRead` side of an owned `Stream` (not the StreamReader behind it): `c:<hex>` = a chunk arrives,
            // `r:<n>` = a read into an n-byte buffer that is abandoned after 1 ms of virtual time if it has not
            // completed (a timeout, a losing select! branch), `x` = the sending half goes away
            use tokio::io::AsyncReadExt;
            let (tx, rx) = mpsc::unbounded_channel::<Bytes>();
            let (wtx, _wrx) = mpsc::unbounded_channel::<(u32, Bytes)>();
            let (mut stream, _srx) = Stream::new(1, StreamReader::new(1, rx), wtx);
            let mut tx = Some(tx);
            let mut res: Vec<String> = vec![];
            let mut written: Vec<u8> = vec![];
            let mut read: Vec<u8> = vec![];
            for t in script {
                if let Some(hx) = t.strip_prefix("c:") {
                    let Some(d) = unhex(hx) else { return "bad-op".into() };
                    if let Some(tx) = tx.as_ref() { written.extend_from_slice(&d); let _ = tx.send(Bytes::from(d)); }
                } else if let Some(n) = t.strip_prefix("r:") {
                    let Ok(n) = n.parse::<usize>() else { return "bad-op".into() };
                    let mut buf = vec![0u8; n];
                    match tokio::time::timeout(t1, stream.read(&mut buf)).await {
                        Err(_) => res.push("block".into()),
                        Ok(Ok(0)) => res.push("eof".into()),
                        Ok(Ok(k)) => { read.extend_from_slice(&buf[..k]); res.push(format!("d{}", hex_compact(&buf[..k]))); }
                        Ok(Err(_)) => res.push("err".into()),
                    }
                    // O (C01): whatever reads were abandoned, the bytes obtained are a prefix of the bytes that arrived
                    if !written.starts_with(&read) {
                        out.oracle.push(OracleFail { sig: "not_a_prefix/stream_async_read".into(), detail: format!("{} bytes read through the stream's AsyncRead side are not a prefix of the {} bytes that arrived", read.len(), written.len()) });
                    }
                    if res.last().map(|r| r == "eof").unwrap_or(false) && read != written {
                        out.oracle.push(OracleFail { sig: "eof_before_all_data/stream_async_read".into(), detail: format!("end of stream after {} of {} bytes", read.len(), written.len()) });
                    }
                } else if *t == "x" { tx = None; } else { return "bad-op".into(); }
            }
            res.join(",")
        }
        ["dest", "udpback", dgrams @ ..] => {
            // the opposite direction of the server's relay (udp_to_stream inside handle_udp_over_tcp): a loopback UDP target
            // answers with the given datagrams, one after the other; what the loop submits to the tunnel stream is observed
            // on the stream's outbound channel
            let Some(ds) = dgrams.iter().map(|t| unhex(t)).collect::<Option<Vec<Vec<u8>>>>() else { return "bad-op".into() };
            let Ok(target) = tokio::net::UdpSocket::bind("127.0.0.1:0").await else { return "bad-op".into() };
            let port = target.local_addr().map(|a| a.port()).unwrap_or(0);
            let (tx, rx) = mpsc::unbounded_channel::<Bytes>();
            let (wtx, mut wrx) = mpsc::unbounded_channel::<(u32, Bytes)>();
            let reader = StreamReader::new(1, rx);
            let (stream, _srx) = Stream::new(1, reader, wtx);
            let stream = Arc::new(stream);
            let relay = tokio::spawn(anytls_rs::server::udp_proxy::handle_udp_over_tcp(stream.clone()));
            let mut req = vec![1u8, 1, 127, 0, 0, 1];
            req.extend_from_slice(&port.to_be_bytes());
            req.extend_from_slice(&[0, 1, 0x55]); // a probe datagram, so that the target learns the relay's address
            let _ = tx.send(Bytes::from(req));
            let mut buf = vec![0u8; 70000];
            let Ok(Ok((_, relay_addr))) = tokio::time::timeout(std::time::Duration::from_millis(2000), target.recv_from(&mut buf)).await else { relay.abort(); return "no-probe".into() };
            let mut got: Vec<Vec<u8>> = vec![];
            for d in &ds {
                let _ = target.send_to(d, relay_addr).await;
                // lock-step: wait for the chunk(s) of this datagram before the next one is sent
                if let Ok(Some((_, c))) = tokio::time::timeout(std::time::Duration::from_millis(500), wrx.recv()).await { got.push(c.to_vec()); }
                while let Ok(Some((_, c))) = tokio::time::timeout(std::time::Duration::from_millis(3), wrx.recv()).await { got.push(c.to_vec()); }
            }
            relay.abort();
            // O (C15): one chunk per datagram, each the datagram's exact length-prefixed image
            let want: Vec<Vec<u8>> = ds.iter().map(|d| { let mut w = (d.len() as u16).to_be_bytes().to_vec(); w.extend_from_slice(d); w }).collect();
            if got != want {
                out.oracle.push(OracleFail { sig: "datagram_boundaries_changed/udp_to_stream".into(), detail: format!("the target answered with datagrams of sizes {:?}; the relay submitted chunks of sizes {:?} to the stream", ds.iter().map(|d| d.len()).collect::<Vec<_>>(), got.iter().map(|d| d.len()).collect::<Vec<_>>()) });
            }
            format!("[{}]", got.iter().map(|d| hex_compact(d)).collect::<Vec<_>>().join(","))
        }
        ["dns", "clear"] => { anytls_rs::util::dns_cache::verif_dns::clear().await; "ok".into() }
        ["dns", "seed", h, addrs] => {
            let Some(h) = unhex(h).and_then(|b| String::from_utf8(b).ok()) else { return "bad-op".into() };
            let mut v = vec![];
            for a in addrs.split(',') {
                let Some((ip, port)) = a.split_once(':') else { return "bad-op".into() };
                let (Some(ip), Ok(port)) = (unhex(ip), port.parse::<u16>()) else { return "bad-op".into() };
                v.push(SocketAddr::new(IpAddr::V4(Ipv4Addr::new(ip[0], ip[1], ip[2], ip[3])), port));
            }
            anytls_rs::util::dns_cache::verif_dns::seed(&h, v).await;
            "ok".into()
        }
        ["dns", "expire", h] => {
            let Some(h) = unhex(h).and_then(|b| String::from_utf8(b).ok()) else { return "bad-op".into() };
            anytls_rs::util::dns_cache::verif_dns::expire(&h).await;
            "ok".into()
        }
        ["dns", "resolve", h, port] => {
            let (Some(h), Ok(port)) = (unhex(h).and_then(|b| String::from_utf8(b).ok()), port.parse::<u16>()) else { return "bad-op".into() };
            match anytls_rs::util::resolve_host_with_cache(&h, port).await {
                Ok(sa) => {
                    if sa.port() != port {
                        out.oracle.push(OracleFail { sig: "wrong_port_from_cache/resolve_host_with_cache".into(), detail: format!("requested {h}:{port}, got {sa}") });
                    }
                    let ipb = match sa.ip() { IpAddr::V4(a) => a.octets().to_vec(), IpAddr::V6(a) => a.octets().to_vec() };
                    format!("ok {} {}", hex(&ipb), sa.port())
                }
                Err(_) => "err".into(),
            }
        }
        ["dns", "literal", ip, port] => {
            let (Some(ip), Ok(port)) = (unhex(ip), port.parse::<u16>()) else { return "bad-op".into() };
            let s = if ip.len() == 4 { Ipv4Addr::new(ip[0], ip[1], ip[2], ip[3]).to_string() } else { let mut a = [0u8; 16]; a.copy_from_slice(&ip); Ipv6Addr::from(a).to_string() };
            match anytls_rs::util::resolve_host_with_cache(&s, port).await {
                Ok(sa) => { let ipb = match sa.ip() { IpAddr::V4(a) => a.octets().to_vec(), IpAddr::V6(a) => a.octets().to_vec() }; format!("ok {} {}", hex(&ipb), sa.port()) }
                Err(_) => "err".into(),
            }
        }
        ["dns", "rlocal2", p1, p2] => {
            // two requests for the same name with different ports whose lookups overlap (a cold or expired entry)
            let (Ok(p1), Ok(p2)) = (p1.parse::<u16>(), p2.parse::<u16>()) else { return "bad-op".into() };
            let (a, b) = tokio::join!(anytls_rs::util::resolve_host_with_cache("localhost", p1), anytls_rs::util::resolve_host_with_cache("localhost", p2));
            match (a, b) {
                (Ok(a), Ok(b)) => {
                    if a.port() != p1 || b.port() != p2 || !a.ip().is_loopback() || !b.ip().is_loopback() {
                        out.oracle.push(OracleFail { sig: "wrong_port_from_cache/resolve_host_with_cache".into(), detail: format!("overlapping requests localhost:{p1} and localhost:{p2} resolved to {a} and {b}") });
                    }
                    format!("ok ports={},{} loopback={},{}", a.port(), b.port(), a.ip().is_loopback() as u8, b.ip().is_loopback() as u8)
                }
                _ => "err".into(),
            }
        }
        ["dns", "rlocal", port] => {
            let Ok(port) = port.parse::<u16>() else { return "bad-op".into() };
            match anytls_rs::util::resolve_host_with_cache("localhost", port).await {
                Ok(sa) => {
                    if sa.port() != port || !sa.ip().is_loopback() {
                        out.oracle.push(OracleFail { sig: "wrong_port_from_cache/resolve_host_with_cache".into(), detail: format!("requested localhost:{port}, got {sa}") });
                    }
                    format!("ok port={} loopback={}", sa.port(), sa.ip().is_loopback() as u8)
                }
                Err(_) => "err".into(),
            }
        }
        _ => "bad-op".into(),
    }
}

/// reference decoding of a destination header: (shown, port, rest)
pub fn ref_dest(b: &[u8]) -> Option<(String, u16, Vec<u8>)> {
    let atyp = *b.first()?;
    let (shown, off) = match atyp {
        1 => { if b.len() < 5 { return None; } (format!("ip {}", hex(&b[1..5])), 5) }
        4 => { if b.len() < 17 { return None; } (format!("ip {}", hex(&b[1..17])), 17) }
        3 => { let l = *b.get(1)? as usize; if l == 0 || b.len() < 2 + l { return None; } if std::str::from_utf8(&b[2..2 + l]).is_err() { return None; } (format!("name {}", hex_compact(&b[2..2 + l])), 2 + l) }
        _ => return None,
    };
    if b.len() < off + 2 { return None; }
    Some((shown, u16::from_be_bytes([b[off], b[off + 1]]), b[off + 2..].to_vec()))
}
