//! helpers for building real clients/servers (TLS configs from the crate's own helpers)
use anytls_rs::client::{Client, SessionPoolConfig};
use std::sync::Arc;
use tokio_rustls::rustls::pki_types::ServerName;

/// a Client that is never asked to dial (its pool is pre-seeded by the harness)
pub fn offline_client() -> Arc<Client> {
    client_for("127.0.0.1:9", SessionPoolConfig::default(), anytls_rs::padding::PaddingFactory::default())
}

pub fn client_for(server_addr: &str, pool: SessionPoolConfig, padding: Arc<anytls_rs::padding::PaddingFactory>) -> Arc<Client> {
    let cfg = anytls_rs::util::tls::create_client_config().expect("client tls config");
    let connector = Arc::new(tokio_rustls::TlsConnector::from(cfg));
    let name = ServerName::IpAddress(std::net::IpAddr::V4(std::net::Ipv4Addr::LOCALHOST).into());
    Arc::new(Client::with_pool_config("pw", server_addr.to_string(), name, connector, padding, pool))
}
