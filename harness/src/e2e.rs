//! real-loopback world: real `Server::listen`, real `Client`, SOCKS5 / HTTP front-ends, TCP/UDP
//! targets and a counting TCP relay between client and server (one accepted connection = one
//! TLS session dialled by the client).  Multi-thread runtime, real time; never mixed with the
//! paused clock.  Waits are on explicit events with generous guards.
use anytls_rs::client::{Client, SessionPoolConfig};
use anytls_rs::padding::PaddingFactory;
use std::net::SocketAddr;
use std::sync::atomic::{AtomicUsize, Ordering};
use std::sync::{Arc, Mutex};
use std::time::Duration;
use tokio::io::{AsyncReadExt, AsyncWriteExt};
use tokio::net::{TcpListener, TcpStream};
use tokio_rustls::rustls::pki_types::ServerName;

/// a Client that is never asked to dial (its pool is pre-seeded by the harness)
pub fn offline_client() -> Arc<Client> {
    client_for("127.0.0.1:9", SessionPoolConfig::default(), PaddingFactory::default())
}

/// the password the next World is configured with (server and client); scenarios that vary it set it first
pub static WORLD_PW: Mutex<String> = Mutex::new(String::new());
pub fn world_pw() -> String { let p = WORLD_PW.lock().unwrap().clone(); if p.is_empty() { "pw".to_string() } else { p } }

pub fn client_for(server_addr: &str, pool: SessionPoolConfig, padding: Arc<PaddingFactory>) -> Arc<Client> {
    client_with_password(&world_pw(), server_addr, pool, padding)
}

pub fn client_with_password(pw: &str, server_addr: &str, pool: SessionPoolConfig, padding: Arc<PaddingFactory>) -> Arc<Client> {
    let cfg = anytls_rs::util::tls::create_client_config().expect("client tls config");
    let connector = Arc::new(tokio_rustls::TlsConnector::from(cfg));
    let name = ServerName::IpAddress(std::net::IpAddr::V4(std::net::Ipv4Addr::LOCALHOST).into());
    Arc::new(Client::with_pool_config(pw, server_addr.to_string(), name, connector, padding, pool))
}

pub fn rt() -> tokio::runtime::Runtime {
    tokio::runtime::Builder::new_multi_thread().worker_threads(4).enable_all().build().unwrap()
}

pub fn free_port() -> u16 {
    let l = std::net::TcpListener::bind("127.0.0.1:0").unwrap();
    l.local_addr().unwrap().port()
}

pub const GUARD: Duration = Duration::from_secs(10);

/// what a TCP target saw on one accepted connection
#[derive(Default, Clone, Debug)]
pub struct Conn { pub bytes: Vec<u8>, pub eof: bool }

pub struct Target {
    pub addr: SocketAddr,
    pub conns: Arc<Mutex<Vec<Conn>>>,
    pub accepted: Arc<AtomicUsize>,
    task: tokio::task::JoinHandle<()>,
}

#[derive(Clone, Copy, PartialEq)]
pub enum Mode { Echo, Sink, Greeter, CloseAfter(usize), SlowSink, Source(usize), ReplyAtEof(usize) }

impl Target {
    /// a TCP target on `ip`: Echo = send back what arrives; Sink = only record; Greeter = send "HELLO" at
    /// once, then record; CloseAfter(n) = send n bytes of 0x5a then close; SlowSink = record, but with a
    /// 4 KiB receive buffer, a stall before the first read and pauses between reads (back-pressure on the
    /// server's outbound socket); Source(n) = send `src_pattern(n)` then half-close
    pub async fn start(ip: &str, mode: Mode) -> Target {
        let l = if mode == Mode::SlowSink {
            let sock = tokio::net::TcpSocket::new_v4().unwrap();
            let _ = sock.set_recv_buffer_size(4096);
            sock.bind(format!("{ip}:0").parse().unwrap()).unwrap();
            sock.listen(16).unwrap()
        } else { TcpListener::bind(format!("{ip}:0")).await.unwrap() };
        let addr = l.local_addr().unwrap();
        let conns = Arc::new(Mutex::new(Vec::<Conn>::new()));
        let accepted = Arc::new(AtomicUsize::new(0));
        let (c2, a2) = (conns.clone(), accepted.clone());
        let task = tokio::spawn(async move {
            loop {
                let Ok((mut s, _)) = l.accept().await else { break };
                let idx = { let mut g = c2.lock().unwrap(); g.push(Conn::default()); g.len() - 1 };
                a2.fetch_add(1, Ordering::SeqCst);
                let c3 = c2.clone();
                tokio::spawn(async move {
                    if mode == Mode::Greeter { let _ = s.write_all(b"HELLO").await; }
                    if let Mode::CloseAfter(n) = mode { let _ = s.write_all(&vec![0x5a; n]).await; let _ = s.shutdown().await; }
                    if let Mode::Source(n) = mode { let _ = s.write_all(&src_pattern(n)).await; let _ = s.shutdown().await; }
                    if mode == Mode::SlowSink { tokio::time::sleep(Duration::from_millis(400)).await; }
                    let mut buf = vec![0u8; if mode == Mode::SlowSink { 24 * 1024 + 7 } else { 65536 }];
                    let mut reads = 0u64;
                    loop {
                        match s.read(&mut buf).await {
                            Ok(0) => {
                                c3.lock().unwrap()[idx].eof = true;
                                // ReplyAtEof(n): the answer is sent only once the request's end of stream was seen
                                if let Mode::ReplyAtEof(n) = mode { let _ = s.write_all(&src_pattern(n)).await; let _ = s.shutdown().await; }
                                break;
                            }
                            Ok(n) => {
                                reads += 1;
                                if mode == Mode::SlowSink && reads % 8 == 0 { tokio::time::sleep(Duration::from_millis(2)).await; }
                                c3.lock().unwrap()[idx].bytes.extend_from_slice(&buf[..n]);
                                if mode == Mode::Echo { if s.write_all(&buf[..n]).await.is_err() { break; } }
                            }
                            Err(_) => break,
                        }
                    }
                });
            }
        });
        Target { addr, conns, accepted, task }
    }
    pub fn snapshot(&self) -> Vec<Conn> { self.conns.lock().unwrap().clone() }
}
impl Drop for Target { fn drop(&mut self) { self.task.abort(); } }

/// what a `Mode::Source(n)` target sends
pub fn src_pattern(n: usize) -> Vec<u8> { (0..n).map(|i| ((i % 251) as u8) ^ (((i / 251) % 241) as u8)).collect() }

/// a loopback address that neither accepts nor refuses: a listener with backlog 1 that never accepts and
/// whose accept queue is full (Linux then drops further SYNs).  None when the queue could not be
/// saturated on this host.  The returned values must be kept alive for as long as the hole is needed.
pub async fn blackhole() -> Option<(SocketAddr, TcpListener, Vec<TcpStream>)> {
    let sock = tokio::net::TcpSocket::new_v4().ok()?;
    sock.bind("127.0.0.1:0".parse().unwrap()).ok()?;
    let l = sock.listen(1).ok()?;
    let addr = l.local_addr().ok()?;
    let mut keep = vec![];
    for _ in 0..16 {
        match tokio::time::timeout(Duration::from_millis(300), TcpStream::connect(addr)).await {
            Ok(Ok(s)) => keep.push(s),
            Ok(Err(_)) => return None,
            Err(_) => {
                // one more probe: it must hang as well
                return match tokio::time::timeout(Duration::from_millis(300), TcpStream::connect(addr)).await { Err(_) => Some((addr, l, keep)), _ => None };
            }
        }
    }
    None
}

/// counting TCP relay in front of the server
pub struct Relay { pub addr: SocketAddr, pub accepted: Arc<AtomicUsize>, task: tokio::task::JoinHandle<()> }
impl Relay {
    pub async fn start(to: SocketAddr) -> Relay {
        let l = TcpListener::bind("127.0.0.1:0").await.unwrap();
        let addr = l.local_addr().unwrap();
        let accepted = Arc::new(AtomicUsize::new(0));
        let a2 = accepted.clone();
        let task = tokio::spawn(async move {
            loop {
                let Ok((mut a, _)) = l.accept().await else { break };
                a2.fetch_add(1, Ordering::SeqCst);
                tokio::spawn(async move {
                    let Ok(mut b) = TcpStream::connect(to).await else { return };
                    let _ = tokio::io::copy_bidirectional(&mut a, &mut b).await;
                });
            }
        });
        Relay { addr, accepted, task }
    }
}
impl Drop for Relay { fn drop(&mut self) { self.task.abort(); } }

pub struct World {
    pub server_addr: SocketAddr,
    pub relay: Relay,
    pub client: Arc<Client>,
    pub socks: Option<SocketAddr>,
    pub http: Option<SocketAddr>,
    tasks: Vec<tokio::task::JoinHandle<()>>,
}

async fn wait_listening(addr: SocketAddr) -> bool {
    for _ in 0..400 {
        if TcpStream::connect(addr).await.is_ok() { return true; }
        tokio::time::sleep(Duration::from_millis(5)).await;
    }
    false
}

impl World {
    /// real server (password "pw", scheme `server_scheme` or the default), relay, client (configured scheme
    /// `client_scheme` or the default), SOCKS5 and HTTP front-ends
    pub async fn start(server_scheme: Option<&[u8]>, client_scheme: Option<&[u8]>, pool: SessionPoolConfig, fronts: bool) -> Result<World, String> {
        let scfg = anytls_rs::util::tls::create_server_config().map_err(|e| e.to_string())?;
        let acceptor = Arc::new(tokio_rustls::TlsAcceptor::from(scfg));
        let spad = match server_scheme { Some(s) => Arc::new(PaddingFactory::new(s)?), None => PaddingFactory::default() };
        let server = Arc::new(anytls_rs::server::Server::new(&world_pw(), acceptor, spad, None));
        let mut tasks = vec![];
        let mut server_addr = None;
        for _ in 0..5 {
            let addr: SocketAddr = format!("127.0.0.1:{}", free_port()).parse().unwrap();
            let s2 = server.clone();
            let t = tokio::spawn(async move { let _ = s2.listen(&addr.to_string()).await; });
            if wait_listening(addr).await { tasks.push(t); server_addr = Some(addr); break; }
            t.abort();
        }
        let server_addr = server_addr.ok_or("server did not start listening")?;
        let relay = Relay::start(server_addr).await;
        // the probe connection of wait_listening went to the server directly, not through the relay
        let cpad = match client_scheme { Some(s) => Arc::new(PaddingFactory::new(s)?), None => PaddingFactory::default() };
        let client = client_for(&relay.addr.to_string(), pool, cpad);
        let mut socks = None;
        let mut http = None;
        if fronts {
            for which in 0..2 {
                let mut ok = None;
                for _ in 0..5 {
                    let addr: SocketAddr = format!("127.0.0.1:{}", free_port()).parse().unwrap();
                    let c2 = client.clone();
                    let t = tokio::spawn(async move {
                        if which == 0 { let _ = anytls_rs::client::start_socks5_server(&addr.to_string(), c2).await; }
                        else { let _ = anytls_rs::client::start_http_proxy_server(&addr.to_string(), c2).await; }
                    });
                    if wait_listening(addr).await { tasks.push(t); ok = Some(addr); break; }
                    t.abort();
                }
                let a = ok.ok_or("front-end did not start listening")?;
                if which == 0 { socks = Some(a); } else { http = Some(a); }
            }
            // the probe connections reached the front-ends and were dropped without a request: harmless
        }
        Ok(World { server_addr, relay, client, socks, http, tasks })
    }

    pub async fn stop(self) {
        self.client.stop_session_pool_cleanup().await;
        for t in &self.tasks { t.abort(); }
    }
}

/// SOCKS5 CONNECT through the front-end; returns the connected stream after the reply, or the reply code
pub async fn socks_connect(front: SocketAddr, atyp: u8, addr: &[u8], port: u16) -> Result<TcpStream, String> { socks_connect_opts(front, atyp, addr, port, None).await }

/// the same, optionally with a small receive buffer on the application's socket
pub async fn socks_connect_opts(front: SocketAddr, atyp: u8, addr: &[u8], port: u16, rcvbuf: Option<u32>) -> Result<TcpStream, String> {
    let mut s = match rcvbuf {
        None => TcpStream::connect(front).await.map_err(|e| e.to_string())?,
        Some(n) => { let sock = tokio::net::TcpSocket::new_v4().map_err(|e| e.to_string())?; let _ = sock.set_recv_buffer_size(n); sock.connect(front).await.map_err(|e| e.to_string())? }
    };
    s.write_all(&[5, 1, 0]).await.map_err(|e| e.to_string())?;
    let mut r = [0u8; 2];
    tokio::time::timeout(GUARD, s.read_exact(&mut r)).await.map_err(|_| "guard")?.map_err(|e| e.to_string())?;
    if r != [5, 0] { return Err(format!("method {:?}", r)); }
    let mut req = vec![5, 1, 0, atyp];
    if atyp == 3 { req.push(addr.len() as u8); }
    req.extend_from_slice(addr);
    req.extend_from_slice(&port.to_be_bytes());
    s.write_all(&req).await.map_err(|e| e.to_string())?;
    let mut rep = [0u8; 10];
    tokio::time::timeout(Duration::from_secs(40), s.read_exact(&mut rep)).await.map_err(|_| "guard")?.map_err(|e| e.to_string())?;
    if rep[1] != 0 { return Err(format!("reply {}", rep[1])); }
    Ok(s)
}

/// read an HTTP reply head byte by byte up to and including its blank line (nothing behind it is consumed)
pub async fn read_http_head(s: &mut TcpStream, guard: Duration) -> Vec<u8> {
    let mut out = vec![];
    let deadline = tokio::time::Instant::now() + guard;
    let mut b = [0u8; 1];
    while !out.ends_with(b"\r\n\r\n") && out.len() < 4096 {
        match tokio::time::timeout_at(deadline, s.read(&mut b)).await {
            Ok(Ok(1)) => out.push(b[0]),
            _ => break,
        }
    }
    out
}

/// read until `n` bytes arrived, EOF, or the guard
pub async fn read_n(s: &mut TcpStream, n: usize, guard: Duration) -> (Vec<u8>, bool) {
    let mut out = vec![];
    let mut buf = vec![0u8; 65536];
    let deadline = tokio::time::Instant::now() + guard;
    while out.len() < n {
        match tokio::time::timeout_at(deadline, s.read(&mut buf)).await {
            Err(_) => return (out, false),
            Ok(Ok(0)) => return (out, true),
            Ok(Ok(k)) => out.extend_from_slice(&buf[..k]),
            Ok(Err(_)) => return (out, true),
        }
    }
    (out, false)
}

/// wait until `cond` holds (polling) or the guard expires
pub async fn wait_until(guard: Duration, mut cond: impl FnMut() -> bool) -> bool {
    let deadline = tokio::time::Instant::now() + guard;
    loop {
        if cond() { return true; }
        if tokio::time::Instant::now() >= deadline { return false; }
        tokio::time::sleep(Duration::from_millis(5)).await;
    }
}
