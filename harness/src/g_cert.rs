//! group `cert` (C18): the real `CertReloader` over real files in a temp dir, key pairs generated with
//! rcgen (A, B, C valid; E expired), disk states written by construction, in-memory TLS handshakes
//! (tokio-rustls over `duplex`) against `get_acceptor()` to see which certificate is presented.
use crate::util::*;
use crate::Group;
use anytls_rs::util::{CertReloader, CertReloaderConfig};
use std::sync::Arc;

pub struct CertGroup;

pub struct Pair { pub cert_pem: String, pub key_pem: String, pub cert_der: Vec<u8>, pub serial: String }

pub fn make_pair(name: &str, expired: bool) -> Pair { make_pair_with(name, expired, None, 2036) }

/// `serial`: a fixed serial number (two pairs may share one: a renewal that keeps its serial); `until`: last year of validity
pub fn make_pair_with(name: &str, expired: bool, serial: Option<u64>, until: i32) -> Pair {
    let mut params = rcgen::CertificateParams::new(vec![format!("{name}.test")]).unwrap();
    if expired {
        params.not_before = rcgen::date_time_ymd(2019, 1, 1);
        params.not_after = rcgen::date_time_ymd(2020, 1, 1);
    } else {
        params.not_before = rcgen::date_time_ymd(2024, 1, 1);
        params.not_after = rcgen::date_time_ymd(until, 1, 1);
    }
    if let Some(n) = serial { params.serial_number = Some(rcgen::SerialNumber::from(n)); }
    let key = rcgen::KeyPair::generate().unwrap();
    let cert = params.self_signed(&key).unwrap();
    let cert_pem = cert.pem();
    let info = anytls_rs::util::CertificateInfo::from_pem_bytes(cert_pem.as_bytes()).ok();
    // identity as reported by get_cert_info: serial number and end of validity (two pairs may share a serial)
    let serial = info.map(|i| format!("{}/{:?}", i.serial_number, i.not_after)).unwrap_or_default();
    Pair { cert_pem, key_pem: key.serialize_pem(), cert_der: cert.der().to_vec(), serial }
}

/// file content for a state name; `None` = the file is missing
fn content(pairs: &[Pair], which: &str, is_key: bool) -> Option<Vec<u8>> {
    let pick = |c: char| -> &Pair { &pairs[match c { 'A' => 0, 'B' => 1, 'C' => 2, 'D' => 4, _ => 3 }] };
    let full = |c: char| -> Vec<u8> { let p = pick(c); if is_key { p.key_pem.clone().into_bytes() } else { p.cert_pem.clone().into_bytes() } };
    match which {
        "A" | "B" | "C" | "E" | "D" => Some(full(which.chars().next().unwrap())),
        "missing" => None,
        "empty" => Some(vec![]),
        "garbage" => Some(b"-----BEGIN CERTIFICATE-----\nnot base64 at all !!!\n-----END CERTIFICATE-----\n".to_vec()),
        w if w.starts_with("trunc:") => {
            // trunc:<pair>:e<k> = the last k bytes are cut (k = 0, 1: still a complete PEM block; the harness
            // never uses k = 2, whose validity depends on the line ending); trunc:<pair>:s<n> = the first n bytes
            let parts: Vec<&str> = w.split(':').collect();
            let f = full(parts[1].chars().next().unwrap());
            let k: usize = parts[2][1..].parse().unwrap_or(0);
            let n = if parts[2].starts_with('e') { f.len().saturating_sub(k) } else { std::cmp::min(k, f.len()) };
            Some(f[..n].to_vec())
        }
        w if w.starts_with("chaincut:") => {
            // chaincut:<leaf><second>:e<k>: a two-certificate file with its last k bytes cut, the cut lying inside the
            // SECOND block (after its BEGIN line): the leaf block is intact, the file as a whole is a truncation prefix
            let parts: Vec<&str> = w.split(':').collect();
            let cs: Vec<char> = parts[1].chars().collect();
            let second = full(cs[1]);
            let k: usize = parts[2][1..].parse().unwrap_or(5);
            let k = k.clamp(5, second.len().saturating_sub(30));
            let mut v = full(cs[0]); v.extend(second);
            v.truncate(v.len() - k);
            Some(v)
        }
        w if w.starts_with("chain:") => {
            // chain:<leaf><second>: two certificates in one file (leaf first)
            let cs: Vec<char> = w[6..].chars().collect();
            let mut v = full(cs[0]); v.extend(full(cs[1])); Some(v)
        }
        _ => Some(b"?".to_vec()),
    }
}

/// the pair a disk state denotes, if it is a valid pair: (leaf id, expired).  Validity is known by
/// construction: a certificate file is valid iff its first PEM block is the complete certificate of a
/// generated pair, a key file iff it is the complete key; the pair is valid iff both belong together.
fn valid_pair(pairs: &[Pair], cert: &str, key: &str) -> Option<(char, bool)> {
    let ids = ['A', 'B', 'C', 'E', 'D'];
    // a file whose later block is damaged is a truncation prefix: not a valid state, whatever its first block is
    if cert.starts_with("chaincut:") || key.starts_with("chaincut:") { return None; }
    let cb = content(pairs, cert, false)?;
    let kb = content(pairs, key, true)?;
    let cs = String::from_utf8_lossy(&cb).to_string();
    let ks = String::from_utf8_lossy(&kb).to_string();
    // complete blocks (a missing final newline does not matter)
    let leaf = ids.iter().zip(pairs.iter()).find(|(_, p)| cs.starts_with(p.cert_pem.trim_end())).map(|(c, _)| *c);
    let k = ids.iter().zip(pairs.iter()).find(|(_, p)| ks.starts_with(p.key_pem.trim_end())).map(|(c, _)| *c);
    match (leaf, k) { (Some(c), Some(k)) if c == k => Some((c, c == 'E')), _ => None }
}

const STATES: [&str; 18] = ["A", "B", "C", "E", "D", "missing", "empty", "garbage", "trunc:A:e300", "trunc:B:s10", "trunc:B:e3", "trunc:C:e1", "trunc:A:s0", "chain:BA", "chain:CB", "chaincut:BA:e40", "chaincut:CB:e300", "chaincut:BC:e7"];

impl Group for CertGroup {
    fn default_cases(&self, tier: &str) -> u64 { if tier == "thorough" { 3_000 } else { 150 } }

    fn fixed(&self, tier: &str) -> Vec<Case> {
        let l = |v: Vec<String>| Case { lines: v };
        let mut v = vec![];
        // every truncation class of both files, each followed by a reload and a handshake
        // every truncation prefix of both files in the thorough tier (k bytes cut from the end, k = 0..900,
        // except k = 2), a sample in the quick tier
        let steps: Vec<usize> = if tier == "thorough" { (0..=900).filter(|k| *k != 2).collect() } else { vec![0, 1, 3, 4, 10, 26, 27, 28, 100, 300, 500, 900] };
        for k in steps {
            v.push(l(vec!["cert init A 1".into(), format!("cert disk trunc:B:e{k} B"), "cert reload".into(), "cert state".into(), format!("cert disk B trunc:B:e{k}"), "cert reload".into(), "cert state".into()]));
        }
        // a chain file cut inside its second block (the leaf block intact, the key matching the leaf): a truncation prefix
        let cuts: Vec<usize> = if tier == "thorough" { (5..=700).step_by(3).collect() } else { vec![5, 27, 28, 29, 60, 300, 500, 700] };
        for k in cuts {
            v.push(l(vec!["cert init A 1".into(), format!("cert disk chaincut:BA:e{k} B"), "cert reload".into(), "cert state".into(), "cert disk chain:BA B".into(), "cert reload".into(), "cert state".into()]));
        }
        // a two-file update observed at every point: cert replaced alone, key replaced alone, then complete
        // a renewal that keeps the serial number (new key, longer validity): it must be served like any other valid pair
        v.push(l(vec!["cert init A 1".into(), "cert disk D D".into(), "cert reload".into(), "cert state".into(), "cert ping".into(), "cert disk A A".into(), "cert reload".into(), "cert state".into(), "cert ping".into()]));
        v.push(l(vec!["cert init A 0".into(), "cert hold".into(), "cert disk D A".into(), "cert reload".into(), "cert state".into(), "cert disk D D".into(), "cert reload".into(), "cert state".into(), "cert ping".into()]));
        v.push(l(vec!["cert init A 1".into(), "cert disk B A".into(), "cert reload".into(), "cert state".into(), "cert disk B B".into(), "cert reload".into(), "cert state".into()]));
        v.push(l(vec!["cert init A 1".into(), "cert disk A B".into(), "cert reload".into(), "cert state".into(), "cert disk B B".into(), "cert reload".into(), "cert state".into()]));
        // the disk changes while a reload is in progress (DESIGN §6 D17: the certificate file was read twice)
        v.push(l(vec!["cert init A 1".into(), "cert disk B B".into(), "cert reload_at reload:after_config C C".into(), "cert state".into()]));
        v.push(l(vec!["cert init A 1".into(), "cert disk B B".into(), "cert reload_at reload:between_reads C C".into(), "cert state".into()]));
        // a session established before reloads (failed and successful) keeps working with its own pair
        v.push(l(vec!["cert init A 1".into(), "cert hold".into(), "cert disk garbage B".into(), "cert reload".into(), "cert ping".into(), "cert disk B B".into(), "cert reload".into(), "cert ping".into(), "cert state".into(), "cert disk C C".into(), "cert reload".into(), "cert ping".into()]));
        // expired certificate with and without the expiry check
        v.push(l(vec!["cert init A 1".into(), "cert disk E E".into(), "cert reload".into(), "cert state".into()]));
        v.push(l(vec!["cert init A 0".into(), "cert disk E E".into(), "cert reload".into(), "cert state".into()]));
        v
    }

    fn generate(&self, rng: &mut Rng, _tier: &str, _idx: u64) -> Case {
        let mut lines = vec![format!("cert init {} {}", rng.pick(&["A", "B"]), rng.below(2))];
        for _ in 0..rng.range(3, 12) {
            let l = match rng.below(10) {
                0..=3 => { let c = *rng.pick(&STATES); let k = if rng.chance(1, 2) && c.len() == 1 { c } else { *rng.pick(&STATES[..13]) }; format!("cert disk {c} {k}") }
                4..=6 => "cert reload".to_string(),
                7 => format!("cert reload_at {} {} {}", rng.pick(&["reload:after_config", "reload:between_reads", "reload:after_reads"]), rng.pick(&STATES[..8]), rng.pick(&STATES[..8])),
                8 => if rng.chance(1, 2) { "cert hold".to_string() } else { "cert ping".to_string() },
                _ => "cert state".to_string(),
            };
            lines.push(l);
        }
        lines.push("cert reload".into());
        lines.push("cert state".into());
        Case { lines }
    }

    fn exec(&self, case: &Case) -> Outcome {
        let mut out = Outcome::default();
        let rt = tokio::runtime::Builder::new_current_thread().enable_all().build().unwrap();
        let pairs = PAIRS.with(|p| p.clone());
        let dir = tempfile::TempDir::new().unwrap();
        let cert_path = dir.path().join("cert.pem");
        let key_path = dir.path().join("key.pem");
        let write = |c: &str, k: &str| {
            for (state, path, is_key) in [(c, &cert_path, false), (k, &key_path, true)] {
                match content(&pairs, state, is_key) { Some(b) => std::fs::write(path, b).unwrap(), None => { let _ = std::fs::remove_file(path); } }
            }
        };
        let id_of_serial = |s: &str| -> String { for (i, p) in pairs.iter().enumerate() { if p.serial == s { return ["A", "B", "C", "E", "D"][i].to_string(); } } "?".into() };
        let id_of_der = |d: &[u8]| -> String { for (i, p) in pairs.iter().enumerate() { if p.cert_der == d { return ["A", "B", "C", "E", "D"][i].to_string(); } } "?".into() };
        // a TLS session established earlier and kept across reloads (both ends)
        let mut held: Option<(tokio_rustls::client::TlsStream<tokio::io::DuplexStream>, tokio_rustls::server::TlsStream<tokio::io::DuplexStream>, String)> = None;
        let mut reloader: Option<Arc<CertReloader>> = None;
        let mut check_expiry = true;
        // oracle bookkeeping: the pair that must be active, the expected counter
        let mut active = 'A';
        let mut count = 0u64;
        let mut disk = ("A".to_string(), "A".to_string());
        for line in &case.lines {
            let toks: Vec<&str> = line.split_whitespace().collect();
            let o: String = match toks.as_slice() {
                ["cert", "init", p, ce] => {
                    write(p, p);
                    disk = (p.to_string(), p.to_string());
                    check_expiry = *ce == "1";
                    let cfg = CertReloaderConfig { cert_path: cert_path.clone(), key_path: key_path.clone(), watch_enabled: false, debounce_ms: 0, check_expiry, expiry_warning_days: 30 };
                    match CertReloader::new(cfg) { Ok(r) => { reloader = Some(Arc::new(r)); active = p.chars().next().unwrap(); count = 0; "ok".into() } Err(_) => "err".into() }
                }
                ["cert", "disk", c, k] => { write(c, k); disk = (c.to_string(), k.to_string()); "ok".into() }
                ["cert", "reload"] | ["cert", "reload_at", ..] => {
                    let Some(r) = reloader.as_ref() else { out.obs.push("nonode".into()); continue; };
                    let mut disk_at_read = disk.clone();
                    let fired = Arc::new(std::sync::atomic::AtomicBool::new(false));
                    let mut pending_disk: Option<(String, String)> = None;
                    if let ["cert", "reload_at", point, c, k] = toks.as_slice() {
                        let fired2 = fired.clone();
                        let (p2, c2, k2) = (point.to_string(), c.to_string(), k.to_string());
                        let (pairs2, cp, kp) = (pairs.clone(), cert_path.clone(), key_path.clone());
                        anytls_rs::verif::set_sync_controller(Some(Arc::new(move |name: &'static str| {
                            if name == p2 {
                                fired2.store(true, std::sync::atomic::Ordering::SeqCst);
                                for (state, path, is_key) in [(&c2, &cp, false), (&k2, &kp, true)] {
                                    match content(&pairs2, state, is_key) { Some(b) => std::fs::write(path, b).unwrap(), None => { let _ = std::fs::remove_file(path); } }
                                }
                            }
                        })));
                        // which files did the reload read before / after the change?
                        disk_at_read = match *point { "reload:between_reads" => (disk.0.clone(), k.to_string()), _ => disk.clone() };
                        pending_disk = Some((c.to_string(), k.to_string()));
                    }
                    let res = r.reload();
                    anytls_rs::verif::set_sync_controller(None);
                    // the disk only changed if the reload got as far as the named point
                    if fired.load(std::sync::atomic::Ordering::SeqCst) { if let Some(d) = pending_disk { disk = d; } } else { disk_at_read = disk.clone(); }
                    // O (C18): the reload succeeds exactly when the files it read are a valid (and, if checked, unexpired) pair
                    let vp = valid_pair(&pairs, &disk_at_read.0, &disk_at_read.1);
                    let should_ok = vp.map(|(_, exp)| !(exp && check_expiry)).unwrap_or(false);
                    if res.is_ok() != should_ok {
                        out.oracle.push(OracleFail { sig: if res.is_ok() { "invalid_pair_accepted/cert_reload".into() } else { "valid_pair_refused/cert_reload".into() }, detail: format!("disk cert={} key={} (check_expiry={check_expiry}): reload returned {}", disk_at_read.0, disk_at_read.1, if res.is_ok() { "Ok" } else { "Err" }) });
                    }
                    if res.is_ok() { if let Some((c, _)) = vp { active = c; } count += 1; }
                    if res.is_ok() { "ok".into() } else { "err".into() }
                }
                ["cert", "hold"] => {
                    let Some(r) = reloader.as_ref() else { out.obs.push("nonode".into()); continue; };
                    let acceptor = r.get_acceptor();
                    let res = rt.block_on(async {
                        let (a, b) = tokio::io::duplex(16384);
                        let cfg = anytls_rs::util::tls::create_client_config().unwrap();
                        let connector = tokio_rustls::TlsConnector::from(cfg);
                        let name = tokio_rustls::rustls::pki_types::ServerName::try_from("x.test").unwrap();
                        let (c, s) = tokio::join!(connector.connect(name, a), acceptor.accept(b));
                        match (c, s) { (Ok(c), Ok(s)) => { let id = c.get_ref().1.peer_certificates().and_then(|v| v.first().map(|d| id_of_der(d.as_ref()))).unwrap_or("?".into()); Some((c, s, id)) } _ => None }
                    });
                    match res { Some(h) => { let id = h.2.clone(); held = Some(h); format!("ok {id}") } None => "err".into() }
                }
                ["cert", "ping"] => {
                    use tokio::io::{AsyncReadExt, AsyncWriteExt};
                    let Some((c, s, id)) = held.as_mut() else { out.obs.push("nosession".into()); continue; };
                    let ok = rt.block_on(async {
                        if c.write_all(b"ping").await.is_err() || c.flush().await.is_err() { return false; }
                        let mut b = [0u8; 4];
                        if s.read_exact(&mut b).await.is_err() || &b != b"ping" { return false; }
                        if s.write_all(b"pong").await.is_err() || s.flush().await.is_err() { return false; }
                        c.read_exact(&mut b).await.is_ok() && &b == b"pong"
                    });
                    // O (C18): sessions established before a reload continue undisturbed, with the pair they were given
                    let still = c.get_ref().1.peer_certificates().and_then(|v| v.first().map(|d| id_of_der(d.as_ref()))).unwrap_or("?".into());
                    if !ok || still != *id {
                        out.oracle.push(OracleFail { sig: "established_session_disturbed/cert_reload".into(), detail: format!("a session established with pair {id}: data exchange ok={ok}, peer certificate now {still}") });
                    }
                    format!("{} {still}", if ok { "ok" } else { "err" })
                }
                ["cert", "state"] => {
                    let Some(r) = reloader.as_ref() else { out.obs.push("nonode".into()); continue; };
                    let info = r.get_cert_info().map(|i| id_of_serial(&format!("{}/{:?}", i.serial_number, i.not_after))).unwrap_or("-".into());
                    let acceptor = r.get_acceptor();
                    let presented = rt.block_on(async {
                        let (a, b) = tokio::io::duplex(16384);
                        let cfg = anytls_rs::util::tls::create_client_config().unwrap();
                        let connector = tokio_rustls::TlsConnector::from(cfg);
                        let name = tokio_rustls::rustls::pki_types::ServerName::try_from("x.test").unwrap();
                        let (c, s) = tokio::join!(connector.connect(name, a), acceptor.accept(b));
                        match (c, s) { (Ok(c), Ok(_)) => c.get_ref().1.peer_certificates().and_then(|v| v.first().map(|d| id_of_der(d.as_ref()))).unwrap_or("?".into()), _ => "handshake-failed".into() }
                    });
                    // O (C18): what is presented, what is reported and the counter all describe the last valid reload
                    if presented != active.to_string() {
                        out.oracle.push(OracleFail { sig: "wrong_certificate_served/cert_reload".into(), detail: format!("handshake presents {presented}, the last successfully loaded pair is {active}") });
                    }
                    if info != active.to_string() {
                        out.oracle.push(OracleFail { sig: "reported_info_not_active/cert_reload".into(), detail: format!("get_cert_info describes {info}, the active certificate is {active}") });
                    }
                    if r.get_reload_count() != count {
                        out.oracle.push(OracleFail { sig: "reload_counter_wrong/cert_reload".into(), detail: format!("reload count {}, successful reloads {count}", r.get_reload_count()) });
                    }
                    format!("count={} info={info} presented={presented}", r.get_reload_count())
                }
                _ => "bad-op".into(),
            };
            out.tags.push(format!("op={}", toks.get(1).unwrap_or(&"")));
            out.obs.push(o);
        }
        out.nontrivial = case.lines.len() > 3;
        out
    }
}

thread_local! {
    // A and D share their serial number (D is a renewal of A that keeps the serial: new key, longer validity)
    static PAIRS: Arc<Vec<Pair>> = Arc::new(vec![make_pair_with("a", false, Some(0x4131), 2036), make_pair("b", false), make_pair("c", false), make_pair("e", true), make_pair_with("a", false, Some(0x4131), 2037)]);
}
