//! vharness: drives the real anytls-rs code (built from /repo's working tree, feature
//! `verif`) on generated or replayed operation lines and records canonical observations.
//!
//! usage: vharness <group> [--seed N] [--cases K] [--tier quick|thorough] --out DIR
//!        vharness <group> --replay FILE --out DIR
mod util;
mod g_frame;
mod node;
mod schemes;
mod g_sess;
mod g_pipe;
mod g_pad;
mod g_auth;
mod g_dest;
mod g_push;
mod g_open;
mod g_e2e;
mod g_pool;
mod g_hb;
mod g_socks;
mod g_hostile;
mod g_cert;
mod g_http;
mod g_sched;
mod e2e;

use std::io::Write;
use util::*;

pub trait Group {
    /// corpus-independent deterministic cases that always run first
    fn fixed(&self, _tier: &str) -> Vec<Case> {
        vec![]
    }
    fn generate(&self, rng: &mut Rng, tier: &str, idx: u64) -> Case;
    fn exec(&self, case: &Case) -> Outcome;
    fn default_cases(&self, tier: &str) -> u64;
}

fn group_by_name(name: &str) -> Option<Box<dyn Group>> {
    match name {
        "frame" => Some(Box::new(g_frame::FrameGroup)),
        "sess" => Some(Box::new(g_sess::SessGroup)),
        "pipe" => Some(Box::new(g_pipe::PipeGroup)),
        "pad" => Some(Box::new(g_pad::PadGroup)),
        "auth" => Some(Box::new(g_auth::AuthGroup)),
        "dest" => Some(Box::new(g_dest::DestGroup)),
        "push" => Some(Box::new(g_push::PushGroup)),
        "open" => Some(Box::new(g_open::OpenGroup)),
        "e2e" => Some(Box::new(g_e2e::E2eGroup)),
        "pool" => Some(Box::new(g_pool::PoolGroup)),
        "hb" => Some(Box::new(g_hb::HbGroup)),
        "socks" => Some(Box::new(g_socks::SocksGroup)),
        "hx" => Some(Box::new(g_hostile::HostileGroup)),
        "cert" => Some(Box::new(g_cert::CertGroup)),
        "http" => Some(Box::new(g_http::HttpGroup)),
        "sched" => Some(Box::new(g_sched::SchedGroup)),
        _ => None,
    }
}

fn main() {
    let args: Vec<String> = std::env::args().collect();
    if args.len() < 2 {
        eprintln!("usage: vharness <group> [--seed N] [--cases K] [--tier T] [--replay F] --out DIR");
        std::process::exit(2);
    }
    let gname = args[1].clone();
    let mut seed: u64 = 1;
    let mut cases: Option<u64> = None;
    let mut tier = "quick".to_string();
    let mut out = ".".to_string();
    let mut replay: Option<String> = None;
    let mut i = 2;
    while i < args.len() {
        match args[i].as_str() {
            "--seed" => { seed = args[i + 1].parse().expect("seed"); i += 2; }
            "--cases" => { cases = Some(args[i + 1].parse().expect("cases")); i += 2; }
            "--tier" => { tier = args[i + 1].clone(); i += 2; }
            "--out" => { out = args[i + 1].clone(); i += 2; }
            "--replay" => { replay = Some(args[i + 1].clone()); i += 2; }
            x => { eprintln!("unknown arg {x}"); std::process::exit(2); }
        }
    }
    let Some(group) = group_by_name(&gname) else {
        eprintln!("unknown group {gname}");
        std::process::exit(2);
    };
    // panics inside a case are observations, not crashes of the harness
    std::panic::set_hook(Box::new(|_| { g_hostile::PANICS.fetch_add(1, std::sync::atomic::Ordering::SeqCst); }));

    std::fs::create_dir_all(&out).unwrap();
    if std::env::var("VH_SCRATCH").is_err() { unsafe { std::env::set_var("VH_SCRATCH", &out); } }
    let mut trace = std::io::BufWriter::new(std::fs::File::create(format!("{out}/trace.txt")).unwrap());
    let mut oracle = std::io::BufWriter::new(std::fs::File::create(format!("{out}/oracle.jsonl")).unwrap());
    let mut stats = Stats::default();

    let mut all: Vec<Case> = Vec::new();
    if let Some(f) = replay {
        // a replay file: operation lines (anything after " => " is ignored); `# case` separates cases
        let txt = std::fs::read_to_string(&f).expect("replay file");
        let mut cur: Vec<String> = vec![];
        for l in txt.lines() {
            let l = l.trim();
            if l.starts_with("# case") {
                if !cur.is_empty() { all.push(Case { lines: std::mem::take(&mut cur) }); }
                continue;
            }
            if l.is_empty() || l.starts_with('#') { continue; }
            let op = l.split(" => ").next().unwrap().to_string();
            cur.push(op);
        }
        if !cur.is_empty() { all.push(Case { lines: cur }); }
    } else {
        all.extend(group.fixed(&tier));
        let n = cases.unwrap_or_else(|| group.default_cases(&tier));
        let mut rng = Rng::new(seed);
        for idx in 0..n {
            let mut r = rng.fork();
            all.push(group.generate(&mut r, &tier, idx));
        }
    }

    let mut progress = std::fs::File::create(format!("{out}/progress.txt")).unwrap();
    // real-time watchdog per case: a case that neither finishes nor is caught by the virtual
    // watchdog (huge allocation, busy loop) kills the process; the orchestrator reports the case
    let case_started = std::sync::Arc::new(std::sync::atomic::AtomicU64::new(0));
    {
        let cs = case_started.clone();
        let limit: u64 = std::env::var("VH_CASE_TIMEOUT").ok().and_then(|v| v.parse().ok()).unwrap_or(90);
        let t0 = std::time::Instant::now();
        std::thread::spawn(move || loop {
            std::thread::sleep(std::time::Duration::from_millis(500));
            let started = cs.load(std::sync::atomic::Ordering::SeqCst);
            if started > 0 && t0.elapsed().as_secs() > started + limit {
                eprintln!("vharness: case exceeded {limit}s of real time; aborting");
                std::process::exit(3);
            }
        });
    }
    let t_begin = std::time::Instant::now();
    for (ci, case) in all.iter().enumerate() {
        case_started.store(t_begin.elapsed().as_secs() + 1, std::sync::atomic::Ordering::SeqCst);
        // unbuffered: if the process dies (abort, OOM) the orchestrator finds the killing case here
        let mut p = format!("# case {ci}\n");
        for l in &case.lines { p.push_str(l); p.push('\n'); }
        use std::io::Seek;
        progress.set_len(0).unwrap();
        progress.seek(std::io::SeekFrom::Start(0)).unwrap();
        progress.write_all(p.as_bytes()).unwrap();
        let panics_before = g_hostile::PANICS.load(std::sync::atomic::Ordering::SeqCst);
        let res = std::panic::catch_unwind(std::panic::AssertUnwindSafe(|| group.exec(case)));
        let outc = match res {
            Ok(o) => o,
            Err(_) => Outcome {
                obs: case.lines.iter().map(|_| "PANIC".to_string()).collect(),
                oracle: vec![OracleFail { sig: "panic/harness_case".into(), detail: "implementation panicked".into() }],
                tags: vec!["panic".into()],
                nontrivial: true,
            },
        };
        let mut outc = outc;
        // a panic in any library task during the case (spawned tasks do not propagate theirs) is a finding for every group
        let panics_after = g_hostile::PANICS.load(std::sync::atomic::Ordering::SeqCst);
        if panics_after > panics_before && !outc.oracle.iter().any(|f| f.sig.starts_with("task_panicked/") || f.sig.starts_with("panic/")) {
            outc.oracle.push(OracleFail { sig: format!("task_panicked/{gname}"), detail: format!("{} panic(s) in library tasks during this case", panics_after - panics_before) });
        }
        writeln!(trace, "# case {ci}").unwrap();
        for (k, l) in case.lines.iter().enumerate() {
            let o = outc.obs.get(k).cloned().unwrap_or_else(|| "MISSING".into());
            writeln!(trace, "{l} => {o}").unwrap();
        }
        for f in &outc.oracle {
            writeln!(oracle, "{{\"case\":{ci},\"sig\":{},\"detail\":{}}}", json_str(&f.sig), json_str(&f.detail)).unwrap();
        }
        stats.cases += 1;
        if outc.nontrivial { stats.nontrivial += 1; }
        for t in outc.tags { *stats.tags.entry(t).or_insert(0) += 1; }
    }
    trace.flush().unwrap();
    oracle.flush().unwrap();
    let mut s = String::new();
    s.push_str(&format!("{{\"group\":{},\"seed\":{},\"cases\":{},\"nontrivial\":{},\"tags\":{{", json_str(&gname), seed, stats.cases, stats.nontrivial));
    let mut first = true;
    for (k, v) in &stats.tags {
        if !first { s.push(','); }
        first = false;
        s.push_str(&format!("{}:{}", json_str(k), v));
    }
    s.push_str("}}\n");
    std::fs::write(format!("{out}/stats.json"), s).unwrap();
}
