//! generator for padding schemes over the whole accepted language (ASCII)
use crate::util::Rng;

const SMALL: [i64; 14] = [1, 2, 3, 6, 7, 8, 9, 14, 15, 16, 30, 50, 100, 400];
const BIG: [i64; 12] = [1000, 8192, 65528, 65534, 65535, 65536, 65543, 70000, 2147483647, 2147483648, 4294967295, 9223372036854775807];

fn size(rng: &mut Rng, big: bool) -> i64 {
    if big && rng.chance(1, 3) { *rng.pick(&BIG) } else if rng.chance(1, 4) { rng.range(1, 600) as i64 } else { *rng.pick(&SMALL) }
}

pub fn gen_part(rng: &mut Rng, big: bool) -> String {
    match rng.below(20) {
        0..=3 => "c".to_string(),
        4 => {
            // garbage the parser must skip
            rng.pick(&["x", "5", "-3", "3-", "0-5", "-1-5", "5--3", "", "c c", "1-2-3", "+4-+9", "07-010", "9999999999999999999-5", "4-99999999999999999999", "a-b", "C"]).to_string()
        }
        5 => {
            let a = size(rng, big);
            format!(" {} - {} ", a, a + rng.below(20) as i64)
        }
        6..=8 => {
            let a = size(rng, big);
            format!("{}-{}", a, a)
        }
        9 => {
            // reversed
            let a = size(rng, big);
            let b = size(rng, big);
            format!("{}-{}", a.max(b), a.min(b))
        }
        _ => {
            let a = size(rng, big);
            let b = a.saturating_add(rng.below(300) as i64);
            format!("{}-{}", a, b)
        }
    }
}

/// a scheme text; `big` allows sizes up to and beyond 65535
pub fn gen_scheme(rng: &mut Rng, big: bool) -> Vec<u8> {
    let stop = match rng.below(10) { 0 => 0, 1 => 1, 2 => 2, 3..=5 => 3, 6 => 5, 7 => 8, _ => rng.below(12) };
    let mut lines: Vec<String> = vec![];
    let stop_line = match rng.below(12) {
        0 => format!("stop = {}", stop),
        1 => format!("stop=+{}", stop),
        2 => format!("stop=0{}", stop),
        _ => format!("stop={}", stop),
    };
    let nlines = stop + 2;
    for k in 0..nlines {
        if rng.chance(1, 6) { continue; } // missing line
        let nparts = rng.below(6);
        let parts: Vec<String> = (0..nparts).map(|_| gen_part(rng, big)).collect();
        let key = if rng.chance(1, 25) { format!("0{}", k) } else if rng.chance(1, 25) { format!(" {} ", k) } else { k.to_string() };
        lines.push(format!("{}={}", key, parts.join(",")));
        if rng.chance(1, 20) {
            // duplicate key: the later one wins
            lines.push(format!("{}={}", k, gen_part(rng, big)));
        }
    }
    if rng.chance(1, 10) { lines.push("garbage line without equals".into()); }
    if rng.chance(1, 10) { lines.push("".into()); }
    if rng.chance(1, 10) { lines.push("k=v=w".into()); }
    let pos = rng.below(lines.len() as u64 + 1) as usize;
    lines.insert(pos, stop_line);
    let sep = if rng.chance(1, 6) { "\r\n" } else { "\n" };
    let mut s = lines.join(sep);
    if rng.chance(1, 5) { s.push_str(sep); }
    s.into_bytes()
}

/// schemes the parser must reject (no / bad stop)
pub fn gen_bad_scheme(rng: &mut Rng) -> Vec<u8> {
    rng.pick(&["", "0=1-2", "stop=", "stop=-1", "stop=x", "stop=4294967296", "stop=1.5", "Stop=3", "stop 3", "stop=3 4"]).as_bytes().to_vec()
}

pub const DEFAULT_SCHEME: &str = "stop=8\n0=30-30\n1=100-400\n2=400-500,c,500-1000,c,500-1000,c,500-1000,c,500-1000\n3=9-9,500-1000\n4=500-1000\n5=500-1000\n6=500-1000\n7=500-1000";
