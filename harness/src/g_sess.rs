//! group `sess`: one real Session (either role) on a scripted transport; every op runs to
//! quiescence under a paused clock.  Serves the sequential correspondence of the session
//! model (C02, C04, C05, C08, C09, C10, C19, C20).
use crate::g_frame::{ref_encode, CMD_NAMES};
use crate::node::*;
use crate::schemes::*;
use crate::util::*;
use crate::Group;

pub struct SessGroup;

pub fn md5_hex(b: &[u8]) -> String {
    format!("{:x}", md5::compute(b))
}

pub fn reset_line(prefix: &str, role: &str, scheme: &[u8], seed: u64, opts: &str) -> String {
    let mut s = format!("{prefix} reset {role} {} {} md5={}", hex(scheme), seed, md5_hex(scheme));
    if !opts.is_empty() { s.push(' '); s.push_str(opts); }
    s
}

pub const SIDS: [u32; 7] = [0, 1, 2, 3, 5, 65536, 4294967295];

pub fn gen_frame_bytes(rng: &mut Rng, is_client_node: bool, known_md5: &str) -> Vec<u8> {
    // a frame the peer could send (or not): all commands, known/unknown ids, payloads
    let cmd = match rng.below(14) {
        0..=3 => 2u8, // Push
        4 => 1,       // Syn
        5 => 3,       // Fin
        6 => 7,       // SynAck
        7 => 4,       // Settings
        8 => 10,      // ServerSettings
        9 => 8,       // HeartRequest
        10 => 9,      // HeartResponse
        11 => 0,      // Waste
        12 => rng.below(256) as u8,
        _ => rng.below(11) as u8,
    };
    let sid = *rng.pick(&SIDS);
    let data: Vec<u8> = match cmd {
        4 => {
            // Settings from a client
            let v = *rng.pick(&["2", "1", "3", "255", "256", "x", "+2", ""]);
            let md5 = if rng.chance(1, 2) { known_md5.to_string() } else { "0123456789abcdef0123456789abcdef".to_string() };
            let mut lines = vec![];
            if rng.chance(5, 6) { lines.push(format!("v={v}")); }
            if rng.chance(3, 4) { lines.push(format!("padding-md5={md5}")); }
            if rng.chance(1, 3) { lines.push("client=x/1".into()); }
            lines.join("\n").into_bytes()
        }
        10 => { let v = *rng.pick(&["2", "1", "0", "255", "256", "x"]); format!("v={v}").into_bytes() }
        7 => if rng.chance(1, 2) { vec![] } else { b"Failed to connect to x:1: refused".to_vec() },
        5 => if rng.chance(1, 2) { vec![] } else { b"boom".to_vec() },
        2 => { let n = if rng.chance(1, 10) { 0 } else { rng.range(1, 12) as usize }; rng.bytes(n) }
        _ => if rng.chance(1, 3) { let n = rng.below(6) as usize; rng.bytes(n) } else { vec![] },
    };
    let _ = is_client_node;
    ref_encode(cmd, sid, &data)
}

/// a server-side case whose inbound byte stream (SYN, data frames of the given sizes, FIN for stream 1) arrives cut at
/// the given offsets - the receive loop's buffer management between reads is what is exercised
pub fn fragmented_case(sizes: &[usize], cuts: &[usize], tagbase: u8) -> Case {
    let mut w = ref_encode(1, 1, &[]);
    for (i, n) in sizes.iter().enumerate() {
        let mut d = vec![tagbase.wrapping_add(i as u8); *n];
        if let Some(l) = d.last_mut() { *l ^= 0x5a; }
        w.extend(ref_encode(2, 1, &d));
    }
    w.extend(ref_encode(3, 1, &[]));
    let mut cs: Vec<usize> = cuts.iter().copied().filter(|c| *c > 0 && *c < w.len()).collect();
    cs.sort(); cs.dedup();
    let mut lines = vec![reset_line("sess", "server", b"stop=0", 1, "cb=1")];
    let mut prev = 0;
    for c in cs.iter().chain(std::iter::once(&w.len())) { lines.push(format!("sess feed {}", hex_compact(&w[prev..*c]))); prev = *c; }
    for _ in 0..sizes.len() + 2 { lines.push("sess read 0 70000".into()); }
    lines.push("sess state".into());
    Case { lines }
}

impl Group for SessGroup {
    fn default_cases(&self, tier: &str) -> u64 { if tier == "thorough" { 20_000 } else { 600 } }

    fn fixed(&self, _tier: &str) -> Vec<Case> {
        let mut v = vec![];
        // a maximum-size frame whose last read ends a few bytes into the next frame's header
        let e = 7 + 7 + 65535; // end of the big frame (after the SYN)
        for k in 0..=7 { v.push(fragmented_case(&[65535, 500, 700], &[e - 300, e + k], 0x10)); }
        for (r, k) in [(1usize, 1usize), (1023, 6), (1024, 3), (5000, 2), (8191, 5)] { v.push(fragmented_case(&[65535, 65535, 9], &[e - r, e + k, 2 * e - 7 - r, 2 * e - 7 + k], 0x20)); }
        v.push(fragmented_case(&[1, 2, 3], &[1, 2, 3, 4, 5, 6, 7, 8, 9, 10, 11, 12, 13, 14, 15, 16, 20, 21, 22, 23], 0x30));
        // the peer stops reading with room for k bytes left, a keep-alive request arrives, time passes, the peer reads again
        for role in ["server", "client"] {
            for (k, ms) in [(1usize, 7000u64), (3, 7000), (6, 31000), (3, 100), (7, 7000), (0, 7000), (3, 61000)] {
                let mut lines = vec![reset_line("sess", role, b"stop=0", 1, if role == "server" { "cb=1" } else { "" })];
                if role == "server" { lines.push(format!("sess feed {}", hex(&ref_encode(1, 1, &[])))); } else { lines.push("sess open".into()); lines.push("sess nobuf".into()); lines.push("sess write 1 0102".into()); }
                lines.push(format!("sess room {k}"));
                lines.push(format!("sess feed {}", hex(&ref_encode(8, 7, &[]))));
                lines.push(format!("sess tick {ms}"));
                lines.push("sess room none".into());
                lines.push(format!("sess feed {}", hex(&ref_encode(8, 8, &[]))));
                lines.push("sess write 1 7461696c".into());
                lines.push("sess state".into());
                v.push(Case { lines });
            }
        }
        // the peer ends the transport in the middle of a frame: 1..6 header bytes, or a header whose payload is incomplete
        for role in ["server", "client"] {
            for part in [&[2u8, 0, 0][..], &[2, 0, 0, 0, 1, 0][..], &[2, 0, 0, 0, 1, 0, 100, 9, 9, 9, 9, 9, 9, 9, 9, 9, 9][..], &[0, 0, 0, 0, 0, 255, 255, 1][..]] {
                let mut lines = vec![reset_line("sess", role, b"stop=0", 1, if role == "server" { "cb=1" } else { "" })];
                if role == "server" { lines.push(format!("sess feed {}", hex(&ref_encode(1, 1, &[])))); } else { lines.push("sess open".into()); }
                lines.push(format!("sess feed {}", hex(&ref_encode(2, 1, b"abc"))));
                lines.push(format!("sess feed {}", hex(part)));
                lines.push("sess eof".into());
                lines.push("sess state".into());
                lines.push("sess read 0 100".into());
                lines.push("sess read 0 100".into());
                lines.push("sess open".into());
                lines.push("sess write 1 0102".into());
                lines.push("sess state".into());
                v.push(Case { lines });
            }
        }
        v
    }

    fn generate(&self, rng: &mut Rng, _tier: &str, _idx: u64) -> Case {
        let role = if rng.chance(1, 2) { "client" } else { "server" };
        let scheme = if rng.chance(1, 4) { DEFAULT_SCHEME.as_bytes().to_vec() } else { let big = rng.chance(1, 4); gen_scheme(rng, big) };
        let md5 = md5_hex(&scheme);
        let seed = rng.next() % 1_000_000;
        let mut opts = String::new();
        if role == "server" {
            if rng.chance(4, 5) { opts.push_str("cb=1"); }
            if rng.chance(1, 4) { if !opts.is_empty() { opts.push(' '); } opts.push_str("ss=foo:bar"); }
        }
        if rng.chance(1, 12) {
            // fragmented inbound stream: frames of assorted sizes, cuts near the end of every frame and elsewhere
            let n = rng.range(1, 5) as usize;
            let sizes: Vec<usize> = (0..n).map(|_| if rng.chance(1, 3) { *rng.pick(&[65535usize, 65534, 65529, 65528, 57343, 32768]) } else { *rng.pick(&[0usize, 1, 6, 7, 300, 1017, 8185, 8192, 9000]) }).collect();
            let mut cuts = vec![];
            let mut e = 7usize;
            for sz in &sizes {
                e += 7 + sz;
                if rng.chance(2, 3) { cuts.push(e.saturating_sub(rng.range(1, 1200) as usize)); }
                if rng.chance(2, 3) { cuts.push(e + rng.below(8) as usize); }
                if rng.chance(1, 4) { cuts.push(e.saturating_sub(rng.range(1, 9000) as usize)); }
            }
            for _ in 0..rng.below(3) { cuts.push(rng.below(e as u64 + 7) as usize); }
            return fragmented_case(&sizes, &cuts, rng.next() as u8);
        }
        let mut lines = vec![reset_line("sess", role, &scheme, seed, &opts)];
        if rng.chance(2, 5) {
            // stream lifecycle: open, data chunks of assorted sizes, reads smaller and larger than the chunks
            // interleaved at random, FIN, reads until end of stream; sibling streams in between
            let nstreams = rng.range(1, 3);
            let mut script: Vec<(u64, String)> = vec![]; // (stream, op)
            for st in 0..nstreams {
                let sid = st + 1;
                let mut ops: Vec<String> = vec![];
                if role == "client" { ops.push("open".into()); if rng.chance(1, 2) { ops.push(format!("feed {}", hex(&ref_encode(7, sid as u32, &[])))); } }
                else { ops.push(format!("feed {}", hex(&ref_encode(1, sid as u32, &[])))); }
                let nchunks = rng.range(1, 6);
                for _ in 0..nchunks {
                    let n = *rng.pick(&[0usize, 1, 2, 5, 9, 17, 40, 300, 9000, 65535]);
                    let d = if n > 64 { vec![(sid as u8) << 4 | (rng.next() as u8 & 15); n] } else { rng.bytes(n) };
                    ops.push(format!("feed {}", hex_compact(&ref_encode(2, sid as u32, &d))));
                    if rng.chance(1, 2) { ops.push(format!("read {} {}", st, rng.pick(&[1usize, 3, 8, 16, 100, 8192, 70000]))); }
                }
                if rng.chance(5, 6) { ops.push(format!("feed {}", hex(&ref_encode(3, sid as u32, &[])))); }
                for _ in 0..rng.range(2, 9) { ops.push(format!("read {} {}", st, rng.pick(&[1usize, 3, 8, 16, 100, 8192, 70000]))); }
                ops.push(format!("read {} 70000", st));
                ops.push(format!("read {} 70000", st));
                for o in ops { script.push((st, o)); }
            }
            // merge the per-stream scripts preserving each stream's order
            let mut idx = vec![0usize; nstreams as usize];
            let per: Vec<Vec<String>> = (0..nstreams).map(|st| script.iter().filter(|(s2, _)| *s2 == st).map(|(_, o)| o.clone()).collect()).collect();
            // streams must be opened in order (handle numbers are assigned in creation order)
            for st in 0..nstreams as usize { lines.push(format!("sess {}", per[st][0])); idx[st] = 1; }
            loop {
                let live: Vec<usize> = (0..nstreams as usize).filter(|st| idx[*st] < per[*st].len()).collect();
                if live.is_empty() { break; }
                let st = *rng.pick(&live);
                lines.push(format!("sess {}", per[st][idx[st]]));
                idx[st] += 1;
            }
            lines.push("sess state".into());
            return Case { lines };
        }
        let short = rng.chance(1, 5);
        if short { lines.push(format!("sess shortw {}", rng.pick(&[1u32, 2, 7, 16, 33]))); }
        let nops = rng.range(4, 24);
        let mut handles = 0u64;
        for _ in 0..nops {
            let k = rng.below(100);
            let l = if role == "client" {
                match k {
                    0..=11 => { handles += 1; "open".to_string() }
                    12..=17 => "nobuf".to_string(),
                    18..=29 => format!("write {} {}", rng.pick(&SIDS), hex_compact(&{ let n = rng.below(20) as usize; rng.bytes(n) })),
                    30..=33 => format!("ctl {} {} {}", rng.pick(&CMD_NAMES), rng.pick(&SIDS), hex_compact(&{ let n = rng.below(5) as usize; rng.bytes(n) })),
                    34..=59 => format!("feed {}", hex_compact(&gen_frame_bytes(rng, true, &md5))),
                    60..=69 => format!("read {} {}", rng.below(handles + 1), rng.range(1, 16)),
                    70..=74 => format!("obj {}", rng.below(handles + 1)),
                    75..=84 => "state".to_string(),
                    85 => "close".to_string(),
                    86 => "eof".to_string(),
                    87 => "rderr".to_string(),
                    88..=89 => if short { "state".to_string() } else { format!("budget {}", rng.below(4)) },
                    90 => "budget none".to_string(),
                    91..=94 => format!("send {} {}", rng.below(handles + 1), hex_compact(&{ let n = rng.below(12) as usize; rng.bytes(n) })),
                    _ => format!("readx {} {}", rng.below(handles + 1), rng.range(1, 8)),
                }
            } else {
                match k {
                    0..=44 => {
                        let f = gen_frame_bytes(rng, false, &md5);
                        // the server learns handles through SYN frames
                        if f[0] == 1 { handles += 1; }
                        format!("feed {}", hex_compact(&f))
                    }
                    45..=54 => format!("send {} {}", rng.below(handles + 1), hex_compact(&{ let n = rng.below(12) as usize; rng.bytes(n) })),
                    55..=66 => format!("read {} {}", rng.below(handles + 1), rng.range(1, 16)),
                    67..=70 => format!("obj {}", rng.below(handles + 1)),
                    71..=82 => "state".to_string(),
                    83 => "close".to_string(),
                    84 => "eof".to_string(),
                    85 => "rderr".to_string(),
                    86..=87 => if short { "state".to_string() } else { format!("budget {}", rng.below(3)) },
                    88 => "budget none".to_string(),
                    89..=92 => format!("write {} {}", rng.pick(&SIDS), hex_compact(&{ let n = rng.below(20) as usize; rng.bytes(n) })),
                    93..=95 => format!("ctl {} {} -", rng.pick(&CMD_NAMES), rng.pick(&SIDS)),
                    _ => format!("readx {} {}", rng.below(handles + 1), rng.range(1, 8)),
                }
            };
            lines.push(format!("sess {l}"));
        }
        if rng.chance(1, 12) {
            // the peer stops reading for a while
            lines.push(format!("sess room {}", rng.pick(&[0usize, 1, 2, 3, 5, 6, 7, 8, 20, 100])));
            for _ in 0..rng.range(1, 3) {
                // (no observer op here: anything that takes the session's locks waits behind the parked write, as it should)
                lines.push(match rng.below(2) { 0 => format!("sess feed {}", hex(&ref_encode(8, rng.below(9) as u32, &[]))), _ => format!("sess feed {}", hex_compact(&gen_frame_bytes(rng, role == "client", &md5))) });
            }
            lines.push(format!("sess tick {}", rng.pick(&[10u64, 900, 4900, 5100, 10100, 31000, 61000])));
            lines.push("sess room none".into());
            lines.push(format!("sess feed {}", hex(&ref_encode(8, 5, &[]))));
            lines.push("sess state".into());
        } else if rng.chance(1, 10) {
            // the transport ends in the middle of a frame
            let f = gen_frame_bytes(rng, role == "client", &md5);
            let mut f = if f.len() == 7 { ref_encode(2, 1, &rng.bytes(9)) } else { f };
            let k = rng.range(1, f.len() as u64 - 1) as usize;
            f.truncate(k);
            lines.push(format!("sess feed {}", hex_compact(&f)));
            lines.push(format!("sess {}", rng.pick(&["eof", "eof", "rderr"])));
            lines.push("sess state".into());
            lines.push("sess read 0 9".into());
            lines.push("sess open".into());
        }
        lines.push("sess state".into());
        Case { lines }
    }

    fn exec(&self, case: &Case) -> Outcome {
        exec_node_case(case, "sess")
    }
}

/// run a case whose lines are `<prefix> reset ...` followed by `<prefix> <op>` lines on one node
pub fn exec_node_case(case: &Case, prefix: &str) -> Outcome {
    let rt = runtime();
    let mut out = Outcome::default();
    // O (C01/C08): when nothing kills the session or re-opens an id, a stream's reader obtains exactly the
    // payloads fed for its id while it was registered, and end of stream only after all of them
    let clean = !case.lines.iter().any(|l| { let t: Vec<&str> = l.split_whitespace().collect(); matches!(t.get(1), Some(&"close") | Some(&"eof") | Some(&"rderr") | Some(&"budget") | Some(&"shortw") | Some(&"room")) || (t.get(1) == Some(&"feed") && t.get(2).map(|h| h.starts_with("05")).unwrap_or(false)) });
    let mut fed: std::collections::BTreeMap<u32, Vec<u8>> = std::collections::BTreeMap::new();
    let mut registered: std::collections::BTreeMap<u32, u32> = std::collections::BTreeMap::new(); // sid -> times opened
    let mut finished: std::collections::BTreeSet<u32> = std::collections::BTreeSet::new();
    let mut readb: std::collections::BTreeMap<usize, Vec<u8>> = std::collections::BTreeMap::new();
    // bytes fed and not yet making up a whole frame (a feed may end anywhere inside a frame)
    let mut feedbuf: Vec<u8> = vec![];
    let mut tainted: std::collections::BTreeSet<usize> = Default::default();
    // the server node hands new streams to a callback (`cb=1`): every SYN for an id not seen before must arrive there
    let mut has_cb = false;
    let mut transport_ended = false;
    // O (C11/C04): a peer that stops reading for a while and then reads again (`room k` .. `room none`) finds whole frames:
    // no frame is cut short and none is glued onto a fragment, however long the pause was
    let has_room = case.lines.iter().any(|l| l.split_whitespace().nth(1) == Some("room"));
    let judge_room = has_room
        && !case.lines.iter().any(|l| { let t: Vec<&str> = l.split_whitespace().collect(); matches!(t.get(1), Some(&"close") | Some(&"eof") | Some(&"rderr") | Some(&"budget")) || (t.get(1) == Some(&"feed") && t.get(2).map(|h| h.starts_with("05")).unwrap_or(false)) });
    let mut room_active = false;
    let mut last_rest: Option<usize> = None;
    rt.block_on(async {
        let mut node: Option<Node> = None;
        for line in &case.lines {
            let toks: Vec<&str> = line.split_whitespace().collect();
            if toks.first() != Some(&prefix) { out.obs.push("bad-op".into()); continue; }
            let toks = &toks[1..];
            if toks.first() == Some(&"reset") {
                if let Some(mut n) = node.take() { n.shutdown(); }
                feedbuf.clear(); tainted.clear(); transport_ended = false;
                match parse_reset(&toks[1..]) {
                    Some((role, scheme, seed, cb, ss)) => {
                        has_cb = cb && role == "server";
                        install_draws(seed);
                        match Node::new(&role, &scheme, cb, ss, None).await {
                            Ok((n, o)) => { node = Some(n); out.obs.push(o); out.tags.push(format!("role={role}")); }
                            Err(_) => { out.obs.push("reject".into()); out.tags.push("scheme-rejected".into()); }
                        }
                    }
                    None => out.obs.push("bad-op".into()),
                }
                continue;
            }
            match node.as_mut() {
                None => out.obs.push("nonode".into()),
                Some(n) => {
                    let o = n.op(toks).await;
                    out.tags.push(format!("op={}", toks[0]));
                    if clean {
                        match toks {
                            ["open"] => { if let Some(p) = o.split("sid=").nth(1) { if let Ok(v) = p.split(' ').next().unwrap().parse::<u32>() { *registered.entry(v).or_insert(0) += 1; } } }
                            ["feed", hx] => {
                                feedbuf.extend_from_slice(&unhex(hx).unwrap_or_default());
                                let (frames, rest) = crate::g_frame::ref_parse(&feedbuf);
                                feedbuf = rest;
                                for (c, sid, d) in frames {
                                    // O (C02): an opening frame for an id the session has not seen before opens that stream, whatever
                                    // other ids were opened before it (ids need not arrive in order)
                                    if c == 1 && !n.is_client && has_cb && !has_room && !registered.contains_key(&sid) && !n.handles.iter().any(|h| h.stream.id() == sid) {
                                        out.oracle.push(OracleFail { sig: "syn_not_registered/handle_frame".into(), detail: format!("SYN for the fresh id {sid} (ids opened before: {:?}) did not reach the stream callback", registered.keys().collect::<Vec<_>>()) });
                                    }
                                    if c == 1 && !n.is_client { *registered.entry(sid).or_insert(0) += 1; }
                                    if c == 2 && registered.contains_key(&sid) && !finished.contains(&sid) { fed.entry(sid).or_default().extend_from_slice(&d); }
                                    // (a FIN for an id that is not registered ends nothing: the id may be opened later)
                                    if c == 3 && registered.contains_key(&sid) { finished.insert(sid); }
                                }
                            }
                            ["readx", h, _] => {
                                // an exact read consumes bytes too; one that does not complete may have consumed some:
                                // the byte accounting of that stream ends there
                                if let Some(h) = h.parse::<usize>().ok().filter(|h| n.handles.get(*h).is_some()) {
                                    if let Some(hx) = o.strip_prefix("ok ") { readb.entry(h).or_default().extend_from_slice(&unhex(hx.split(' ').next().unwrap()).unwrap_or_default()); }
                                    else { tainted.insert(h); }
                                }
                            }
                            ["read", h, _] if h.parse::<usize>().map(|h| tainted.contains(&h)).unwrap_or(false) => {}
                            ["read", h, _] => {
                                if let Some(hd) = h.parse::<usize>().ok().and_then(|h| n.handles.get(h).map(|x| (h, x.stream.id()))) {
                                    let (h, sid) = hd;
                                    if registered.get(&sid) == Some(&1) {
                                        if let Some(hx) = o.strip_prefix("data ") { readb.entry(h).or_default().extend_from_slice(&unhex(hx.split(' ').next().unwrap()).unwrap_or_default()); }
                                        let r = readb.get(&h).cloned().unwrap_or_default();
                                        let w = fed.get(&sid).cloned().unwrap_or_default();
                                        if !w.starts_with(&r) {
                                            out.oracle.push(OracleFail { sig: "not_a_prefix/stream_reader".into(), detail: format!("stream {sid}: {} bytes read are not a prefix of the {} bytes delivered to the session", r.len(), w.len()) });
                                        }
                                        if o.starts_with("block") && r.len() < w.len() {
                                            out.oracle.push(OracleFail { sig: "delivered_data_unreadable/recv_loop".into(), detail: format!("stream {sid}: a read blocks after {} bytes although {} bytes were delivered to the session in whole frames", r.len(), w.len()) });
                                        }
                                        if o.starts_with("eof") && r != w {
                                            out.oracle.push(OracleFail { sig: "eof_before_all_data/stream_reader".into(), detail: format!("stream {sid}: end of stream after {} of {} bytes", r.len(), w.len()) });
                                        }
                                        if o.starts_with("eof") && !finished.contains(&sid) {
                                            out.oracle.push(OracleFail { sig: "premature_eof/stream_reader".into(), detail: format!("stream {sid}: end of stream reported while the stream is open") });
                                        }
                                    }
                                }
                            }
                            _ => {}
                        }
                    }
                    // O (C09): once the transport has ended (clean end of input or a read error), the session is visibly closed -
                    // whatever was left in the receive buffer
                    if matches!(toks, ["eof"] | ["rderr"]) { transport_ended = true; }
                    if transport_ended && toks == ["state"] && o.starts_with("closed=0") {
                        out.oracle.push(OracleFail { sig: "session_not_closed_after_transport_end/recv_loop".into(), detail: "the peer ended the transport; the session still reports open".into() });
                    }
                    if let ["room", k] = toks { room_active = *k != "none"; }
                    if judge_room && !room_active { if let Some(r) = o.split(" rest=").nth(1).and_then(|x| x.split(' ').next()).and_then(|x| x.parse::<usize>().ok()) { last_rest = Some(r); } }
                    if o.starts_with("blocked") {
                        out.oracle.push(OracleFail { sig: format!("blocked_forever/{}", toks[0]), detail: format!("operation `{}` did not complete within the virtual watchdog", line) });
                    }
                    out.obs.push(o);
                }
            }
        }
        if judge_room && !room_active { if let Some(r) = last_rest { if r != 0 {
            out.oracle.push(OracleFail { sig: "frame_torn/wire_after_backpressure".into(), detail: format!("the peer paused and read again; the bytes on the transport end with {r} bytes that are no whole frame (a frame was cut short or glued onto a fragment)") });
        } } }
        if let Some(mut n) = node.take() { n.shutdown(); }
    });
    anytls_rs::verif::set_draw_controller(None);
    out.nontrivial = case.lines.len() > 3;
    out
}

pub fn parse_reset(toks: &[&str]) -> Option<(String, Vec<u8>, u64, bool, Vec<(String, String)>)> {
    if toks.len() < 4 { return None; }
    let role = toks[0].to_string();
    if role != "client" && role != "server" { return None; }
    let scheme = unhex(toks[1])?;
    let seed = toks[2].parse::<u64>().ok()?;
    if !toks[3].starts_with("md5=") { return None; }
    let mut cb = false;
    let mut ss = vec![];
    for o in &toks[4..] {
        if *o == "cb=1" { cb = true; }
        if let Some(kvs) = o.strip_prefix("ss=") {
            for kv in kvs.split(',') { if let Some((k, v)) = kv.split_once(':') { ss.push((k.to_string(), v.to_string())); } }
        }
    }
    Some((role, scheme, seed, cb, ss))
}
