//! group `open` (C10): real `Client::create_proxy_stream` on a pool pre-seeded with a session on an
//! in-memory transport; the harness plays the server (SYNACK before / during / after the 30 s wait,
//! duplicated, for unknown ids, never) or kills the session during the wait; several opens race.
use crate::g_frame::ref_encode;
use crate::node::*;
use crate::util::*;
use crate::Group;
use std::time::Duration;

pub struct OpenGroup;

struct Pending { jh: tokio::task::JoinHandle<(Result<(), String>, u64)>, started_ms: u64, done: Option<(String, u64)> }

fn classify(r: &Result<(), String>) -> String {
    match r {
        Ok(()) => "ok".into(),
        Err(m) if m.contains("SYNACK timeout") => "err-timeout".into(),
        // (a reason that is not UTF-8 is shown to the caller through a lossy conversion: canonical form `lossy`)
        Err(m) if m.contains("Server error: ") && m.contains('\u{fffd}') => "err-server lossy".into(),
        Err(m) if m.contains("Server error: ") => format!("err-server {}", hex_compact(m.split("Server error: ").nth(1).unwrap_or("").as_bytes())),
        Err(m) if m.contains("Session closed") => "err-session".into(),
        Err(m) if m.contains("stream closed by peer") => "err-fin".into(),
        Err(m) if m.contains("channel closed") => "err-chan".into(),
        Err(m) if m.contains("IO error") => "err-io".into(),
        Err(m) => format!("err-other {}", hex(m.as_bytes())),
    }
}

impl Group for OpenGroup {
    fn default_cases(&self, tier: &str) -> u64 { if tier == "thorough" { 20_000 } else { 600 } }

    fn fixed(&self, _tier: &str) -> Vec<Case> {
        let l = |v: &[&str]| Case { lines: v.iter().map(|s| s.to_string()).collect() };
        vec![
            // a failure reason that is not text (or text cut inside a character) is still a failure
            l(&["open reset", "open start 0", &format!("open feed {}", hex(&ref_encode(7, 1, &[0xff, 0xfe, 0xfd]))), "open poll 0"]),
            l(&["open reset", "open start 0", &format!("open feed {}", hex(&ref_encode(7, 1, &"Failed to resolve 日本語".as_bytes()[..20]))), "open poll 0"]),
            l(&["open reset", "open start 0", &format!("open feed {}", hex(&ref_encode(7, 1, "Failed to resolve 日本語.invalid:80".as_bytes()))), "open poll 0"]),
            // regression witness (DESIGN §6 D9): an Alert during the wait must fail the open at once, not after 30 s
            l(&["open reset", "open start 0", &format!("open feed {}", hex(&ref_encode(5, 0, b"bye"))), "open poll 0", "open tick 30010", "open poll 0"]),
            // answer exactly at / after the deadline
            l(&["open reset", "open start 0", "open tick 29980", "open poll 0", &format!("open feed {}", hex(&ref_encode(7, 1, &[]))), "open poll 0"]),
            l(&["open reset", "open start 0", "open tick 30000", "open poll 0", &format!("open feed {}", hex(&ref_encode(7, 1, &[]))), "open poll 0"]),
            l(&["open reset", "open start 0", "open tick 30010", "open poll 0", &format!("open feed {}", hex(&ref_encode(7, 1, &[]))), "open poll 0"]),
        ]
    }

    fn generate(&self, rng: &mut Rng, _tier: &str, _idx: u64) -> Case {
        let mut lines = vec!["open reset".to_string()];
        let n = rng.range(1, 6);
        let mut started = 0u64;
        for _ in 0..rng.range(3, 18) {
            let k = rng.below(100);
            if started == 0 || (started < n && k < 25) {
                lines.push(format!("open start {started}"));
                started += 1;
                continue;
            }
            let sid = match rng.below(6) { 0 => rng.range(started + 1, started + 3), 1 => 0, _ => rng.range(1, started) } as u32;
            let l = match k {
                25..=49 => format!("open feed {}", hex(&ref_encode(7, sid, &[]))),
                50..=55 => format!("open feed {}", hex(&ref_encode(7, sid, b"Failed to connect to t:1: Connection refused"))),
                // reasons a server may send: multi-byte text, text cut in the middle of a character, bytes that are no text at all
                56..=59 => { let reasons: [&[u8]; 6] = ["Failed to resolve 日本語.invalid:80".as_bytes(), &"Failed to resolve 日本語".as_bytes()[..20], &[0xff, 0xfe, 0xfd], &[0x80], &[b'x'; 300], &[0xe6, 0x97]]; let r: &[u8] = *rng.pick(&reasons); format!("open feed {}", hex(&ref_encode(7, sid, r))) }
                60..=66 => { let mut w = ref_encode(7, sid, &[]); w.extend(ref_encode(7, sid, b"late error")); format!("open feed {}", hex(&w)) }
                67..=76 => format!("open tick {}", rng.pick(&[10u64, 1000, 14990, 15000, 29900, 29980, 29990, 30000, 30010, 45000])),
                77..=86 => format!("open poll {}", rng.below(started)),
                87..=89 => format!("open feed {}", hex(&ref_encode(5, 0, b"fatal"))),
                90..=91 => "open eof".to_string(),
                92 => "open close".to_string(),
                93..=94 => format!("open feed {}", hex(&ref_encode(3, sid, &[]))),
                _ => format!("open feed {}", hex(&ref_encode(2, sid, &[1, 2, 3]))),
            };
            lines.push(l);
        }
        lines.push("open tick 30010".into());
        for i in 0..started { lines.push(format!("open poll {i}")); }
        Case { lines }
    }

    fn exec(&self, case: &Case) -> Outcome {
        let rt = runtime();
        let mut out = Outcome::default();
        rt.block_on(async {
            let mut node: Option<Node> = None;
            let mut client = None;
            let mut pend: Vec<Pending> = vec![];
            let t0 = tokio::time::Instant::now();
            let now = move || -> u64 { (tokio::time::Instant::now() - t0).as_millis() as u64 };
            #[allow(unused_assignments)]
            let mut now_ms: u64 = 0;
            // oracle bookkeeping: the first resolving event per request (sid = index + 1)
            let mut first_event: Vec<Option<(String, u64)>> = vec![];
            let mut session_dead_at: Option<u64> = None;
            for line in &case.lines {
                let toks: Vec<&str> = line.split_whitespace().collect();
                now_ms = now();
                let slot_end = t0 + Duration::from_millis(now_ms + 10);
                let o: String = match toks.as_slice() {
                    ["open", "reset"] => {
                        let c = crate::e2e::offline_client();
                        let (n, _) = Node::new("client", b"stop=0", false, vec![], None).await.unwrap();
                        node = Some(n); client = Some(c); pend.clear(); first_event.clear(); session_dead_at = None; now_ms = 0;
                        "ok".into()
                    }
                    ["open", "start", i] => {
                        let (Some(n), Some(c)) = (node.as_mut(), client.as_ref()) else { out.obs.push("nonode".into()); continue; };
                        let _ = i;
                        if n.session.is_closed() { out.obs.push("skip-closed".into()); continue; }
                        // the pool hands the shared session to this request
                        c.verif_pool().add_idle_session(n.session.clone()).await;
                        // requests start 5 ms into their slot, so that no deadline coincides with a slot boundary
                        tokio::time::sleep(Duration::from_millis(5)).await;
                        now_ms = now();
                        let c2 = c.clone();
                        let jh = tokio::spawn(async move {
                            let r = c2.create_proxy_stream(("t.example".to_string(), 443)).await.map(|_| ()).map_err(|e| e.to_string());
                            (r, (tokio::time::Instant::now() - t0).as_millis() as u64)
                        });
                        pend.push(Pending { jh, started_ms: now_ms, done: None });
                        first_event.push(None);
                        settle().await;
                        let d = n.delta().await;
                        format!("started{d}")
                    }
                    ["open", "feed", hx] => {
                        let Some(n) = node.as_mut() else { out.obs.push("nonode".into()); continue; };
                        let bytes = unhex(hx).unwrap_or_default();
                        // bookkeeping for the oracle (reference parse of what the "server" says)
                        if session_dead_at.is_none() {
                            for (c, sid, d) in crate::g_frame::ref_parse(&bytes).0 {
                                if c == 7 && sid >= 1 && (sid as usize) <= first_event.len() {
                                    let idx = sid as usize - 1;
                                    if first_event[idx].is_none() && pend[idx].done.is_none() && now_ms < pend[idx].started_ms + 30000 {
                                        first_event[idx] = Some((if d.is_empty() { "ok".into() } else if std::str::from_utf8(&d).is_err() { "err-server lossy".into() } else { format!("err-server {}", hex_compact(&d)) }, now_ms));
                                    }
                                }
                                if c == 3 && sid >= 1 && (sid as usize) <= first_event.len() { /* FIN: entry removed; a later SYNACK is for an unknown id */
                                    let idx = sid as usize - 1; if first_event[idx].is_none() && pend[idx].done.is_none() && now_ms < pend[idx].started_ms + 30000 { first_event[idx] = Some(("fin".into(), now_ms)); } }
                                if c == 5 { session_dead_at = Some(now_ms); break; }
                            }
                        }
                        let o = n.op(&["feed", hx]).await;
                        o
                    }
                    ["open", "eof"] => { let Some(n) = node.as_mut() else { out.obs.push("nonode".into()); continue; }; if session_dead_at.is_none() { session_dead_at = Some(now_ms); } let o = n.op(&["eof"]).await; o }
                    ["open", "close"] => { let Some(n) = node.as_mut() else { out.obs.push("nonode".into()); continue; }; if session_dead_at.is_none() { session_dead_at = Some(now_ms); } let o = n.op(&["close"]).await; o }
                    ["open", "tick", ms] => {
                        let ms: u64 = ms.parse().unwrap_or(0);
                        tokio::time::sleep(Duration::from_millis(ms)).await;
                        // a tick is pure time: it does not occupy a slot
                        out.obs.push("ok".into());
                        continue;
                    }
                    ["open", "poll", i] => {
                        let Some(p) = i.parse::<usize>().ok().and_then(|i| pend.get_mut(i)) else { out.obs.push("norequest".into()); continue; };
                        if p.done.is_none() && p.jh.is_finished() {
                            let (r, t) = (&mut p.jh).await.unwrap_or((Err("task panicked".into()), now_ms));
                            p.done = Some((classify(&r), t));
                        }
                        match &p.done { Some((r, _)) => r.clone(), None => "pending".into() }
                    }
                    _ => "bad-op".into(),
                };
                // record completion instants as early as they are observable
                for p in pend.iter_mut() {
                    if p.done.is_none() && p.jh.is_finished() {
                        let (r, t) = (&mut p.jh).await.unwrap_or((Err("task panicked".into()), now_ms));
                        p.done = Some((classify(&r), t));
                    }
                }
                out.obs.push(o);
                // every op occupies exactly one 10 ms slot of virtual time (the model keeps the same clock)
                tokio::time::sleep_until(slot_end).await;
            }
            // O (C10): exactly one outcome per request, the right one, at the right time
            for (i, p) in pend.iter().enumerate() {
                let deadline = p.started_ms + 30000;
                let expect: (String, Option<u64>) = match (&first_event[i], session_dead_at) {
                    (Some((ev, t)), dead) if dead.map(|d| *t < d).unwrap_or(true) => (if ev == "fin" { "err-fin".to_string() } else { ev.clone() }, Some(*t)),
                    (_, Some(d)) if d < deadline => ("err-session".into(), Some(d)),
                    _ => ("err-timeout".into(), Some(deadline)),
                };
                match &p.done {
                    None => out.oracle.push(OracleFail { sig: "open_never_completed/create_proxy_stream".into(), detail: format!("request {i} still pending 30 s after everything else") }),
                    Some((r, t)) => {
                        let same_kind = r.split(' ').next() == expect.0.split(' ').next() && (r == &expect.0 || !r.starts_with("err-server"));
                        if !same_kind {
                            out.oracle.push(OracleFail { sig: format!("wrong_open_outcome/{}", expect.0.split(' ').next().unwrap_or("")), detail: format!("request {i}: got `{r}` at {t} ms, expected `{}` (first resolving event)", expect.0) });
                        } else if let Some(te) = expect.1 {
                            // promptness: within a few settle rounds of the resolving event
                            if *t > te + 12 {
                                out.oracle.push(OracleFail { sig: format!("open_outcome_late/{}", expect.0.split(' ').next().unwrap_or("")), detail: format!("request {i}: `{r}` delivered at {t} ms, the resolving event was at {te} ms") });
                            }
                        }
                    }
                }
                out.tags.push(format!("outcome/{}", p.done.as_ref().map(|d| d.0.split(' ').next().unwrap_or("").to_string()).unwrap_or("pending".into())));
            }
            if let Some(c) = client { c.stop_session_pool_cleanup().await; }
            for p in pend { p.jh.abort(); }
            if let Some(mut n) = node.take() { n.shutdown(); }
        });
        out.nontrivial = out.tags.len() > 0;
        out
    }
}
