//! A real `Session` on a scripted in-memory transport, driven one operation at a time under
//! a paused tokio clock (every operation runs to quiescence).
use crate::g_frame::{cmd_name, cmd_of_name, show_frame};
use crate::util::*;
use anytls_rs::padding::PaddingFactory;
use anytls_rs::protocol::{Command, Frame, FrameCodec};
use anytls_rs::session::{Session, SessionHeartbeatConfig, Stream};
use anytls_rs::util::AnyTlsError;
use bytes::{Bytes, BytesMut};
use std::collections::VecDeque;
use std::pin::Pin;
use std::sync::{Arc, Mutex};
use std::task::{Context, Poll, Waker};
use std::time::Duration;
use tokio::io::{AsyncRead, AsyncReadExt, AsyncWrite, ReadBuf};
use tokio::sync::oneshot;
use tokio_util::codec::Decoder;

#[derive(Default)]
pub struct WireState {
    pub writes: Vec<Vec<u8>>,
    pub budget: Option<usize>,
    pub shutdown: bool,
    pub flushes: usize,
    /// when set, a write never completes (transport stall)
    pub stall: bool,
    /// back-pressure: the transport has room for this many more bytes; once used up a write parks until the room is lifted
    pub room: Option<usize>,
    pub room_waker: Option<Waker>,
    /// back-pressure: accept at most this many bytes per `poll_write` call
    pub max_write: Option<usize>,
    /// back-pressure: every other `poll_write` returns Pending first
    pub pend_toggle: bool,
    pub pend_state: bool,
    /// virtual instant of every recorded write
    pub times: Vec<tokio::time::Instant>,
    /// woken on every write (scripted peers wait on it)
    pub notify: Option<Arc<tokio::sync::Notify>>,
    /// slow flush: a flush completes this long after it was first polled (the bytes are already visible to the peer)
    pub flush_delay: Option<std::time::Duration>,
    pub flush_ready_at: Option<tokio::time::Instant>,
    /// slow shutdown: a shutdown completes this long after it was first polled
    pub shutdown_delay: Option<std::time::Duration>,
    pub shutdown_ready_at: Option<tokio::time::Instant>,
}

pub struct RecWriter(pub Arc<Mutex<WireState>>);

impl AsyncWrite for RecWriter {
    fn poll_write(self: Pin<&mut Self>, cx: &mut Context<'_>, buf: &[u8]) -> Poll<std::io::Result<usize>> {
        let mut w = self.0.lock().unwrap();
        if w.stall {
            return Poll::Pending;
        }
        if w.pend_toggle {
            w.pend_state = !w.pend_state;
            if w.pend_state {
                cx.waker().wake_by_ref();
                return Poll::Pending;
            }
        }
        if w.shutdown {
            return Poll::Ready(Err(std::io::Error::new(std::io::ErrorKind::BrokenPipe, "transport shut down")));
        }
        if let Some(b) = w.budget {
            if b == 0 {
                return Poll::Ready(Err(std::io::Error::new(std::io::ErrorKind::Other, "injected write error")));
            }
            w.budget = Some(b - 1);
        }
        let n = match w.max_write { Some(m) if m > 0 => std::cmp::min(m, buf.len()), _ => buf.len() };
        let n = match w.room {
            Some(0) => { w.room_waker = Some(cx.waker().clone()); return Poll::Pending; }
            Some(r) => { let k = std::cmp::min(n, r); w.room = Some(r - k); k }
            None => n,
        };
        w.writes.push(buf[..n].to_vec());
        w.times.push(tokio::time::Instant::now());
        if let Some(nf) = w.notify.as_ref() { nf.notify_one(); }
        Poll::Ready(Ok(n))
    }
    fn poll_flush(self: Pin<&mut Self>, cx: &mut Context<'_>) -> Poll<std::io::Result<()>> {
        let mut w = self.0.lock().unwrap();
        if let Some(d) = w.flush_delay {
            let now = tokio::time::Instant::now();
            match w.flush_ready_at {
                None => {
                    let at = now + d;
                    w.flush_ready_at = Some(at);
                    let waker = cx.waker().clone();
                    tokio::spawn(async move { tokio::time::sleep_until(at).await; waker.wake(); });
                    return Poll::Pending;
                }
                Some(at) if now < at => {
                    let waker = cx.waker().clone();
                    tokio::spawn(async move { tokio::time::sleep_until(at).await; waker.wake(); });
                    return Poll::Pending;
                }
                Some(_) => { w.flush_ready_at = None; }
            }
        }
        w.flushes += 1;
        Poll::Ready(Ok(()))
    }
    fn poll_shutdown(self: Pin<&mut Self>, cx: &mut Context<'_>) -> Poll<std::io::Result<()>> {
        let mut w = self.0.lock().unwrap();
        if let Some(d) = w.shutdown_delay {
            let now = tokio::time::Instant::now();
            let at = *w.shutdown_ready_at.get_or_insert(now + d);
            if now < at {
                let waker = cx.waker().clone();
                tokio::spawn(async move { tokio::time::sleep_until(at).await; waker.wake(); });
                return Poll::Pending;
            }
        }
        w.shutdown = true;
        Poll::Ready(Ok(()))
    }
}

#[derive(Default)]
pub struct FeedState {
    pub chunks: VecDeque<Vec<u8>>,
    pub eof: bool,
    pub err: bool,
    pub waker: Option<Waker>,
    pub consumed: usize,
}

pub struct ScriptReader(pub Arc<Mutex<FeedState>>);

impl AsyncRead for ScriptReader {
    fn poll_read(self: Pin<&mut Self>, cx: &mut Context<'_>, buf: &mut ReadBuf<'_>) -> Poll<std::io::Result<()>> {
        let mut f = self.0.lock().unwrap();
        if let Some(mut c) = f.chunks.pop_front() {
            let n = std::cmp::min(c.len(), buf.remaining());
            buf.put_slice(&c[..n]);
            f.consumed += n;
            if n < c.len() {
                let rest = c.split_off(n);
                f.chunks.push_front(rest);
            }
            return Poll::Ready(Ok(()));
        }
        if f.err {
            f.err = false;
            f.eof = true;
            return Poll::Ready(Err(std::io::Error::new(std::io::ErrorKind::ConnectionReset, "injected read error")));
        }
        if f.eof {
            return Poll::Ready(Ok(()));
        }
        f.waker = Some(cx.waker().clone());
        Poll::Pending
    }
}

pub fn wake(feed: &Arc<Mutex<FeedState>>) {
    let w = feed.lock().unwrap().waker.take();
    if let Some(w) = w {
        w.wake();
    }
}

pub async fn settle() {
    // paused clock: the timer fires only once every task is idle
    tokio::time::sleep(Duration::from_millis(1)).await;
}

pub const WATCHDOG: Duration = Duration::from_secs(3600);

pub struct Handle {
    pub stream: Arc<Stream>,
    pub synack_rx: Option<oneshot::Receiver<anytls_rs::util::Result<()>>>,
    pub synack_seen: Option<String>,
}

pub struct Node {
    pub is_client: bool,
    pub session: Arc<Session>,
    pub wire: Arc<Mutex<WireState>>,
    pub feed: Arc<Mutex<FeedState>>,
    pub handles: Vec<Handle>,
    pub cb_rx: Option<tokio::sync::mpsc::UnboundedReceiver<Arc<Stream>>>,
    pub delivered: Vec<usize>,
    pub seen_writes: usize,
    pub dec_buf: BytesMut,
    pub tasks: Vec<tokio::task::JoinHandle<()>>,
    /// short-write mode: report the total of the new writes instead of the per-call lengths
    pub coalesce: bool,
}

pub fn install_draws(seed: u64) {
    let rng = Arc::new(Mutex::new(Rng(seed)));
    anytls_rs::verif::set_draw_controller(Some(Arc::new(move |min: i64, max: i64| {
        let r = rng.lock().unwrap().next();
        let span = (max - min + 1) as u64;
        Some(min + (r % span) as i64)
    })));
}

/// draws from a PRNG owned by the caller (several nodes in one case: each keeps its own sequence)
pub fn install_draws_shared(rng: Arc<Mutex<Rng>>) {
    anytls_rs::verif::set_draw_controller(Some(Arc::new(move |min: i64, max: i64| {
        let r = rng.lock().unwrap().next();
        let span = (max - min + 1) as u64;
        Some(min + (r % span) as i64)
    })));
}

pub fn sort_settings(data: &[u8]) -> Vec<u8> {
    let mut lines: Vec<&[u8]> = data.split(|b| *b == b'\n').collect();
    lines.sort();
    lines.join(&b'\n')
}

pub fn show_frame_canon(f: &Frame) -> String {
    if matches!(f.cmd, Command::Settings | Command::ServerSettings) {
        format!("{}:{}:{}", cmd_name(f.cmd), f.stream_id, hex_compact(&sort_settings(&f.data)))
    } else {
        show_frame(f)
    }
}

pub fn res_str(r: &anytls_rs::util::Result<()>) -> String {
    match r {
        Ok(()) => "ok".into(),
        Err(AnyTlsError::SessionClosed) => "err-closed".into(),
        Err(AnyTlsError::Io(_)) => "err-io".into(),
        Err(AnyTlsError::Protocol(_)) => "err-proto".into(),
        Err(AnyTlsError::AuthenticationFailed) => "err-auth".into(),
        Err(_) => "err-other".into(),
    }
}

impl Node {
    /// `role`: client|server.  Creates the session and starts it (client: `start_client`;
    /// server: receive loop and forwarding task spawned as `handle_connection` does).
    pub async fn new(role: &str, scheme: &[u8], with_cb: bool, extra: Vec<(String, String)>, hb: Option<(u64, u64)>) -> Result<(Node, String), String> {
        let factory = PaddingFactory::new(scheme)?;
        let wire = Arc::new(Mutex::new(WireState::default()));
        let feed = Arc::new(Mutex::new(FeedState::default()));
        let reader = ScriptReader(feed.clone());
        let writer = RecWriter(wire.clone());
        let is_client = role == "client";
        let mut cb_rx = None;
        let mut tasks = vec![];
        let session;
        let start_res;
        if is_client {
            let hbc = hb.map(|(i, t)| SessionHeartbeatConfig { interval: Duration::from_millis(i), timeout: Duration::from_millis(t) });
            session = Arc::new(Session::new_client(reader, writer, Arc::new(factory), hbc));
            let r = tokio::time::timeout(WATCHDOG, session.clone().start_client()).await;
            start_res = match r { Ok(r) => res_str(&r), Err(_) => "blocked".into() };
        } else {
            let mut s = Session::new_server(reader, writer, Arc::new(factory));
            if !extra.is_empty() {
                let mut m = anytls_rs::util::StringMap::new();
                for (k, v) in extra { m.insert(k, v); }
                s.set_server_settings(Some(m));
            }
            if with_cb {
                let (tx, rx) = tokio::sync::mpsc::unbounded_channel();
                s.set_stream_callback(tx);
                cb_rx = Some(rx);
            }
            session = Arc::new(s);
            let s1 = session.clone();
            tasks.push(tokio::spawn(async move { let _ = s1.recv_loop().await; }));
            let s2 = session.clone();
            tasks.push(tokio::spawn(async move { let _ = s2.process_stream_data().await; }));
            start_res = "ok".into();
        }
        let mut n = Node { is_client, session, wire, feed, handles: vec![], cb_rx, delivered: vec![], seen_writes: 0, dec_buf: BytesMut::new(), tasks, coalesce: false };
        settle().await;
        let d = n.delta().await;
        Ok((n, format!("{start_res}{d}")))
    }

    /// a client session with a given factory (what `Client::create_new_session` does after the dial)
    pub async fn client_with(factory: Arc<PaddingFactory>) -> (Node, String) {
        let wire = Arc::new(Mutex::new(WireState::default()));
        let feed = Arc::new(Mutex::new(FeedState::default()));
        let session = Arc::new(Session::new_client(ScriptReader(feed.clone()), RecWriter(wire.clone()), factory, None));
        let r = tokio::time::timeout(WATCHDOG, session.clone().start_client()).await;
        let start_res = match r { Ok(r) => res_str(&r), Err(_) => "blocked".into() };
        let mut n = Node { is_client: true, session, wire, feed, handles: vec![], cb_rx: None, delivered: vec![], seen_writes: 0, dec_buf: BytesMut::new(), tasks: vec![], coalesce: false };
        settle().await;
        let d = n.delta().await;
        (n, format!("{start_res}{d}"))
    }

    /// a server session on an existing scripted transport (the reader may already have been
    /// partly consumed, as after `authenticate_client` in `handle_connection`)
    pub async fn server_on(reader: ScriptReader, feed: Arc<Mutex<FeedState>>, scheme: &[u8]) -> Node {
        let factory = PaddingFactory::new(scheme).unwrap();
        let wire = Arc::new(Mutex::new(WireState::default()));
        let writer = RecWriter(wire.clone());
        let mut s = Session::new_server(reader, writer, Arc::new(factory));
        let (tx, rx) = tokio::sync::mpsc::unbounded_channel();
        s.set_stream_callback(tx);
        let session = Arc::new(s);
        let mut tasks = vec![];
        let s1 = session.clone();
        tasks.push(tokio::spawn(async move { let _ = s1.recv_loop().await; }));
        let s2 = session.clone();
        tasks.push(tokio::spawn(async move { let _ = s2.process_stream_data().await; }));
        let mut n = Node { is_client: false, session, wire, feed, handles: vec![], cb_rx: Some(rx), delivered: vec![], seen_writes: 0, dec_buf: BytesMut::new(), tasks, coalesce: false };
        settle().await;
        n.delta().await;
        n
    }

    /// new `write` calls since the last observation, decoded
    pub async fn delta(&mut self) -> String {
        // collect streams delivered to the callback
        if let Some(rx) = self.cb_rx.as_mut() {
            while let Ok(s) = rx.try_recv() {
                self.handles.push(Handle { stream: s, synack_rx: None, synack_seen: None });
                self.delivered.push(self.handles.len() - 1);
            }
        }
        let (lens, frames, shut) = {
            let w = self.wire.lock().unwrap();
            let new = &w.writes[self.seen_writes..];
            let mut lens: Vec<String> = new.iter().map(|x| x.len().to_string()).collect();
            if self.coalesce {
                let total: usize = new.iter().map(|x| x.len()).sum();
                lens = if total > 0 { vec![total.to_string()] } else { vec![] };
            }
            for x in new { self.dec_buf.extend_from_slice(x); }
            self.seen_writes = w.writes.len();
            let mut frames = vec![];
            while let Ok(Some(f)) = FrameCodec.decode(&mut self.dec_buf) { frames.push(show_frame_canon(&f)); }
            (lens, frames, w.shutdown)
        };
        format!(" | w=[{}] f=[{}] rest={} shut={}", lens.join(","), frames.join(","), self.dec_buf.len(), shut as u8)
    }

    pub async fn op(&mut self, toks: &[&str]) -> String {
        let r = tokio::time::timeout(WATCHDOG, self.op_inner(toks)).await;
        let head = match r { Ok(s) => s, Err(_) => "blocked".to_string() };
        if head == "bad-op" { return head; }
        settle().await;
        let d = self.delta().await;
        format!("{head}{d}")
    }

    async fn op_inner(&mut self, toks: &[&str]) -> String {
        match toks {
            ["open"] => match self.session.open_stream().await {
                Ok((stream, rx)) => {
                    let sid = stream.id();
                    self.handles.push(Handle { stream, synack_rx: Some(rx), synack_seen: None });
                    format!("ok h={} sid={}", self.handles.len() - 1, sid)
                }
                Err(e) => {
                    // the stream object may have been registered before the write failed: not observable here
                    res_str(&Err(e))
                }
            },
            ["nobuf"] => { self.session.disable_buffering(); "ok".into() }
            ["write", sid, hx] => {
                let (Ok(sid), Some(d)) = (sid.parse::<u32>(), unhex(hx)) else { return "bad-op".into() };
                res_str(&self.session.write_data_frame(sid, Bytes::from(d)).await)
            }
            ["ctl", c, sid, hx] => {
                let (Some(cmd), Ok(sid), Some(d)) = (cmd_of_name(c), sid.parse::<u32>(), unhex(hx)) else { return "bad-op".into() };
                res_str(&self.session.write_control_frame(Frame::with_data(cmd, sid, Bytes::from(d))).await)
            }
            ["send", h, hx] => {
                let (Ok(h), Some(d)) = (h.parse::<usize>(), unhex(hx)) else { return "bad-op".into() };
                let Some(hd) = self.handles.get(h) else { return "nohandle".into() };
                match hd.stream.send_data(Bytes::from(d)) { Ok(()) => "ok".into(), Err(_) => "err-chan".into() }
            }
            ["sendmany", h, hxs @ ..] => {
                // several chunks submitted back to back, before the forwarding task gets to run
                let Ok(h) = h.parse::<usize>() else { return "bad-op".into() };
                let Some(ds) = hxs.iter().map(|x| unhex(x)).collect::<Option<Vec<Vec<u8>>>>() else { return "bad-op".into() };
                let Some(hd) = self.handles.get(h) else { return "nohandle".into() };
                for d in ds { if hd.stream.send_data(Bytes::from(d)).is_err() { return "err-chan".into(); } }
                "ok".into()
            }
            ["feed", hx] => {
                let Some(d) = unhex(hx) else { return "bad-op".into() };
                if !d.is_empty() { self.feed.lock().unwrap().chunks.push_back(d); }
                wake(&self.feed);
                "ok".into()
            }
            ["eof"] => { self.feed.lock().unwrap().eof = true; wake(&self.feed); "ok".into() }
            ["rderr"] => { self.feed.lock().unwrap().err = true; wake(&self.feed); "ok".into() }
            ["room", k] => {
                // the peer stops reading: the transport takes k more bytes, then writes park (`room none` = it reads again)
                let mut w = self.wire.lock().unwrap();
                w.room = if *k == "none" { None } else { match k.parse() { Ok(v) => Some(v), Err(_) => return "bad-op".into() } };
                if w.room.is_none() { if let Some(wk) = w.room_waker.take() { wk.wake(); } }
                "ok".into()
            }
            ["tick", ms] => {
                let Ok(ms) = ms.parse::<u64>() else { return "bad-op".into() };
                tokio::time::sleep(Duration::from_millis(ms)).await;
                "ok".into()
            }
            ["budget", n] => {
                self.wire.lock().unwrap().budget = if *n == "none" { None } else { match n.parse() { Ok(v) => Some(v), Err(_) => return "bad-op".into() } };
                "ok".into()
            }
            ["read", h, n] => {
                let (Ok(h), Ok(n)) = (h.parse::<usize>(), n.parse::<usize>()) else { return "bad-op".into() };
                let Some(hd) = self.handles.get(h) else { return "nohandle".into() };
                let reader = hd.stream.reader().clone();
                let fut = async move {
                    let mut g = reader.lock().await;
                    let mut buf = vec![0u8; n];
                    let r = g.read(&mut buf).await;
                    (r, buf, g.is_eof())
                };
                match tokio::time::timeout(Duration::from_millis(1), fut).await {
                    Err(_) => "block".into(),
                    Ok((Ok(k), buf, eof)) => if k == 0 && eof { "eof".into() } else { format!("data {}", hex_compact(&buf[..k])) },
                    Ok((Err(_), _, _)) => "err".into(),
                }
            }
            ["readx", h, n] => {
                let (Ok(h), Ok(n)) = (h.parse::<usize>(), n.parse::<usize>()) else { return "bad-op".into() };
                let Some(hd) = self.handles.get(h) else { return "nohandle".into() };
                let reader = hd.stream.reader().clone();
                let fut = async move {
                    let mut g = reader.lock().await;
                    let mut buf = vec![0u8; n];
                    let r = g.read_exact(&mut buf).await;
                    (r, buf)
                };
                match tokio::time::timeout(Duration::from_millis(1), fut).await {
                    Err(_) => "block".into(),
                    Ok((Ok(()), buf)) => format!("ok {}", hex_compact(&buf)),
                    Ok((Err(_), _)) => "err-eof".into(),
                }
            }
            ["shortw", k] => {
                let Ok(k) = k.parse::<usize>() else { return "bad-op".into() };
                let mut w = self.wire.lock().unwrap();
                w.max_write = if k == 0 { None } else { Some(k) };
                w.pend_toggle = k % 2 == 1;
                self.coalesce = k > 0;
                "ok".into()
            }
            ["close"] => res_str(&self.session.close().await),
            ["state"] => {
                let (a, b) = self.session.verif_table_keys().await;
                let (bf, bl) = self.session.verif_buffer_state().await;
                let fmt = |v: &Vec<u32>| v.iter().map(|x| x.to_string()).collect::<Vec<_>>().join(",");
                // delivered handles are collected in delta(); report the ones known so far plus pending ones
                if let Some(rx) = self.cb_rx.as_mut() {
                    while let Ok(s) = rx.try_recv() {
                        self.handles.push(Handle { stream: s, synack_rx: None, synack_seen: None });
                        self.delivered.push(self.handles.len() - 1);
                    }
                }
                format!("closed={} streams=[{}] recv=[{}] pv={} pkt={} buf={},{} cb=[{}]",
                    self.session.is_closed() as u8, fmt(&a), fmt(&b), self.session.peer_version(), self.session.verif_pkt_counter(),
                    bf as u8, bl, self.delivered.iter().map(|x| x.to_string()).collect::<Vec<_>>().join(","))
            }
            ["obj", h] => {
                let Ok(h) = h.parse::<usize>() else { return "bad-op".into() };
                let Some(hd) = self.handles.get_mut(h) else { return "nohandle".into() };
                if hd.synack_seen.is_none() {
                    if let Some(rx) = hd.synack_rx.as_mut() {
                        match rx.try_recv() {
                            Ok(Ok(())) => hd.synack_seen = Some("ok".into()),
                            Ok(Err(e)) => hd.synack_seen = Some(format!("err {}", hex(e.to_string().as_bytes()))),
                            Err(oneshot::error::TryRecvError::Empty) => {}
                            Err(oneshot::error::TryRecvError::Closed) => hd.synack_seen = Some("dropped".into()),
                        }
                    }
                }
                let sy = match (&hd.synack_seen, &hd.synack_rx) { (Some(s), _) => s.clone(), (None, Some(_)) => "pending".into(), (None, None) => "none".into() };
                format!("sid={} closed={} synack={}", hd.stream.id(), hd.stream.is_closed() as u8, sy)
            }
            _ => "bad-op".into(),
        }
    }

    pub fn take_new_wire_bytes(&self, from_write: usize) -> Vec<u8> {
        let w = self.wire.lock().unwrap();
        w.writes[from_write..].concat()
    }

    pub fn shutdown(&mut self) {
        for t in self.tasks.drain(..) { t.abort(); }
    }
}

pub fn runtime() -> tokio::runtime::Runtime {
    tokio::runtime::Builder::new_current_thread().enable_all().start_paused(true).build().unwrap()
}

#[allow(dead_code)]
pub async fn read_all_available(stream: &Arc<Stream>) -> (Vec<u8>, bool) {
    // drain everything currently readable; returns (bytes, saw_eof)
    let mut out = vec![];
    loop {
        let reader = stream.reader().clone();
        let fut = async move {
            let mut g = reader.lock().await;
            let mut buf = vec![0u8; 70000];
            let r = g.read(&mut buf).await;
            (r, buf, g.is_eof())
        };
        match tokio::time::timeout(Duration::from_millis(1), fut).await {
            Err(_) => return (out, false),
            Ok((Ok(0), _, eof)) => { if eof { return (out, true); } else { return (out, false); } }
            Ok((Ok(k), buf, _)) => out.extend_from_slice(&buf[..k]),
            Ok((Err(_), _, _)) => return (out, true),
        }
    }
}

#[allow(dead_code)]
pub async fn aread(stream: &mut (impl AsyncRead + Unpin), n: usize) -> Option<std::io::Result<Vec<u8>>> {
    let mut buf = vec![0u8; n];
    match tokio::time::timeout(Duration::from_millis(1), stream.read(&mut buf)).await {
        Err(_) => None,
        Ok(Ok(k)) => { buf.truncate(k); Some(Ok(buf)) }
        Ok(Err(e)) => Some(Err(e)),
    }
}
