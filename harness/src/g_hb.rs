//! group `hb` (C14): a real client session with the liveness monitor against a scripted peer that
//! answers the k-th HeartRequest after delay d_k and falls silent from a chosen request on.
//! Virtual time; interval/timeout multiples of 10 ms, delays ≡ 3 (mod 10) so that no response ties
//! with a tick or a deadline.
use crate::g_frame::ref_encode;
use crate::node::*;
use crate::util::*;
use crate::Group;
use std::sync::{Arc, Mutex};
use std::time::Duration;

pub struct HbGroup;

impl Group for HbGroup {
    fn default_cases(&self, tier: &str) -> u64 { if tier == "thorough" { 5_000 } else { 400 } }

    fn fixed(&self, _tier: &str) -> Vec<Case> {
        let mut v = vec![];
        // the full grid of (interval, timeout) pairs x steady delays x silence points
        for i in [1000u64, 2000, 3000, 5000, 10000] {
            for t in [1000u64, 2000, 3000, 5000, 10000, 20000] {
                for d in [3u64, t / 4 + 3, t / 2 + 3, t - 7] {
                    for silent in ["never", "0", "1", "5"] {
                        v.push(Case { lines: vec![format!("hb run {i} {t} {silent} {} {d}", 12 * i.max(t))] });
                    }
                }
            }
        }
        // regression witnesses (DESIGN §6 D13): timeout < interval; jitter below the timeout with timeout >= interval
        v.push(Case { lines: vec!["hb run 10000 3000 never 60000 3".into()] });
        v.push(Case { lines: vec!["hb run 2000 3000 never 30000 3 2903 3".into()] });
        // the answer arrives before the request's write call has returned (slow flush), timeout < = > interval
        for (i, t) in [(10000u64, 3000u64), (1000, 1000), (2000, 5000), (50, 10), (100, 30)] {
            for f in [5u64, 7] { v.push(Case { lines: vec![format!("hb runf {f} {i} {t} never {} 3", 8 * i.max(t))] }); v.push(Case { lines: vec![format!("hb runf {f} {i} {t} 3 {} 3 13", 10 * i.max(t))] }); }
        }
        v
    }

    fn generate(&self, rng: &mut Rng, _tier: &str, _idx: u64) -> Case {
        let i = *rng.pick(&[10u64, 50, 100, 200, 1000, 2000, 5000]);
        let t = *rng.pick(&[10u64, 30, 50, 100, 300, 1000, 3000, 10000]);
        let nd = rng.range(1, 8);
        // per-message delays below the timeout (healthy) — or beyond it for a few (late answers)
        let delays: Vec<u64> = (0..nd).map(|_| { let m = if rng.chance(1, 8) { t + 10 * rng.below(5) } else { 10 * rng.below(t / 10) }; m + 3 }).collect();
        let silent = match rng.below(4) { 0 => "never".to_string(), _ => rng.below(9).to_string() };
        let horizon = (rng.range(3, 14)) * i.max(t);
        // slow flush: while the monitor is inside a write it cannot act on a deadline; if a deadline coincides with a tick
        // (timeout a multiple of the interval) tokio's select! picks the ready branch at random and the outcome of a late
        // answer landing inside that write differs between the two orders - a tie the deterministic model cannot predict,
        // and nothing the property speaks about: such pairs run without the slow flush
        let head = if t % i != 0 && rng.chance(1, 3) { format!("hb runf {}", rng.pick(&[5u64, 7])) } else { "hb run".to_string() };
        Case { lines: vec![format!("{head} {i} {t} {silent} {horizon} {}", delays.iter().map(|d| d.to_string()).collect::<Vec<_>>().join(" "))] }
    }

    fn exec(&self, case: &Case) -> Outcome {
        let rt = runtime();
        let mut out = Outcome::default();
        rt.block_on(async {
            for line in &case.lines {
                let toks: Vec<&str> = line.split_whitespace().collect();
                // `hb runf <F> ...`: as `hb run ...` on a transport whose flush completes F ms late (the peer already has the bytes)
                let (flush, toks): (Option<u64>, Vec<&str>) = if toks.len() > 2 && toks[1] == "runf" { (toks[2].parse().ok(), [&["hb", "run"][..], &toks[3..]].concat()) } else { (None, toks) };
                let ["hb", "run", i, t, silent, horizon, delays @ ..] = toks.as_slice() else { out.obs.push("bad-op".into()); continue; };
                let (Ok(i), Ok(t), Ok(horizon)) = (i.parse::<u64>(), t.parse::<u64>(), horizon.parse::<u64>()) else { out.obs.push("bad-op".into()); continue; };
                let silent_from: Option<usize> = if *silent == "never" { None } else { silent.parse().ok() };
                let delays: Vec<u64> = delays.iter().filter_map(|d| d.parse().ok()).collect();
                if delays.is_empty() { out.obs.push("bad-op".into()); continue; }
                let t0 = tokio::time::Instant::now();
                let (mut node, _) = Node::new("client", b"stop=0", false, vec![], Some((i, t))).await.unwrap();
                // what the real client does right after creating a session: open a stream, stop buffering, write
                // (the session's first frames, including an early HeartRequest, are flushed by that write)
                node.session.disable_buffering();
                let _ = node.session.write_control_frame(anytls_rs::protocol::Frame::control(anytls_rs::protocol::Command::Waste, 0)).await;
                let notify = Arc::new(tokio::sync::Notify::new());
                node.wire.lock().unwrap().notify = Some(notify.clone());
                node.wire.lock().unwrap().flush_delay = flush.map(Duration::from_millis);
                // scripted peer
                let wire = node.wire.clone();
                let feed = node.feed.clone();
                let answered_at = Arc::new(Mutex::new(Vec::<u64>::new()));
                let aa = answered_at.clone();
                let d2 = delays.clone();
                let peer = tokio::spawn(async move {
                    let mut seen_writes = 0usize;
                    let mut buf: Vec<u8> = vec![];
                    let mut k = 0usize;
                    loop {
                        // requests written so far (the first ones may precede this task's first poll)
                        let new: Vec<(Vec<u8>, tokio::time::Instant)> = { let w = wire.lock().unwrap(); (seen_writes..w.writes.len()).map(|j| (w.writes[j].clone(), w.times[j])).collect() };
                        seen_writes += new.len();
                        for (bytes, at) in new {
                            buf.extend_from_slice(&bytes);
                            loop {
                                let (frames, rest) = crate::g_frame::ref_parse(&buf);
                                if frames.is_empty() { break; }
                                let consumed = buf.len() - rest.len();
                                for (c, sid, _) in &frames {
                                    if *c == 8 {
                                        let idx = k; k += 1;
                                        if silent_from.map(|s| idx >= s).unwrap_or(false) { continue; }
                                        let d = d2[std::cmp::min(idx, d2.len() - 1)];
                                        let (f2, a2, sid) = (feed.clone(), aa.clone(), *sid);
                                        tokio::spawn(async move {
                                            tokio::time::sleep_until(at + Duration::from_millis(d)).await;
                                            f2.lock().unwrap().chunks.push_back(ref_encode(9, sid, &[]));
                                            a2.lock().unwrap().push((tokio::time::Instant::now() - t0).as_millis() as u64);
                                            wake(&f2);
                                        });
                                    }
                                }
                                buf.drain(..consumed);
                            }
                        }
                        notify.notified().await;
                    }
                });
                // run until the session closes or the horizon
                let mut closed_at: Option<u64> = None;
                // every event of a case lies on the 10 ms grid (+3 answers, +5/+7 slow flushes): looking once per slot,
                // at its 9th millisecond, observes the slot in which the session was closed
                loop {
                    if node.session.is_closed() { closed_at = Some((tokio::time::Instant::now() - t0).as_millis() as u64); break; }
                    let now = tokio::time::Instant::now();
                    let el = (now - t0).as_millis() as u64;
                    // the horizon is exclusive: the last look is at horizon - 1 (events AT the horizon are not part of the case)
                    if el + 1 >= horizon { break; }
                    let next = if el % 10 < 9 { el - el % 10 + 9 } else { el + 10 };
                    tokio::time::sleep_until(t0 + Duration::from_millis(next.min(horizon - 1))).await;
                }
                peer.abort();
                let answers = answered_at.lock().unwrap().clone();
                // O (C14)
                let healthy = silent_from.is_none() && delays.iter().all(|d| *d < t);
                if healthy {
                    if let Some(c) = closed_at {
                        out.oracle.push(OracleFail { sig: "healthy_session_closed/liveness_monitor".into(), detail: format!("interval {i} ms, timeout {t} ms, every answer after {:?} ms (< timeout): closed at {c} ms", delays) });
                    }
                } else if let Some(sf) = silent_from {
                    if delays.iter().all(|d| *d < t) {
                        // the peer's last answer (or the session start, if it never answered) + timeout + interval
                        let last = answers.iter().copied().max().unwrap_or(0);
                        let bound = last + t + i + 2 + flush.unwrap_or(0);
                        match closed_at {
                            Some(c) if c / 10 * 10 <= bound => {}
                            Some(c) => out.oracle.push(OracleFail { sig: "dead_session_closed_late/liveness_monitor".into(), detail: format!("interval {i}, timeout {t}, silent from request {sf}: last answer at {last} ms, closed at {c} ms > {bound}") }),
                            None => if horizon > bound { out.oracle.push(OracleFail { sig: "dead_session_not_closed/liveness_monitor".into(), detail: format!("interval {i}, timeout {t}, silent from request {sf}: last answer at {last} ms, still open at {horizon} ms") }) },
                        }
                    }
                }
                if flush.is_some() { out.tags.push("slow_flush".into()); }
                out.tags.push(format!("{}{}", if healthy { "healthy" } else { "unhealthy" }, if t < i { "/T<I" } else if t == i { "/T=I" } else { "/T>I" }));
                // closing instants are multiples of 10 ms (interval, timeout are); the 1 ms sampling observes them up to 1 ms late
                out.obs.push(format!("closed_at={}", closed_at.map(|c| (c / 10 * 10).to_string()).unwrap_or("never".into())));
                node.shutdown();
            }
        });
        out.nontrivial = true;
        out
    }
}
