#!/bin/sh
# build the framework from files on disk only (offline)
set -e
cd "$(dirname "$0")"
export CARGO_NET_OFFLINE=true
python3 tools/extract.py
(cd lean && lake build AnyTLS driver)
(cd harness && cargo build --release --offline)
