/- Line-protocol driver over the executable model (same definitions the theorems are about). -/
import AnyTLS.Drv.Util
import AnyTLS.Drv.Frame
import AnyTLS.Drv.Sess
import AnyTLS.Drv.Pipe
import AnyTLS.Drv.Dest
import AnyTLS.Drv.Push
import AnyTLS.Drv.Open
import AnyTLS.Drv.Pool
import AnyTLS.Drv.Hb
import AnyTLS.Drv.Socks
import AnyTLS.Drv.Http
import AnyTLS.Drv.Cert
import AnyTLS.Drv.Sched

open AnyTLS.Drv

structure DrvState where
  sess : Option MNode := none
  /-- after a `room` op (a transport with partial back-pressure) the rest of the case is oracle-only -/
  sessSkip : Bool := false
  pipe : Option MPipe := none
  dns : AnyTLS.DnsCache := []
  proc : Option MProc := none
  opn : Option MOpen := none
  pool : Option MPool := none
  cert : Option MCert := none
  hxV : Option MNode := none
  hxW : Option MNode := none
  sched : Option MSched := none

def sessLine (st : DrvState) (toks : List String) : DrvState × String :=
  match toks with
  | "reset" :: rest =>
    match nodeReset rest with
    | some (n, o) => ({ st with sess := some n, sessSkip := false }, o)
    | none => ({ st with sess := none, sessSkip := false }, "reject")
  | "room" :: _ => ({ st with sessSkip := true }, "skip")
  | _ =>
    if st.sessSkip then (st, "skip") else
    match st.sess with
    | none => (st, "nonode")
    | some n =>
      match nodeOp n toks with
      | some (n', o) => ({ st with sess := some n' }, o)
      | none => (st, "bad-op")

def pipeLine (st : DrvState) (toks : List String) : DrvState × String :=
  match toks with
  | "reset" :: rest =>
    match pipeReset rest with
    | some (p, o) => ({ st with pipe := some p }, o)
    | none => ({ st with pipe := none }, "reject")
  | _ =>
    match st.pipe with
    | none => (st, "nonode")
    | some p =>
      match pipeOp p toks with
      | some (p', o) => ({ st with pipe := some p' }, o)
      | none => (st, "bad-op")

def pushLine (st : DrvState) (toks : List String) : DrvState × String :=
  match toks with
  | ["begin"] =>
    match procBegin with
    | some p => ({ st with proc := some p }, "ok")
    | none => (st, "bad-op")
  | ["proc", cfg, _used] =>
    match procFresh cfg with
    | some p => ({ st with proc := some p }, "ok")
    | none => ({ st with proc := none }, "reject")
  | _ =>
    match st.proc with
    | none => (st, "nonode")
    | some p =>
      match pushOp p toks with
      | some (p', o) => ({ st with proc := some p' }, o)
      | none => (st, "bad-op")

def openLine (st : DrvState) (toks : List String) : DrvState × String :=
  match toks with
  | ["reset"] =>
    match openReset with
    | some m => ({ st with opn := some m }, "ok")
    | none => (st, "bad-op")
  | _ =>
    match st.opn with
    | none => (st, "nonode")
    | some m =>
      match openOp m toks with
      | some (m', o) => ({ st with opn := some m' }, o)
      | none => (st, "bad-op")

def poolLine (st : DrvState) (toks : List String) : DrvState × String :=
  match toks with
  | "reset" :: rest =>
    match poolReset rest with
    | some (m, o) => ({ st with pool := some m }, o)
    | none => (st, "bad-op")
  | _ =>
    match st.pool with
    | none => (st, "nonode")
    | some m =>
      match poolOp m toks with
      | some (m', o) => ({ st with pool := some m' }, o)
      | none => (st, "bad-op")

/-- e2e scenarios: only those the models predict are answered; the rest is oracle-only -/
def e2eLine (toks : List String) : String :=
  match toks with
  | ["reuse", n] => match n.toNat? with | some n => reuseOp n | none => "bad-op"
  | _ => "skip"

/-- two independent nodes `v` (victim) and `w` (sibling) driven with the `sess` ops -/
def hxLine (st : DrvState) (toks : List String) : DrvState × String :=
  match toks with
  | which :: "reset" :: rest =>
    match nodeReset rest with
    | some (n, o) => (if which == "v" then { st with hxV := some n } else { st with hxW := some n }, o)
    | none => (if which == "v" then { st with hxV := none } else { st with hxW := none }, "reject")
  | which :: rest =>
    match (if which == "v" then st.hxV else st.hxW) with
    | none => (st, "nonode")
    | some n =>
      match nodeOp n rest with
      | some (n', o) => (if which == "v" then { st with hxV := some n' } else { st with hxW := some n' }, o)
      | none => (st, "bad-op")
  | _ => (st, "bad-op")

def dispatch (st : DrvState) (line : String) : DrvState × String :=
  match tokens line with
  | "frame" :: rest => (st, frameOp rest)
  | "sess" :: rest => sessLine st rest
  | "auth" :: rest => (st, authOp rest)
  | "push" :: rest => pushLine st rest
  | "open" :: rest => openLine st rest
  | "pool" :: rest => poolLine st rest
  | "hb" :: rest => (st, hbOp rest)
  | "socks" :: rest => (st, socksOp rest)
  | "http" :: rest => (st, httpOp rest)
  | "hx" :: rest => hxLine st rest
  | "cert" :: rest => let (m, o) := certOp st.cert rest; ({ st with cert := m }, o)
  | "sched" :: rest => let (m, o) := schedOp st.sched rest; ({ st with sched := m }, o)
  | "e2e" :: rest => (st, e2eLine rest)
  | "dest" :: rest => (st, destOp rest)
  | "dns" :: rest => let (c, o) := dnsOp st.dns rest; ({ st with dns := c }, o)
  | "pad" :: "preamble" :: rest => (st, preambleOp rest)
  | "pad" :: rest => sessLine st rest
  | "pipe" :: rest => pipeLine st rest
  | _ => (st, "bad-op")

partial def loop (h : IO.FS.Stream) (out : IO.FS.Stream) (st : DrvState) : IO Unit := do
  let line ← h.getLine
  if line.isEmpty then return ()
  let l := line.trimAscii.toString
  if l.isEmpty || l.startsWith "#" then loop h out st else
  let (st', o) := dispatch st l
  out.putStrLn (l ++ " => " ++ o)
  loop h out st'

def main : IO Unit := do
  let stdin ← IO.getStdin
  let stdout ← IO.getStdout
  loop stdin stdout {}
  stdout.flush
