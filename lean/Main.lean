/- Line-protocol driver over the executable model (same definitions the theorems are about). -/
import AnyTLS.Drv.Util
import AnyTLS.Drv.Frame

open AnyTLS.Drv

def dispatch (line : String) : String :=
  match tokens line with
  | "frame" :: rest => frameOp rest
  | _ => "bad-op"

partial def loop (h : IO.FS.Stream) (out : IO.FS.Stream) : IO Unit := do
  let line ← h.getLine
  if line.isEmpty then return ()
  let l := line.trimAscii.toString
  if l.isEmpty || l.startsWith "#" then loop h out else
  out.putStrLn (l ++ " => " ++ dispatch l)
  loop h out

def main : IO Unit := do
  let stdin ← IO.getStdin
  let stdout ← IO.getStdout
  loop stdin stdout
  stdout.flush
