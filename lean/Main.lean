/- Line-protocol driver over the executable model (same definitions the theorems are about). -/
import AnyTLS.Drv.Util
import AnyTLS.Drv.Frame
import AnyTLS.Drv.Sess
import AnyTLS.Drv.Pipe
import AnyTLS.Drv.Dest
import AnyTLS.Drv.Push

open AnyTLS.Drv

structure DrvState where
  sess : Option MNode := none
  pipe : Option MPipe := none
  dns : AnyTLS.DnsCache := []
  proc : Option MProc := none

def sessLine (st : DrvState) (toks : List String) : DrvState × String :=
  match toks with
  | "reset" :: rest =>
    match nodeReset rest with
    | some (n, o) => ({ st with sess := some n }, o)
    | none => ({ st with sess := none }, "reject")
  | _ =>
    match st.sess with
    | none => (st, "nonode")
    | some n =>
      match nodeOp n toks with
      | some (n', o) => ({ st with sess := some n' }, o)
      | none => (st, "bad-op")

def pipeLine (st : DrvState) (toks : List String) : DrvState × String :=
  match toks with
  | "reset" :: rest =>
    match pipeReset rest with
    | some (p, o) => ({ st with pipe := some p }, o)
    | none => ({ st with pipe := none }, "reject")
  | _ =>
    match st.pipe with
    | none => (st, "nonode")
    | some p =>
      match pipeOp p toks with
      | some (p', o) => ({ st with pipe := some p' }, o)
      | none => (st, "bad-op")

def pushLine (st : DrvState) (toks : List String) : DrvState × String :=
  match toks with
  | ["begin"] =>
    match procBegin with
    | some p => ({ st with proc := some p }, "ok")
    | none => (st, "bad-op")
  | _ =>
    match st.proc with
    | none => (st, "nonode")
    | some p =>
      match pushOp p toks with
      | some (p', o) => ({ st with proc := some p' }, o)
      | none => (st, "bad-op")

def dispatch (st : DrvState) (line : String) : DrvState × String :=
  match tokens line with
  | "frame" :: rest => (st, frameOp rest)
  | "sess" :: rest => sessLine st rest
  | "auth" :: rest => (st, authOp rest)
  | "push" :: rest => pushLine st rest
  | "dest" :: rest => (st, destOp rest)
  | "dns" :: rest => let (c, o) := dnsOp st.dns rest; ({ st with dns := c }, o)
  | "pad" :: "preamble" :: rest => (st, preambleOp rest)
  | "pad" :: rest => sessLine st rest
  | "pipe" :: rest => pipeLine st rest
  | _ => (st, "bad-op")

partial def loop (h : IO.FS.Stream) (out : IO.FS.Stream) (st : DrvState) : IO Unit := do
  let line ← h.getLine
  if line.isEmpty then return ()
  let l := line.trimAscii.toString
  if l.isEmpty || l.startsWith "#" then loop h out st else
  let (st', o) := dispatch st l
  out.putStrLn (l ++ " => " ++ o)
  loop h out st'

def main : IO Unit := do
  let stdin ← IO.getStdin
  let stdout ← IO.getStdout
  loop stdin stdout {}
  stdout.flush
