import AnyTLS.Gen
import AnyTLS.Model.Bytes
import AnyTLS.Model.Frame
