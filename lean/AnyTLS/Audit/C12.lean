import AnyTLS.Props.C12
#print axioms AnyTLS.C12.get_not_closed
#print axioms AnyTLS.C12.cleanup_purges
#print axioms AnyTLS.C12.reaper_closes_only_expired
#print axioms AnyTLS.C12.cleanup_min
#print axioms AnyTLS.C12.cleanup_surplus
#print axioms AnyTLS.C12.reaper_spares_busy_refuted
