import AnyTLS.Props.C09
#print axioms AnyTLS.C09.drain_releases
#print axioms AnyTLS.C09.drain_needs_no_lock
#print axioms AnyTLS.C09.drain_closes_readers
#print axioms AnyTLS.C09.closeInv_micro
#print axioms AnyTLS.C09.inv9_init
#print axioms AnyTLS.C09.inv9_step
#print axioms AnyTLS.C09.inv9_reach
#print axioms AnyTLS.C09.closed_forever
#print axioms AnyTLS.C09.closed_then_shut
#print axioms AnyTLS.C09.no_deadlock
#print axioms AnyTLS.C09.later_open_fails
#print axioms AnyTLS.C09.later_write_fails
#print axioms AnyTLS.C09.failed_write_closes
#print axioms AnyTLS.C09.every_schedule_is_bounded
#print axioms AnyTLS.C09.stuck_means_finished
#print axioms AnyTLS.C09.close_sets_closed
#print axioms AnyTLS.C09.end_of_input_closes
