import AnyTLS.Props.C18
#print axioms AnyTLS.C18.failed_reload_noop
#print axioms AnyTLS.C18.reload_ok_iff
#print axioms AnyTLS.C18.ok_reload_swaps
#print axioms AnyTLS.C18.active_always_validated
#print axioms AnyTLS.C18.accepted_undisturbed
#print axioms AnyTLS.C18.pinned_info_not_active
#print axioms AnyTLS.C18.listen_reads_after_accept
#print axioms AnyTLS.C18.listener_is_model
#print axioms AnyTLS.C18.first_handshake_after_reload
#print axioms AnyTLS.C18.read_before_accept_serves_stale
