import AnyTLS.Props.C18
#print axioms AnyTLS.C18.failed_reload_noop
#print axioms AnyTLS.C18.reload_ok_iff
#print axioms AnyTLS.C18.ok_reload_swaps
#print axioms AnyTLS.C18.active_always_validated
#print axioms AnyTLS.C18.accepted_undisturbed
#print axioms AnyTLS.C18.pinned_info_not_active
