import AnyTLS.Props.C04
#print axioms AnyTLS.C04.sizes_sane
#print axioms AnyTLS.C04.shape_payload_then_waste
#print axioms AnyTLS.C04.encode_wasteF
#print axioms AnyTLS.C04.encodeAll_append
#print axioms AnyTLS.C04.encodeAll_wastes
#print axioms AnyTLS.C04.wire_parses
#print axioms AnyTLS.C04.wire_parses_packets
#print axioms AnyTLS.C04.writes_bounded
#print axioms AnyTLS.C04.pinned_header_truncated
#print axioms AnyTLS.C04.pinned_size_wraps
