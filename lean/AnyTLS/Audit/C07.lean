import AnyTLS.Props.C07
#print axioms AnyTLS.C07.dest_roundtrip
#print axioms AnyTLS.C07.udp_request_roundtrip
#print axioms AnyTLS.C07.encode_rejects_long
#print axioms AnyTLS.C07.resolve_port
#print axioms AnyTLS.C07.resolve_ip_of_host
#print axioms AnyTLS.C07.pinned_hit_wrong_port
