import AnyTLS.Props.C07
#print axioms AnyTLS.C07.dest_roundtrip
#print axioms AnyTLS.C07.udp_request_roundtrip
#print axioms AnyTLS.C07.encode_rejects_long
#print axioms AnyTLS.C07.resolve_port
#print axioms AnyTLS.C07.resolve_ip_of_host
#print axioms AnyTLS.C07.pinned_hit_wrong_port
#print axioms AnyTLS.C07.gen_magic_rule
#print axioms AnyTLS.C07.ordinary_names_are_dialled
#print axioms AnyTLS.C07.client_magic_recognised
#print axioms AnyTLS.C07.contains_rule_refuted
