import AnyTLS.Props.C10
#print axioms AnyTLS.C10.gen_timeout
#print axioms AnyTLS.C10.fireTimeouts_keeps
#print axioms AnyTLS.C10.collect_keeps
#print axioms AnyTLS.C10.step_keeps
#print axioms AnyTLS.C10.first_outcome_wins
#print axioms AnyTLS.C10.outcome_total
#print axioms AnyTLS.C10.timeout_only_after_deadline
#print axioms AnyTLS.C10.verdict_ok_iff
#print axioms AnyTLS.C10.notify_first_wins
#print axioms AnyTLS.C10.synack_error_never_ok
#print axioms AnyTLS.C10.close_never_ok
#print axioms AnyTLS.C10.slots_independent
#print axioms AnyTLS.C10.ok_only_after_connect
#print axioms AnyTLS.C10.answer_finds_pending_open
