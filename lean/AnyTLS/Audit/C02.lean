import AnyTLS.Props.C02
#print axioms AnyTLS.C02.no_crosstalk
#print axioms AnyTLS.C02.quiet_or_session_level
#print axioms AnyTLS.C02.no_crosstalk_history
#print axioms AnyTLS.C02.unknown_push_inert
#print axioms AnyTLS.C02.unknown_synack_inert
#print axioms AnyTLS.C02.unknown_fin_inert
#print axioms AnyTLS.C02.push_appends
#print axioms AnyTLS.C02.open_advances
#print axioms AnyTLS.C02.open_closed
#print axioms AnyTLS.C02.allocated_ge
#print axioms AnyTLS.C02.ids_never_reused
