import AnyTLS.Props.C19
#print axioms AnyTLS.C19.push_adopts
#print axioms AnyTLS.C19.push_switches_session
#print axioms AnyTLS.C19.bad_push_ignored
#print axioms AnyTLS.C19.push_sets_default
#print axioms AnyTLS.C19.new_session_uses_default
#print axioms AnyTLS.C19.server_pushes_iff_differs
#print axioms AnyTLS.C19.nth_push_takes_effect
#print axioms AnyTLS.C19.pinned_second_push_lost
