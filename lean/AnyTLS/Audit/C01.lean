import AnyTLS.Props.C01
#print axioms AnyTLS.C01.run_inv
#print axioms AnyTLS.C01.reads_prefix
#print axioms AnyTLS.C01.reads_complete
#print axioms AnyTLS.C01.read_nonempty
#print axioms AnyTLS.C01.read_empty_refuted
#print axioms AnyTLS.C01.pieces_spec
#print axioms AnyTLS.C01.pieces_lossless
#print axioms AnyTLS.C01.rdOf_other
#print axioms AnyTLS.C01.rdOf_push
#print axioms AnyTLS.C01.rdOf_own_inert
#print axioms AnyTLS.C01.stream_delivery
#print axioms AnyTLS.C01.foldl_push_pending
#print axioms AnyTLS.C01.pipe_lossless
#print axioms AnyTLS.C01.data_finds_new_stream
