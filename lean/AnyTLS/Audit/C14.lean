import AnyTLS.Props.C14
#print axioms AnyTLS.C14.gen_mapping
#print axioms AnyTLS.C14.arrivesAt_of
#print axioms AnyTLS.C14.healthy_step
#print axioms AnyTLS.C14.healthy_never_closed
#print axioms AnyTLS.C14.pending_leads_to_close
#print axioms AnyTLS.C14.silent_detected_pending
#print axioms AnyTLS.C14.idle_none
#print axioms AnyTLS.C14.idle_run
#print axioms AnyTLS.C14.silent_detected
#print axioms AnyTLS.C14.idle_instant_noop
#print axioms AnyTLS.C14.pinned_refuted_T_lt_I
#print axioms AnyTLS.C14.pinned_refuted_jitter
