import AnyTLS.Props.C08
#print axioms AnyTLS.C08.closed_reader_read
#print axioms AnyTLS.C08.fin_after_data
#print axioms AnyTLS.C08.fin_releases
#print axioms AnyTLS.C08.fin_leaves_send_direction
#print axioms AnyTLS.C08.local_close_propagates_refuted
#print axioms AnyTLS.C08.forwarder_data_in_order_partial
#print axioms AnyTLS.C08.gen_server_upstream_shuts_target
#print axioms AnyTLS.C08.end_after_all_data
#print axioms AnyTLS.C08.silent_end_never_reaches_sink
