import AnyTLS.Props.C16
#print axioms AnyTLS.C16.method_selection
#print axioms AnyTLS.C16.refusal_iff
#print axioms AnyTLS.C16.greeting_prefix_stable
#print axioms AnyTLS.C16.request_roundtrip
#print axioms AnyTLS.C16.connect_only
#print axioms AnyTLS.C16.reply_follows_open
#print axioms AnyTLS.C16.connection_local
#print axioms AnyTLS.C16.pinned_tunnels_bind
