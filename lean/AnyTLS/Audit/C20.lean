import AnyTLS.Props.C20
#print axioms AnyTLS.C20.receive_loop_total
#print axioms AnyTLS.C20.transportWrites_healthy
#print axioms AnyTLS.C20.writeWithPadding_healthy
#print axioms AnyTLS.C20.writeFrame_healthy
#print axioms AnyTLS.C20.closes_only_on_alert
#print axioms AnyTLS.C20.quiet_frames_keep_invariant
#print axioms AnyTLS.C20.scheme_payloads_sane
#print axioms AnyTLS.C20.parsers_prefix_stable
#print axioms AnyTLS.C20.sibling_untouched
