import AnyTLS.Props.C03
#print axioms AnyTLS.C03.gen_headerSize
#print axioms AnyTLS.C03.ofByte_toByte
#print axioms AnyTLS.C03.toByte_lt
#print axioms AnyTLS.C03.unknown_is_waste
#print axioms AnyTLS.C03.toByte_injective
#print axioms AnyTLS.C03.decode_encode
#print axioms AnyTLS.C03.encode_header_exact
#print axioms AnyTLS.C03.encodeTrunc_refuted
#print axioms AnyTLS.C03.decodeStep_exact
#print axioms AnyTLS.C03.decodeStep_none_iff
#print axioms AnyTLS.C03.incomplete_kept
#print axioms AnyTLS.C03.feed_chunking
#print axioms AnyTLS.C03.feed_chunking_indep
#print axioms AnyTLS.C03.decodeAll_total
#print axioms AnyTLS.C03.decodeAll_encodeAll
