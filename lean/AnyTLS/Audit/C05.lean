import AnyTLS.Props.C05
#print axioms AnyTLS.C05.gen_first_packet_index
#print axioms AnyTLS.C05.gen_client_pads
#print axioms AnyTLS.C05.gen_server_never_pads
#print axioms AnyTLS.C05.shape_allowed
#print axioms AnyTLS.C05.no_padding_from_stop
#print axioms AnyTLS.C05.no_padding_without_line
#print axioms AnyTLS.C05.server_never_pads
#print axioms AnyTLS.C05.preamble_exact
#print axioms AnyTLS.C05.packet_index
#print axioms AnyTLS.C05.pinned_first_packet_uses_line_zero
#print axioms AnyTLS.C05.gen_preamble_uses_session_scheme
#print axioms AnyTLS.C05.preamble_scheme_is_session_scheme
#print axioms AnyTLS.C05.configured_preamble_differs
