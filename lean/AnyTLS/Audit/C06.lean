import AnyTLS.Props.C06
#print axioms AnyTLS.C06.auth_accept_iff
#print axioms AnyTLS.C06.auth_reject_iff
#print axioms AnyTLS.C06.take_append_of_le
#print axioms AnyTLS.C06.getD_append_of_lt
#print axioms AnyTLS.C06.auth_prefix_stable
#print axioms AnyTLS.C06.truncated_never_accepted
#print axioms AnyTLS.C06.skip_exact
#print axioms AnyTLS.C06.no_session_without_accept
#print axioms AnyTLS.C06.gen_auth_gate_bare
#print axioms AnyTLS.C06.bare_gate_is_authServer
#print axioms AnyTLS.C06.gate_accept_iff
#print axioms AnyTLS.C06.timed_retry_accepts_stray_prefix
