import AnyTLS.Props.C13
#print axioms AnyTLS.C13.sequential_reuse_refuted
#print axioms AnyTLS.C13.bounded_sessions_refuted
#print axioms AnyTLS.C13.second_request_reuses_partial
#print axioms AnyTLS.C13.dial_only_when_no_idle
#print axioms AnyTLS.C13.gen_pool_key_unique
#print axioms AnyTLS.C13.insertSorted_keeps
#print axioms AnyTLS.C13.add_keeps_other_sessions
#print axioms AnyTLS.C13.same_key_evicts_refuted
#print axioms AnyTLS.C13.sequential_dials_instances
