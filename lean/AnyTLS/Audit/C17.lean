import AnyTLS.Props.C17
#print axioms AnyTLS.C17.header_end_first
#print axioms AnyTLS.C17.header_read_chunk_independent
#print axioms AnyTLS.C17.tunnel_to_named_authority
#print axioms AnyTLS.C17.origin_receives_request
#print axioms AnyTLS.C17.payload_sends
#print axioms AnyTLS.C17.parseRequest_body
#print axioms AnyTLS.C17.connAfterHeader_shape
#print axioms AnyTLS.C17.rest_forwarded_once
#print axioms AnyTLS.C17.reply502_ne_200
#print axioms AnyTLS.C17.no_200_without_tunnel
#print axioms AnyTLS.C17.connection_wellformed
#print axioms AnyTLS.C17.exReq_wf
#print axioms AnyTLS.C17.each_request_to_its_authority_refuted
