import AnyTLS.Props.C15
#print axioms AnyTLS.C15.gen_udp_max
#print axioms AnyTLS.C15.dgram_roundtrip_one
#print axioms AnyTLS.C15.readDgram_empty
#print axioms AnyTLS.C15.dgram_roundtrip
#print axioms AnyTLS.C15.encode_dgram_exact
#print axioms AnyTLS.C15.zero_prefix_is_end
#print axioms AnyTLS.C15.dgram_single_frame
#print axioms AnyTLS.C15.initial_request_roundtrip
#print axioms AnyTLS.C15.udp_sites_sound
#print axioms AnyTLS.C15.relay_socket_family
#print axioms AnyTLS.C15.association_survives_unreachable
#print axioms AnyTLS.C15.connected_socket_refuted
#print axioms AnyTLS.C15.ipv4_only_bind_refuted
#print axioms AnyTLS.C15.udp_to_stream_exact
#print axioms AnyTLS.C15.udp_tunnel_exact
#print axioms AnyTLS.C15.timed_read_loses_datagrams
#print axioms AnyTLS.C15.whole_buffer_pads_datagrams
