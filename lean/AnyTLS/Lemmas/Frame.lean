import AnyTLS.Model.Frame

namespace AnyTLS
open Gen

theorem toNat_ofNat_lt (n : Nat) (h : n < 256) : (UInt8.ofNat n).toNat = n := by
  simp [UInt8.toNat_ofNat']; omega

theorem rd16_be16 (n : Nat) (h : n < 65536) :
    ∃ a b, be16 n = [a, b] ∧ rd16 a b = n := by
  refine ⟨_, _, rfl, ?_⟩
  simp only [rd16, UInt8.toNat_ofNat']
  omega

theorem rd32_be32 (n : Nat) (h : n < 4294967296) :
    ∃ a b c d, be32 n = [a, b, c, d] ∧ rd32 a b c d = n := by
  refine ⟨_, _, _, _, rfl, ?_⟩
  simp only [rd32, UInt8.toNat_ofNat']
  omega

theorem be16_length (n : Nat) : (be16 n).length = 2 := rfl
theorem be32_length (n : Nat) : (be32 n).length = 4 := rfl
theorem header_length (c s l : Nat) : (header c s l).length = 7 := rfl

/-- decoding what a well-formed header announces -/
theorem decodeStep_header (c sid : Nat) (data rest : Bytes)
    (hc : c < 256) (hs : sid < 4294967296) (hl : data.length < 65536) :
    decodeStep (header c sid data.length ++ data ++ rest)
      = some ({ cmd := Cmd.ofByte c, sid := sid, data := data }, rest) := by
  obtain ⟨a, b, hab, hr16⟩ := rd16_be16 data.length hl
  obtain ⟨p, q, r, s, hpq, hr32⟩ := rd32_be32 sid hs
  simp only [header, hab, hpq, List.cons_append, List.nil_append, decodeStep, hr16, hr32,
    toNat_ofNat_lt c hc]
  simp

theorem decodeStep_some_length {b : Bytes} {f : Frame} {r : Bytes}
    (h : decodeStep b = some (f, r)) : b.length = 7 + f.data.length + r.length := by
  unfold decodeStep at h
  split at h
  · rename_i c s0 s1 s2 s3 l0 l1 rest
    simp only at h
    split at h
    · cases h
    · injection h with h; injection h with h1 h2
      subst h1; subst h2
      simp only [List.length_cons, List.length_take, List.length_drop]
      omega
  · cases h

theorem decodeStep_some_eq {b : Bytes} {f : Frame} {r : Bytes}
    (h : decodeStep b = some (f, r)) :
    f.data = (b.drop 7).take f.data.length ∧ r = b.drop (7 + f.data.length) := by
  unfold decodeStep at h
  split at h
  · rename_i c s0 s1 s2 s3 l0 l1 rest
    simp only at h
    split at h
    · cases h
    · rename_i hlen
      injection h with h; injection h with h1 h2
      subst h1; subst h2
      have : min (rd16 l0 l1) rest.length = rd16 l0 l1 := by omega
      simp [List.length_take, this]
      rw [show 7 + rd16 l0 l1 = rd16 l0 l1 + 7 by omega]
      simp
  · cases h

/-- `Ok(None)` exactly when the header or the announced payload is incomplete -/
theorem decodeStep_none_iff (b : Bytes) :
    decodeStep b = none ↔
      (b.length < 7 ∨ ∃ c s0 s1 s2 s3 l0 l1 rest,
          b = c :: s0 :: s1 :: s2 :: s3 :: l0 :: l1 :: rest ∧ rest.length < rd16 l0 l1) := by
  constructor
  · intro h
    unfold decodeStep at h
    split at h
    · rename_i c s0 s1 s2 s3 l0 l1 rest
      simp only at h
      split at h
      · rename_i hl; exact Or.inr ⟨c, s0, s1, s2, s3, l0, l1, rest, rfl, hl⟩
      · cases h
    · rename_i hne
      left
      match b, hne with
      | [], _ => simp
      | [_], _ => simp
      | [_, _], _ => simp
      | [_, _, _], _ => simp
      | [_, _, _, _], _ => simp
      | [_, _, _, _, _], _ => simp
      | [_, _, _, _, _, _], _ => simp
      | c :: s0 :: s1 :: s2 :: s3 :: l0 :: l1 :: rest, hne => exact absurd rfl (hne c s0 s1 s2 s3 l0 l1 rest)
  · rintro (h | ⟨c, s0, s1, s2, s3, l0, l1, rest, rfl, hl⟩)
    · unfold decodeStep
      split
      · simp at h; omega
      · rfl
    · simp [decodeStep, hl]

/-- a decoded frame is unaffected by bytes that arrive later -/
theorem decodeStep_append {a : Bytes} {f : Frame} {r : Bytes} (b : Bytes)
    (h : decodeStep a = some (f, r)) : decodeStep (a ++ b) = some (f, r ++ b) := by
  unfold decodeStep at h
  split at h
  · rename_i c s0 s1 s2 s3 l0 l1 rest
    simp only at h
    split at h
    · cases h
    · rename_i hlen
      injection h with h; injection h with h1 h2
      subst h1; subst h2
      have hle : rd16 l0 l1 ≤ rest.length := by omega
      simp only [List.cons_append, decodeStep]
      have : ¬ (rest ++ b).length < rd16 l0 l1 := by simp; omega
      simp only [this, if_false]
      rw [List.take_append_of_le_length hle, List.drop_append_of_le_length hle]
  · cases h

/-- fuel beyond the buffer length is never used -/
theorem decodeFuel_enough : ∀ (n : Nat) (b : Bytes), b.length ≤ n →
    decodeFuel n b = decodeFuel b.length b := by
  intro n
  induction n using Nat.strongRecOn with
  | _ n ih =>
    intro b hb
    cases n with
    | zero =>
      have : b.length = 0 := by omega
      rw [this]
    | succ n =>
      cases hlen : b.length with
      | zero =>
        have : b = [] := List.eq_nil_of_length_eq_zero hlen
        subst this; rfl
      | succ m =>
        simp only [decodeFuel]
        cases hd : decodeStep b with
        | none => rfl
        | some p =>
          obtain ⟨f, r⟩ := p
          have hl := decodeStep_some_length hd
          simp only
          rw [ih n (by omega) r (by omega), ih m (by omega) r (by omega)]

/-- unfolding equation of `decodeAll` -/
theorem decodeAll_unfold (b : Bytes) :
    decodeAll b = match decodeStep b with
      | none => ([], b)
      | some (f, r) => (f :: (decodeAll r).1, (decodeAll r).2) := by
  unfold decodeAll
  cases hlen : b.length with
  | zero =>
    have : b = [] := List.eq_nil_of_length_eq_zero hlen
    subst this; rfl
  | succ m =>
    simp only [decodeFuel]
    cases hd : decodeStep b with
    | none => rfl
    | some p =>
      obtain ⟨f, r⟩ := p
      have hl := decodeStep_some_length hd
      simp only
      rw [decodeFuel_enough m r (by omega)]

theorem decodeAll_of_none {b : Bytes} (h : decodeStep b = none) : decodeAll b = ([], b) := by
  rw [decodeAll_unfold, h]

theorem decodeAll_of_some {b : Bytes} {f : Frame} {r : Bytes} (h : decodeStep b = some (f, r)) :
    decodeAll b = (f :: (decodeAll r).1, (decodeAll r).2) := by
  rw [decodeAll_unfold, h]

/-- the one-split chunking law -/
theorem decodeAll_append : ∀ (n : Nat) (a : Bytes), a.length ≤ n → ∀ b : Bytes,
    decodeAll (a ++ b) =
      ((decodeAll a).1 ++ (decodeAll ((decodeAll a).2 ++ b)).1,
       (decodeAll ((decodeAll a).2 ++ b)).2) := by
  intro n
  induction n using Nat.strongRecOn with
  | _ n ih =>
    intro a ha b
    cases hd : decodeStep a with
    | none => rw [decodeAll_of_none hd]; simp
    | some p =>
      obtain ⟨f, r⟩ := p
      have hl := decodeStep_some_length hd
      rw [decodeAll_of_some hd, decodeAll_of_some (decodeStep_append b hd)]
      have := ih (n - 1) (by omega) r (by omega) b
      rw [this]
      simp

/-- the residue of `decodeAll` is an incomplete frame -/
theorem decodeAll_residue : ∀ (n : Nat) (b : Bytes), b.length ≤ n →
    decodeStep (decodeAll b).2 = none := by
  intro n
  induction n using Nat.strongRecOn with
  | _ n ih =>
    intro b hb
    cases hd : decodeStep b with
    | none => rw [decodeAll_of_none hd]; exact hd
    | some p =>
      obtain ⟨f, r⟩ := p
      have hl := decodeStep_some_length hd
      rw [decodeAll_of_some hd]
      exact ih (n - 1) (by omega) r (by omega)

def frameSize (f : Frame) : Nat := 7 + f.data.length

def sumSizes : List Frame → Nat
  | [] => 0
  | f :: fs => frameSize f + sumSizes fs

theorem decodeAll_account : ∀ (n : Nat) (b : Bytes), b.length ≤ n →
    sumSizes (decodeAll b).1 + (decodeAll b).2.length = b.length := by
  intro n
  induction n using Nat.strongRecOn with
  | _ n ih =>
    intro b hb
    cases hd : decodeStep b with
    | none => rw [decodeAll_of_none hd]; simp [sumSizes]
    | some p =>
      obtain ⟨f, r⟩ := p
      have hl := decodeStep_some_length hd
      rw [decodeAll_of_some hd]
      have := ih (n - 1) (by omega) r (by omega)
      simp only [sumSizes, frameSize]
      omega

theorem sumSizes_ge (fs : List Frame) : 7 * fs.length ≤ sumSizes fs := by
  induction fs with
  | nil => simp [sumSizes]
  | cons f fs ih => simp only [sumSizes, frameSize, List.length_cons]; omega

/-- feeding reads one by one = decoding the concatenation (buffer holds an incomplete frame) -/
theorem feedAll_eq (cs : List Bytes) : ∀ (buf : Bytes), decodeStep buf = none →
    feedAll buf cs = decodeAll (buf ++ flatten cs) := by
  induction cs with
  | nil => intro buf h; simp [feedAll, decodeAll_of_none h]
  | cons c cs ih =>
    intro buf _
    simp only [feedAll, feed, flatten_cons]
    have hres := decodeAll_residue _ (buf ++ c) (Nat.le_refl _)
    rw [ih _ hres, ← List.append_assoc, decodeAll_append _ (buf ++ c) (Nat.le_refl _)]

end AnyTLS
