import AnyTLS.Model.Conc
import AnyTLS.Lemmas.Padding
import AnyTLS.Lemmas.Session

namespace AnyTLS

/-! ### bookkeeping lemmas: what the state combinators touch -/

@[simp] theorem setTask_task (cs : CS) (t t' : Nat) (f : Task → Task) :
    (cs.setTask t f).task t' = if t' = t then f (cs.task t') else cs.task t' := rfl
@[simp] theorem setTask_s (cs : CS) (t : Nat) (f : Task → Task) : (cs.setTask t f).s = cs.s := rfl
@[simp] theorem setTask_n (cs : CS) (t : Nat) (f : Task → Task) : (cs.setTask t f).n = cs.n := rfl
@[simp] theorem setTask_bufHolder (cs : CS) (t : Nat) (f : Task → Task) : (cs.setTask t f).bufHolder = cs.bufHolder := rfl
@[simp] theorem setTask_wrHolder (cs : CS) (t : Nat) (f : Task → Task) : (cs.setTask t f).wrHolder = cs.wrHolder := rfl
@[simp] theorem setTask_bufQ (cs : CS) (t : Nat) (f : Task → Task) : (cs.setTask t f).bufQ = cs.bufQ := rfl
@[simp] theorem setTask_wrQ (cs : CS) (t : Nat) (f : Task → Task) : (cs.setTask t f).wrQ = cs.wrQ := rfl
@[simp] theorem setTask_log (cs : CS) (t : Nat) (f : Task → Task) : (cs.setTask t f).log = cs.log := rfl
@[simp] theorem setTask_failed (cs : CS) (t : Nat) (f : Task → Task) : (cs.setTask t f).failed = cs.failed := rfl

@[simp] theorem setPC_pc (cs : CS) (t t' : Nat) (pc : PC) :
    ((cs.setPC t pc).task t').pc = if t' = t then pc else (cs.task t').pc := by
  unfold CS.setPC; rw [setTask_task]; split <;> rfl
@[simp] theorem setPC_s (cs : CS) (t : Nat) (pc : PC) : (cs.setPC t pc).s = cs.s := rfl
@[simp] theorem setPC_n (cs : CS) (t : Nat) (pc : PC) : (cs.setPC t pc).n = cs.n := rfl
@[simp] theorem setPC_bufHolder (cs : CS) (t : Nat) (pc : PC) : (cs.setPC t pc).bufHolder = cs.bufHolder := rfl
@[simp] theorem setPC_wrHolder (cs : CS) (t : Nat) (pc : PC) : (cs.setPC t pc).wrHolder = cs.wrHolder := rfl
@[simp] theorem setPC_bufQ (cs : CS) (t : Nat) (pc : PC) : (cs.setPC t pc).bufQ = cs.bufQ := rfl
@[simp] theorem setPC_wrQ (cs : CS) (t : Nat) (pc : PC) : (cs.setPC t pc).wrQ = cs.wrQ := rfl
@[simp] theorem setPC_log (cs : CS) (t : Nat) (pc : PC) : (cs.setPC t pc).log = cs.log := rfl
@[simp] theorem setPC_failed (cs : CS) (t : Nat) (pc : PC) : (cs.setPC t pc).failed = cs.failed := rfl

@[simp] theorem finishOp_pc (cs : CS) (t t' : Nat) (r : Res) :
    ((cs.finishOp t r).task t').pc = if t' = t then .idle else (cs.task t').pc := by
  unfold CS.finishOp; rw [setTask_task]; split <;> rfl
@[simp] theorem finishOp_s (cs : CS) (t : Nat) (r : Res) : (cs.finishOp t r).s = cs.s := rfl
@[simp] theorem finishOp_n (cs : CS) (t : Nat) (r : Res) : (cs.finishOp t r).n = cs.n := rfl
@[simp] theorem finishOp_bufHolder (cs : CS) (t : Nat) (r : Res) : (cs.finishOp t r).bufHolder = cs.bufHolder := rfl
@[simp] theorem finishOp_wrHolder (cs : CS) (t : Nat) (r : Res) : (cs.finishOp t r).wrHolder = cs.wrHolder := rfl
@[simp] theorem finishOp_bufQ (cs : CS) (t : Nat) (r : Res) : (cs.finishOp t r).bufQ = cs.bufQ := rfl
@[simp] theorem finishOp_wrQ (cs : CS) (t : Nat) (r : Res) : (cs.finishOp t r).wrQ = cs.wrQ := rfl
@[simp] theorem finishOp_log (cs : CS) (t : Nat) (r : Res) : (cs.finishOp t r).log = cs.log := rfl
@[simp] theorem finishOp_failed (cs : CS) (t : Nat) (r : Res) : (cs.finishOp t r).failed = cs.failed := rfl

@[simp] theorem submit_pc (cs : CS) (t t' : Nat) (fs : List Bytes) :
    ((cs.submit t fs).task t').pc = if t' = t then .enter fs else (cs.task t').pc := by
  unfold CS.submit; rw [setTask_task]; split <;> rfl
@[simp] theorem submit_s (cs : CS) (t : Nat) (fs : List Bytes) : (cs.submit t fs).s = cs.s := rfl
@[simp] theorem submit_n (cs : CS) (t : Nat) (fs : List Bytes) : (cs.submit t fs).n = cs.n := rfl
@[simp] theorem submit_bufHolder (cs : CS) (t : Nat) (fs : List Bytes) : (cs.submit t fs).bufHolder = cs.bufHolder := rfl
@[simp] theorem submit_wrHolder (cs : CS) (t : Nat) (fs : List Bytes) : (cs.submit t fs).wrHolder = cs.wrHolder := rfl
@[simp] theorem submit_bufQ (cs : CS) (t : Nat) (fs : List Bytes) : (cs.submit t fs).bufQ = cs.bufQ := rfl
@[simp] theorem submit_wrQ (cs : CS) (t : Nat) (fs : List Bytes) : (cs.submit t fs).wrQ = cs.wrQ := rfl
@[simp] theorem submit_log (cs : CS) (t : Nat) (fs : List Bytes) : (cs.submit t fs).log = cs.log := rfl
@[simp] theorem submit_failed (cs : CS) (t : Nat) (fs : List Bytes) : (cs.submit t fs).failed = cs.failed := rfl

/-! ### which states hold which lock -/

def PC.holdsBuf : PC → Bool
  | .locked _ | .preWr _ _ | .waitWr _ _ | .piece _ _ | .wdone _ _ => true
  | .cflag (.inWrite _) | .cdrained (.inWrite _) | .cwait (.inWrite _) | .cshut (.inWrite _) => true
  | _ => false

def PC.holdsWr : PC → Bool
  | .piece _ _ | .cshut _ => true
  | _ => false

/-- the bytes a state still has to put on the wire -/
def PC.inflight : PC → Bytes
  | .preWr ps _ | .waitWr ps _ | .piece ps _ => flatten ps
  | _ => []

/-! ### releaseBuf / releaseWr -/

theorem releaseBuf_s (cs : CS) : cs.releaseBuf.s = cs.s := by
  unfold CS.releaseBuf; split
  · rfl
  · simp only; split <;> rfl
theorem releaseBuf_log (cs : CS) : cs.releaseBuf.log = cs.log := by
  unfold CS.releaseBuf; split
  · rfl
  · simp only; split <;> rfl
theorem releaseBuf_failed (cs : CS) : cs.releaseBuf.failed = cs.failed := by
  unfold CS.releaseBuf; split
  · rfl
  · simp only; split <;> rfl
theorem releaseBuf_n (cs : CS) : cs.releaseBuf.n = cs.n := by
  unfold CS.releaseBuf; split
  · rfl
  · simp only; split <;> rfl
theorem releaseBuf_wrHolder (cs : CS) : cs.releaseBuf.wrHolder = cs.wrHolder := by
  unfold CS.releaseBuf; split
  · rfl
  · simp only; split <;> rfl

theorem releaseWr_s (cs : CS) : cs.releaseWr.s = cs.s := by
  unfold CS.releaseWr; split
  · rfl
  · simp only; split <;> rfl
theorem releaseWr_log (cs : CS) : cs.releaseWr.log = cs.log := by
  unfold CS.releaseWr; split
  · rfl
  · simp only; split <;> rfl
theorem releaseWr_failed (cs : CS) : cs.releaseWr.failed = cs.failed := by
  unfold CS.releaseWr; split
  · rfl
  · simp only; split <;> rfl
theorem releaseWr_n (cs : CS) : cs.releaseWr.n = cs.n := by
  unfold CS.releaseWr; split
  · rfl
  · simp only; split <;> rfl
theorem releaseWr_bufHolder (cs : CS) : cs.releaseWr.bufHolder = cs.bufHolder := by
  unfold CS.releaseWr; split
  · rfl
  · simp only; split <;> rfl

/-- a writer-lock hand-off changes states only within {waitWr→piece, cwait→cshut}: what a task holds
of the buffer lock and what it still has to write do not change -/
theorem releaseWr_pc (cs : CS) (t : Nat) :
    ((cs.releaseWr.task t).pc).holdsBuf = ((cs.task t).pc).holdsBuf ∧
    ((cs.releaseWr.task t).pc).inflight = ((cs.task t).pc).inflight := by
  unfold CS.releaseWr
  split
  · exact ⟨rfl, rfl⟩
  · rename_i w q _
    simp only
    split
    · rename_i ps fs hpc
      rw [setPC_pc]
      split
      · rename_i e; subst e
        have : (cs.task t).pc = .waitWr ps fs := hpc
        rw [this]; exact ⟨rfl, rfl⟩
      · exact ⟨rfl, rfl⟩
    · rename_i k hpc
      rw [setPC_pc]
      split
      · rename_i e; subst e
        have : (cs.task t).pc = .cwait k := hpc
        rw [this]; cases k <;> exact ⟨rfl, rfl⟩
      · exact ⟨rfl, rfl⟩
    · exact ⟨rfl, rfl⟩


def Excl (cs : CS) : Prop := ∀ t, (cs.task t).pc.holdsBuf = true → cs.bufHolder = some t

/-- changing the state of `t` keeps `Excl` if the new state holds the buffer lock only when `t` is the holder -/
theorem Excl_setPC (cs : CS) (t : Nat) (pc : PC) (h : Excl cs) (hp : pc.holdsBuf = true → cs.bufHolder = some t) :
    Excl (cs.setPC t pc) := by
  intro t' ht'
  rw [setPC_pc] at ht'
  rw [setPC_bufHolder]
  by_cases e : t' = t
  · subst e; simp only [if_true] at ht'; exact hp ht'
  · simp only [e, if_false] at ht'; exact h t' ht'

theorem Excl_finishOp (cs : CS) (t : Nat) (r : Res) (h : Excl cs) : Excl (cs.finishOp t r) := by
  intro t' ht'
  rw [finishOp_pc] at ht'
  rw [finishOp_bufHolder]
  by_cases e : t' = t
  · subst e; simp [PC.holdsBuf] at ht'
  · simp only [e, if_false] at ht'; exact h t' ht'

theorem Excl_submit (cs : CS) (t : Nat) (fs : List Bytes) (h : Excl cs) : Excl (cs.submit t fs) := by
  intro t' ht'
  rw [submit_pc] at ht'
  rw [submit_bufHolder]
  by_cases e : t' = t
  · subst e; simp [PC.holdsBuf] at ht'
  · simp only [e, if_false] at ht'; exact h t' ht'

theorem Excl_releaseWr (cs : CS) (h : Excl cs) : Excl cs.releaseWr := by
  intro t ht
  rw [(releaseWr_pc cs t).1] at ht
  rw [releaseWr_bufHolder]
  exact h t ht

theorem releaseBuf_spec (cs : CS) : ∀ t', (cs.releaseBuf.task t').pc = (cs.task t').pc ∨
    (cs.releaseBuf.bufHolder = some t' ∧ ∃ fs, (cs.task t').pc = .waitBuf fs ∧ (cs.releaseBuf.task t').pc = .locked fs) := by
  intro t'
  unfold CS.releaseBuf
  split
  · exact Or.inl rfl
  · rename_i w q _
    simp only
    split
    · rename_i fs hpc
      by_cases e : t' = w
      · subst e
        right
        refine ⟨rfl, fs, hpc, ?_⟩
        rw [setPC_pc]; simp
      · left; rw [setPC_pc]; simp only [e, if_false]; rfl
    · exact Or.inl rfl

/-- the holder `t` releases the buffer lock: afterwards, among the other tasks, only the new holder holds it -/
theorem Excl_releaseBuf (cs : CS) (t : Nat) (h : Excl cs) (ht : cs.bufHolder = some t) :
    ∀ t', t' ≠ t → (cs.releaseBuf.task t').pc.holdsBuf = true → cs.releaseBuf.bufHolder = some t' := by
  intro t' hne hh
  rcases releaseBuf_spec cs t' with e | ⟨e, _⟩
  · rw [e] at hh
    have := h t' hh
    rw [ht] at this; cases this; exact absurd rfl hne
  · exact e


theorem Excl_enterClose (cs : CS) (t : Nat) (k : CloseK) (h : Excl cs)
    (hk : ∀ fs, k = .inWrite fs → cs.bufHolder = some t) : Excl (cs.enterClose t k) := by
  unfold CS.enterClose
  split
  · cases k with
    | op => exact Excl_finishOp cs t .ok h
    | inWrite fs => exact Excl_setPC cs t _ h (fun _ => hk fs rfl)
  · apply Excl_setPC
    · intro t' ht'; exact h t' ht'
    · intro hp
      cases k with
      | op => simp [PC.holdsBuf] at hp
      | inWrite fs => exact hk fs rfl

theorem Excl_lockWrWrite (cs : CS) (t : Nat) (ps : List Bytes) (fs : List Bytes) (h : Excl cs)
    (ht : cs.bufHolder = some t) : Excl (cs.lockWrWrite t ps fs) := by
  unfold CS.lockWrWrite
  split
  · apply Excl_setPC
    · intro t' ht'; exact h t' ht'
    · intro _; exact ht
  · apply Excl_setPC
    · intro t' ht'; exact h t' ht'
    · intro _; exact ht

/-- release by the holder followed by the holder moving to a state `pc` that does not hold the lock -/
theorem Excl_release_then (cs : CS) (t : Nat) (h : Excl cs) (ht : cs.bufHolder = some t)
    (cs2 : CS) (h2 : ∀ t', t' ≠ t → (cs2.task t').pc = (cs.releaseBuf.task t').pc)
    (hb : cs2.bufHolder = cs.releaseBuf.bufHolder) (hpc : (cs2.task t).pc.holdsBuf = false) : Excl cs2 := by
  intro t' ht'
  by_cases e : t' = t
  · subst e; rw [hpc] at ht'; cases ht'
  · rw [h2 t' e] at ht'
    rw [hb]
    exact Excl_releaseBuf cs t h ht t' e ht'

theorem Excl_micro (cs cs' : CS) (t : Nat) (h : Excl cs) (hm : micro cs t = some cs') : Excl cs' := by
  have hold : (cs.task t).pc.holdsBuf = true → cs.bufHolder = some t := h t
  unfold micro at hm
  simp only at hm
  split at hm
  · cases hm
  · -- idle
    split at hm
    · cases hm; exact Excl_setPC cs t _ h (by simp [PC.holdsBuf])
    · cases hm
      apply Excl_finishOp
      intro t' ht'; exact h t' ht'
    · split at hm
      · cases hm; exact Excl_finishOp cs t _ h
      · cases hm; exact Excl_submit cs t _ h
    · cases hm; exact Excl_submit cs t _ h
    · cases hm; exact Excl_submit cs t _ h
    · split at hm
      · cases hm
        apply Excl_finishOp
        intro t' ht'
        rw [setTask_task] at ht'
        rw [setTask_bufHolder]
        by_cases e : t' = t
        · subst e; simp only [if_true] at ht'; exact h t' ht'
        · simp only [e, if_false] at ht'; exact h t' ht'
      · cases hm; exact Excl_setPC cs t _ h (by simp [PC.holdsBuf])
    · cases hm
      exact Excl_enterClose cs t .op h (by intro fs e; cases e)
  · -- openChecked
    cases hm
    apply Excl_submit
    intro t' ht'
    rw [setTask_task] at ht'
    rw [setTask_bufHolder]
    by_cases e : t' = t
    · subst e; simp only [if_true] at ht'; exact h t' ht'
    · simp only [e, if_false] at ht'; exact h t' ht'
  · -- enter
    rename_i fs hpc
    split at hm
    · rename_i hnone
      cases hm
      intro t' ht'
      rw [setPC_pc] at ht'
      rw [setPC_bufHolder]
      by_cases e : t' = t
      · subst e; rfl
      · simp only [e, if_false] at ht'
        have := h t' ht'
        rw [hnone] at this; cases this
    · cases hm
      apply Excl_setPC
      · intro t' ht'; exact h t' ht'
      · simp [PC.holdsBuf]
  · cases hm
  · -- locked []
    rename_i hpc
    have ht := hold (by rw [hpc]; rfl)
    cases hm
    exact Excl_release_then cs t h ht _ (fun t' e => by rw [finishOp_pc]; simp [e]) rfl (by rw [finishOp_pc]; simp [PC.holdsBuf])
  · -- locked (bytes :: fs)
    rename_i bytes fs hpc
    have ht := hold (by rw [hpc]; rfl)
    split at hm
    · cases hm
      exact Excl_release_then cs t h ht _ (fun t' e => by rw [finishOp_pc]; simp [e]) rfl (by rw [finishOp_pc]; simp [PC.holdsBuf])
    · split at hm
      · -- buffering
        have hE : Excl { cs with s := { cs.s with buffer := cs.s.buffer ++ bytes }, log := cs.log ++ [({ owner := some t, bytes := bytes } : Unit')] } := h
        split at hm
        · cases hm
          exact Excl_release_then _ t hE ht _ (fun t' e => by rw [finishOp_pc]; simp [e]) rfl (by rw [finishOp_pc]; simp [PC.holdsBuf])
        · cases hm
          exact Excl_release_then _ t hE ht _ (fun t' e => by rw [setPC_pc]; simp [e]) rfl (by rw [setPC_pc]; simp [PC.holdsBuf])
      · cases hm
        apply Excl_setPC
        · intro t' ht'; exact h t' ht'
        · intro _; exact ht
  · -- preWr
    rename_i ps fs hpc
    have ht := hold (by rw [hpc]; rfl)
    cases hm
    exact Excl_lockWrWrite cs t ps fs h ht
  · cases hm
  · -- piece []
    rename_i fs hpc
    have ht := hold (by rw [hpc]; rfl)
    cases hm
    apply Excl_setPC _ _ _ (Excl_releaseWr cs h)
    intro _; rw [releaseWr_bufHolder]; exact ht
  · -- piece (p :: ps)
    rename_i p ps fs hpc
    have ht := hold (by rw [hpc]; rfl)
    split at hm
    · rename_i s' _
      have hE : Excl { cs with s := s' } := h
      split at hm
      · cases hm
        apply Excl_setPC _ _ _ (Excl_releaseWr _ hE)
        intro _; rw [releaseWr_bufHolder]; exact ht
      · cases hm
        exact Excl_setPC _ t _ hE (fun _ => ht)
    · cases hm
      have hE : Excl { cs with failed := true } := h
      apply Excl_enterClose _ _ _ (Excl_releaseWr _ hE)
      intro fs' _; rw [releaseWr_bufHolder]; exact ht
  · -- wdone
    rename_i r fs hpc
    have ht := hold (by rw [hpc]; rfl)
    try simp only at hm
    split at hm
    · cases hm
      exact Excl_release_then cs t h ht _ (fun t' e => by rw [setPC_pc]; simp [e]) rfl (by rw [setPC_pc]; simp [PC.holdsBuf])
    · cases hm
      exact Excl_release_then cs t h ht _ (fun t' e => by rw [finishOp_pc]; simp [e]) rfl (by rw [finishOp_pc]; simp [PC.holdsBuf])
  · -- cflag
    rename_i k hpc
    cases hm
    have hE : Excl { cs with s := cs.s.closeDrain } := h
    apply Excl_setPC _ _ _ hE
    intro hp
    apply hold
    rw [hpc]; cases k <;> first | exact hp | (simp [PC.holdsBuf] at hp)
  · -- cdrained
    rename_i k hpc
    have hk : (PC.cdrained k).holdsBuf = true → cs.bufHolder = some t := fun hp => hold (by rw [hpc]; exact hp)
    split at hm
    · cases hm
      apply Excl_setPC
      · intro t' ht'; exact h t' ht'
      · intro hp; apply hk; cases k <;> first | exact hp | (simp [PC.holdsBuf] at hp)
    · cases hm
      apply Excl_setPC
      · intro t' ht'; exact h t' ht'
      · intro hp; apply hk; cases k <;> first | exact hp | (simp [PC.holdsBuf] at hp)
  · cases hm
  · -- cshut
    rename_i k hpc
    have hk : (PC.cshut k).holdsBuf = true → cs.bufHolder = some t := fun hp => hold (by rw [hpc]; exact hp)
    have hE : Excl { cs with s := { cs.s with shut := true } } := h
    cases k with
    | op =>
      cases hm
      exact Excl_finishOp _ t _ (Excl_releaseWr _ hE)
    | inWrite fs =>
      cases hm
      apply Excl_setPC _ _ _ (Excl_releaseWr _ hE)
      intro _; rw [releaseWr_bufHolder]; exact hk rfl



def enc (log : List Unit') : Bytes := flatten (log.map (·.bytes))

theorem enc_append (a b : List Unit') : enc (a ++ b) = enc a ++ enc b := by
  unfold enc; rw [List.map_append, flatten_append]

def CS.inflight (cs : CS) : Bytes :=
  match cs.bufHolder with
  | some t => (cs.task t).pc.inflight
  | none => []

structure WInv (cs : CS) : Prop where
  excl : Excl cs
  eq : cs.failed = false → flatten cs.s.wire ++ cs.inflight ++ cs.s.buffer = enc cs.log
  fail : cs.failed = true → cs.s.closed = true ∧ ∀ t, (cs.task t).pc.inflight = []
  pre : flatten cs.s.wire <+: enc cs.log

theorem inflight_holdsBuf (pc : PC) (h : pc.inflight ≠ []) : pc.holdsBuf = true := by
  cases pc <;> first | rfl | (exact absurd rfl h)

/-- only the holder can have bytes in flight -/
theorem inflight_nonholder (cs : CS) (h : Excl cs) (t : Nat) (ht : cs.bufHolder ≠ some t) : (cs.task t).pc.inflight = [] := by
  cases hi : (cs.task t).pc.inflight with
  | nil => rfl
  | cons x xs =>
    exfalso; apply ht; apply h t; apply inflight_holdsBuf; rw [hi]; simp

theorem prepare_fields (s : Sess) (payload : Bytes) :
    (s.prepare payload).1.wire = s.wire ∧ (s.prepare payload).1.buffer = s.buffer ∧
    (s.prepare payload).1.closed = s.closed ∧
    ∃ pads : List Nat, flatten (s.prepare payload).2 = payload ++ flatten (pads.map wasteFrame) := by
  unfold Sess.prepare
  split
  · exact ⟨rfl, rfl, rfl, [], by simp⟩
  · simp only
    split
    · exact ⟨rfl, rfl, rfl, [], by simp⟩
    · split
      · exact ⟨rfl, rfl, rfl, [], by simp⟩
      · exact ⟨rfl, rfl, rfl, _, shape_flatten _ _⟩

theorem transportWrite_fields (s s' : Sess) (w : Bytes) (h : s.transportWrite w = some s') :
    s'.wire = s.wire ++ [w] ∧ s'.buffer = s.buffer ∧ s'.closed = s.closed := by
  unfold Sess.transportWrite at h
  split at h
  · cases h
  · split at h
    · cases h
    · cases h; exact ⟨rfl, rfl, rfl⟩
    · cases h; exact ⟨rfl, rfl, rfl⟩

theorem flatten_snoc (l : List Bytes) (w : Bytes) : flatten (l ++ [w]) = flatten l ++ w := by
  rw [flatten_append]; simp



structure Quiet (cs cs' : CS) : Prop where
  wire : cs'.s.wire = cs.s.wire
  buffer : cs'.s.buffer = cs.s.buffer
  log : cs'.log = cs.log
  failed : cs'.failed = cs.failed
  closed : cs.s.closed = true → cs'.s.closed = true
  infl : cs'.inflight = cs.inflight
  all : ∀ t, (cs'.task t).pc.inflight = [] ∨ (cs'.task t).pc.inflight = (cs.task t).pc.inflight

theorem Quiet.rfl' (cs : CS) : Quiet cs cs := ⟨rfl, rfl, rfl, rfl, id, rfl, fun _ => Or.inr rfl⟩

theorem Quiet.trans {a b c : CS} (h1 : Quiet a b) (h2 : Quiet b c) : Quiet a c where
  wire := h2.wire.trans h1.wire
  buffer := h2.buffer.trans h1.buffer
  log := h2.log.trans h1.log
  failed := h2.failed.trans h1.failed
  closed := fun h => h2.closed (h1.closed h)
  infl := h2.infl.trans h1.infl
  all := fun t => by
    rcases h2.all t with e | e
    · exact Or.inl e
    · rw [e]; exact h1.all t

theorem WInv_quiet {cs cs' : CS} (h : WInv cs) (hE : Excl cs') (q : Quiet cs cs') : WInv cs' where
  excl := hE
  eq := fun hf => by rw [q.wire, q.infl, q.buffer, q.log]; exact h.eq (q.failed ▸ hf)
  fail := fun hf => by
    have := h.fail (q.failed ▸ hf)
    refine ⟨q.closed this.1, fun t => ?_⟩
    rcases q.all t with e | e
    · exact e
    · rw [e]; exact this.2 t
  pre := by rw [q.wire, q.log]; exact h.pre

theorem quiet_setPC (cs : CS) (t : Nat) (pc : PC) (hnew : pc.inflight = []) (hold : (cs.task t).pc.inflight = []) :
    Quiet cs (cs.setPC t pc) where
  wire := rfl
  buffer := rfl
  log := rfl
  failed := rfl
  closed := id
  infl := by
    unfold CS.inflight
    rw [setPC_bufHolder]
    cases hb : cs.bufHolder with
    | none => rfl
    | some u =>
      simp only
      rw [setPC_pc]
      by_cases e : u = t
      · subst e; simp only [if_true]; rw [hnew, hold]
      · simp only [e, if_false]
  all := fun t' => by
    rw [setPC_pc]
    by_cases e : t' = t
    · subst e; simp only [if_true]; exact Or.inl hnew
    · simp only [e, if_false]; first | exact Or.inr rfl | simp

theorem quiet_finishOp (cs : CS) (t : Nat) (r : Res) (hold : (cs.task t).pc.inflight = []) :
    Quiet cs (cs.finishOp t r) where
  wire := rfl
  buffer := rfl
  log := rfl
  failed := rfl
  closed := id
  infl := by
    unfold CS.inflight
    rw [finishOp_bufHolder]
    cases hb : cs.bufHolder with
    | none => rfl
    | some u =>
      simp only
      rw [finishOp_pc]
      by_cases e : u = t
      · subst e; simp only [if_true]; rw [hold]; rfl
      · simp only [e, if_false]
  all := fun t' => by
    rw [finishOp_pc]
    by_cases e : t' = t
    · subst e; simp only [if_true]; exact Or.inl rfl
    · simp only [e, if_false]; first | exact Or.inr rfl | simp

theorem quiet_submit (cs : CS) (t : Nat) (fs : List Bytes) (hold : (cs.task t).pc.inflight = []) :
    Quiet cs (cs.submit t fs) where
  wire := rfl
  buffer := rfl
  log := rfl
  failed := rfl
  closed := id
  infl := by
    unfold CS.inflight
    rw [submit_bufHolder]
    cases hb : cs.bufHolder with
    | none => rfl
    | some u =>
      simp only
      rw [submit_pc]
      by_cases e : u = t
      · subst e; simp only [if_true]; rw [hold]; rfl
      · simp only [e, if_false]
  all := fun t' => by
    rw [submit_pc]
    by_cases e : t' = t
    · subst e; simp only [if_true]; exact Or.inl rfl
    · simp only [e, if_false]; first | exact Or.inr rfl | simp

/-- a change of `s` that leaves the wire and the buffer alone and does not reopen the session -/
theorem quiet_s (cs : CS) (s' : Sess) (hw : s'.wire = cs.s.wire) (hb : s'.buffer = cs.s.buffer)
    (hc : cs.s.closed = true → s'.closed = true) : Quiet cs { cs with s := s' } :=
  ⟨hw, hb, rfl, rfl, hc, rfl, fun _ => Or.inr rfl⟩

theorem quiet_setTask_keep (cs : CS) (t : Nat) (f : Task → Task) (hf : ∀ k, (f k).pc = k.pc) :
    Quiet cs (cs.setTask t f) where
  wire := rfl
  buffer := rfl
  log := rfl
  failed := rfl
  closed := id
  infl := by
    unfold CS.inflight
    rw [setTask_bufHolder]
    cases cs.bufHolder with
    | none => rfl
    | some u => simp only; rw [setTask_task]; split <;> simp [hf]
  all := fun t' => by
    rw [setTask_task]; split <;> simp [hf]

theorem quiet_releaseWr (cs : CS) : Quiet cs cs.releaseWr where
  wire := by rw [releaseWr_s]
  buffer := by rw [releaseWr_s]
  log := releaseWr_log cs
  failed := releaseWr_failed cs
  closed := by rw [releaseWr_s]; exact id
  infl := by
    unfold CS.inflight
    rw [releaseWr_bufHolder]
    cases cs.bufHolder with
    | none => rfl
    | some u => simp only; exact (releaseWr_pc cs u).2
  all := fun t => Or.inr (releaseWr_pc cs t).2

theorem quiet_wrFields (cs : CS) (h : Option Nat) (q : List Nat) : Quiet cs { cs with wrHolder := h, wrQ := q } :=
  ⟨rfl, rfl, rfl, rfl, id, rfl, fun _ => Or.inr rfl⟩

theorem quiet_bufQ (cs : CS) (q : List Nat) : Quiet cs { cs with bufQ := q } :=
  ⟨rfl, rfl, rfl, rfl, id, rfl, fun _ => Or.inr rfl⟩

/-- the holder (whose state has nothing in flight) releases the buffer lock -/
theorem quiet_releaseBuf (cs : CS) (t : Nat) (hE : Excl cs) (ht : cs.bufHolder = some t) (hold : (cs.task t).pc.inflight = []) :
    Quiet cs cs.releaseBuf where
  wire := by rw [releaseBuf_s]
  buffer := by rw [releaseBuf_s]
  log := releaseBuf_log cs
  failed := releaseBuf_failed cs
  closed := by rw [releaseBuf_s]; exact id
  infl := by
    have hold' : cs.inflight = [] := by unfold CS.inflight; rw [ht]; exact hold
    rw [hold']
    unfold CS.inflight
    cases hb : cs.releaseBuf.bufHolder with
    | none => rfl
    | some w =>
      simp only
      rcases releaseBuf_spec cs w with e | ⟨_, fs, _, e⟩
      · rw [e]
        by_cases ew : w = t
        · rw [ew]; exact hold
        · exact inflight_nonholder cs hE w (by rw [ht]; intro e; cases e; exact ew rfl)
      · rw [e]; rfl
  all := fun t' => by
    rcases releaseBuf_spec cs t' with e | ⟨_, fs, _, e⟩
    · exact Or.inr (by rw [e])
    · exact Or.inl (by rw [e]; rfl)

theorem quiet_enterClose (cs : CS) (t : Nat) (k : CloseK) (hold : (cs.task t).pc.inflight = []) :
    Quiet cs (cs.enterClose t k) := by
  unfold CS.enterClose
  split
  · cases k with
    | op => exact quiet_finishOp cs t .ok hold
    | inWrite fs => exact quiet_setPC cs t _ rfl hold
  · exact (quiet_s cs { cs.s with closed := true } rfl rfl (fun _ => rfl)).trans (quiet_setPC _ t _ rfl hold)



theorem inflight_of_holder (cs : CS) (t : Nat) (ht : cs.bufHolder = some t) : cs.inflight = (cs.task t).pc.inflight := by
  unfold CS.inflight; rw [ht]

theorem WInv_micro (cs cs' : CS) (t : Nat) (h : WInv cs) (hm : micro cs t = some cs') : WInv cs' := by
  have hE : Excl cs' := Excl_micro cs cs' t h.excl hm
  have hold : (cs.task t).pc.holdsBuf = true → cs.bufHolder = some t := h.excl t
  unfold micro at hm
  simp only at hm
  split at hm
  · cases hm
  · -- idle
    rename_i hpc
    have h0 : (cs.task t).pc.inflight = [] := by rw [hpc]; rfl
    split at hm
    · cases hm; exact WInv_quiet h hE (quiet_setPC cs t _ rfl h0)
    · cases hm
      exact WInv_quiet h hE ((quiet_s cs { cs.s with buffering := false } rfl rfl id).trans (quiet_finishOp _ t _ h0))
    · split at hm
      · cases hm; exact WInv_quiet h hE (quiet_finishOp cs t _ h0)
      · cases hm; exact WInv_quiet h hE (quiet_submit cs t _ h0)
    · cases hm; exact WInv_quiet h hE (quiet_submit cs t _ h0)
    · cases hm; exact WInv_quiet h hE (quiet_submit cs t _ h0)
    · split at hm
      · cases hm
        refine WInv_quiet h hE ((quiet_setTask_keep cs t (fun k => { k with sids := k.sids ++ [none] }) (fun _ => rfl)).trans (quiet_finishOp _ t _ ?_))
        rw [setTask_task]; simp only [if_true]; exact h0
      · cases hm; exact WInv_quiet h hE (quiet_setPC cs t _ rfl h0)
    · cases hm; exact WInv_quiet h hE (quiet_enterClose cs t .op h0)
  · -- openChecked
    rename_i hpc
    have h0 : (cs.task t).pc.inflight = [] := by rw [hpc]; rfl
    cases hm
    have hreg : (cs.s.register).1.wire = cs.s.wire ∧ (cs.s.register).1.buffer = cs.s.buffer ∧ (cs.s.register).1.closed = cs.s.closed :=
      ⟨rfl, rfl, rfl⟩
    refine WInv_quiet h hE (((quiet_s cs (cs.s.register).1 hreg.1 hreg.2.1 (fun hc => by rw [hreg.2.2]; exact hc)).trans
      (quiet_setTask_keep _ t (fun k => { k with sids := k.sids ++ [some (cs.s.register).2.1] }) (fun _ => rfl))).trans (quiet_submit _ t _ ?_))
    rw [setTask_task]; simp only [if_true]; exact h0
  · -- enter
    rename_i fs hpc
    have h0 : (cs.task t).pc.inflight = [] := by rw [hpc]; rfl
    split at hm
    · rename_i hnone
      cases hm
      -- acquire: nothing was in flight, nothing is
      refine WInv_quiet h hE ?_
      refine ⟨rfl, rfl, rfl, rfl, id, ?_, ?_⟩
      · have : cs.inflight = [] := by unfold CS.inflight; rw [hnone]
        rw [this]
        unfold CS.inflight
        rw [setPC_bufHolder]
        simp only
        rw [setPC_pc]; simp [PC.inflight]
      · intro t'
        rw [setPC_pc]
        by_cases e : t' = t
        · subst e; simp [PC.inflight]
        · simp only [e, if_false]; exact Or.inr rfl
    · cases hm
      exact WInv_quiet h hE ((quiet_bufQ cs _).trans (quiet_setPC _ t _ rfl h0))
  · cases hm
  · -- locked []
    rename_i hpc
    have ht := hold (by rw [hpc]; rfl)
    have h0 : (cs.task t).pc.inflight = [] := by rw [hpc]; rfl
    cases hm
    refine WInv_quiet h hE ((quiet_releaseBuf cs t h.excl ht h0).trans (quiet_finishOp _ t _ ?_))
    rcases releaseBuf_spec cs t with e | ⟨_, fs, _, e⟩ <;> rw [e]
    · exact h0
    · rfl
  · -- locked (bytes :: fs)
    rename_i bytes fs hpc
    have ht := hold (by rw [hpc]; rfl)
    have h0 : (cs.task t).pc.inflight = [] := by rw [hpc]; rfl
    have hrel : ∀ (c : CS), (c.task t).pc = (cs.task t).pc → (c.releaseBuf.task t).pc.inflight = [] := by
      intro c hc
      rcases releaseBuf_spec c t with e | ⟨_, fs, _, e⟩ <;> rw [e]
      · rw [hc]; exact h0
      · rfl
    split at hm
    · cases hm
      exact WInv_quiet h hE ((quiet_releaseBuf cs t h.excl ht h0).trans (quiet_finishOp _ t _ (hrel cs rfl)))
    · rename_i hnc
      split at hm
      · -- buffering: the frame enters the buffer and the log together
        let c1 : CS := { cs with s := { cs.s with buffer := cs.s.buffer ++ bytes }, log := cs.log ++ [({ owner := some t, bytes := bytes } : Unit')] }
        have hc1 : WInv c1 := by
          refine ⟨h.excl, ?_, ?_, ?_⟩
          · intro hf
            have := h.eq hf
            show flatten cs.s.wire ++ cs.inflight ++ (cs.s.buffer ++ bytes) = enc (cs.log ++ [_])
            rw [enc_append, ← this]
            simp [enc, List.append_assoc]
          · intro hf; exact h.fail hf
          · show flatten cs.s.wire <+: enc (cs.log ++ [_])
            rw [enc_append]
            exact h.pre.trans (List.prefix_append _ _)
        have q1 : Quiet c1 c1.releaseBuf := quiet_releaseBuf c1 t hc1.excl ht h0
        split at hm
        · cases hm
          exact WInv_quiet hc1 hE (q1.trans (quiet_finishOp _ t _ (hrel c1 rfl)))
        · cases hm
          exact WInv_quiet hc1 hE (q1.trans (quiet_setPC _ t _ rfl (hrel c1 rfl)))
      · -- the write starts: buffer and frame become the bytes in flight, padding joins the log
        cases hm
        have hnf : cs.failed = false := by
          cases hf : cs.failed with
          | false => rfl
          | true => have := (h.fail hf).1; simp [this] at hnc
        obtain ⟨pw, pb, pc', pads, hflat⟩ := prepare_fields { cs.s with buffer := [] } (cs.s.buffer ++ bytes)
        have heq := h.eq hnf
        rw [inflight_of_holder cs t ht, h0, List.append_nil] at heq
        have hpad : (cs.s.buffer ++ bytes ++ flatten (pads.map wasteFrame)).drop (cs.s.buffer ++ bytes).length
            = flatten (pads.map wasteFrame) := by simp
        refine ⟨hE, ?_, ?_, ?_⟩
        · intro _
          rw [inflight_of_holder _ t (by rw [setPC_bufHolder]; exact ht)]
          rw [setPC_pc]; simp only [if_true, setPC_s, setPC_log, PC.inflight]
          rw [pw, pb, hflat, hpad]
          show flatten cs.s.wire ++ (cs.s.buffer ++ bytes ++ flatten (pads.map wasteFrame)) ++ [] = _
          rw [enc_append, enc_append, ← heq]
          by_cases hp : (flatten (pads.map wasteFrame)).isEmpty = true
          · have : flatten (pads.map wasteFrame) = [] := List.isEmpty_iff.mp hp
            simp [this, enc, List.append_assoc]
          · simp [hp, enc, List.append_assoc]
        · intro hf; rw [setPC_failed] at hf; rw [hnf] at hf; cases hf
        · rw [setPC_s, setPC_log]
          show flatten ({ cs.s with buffer := [] }.prepare (cs.s.buffer ++ bytes)).1.wire <+: _
          rw [pw, enc_append, enc_append]
          exact h.pre.trans ((List.prefix_append _ _).trans (List.prefix_append _ _))
  · -- preWr
    rename_i ps fs hpc
    have ht := hold (by rw [hpc]; rfl)
    cases hm
    refine WInv_quiet h hE ?_
    unfold CS.lockWrWrite
    have key : ∀ (c : CS) (pc : PC), Quiet cs c → c.bufHolder = some t → (∀ u, (c.task u).pc = (cs.task u).pc) →
        pc.inflight = flatten ps → Quiet cs (c.setPC t pc) := by
      intro c pc q hb hsame hpi
      refine ⟨q.wire, q.buffer, q.log, q.failed, q.closed, ?_, ?_⟩
      · rw [inflight_of_holder _ t (by rw [setPC_bufHolder]; exact hb), inflight_of_holder cs t ht, setPC_pc, hpc]
        simp only [if_true]; exact hpi
      · intro u
        rw [setPC_pc]
        by_cases e : u = t
        · subst e; simp only [if_true]; right; rw [hpc]; exact hpi
        · simp only [e, if_false]; right; rw [hsame u]
    split
    · exact key _ _ (quiet_wrFields cs _ _) ht (fun _ => rfl) rfl
    · exact key _ _ (quiet_wrFields cs _ _) ht (fun _ => rfl) rfl
  · cases hm
  · -- piece []
    rename_i fs hpc
    have h0 : (cs.task t).pc.inflight = [] := by rw [hpc]; rfl
    cases hm
    refine WInv_quiet h hE ((quiet_releaseWr cs).trans (quiet_setPC _ t _ rfl ?_))
    rw [(releaseWr_pc cs t).2]; exact h0
  · -- piece (p :: ps)
    rename_i p ps fs hpc
    have ht := hold (by rw [hpc]; rfl)
    have hinf : cs.inflight = p ++ flatten ps := by rw [inflight_of_holder cs t ht, hpc]; rfl
    split at hm
    · rename_i s' hs'
      obtain ⟨tw, tb, tc⟩ := transportWrite_fields cs.s s' p hs'
      -- after the write: state c1, with t still at `piece (p :: ps)` formally; we go directly to the final states
      have main : ∀ (c : CS), c.s = s' → c.log = cs.log → c.failed = cs.failed → c.bufHolder = some t →
          (c.task t).pc.inflight = flatten ps → (∀ u, u ≠ t → (c.task u).pc.inflight = (cs.task u).pc.inflight) → Excl c → WInv c := by
        intro c hs hl hf hb hpi hoth hEc
        refine ⟨hEc, ?_, ?_, ?_⟩
        · intro hff
          rw [inflight_of_holder c t hb, hpi, hs, tw, tb, hl, flatten_snoc]
          have := h.eq (hf ▸ hff)
          rw [hinf] at this
          rw [← this]; simp [List.append_assoc]
        · intro hff
          have := h.fail (hf ▸ hff)
          refine ⟨by rw [hs, tc]; exact this.1, fun u => ?_⟩
          by_cases e : u = t
          · subst e
            rw [hpi]
            have h2 := this.2 u
            rw [hpc] at h2
            have : p ++ flatten ps = [] := h2
            exact (List.append_eq_nil_iff.mp this).2
          · rw [hoth u e]; exact this.2 u
        · rw [hs, tw, hl, flatten_snoc]
          cases hff : cs.failed with
          | false =>
            have := h.eq hff
            rw [hinf] at this
            rw [← this]
            rw [List.append_assoc, List.append_assoc, ← List.append_assoc (flatten cs.s.wire) p]
            exact (List.prefix_append _ _)
          | true =>
            have h2 := (h.fail hff).2 t
            rw [hpc] at h2
            have : p ++ flatten ps = [] := h2
            rw [(List.append_eq_nil_iff.mp this).1, List.append_nil]
            exact h.pre
      split at hm
      · rename_i hps
        cases hm
        have hps' : ps = [] := List.isEmpty_iff.mp hps
        apply main _ (by rw [setPC_s, releaseWr_s]) (by rw [setPC_log, releaseWr_log]) (by rw [setPC_failed, releaseWr_failed])
          (by rw [setPC_bufHolder, releaseWr_bufHolder]; exact ht) _ _ hE
        · rw [setPC_pc]; simp [PC.inflight, hps']
        · intro u e; rw [setPC_pc]; simp only [e, if_false]; exact (releaseWr_pc _ u).2
      · cases hm
        apply main _ (by rw [setPC_s]) (by rw [setPC_log]) (by rw [setPC_failed]) (by rw [setPC_bufHolder]; exact ht) _ _ hE
        · rw [setPC_pc]; simp [PC.inflight]
        · intro u e; rw [setPC_pc]; simp only [e, if_false]; rfl
    · -- the transport refuses: the rest of the write is dropped, the session closes
      cases hm
      have hothers : ∀ u, u ≠ t → (cs.task u).pc.inflight = [] := fun u e =>
        inflight_nonholder cs h.excl u (by rw [ht]; intro e'; cases e'; exact e rfl)
      have hpcs : ∀ u, ((({ cs with failed := true } : CS).releaseWr.enterClose t (.inWrite fs)).task u).pc.inflight = [] := by
        intro u
        unfold CS.enterClose
        split
        · rw [setPC_pc]
          by_cases e : u = t
          · subst e; simp [PC.inflight]
          · simp only [e, if_false]; rw [(releaseWr_pc _ u).2]; exact hothers u e
        · rw [setPC_pc]
          by_cases e : u = t
          · subst e; simp [PC.inflight]
          · simp only [e, if_false]
            show ((({ cs with failed := true } : CS).releaseWr.task u).pc).inflight = []
            rw [(releaseWr_pc _ u).2]; exact hothers u e
      have hfields : (({ cs with failed := true } : CS).releaseWr.enterClose t (.inWrite fs)).s.wire = cs.s.wire ∧
          (({ cs with failed := true } : CS).releaseWr.enterClose t (.inWrite fs)).log = cs.log ∧
          (({ cs with failed := true } : CS).releaseWr.enterClose t (.inWrite fs)).failed = true ∧
          (({ cs with failed := true } : CS).releaseWr.enterClose t (.inWrite fs)).s.closed = true := by
        unfold CS.enterClose
        split
        · rename_i hc
          refine ⟨by rw [setPC_s, releaseWr_s], by rw [setPC_log, releaseWr_log], by rw [setPC_failed, releaseWr_failed], ?_⟩
          rw [setPC_s]; exact hc
        · refine ⟨by rw [setPC_s]; show (CS.releaseWr _).s.wire = _; rw [releaseWr_s], by rw [setPC_log]; show (CS.releaseWr _).log = _; rw [releaseWr_log],
            by rw [setPC_failed]; show (CS.releaseWr _).failed = _; rw [releaseWr_failed], by rw [setPC_s]⟩
      refine ⟨hE, ?_, ?_, ?_⟩
      · intro hf; rw [hfields.2.2.1] at hf; cases hf
      · intro _; exact ⟨hfields.2.2.2, hpcs⟩
      · rw [hfields.1, hfields.2.1]; exact h.pre
  · -- wdone
    rename_i r fs hpc
    have ht := hold (by rw [hpc]; rfl)
    have h0 : (cs.task t).pc.inflight = [] := by rw [hpc]; rfl
    have hrel : (cs.releaseBuf.task t).pc.inflight = [] := by
      rcases releaseBuf_spec cs t with e | ⟨_, fs, _, e⟩ <;> rw [e]
      · exact h0
      · rfl
    try simp only at hm
    split at hm
    · cases hm
      exact WInv_quiet h hE ((quiet_releaseBuf cs t h.excl ht h0).trans (quiet_setPC _ t _ rfl hrel))
    · cases hm
      exact WInv_quiet h hE ((quiet_releaseBuf cs t h.excl ht h0).trans (quiet_finishOp _ t _ hrel))
  · -- cflag
    rename_i k hpc
    have h0 : (cs.task t).pc.inflight = [] := by rw [hpc]; rfl
    cases hm
    have hd : cs.s.closeDrain.wire = cs.s.wire ∧ cs.s.closeDrain.buffer = cs.s.buffer ∧ cs.s.closeDrain.closed = cs.s.closed := ⟨rfl, rfl, rfl⟩
    exact WInv_quiet h hE ((quiet_s cs cs.s.closeDrain hd.1 hd.2.1 (fun hc => by rw [hd.2.2]; exact hc)).trans (quiet_setPC _ t _ rfl h0))
  · -- cdrained
    rename_i k hpc
    have h0 : (cs.task t).pc.inflight = [] := by rw [hpc]; rfl
    split at hm
    · cases hm; exact WInv_quiet h hE ((quiet_wrFields cs _ _).trans (quiet_setPC _ t _ rfl h0))
    · cases hm; exact WInv_quiet h hE ((quiet_wrFields cs _ _).trans (quiet_setPC _ t _ rfl h0))
  · cases hm
  · -- cshut
    rename_i k hpc
    have h0 : (cs.task t).pc.inflight = [] := by rw [hpc]; rfl
    have q0 : Quiet cs ({ cs with s := { cs.s with shut := true } } : CS).releaseWr :=
      (quiet_s cs { cs.s with shut := true } rfl rfl id).trans (quiet_releaseWr _)
    have h1 : ((({ cs with s := { cs.s with shut := true } } : CS).releaseWr.task t).pc).inflight = [] := by
      rw [(releaseWr_pc _ t).2]; exact h0
    cases k with
    | op => cases hm; exact WInv_quiet h hE (q0.trans (quiet_finishOp _ t _ h1))
    | inWrite fs => cases hm; exact WInv_quiet h hE (q0.trans (quiet_setPC _ t _ rfl h1))



/-- a state up to the lock hand-offs another task can cause -/
def PC.norm : PC → PC
  | .waitBuf fs => .locked fs
  | .waitWr ps fs => .piece ps fs
  | .cwait k => .cshut k
  | pc => pc

/-- what a step of task `t` may do to the other tasks: hand them a lock, nothing else -/
def SameOthers (t : Nat) (cs cs' : CS) : Prop :=
  ∀ u, u ≠ t → (cs'.task u).pc.norm = (cs.task u).pc.norm ∧ (cs'.task u).submitted = (cs.task u).submitted ∧
    (cs'.task u).ops = (cs.task u).ops ∧ (cs'.task u).results = (cs.task u).results ∧ (cs'.task u).sids = (cs.task u).sids

theorem SameOthers.rfl' (t : Nat) (cs : CS) : SameOthers t cs cs := fun _ _ => ⟨rfl, rfl, rfl, rfl, rfl⟩

theorem SameOthers.trans {t : Nat} {a b c : CS} (h1 : SameOthers t a b) (h2 : SameOthers t b c) : SameOthers t a c :=
  fun u hu => ⟨(h2 u hu).1.trans (h1 u hu).1, (h2 u hu).2.1.trans (h1 u hu).2.1, (h2 u hu).2.2.1.trans (h1 u hu).2.2.1,
    (h2 u hu).2.2.2.1.trans (h1 u hu).2.2.2.1, (h2 u hu).2.2.2.2.trans (h1 u hu).2.2.2.2⟩

theorem SameOthers.then {t : Nat} {a b c : CS} (h2 : SameOthers t b c) (h1 : SameOthers t a b) : SameOthers t a c :=
  SameOthers.trans h1 h2

theorem so_setTask (cs : CS) (t : Nat) (f : Task → Task) : SameOthers t cs (cs.setTask t f) := by
  intro u hu
  have : (cs.setTask t f).task u = cs.task u := by rw [setTask_task]; simp [hu]
  rw [this]; exact ⟨rfl, rfl, rfl, rfl, rfl⟩

/-- the same, after a change that does not touch the tasks -/
theorem so_setTask' (cs c1 : CS) (t : Nat) (f : Task → Task) (h : c1.tasks = cs.tasks) : SameOthers t cs (c1.setTask t f) := by
  intro u hu
  have : (c1.setTask t f).task u = cs.task u := by rw [setTask_task]; simp only [hu, if_false]; show c1.tasks u = cs.tasks u; rw [h]
  rw [this]; exact ⟨rfl, rfl, rfl, rfl, rfl⟩
theorem so_setPC (cs : CS) (t : Nat) (pc : PC) : SameOthers t cs (cs.setPC t pc) := so_setTask cs t _
theorem so_finishOp (cs : CS) (t : Nat) (r : Res) : SameOthers t cs (cs.finishOp t r) := so_setTask cs t _
theorem so_submit (cs : CS) (t : Nat) (fs : List Bytes) : SameOthers t cs (cs.submit t fs) := so_setTask cs t _

theorem releaseBuf_task (cs : CS) (u : Nat) :
    (cs.releaseBuf.task u).pc.norm = (cs.task u).pc.norm ∧ (cs.releaseBuf.task u).submitted = (cs.task u).submitted ∧
    (cs.releaseBuf.task u).ops = (cs.task u).ops ∧ (cs.releaseBuf.task u).results = (cs.task u).results ∧
    (cs.releaseBuf.task u).sids = (cs.task u).sids := by
  unfold CS.releaseBuf
  split
  · exact ⟨rfl, rfl, rfl, rfl, rfl⟩
  · rename_i w q _
    simp only
    split
    · rename_i fs hpc
      unfold CS.setPC
      rw [setTask_task]
      by_cases e : u = w
      · subst e
        simp only [if_true]
        have : (cs.task u).pc = .waitBuf fs := hpc
        rw [this]
        exact ⟨rfl, rfl, rfl, rfl, rfl⟩
      · simp only [e, if_false]; exact ⟨rfl, rfl, rfl, rfl, rfl⟩
    · exact ⟨rfl, rfl, rfl, rfl, rfl⟩

theorem releaseWr_task (cs : CS) (u : Nat) :
    (cs.releaseWr.task u).pc.norm = (cs.task u).pc.norm ∧ (cs.releaseWr.task u).submitted = (cs.task u).submitted ∧
    (cs.releaseWr.task u).ops = (cs.task u).ops ∧ (cs.releaseWr.task u).results = (cs.task u).results ∧
    (cs.releaseWr.task u).sids = (cs.task u).sids := by
  unfold CS.releaseWr
  split
  · exact ⟨rfl, rfl, rfl, rfl, rfl⟩
  · rename_i w q _
    simp only
    split
    · rename_i ps fs hpc
      unfold CS.setPC
      rw [setTask_task]
      by_cases e : u = w
      · subst e
        simp only [if_true]
        have : (cs.task u).pc = .waitWr ps fs := hpc
        rw [this]
        exact ⟨rfl, rfl, rfl, rfl, rfl⟩
      · simp only [e, if_false]; exact ⟨rfl, rfl, rfl, rfl, rfl⟩
    · rename_i k hpc
      unfold CS.setPC
      rw [setTask_task]
      by_cases e : u = w
      · subst e
        simp only [if_true]
        have : (cs.task u).pc = .cwait k := hpc
        rw [this]
        exact ⟨rfl, rfl, rfl, rfl, rfl⟩
      · simp only [e, if_false]; exact ⟨rfl, rfl, rfl, rfl, rfl⟩
    · exact ⟨rfl, rfl, rfl, rfl, rfl⟩

theorem so_releaseBuf (cs : CS) (t : Nat) : SameOthers t cs cs.releaseBuf := fun u _ => releaseBuf_task cs u
theorem so_releaseWr (cs : CS) (t : Nat) : SameOthers t cs cs.releaseWr := fun u _ => releaseWr_task cs u
theorem so_releaseBuf' (cs c1 : CS) (t : Nat) (h : c1.tasks = cs.tasks) : SameOthers t cs c1.releaseBuf := by
  intro u _
  have := releaseBuf_task c1 u
  have e : c1.task u = cs.task u := by show c1.tasks u = cs.tasks u; rw [h]
  rw [e] at this; exact this
theorem so_releaseWr' (cs c1 : CS) (t : Nat) (h : c1.tasks = cs.tasks) : SameOthers t cs c1.releaseWr := by
  intro u _
  have := releaseWr_task c1 u
  have e : c1.task u = cs.task u := by show c1.tasks u = cs.tasks u; rw [h]
  rw [e] at this; exact this

theorem so_enterClose (cs : CS) (t : Nat) (k : CloseK) : SameOthers t cs (cs.enterClose t k) := by
  unfold CS.enterClose
  split
  · cases k with
    | op => exact so_finishOp cs t _
    | inWrite fs => exact so_setPC cs t _
  · exact so_setTask' cs _ t _ rfl

theorem so_lockWrWrite (cs : CS) (t : Nat) (ps fs : List Bytes) : SameOthers t cs (cs.lockWrWrite t ps fs) := by
  unfold CS.lockWrWrite
  split
  · exact so_setTask' cs _ t _ rfl
  · exact so_setTask' cs _ t _ rfl

/-- a step of `t` leaves every other task alone, up to lock hand-offs -/
theorem micro_others (cs cs' : CS) (t : Nat) (hm : micro cs t = some cs') : SameOthers t cs cs' := by
  unfold micro at hm
  simp only at hm
  split at hm
  · cases hm
  · split at hm
    · cases hm; exact so_setPC cs t _
    · cases hm; exact so_setTask' cs _ t _ rfl
    · split at hm
      · cases hm; exact so_finishOp cs t _
      · cases hm; exact so_submit cs t _
    · cases hm; exact so_submit cs t _
    · cases hm; exact so_submit cs t _
    · split at hm
      · cases hm; exact SameOthers.then (so_finishOp _ t _) (so_setTask cs t _)
      · cases hm; exact so_setPC cs t _
    · cases hm; exact so_enterClose cs t _
  · cases hm
    exact SameOthers.then (so_submit _ t _) (so_setTask' cs _ t _ rfl)
  · split at hm
    · cases hm; exact so_setTask' cs _ t _ rfl
    · cases hm; exact so_setTask' cs _ t _ rfl
  · cases hm
  · cases hm; exact SameOthers.then (so_finishOp _ t _) (so_releaseBuf cs t)
  · split at hm
    · cases hm; exact SameOthers.then (so_finishOp _ t _) (so_releaseBuf cs t)
    · split at hm
      · split at hm
        · cases hm; exact SameOthers.then (so_finishOp _ t _) (so_releaseBuf' cs _ t rfl)
        · cases hm; exact SameOthers.then (so_setPC _ t _) (so_releaseBuf' cs _ t rfl)
      · cases hm; exact so_setTask' cs _ t _ rfl
  · cases hm; exact so_lockWrWrite cs t _ _
  · cases hm
  · cases hm; exact SameOthers.then (so_setPC _ t _) (so_releaseWr cs t)
  · split at hm
    · split at hm
      · cases hm; exact SameOthers.then (so_setPC _ t _) (so_releaseWr' cs _ t rfl)
      · cases hm; exact so_setTask' cs _ t _ rfl
    · cases hm; exact SameOthers.then (so_enterClose _ t _) (so_releaseWr' cs _ t rfl)
  · try simp only at hm
    split at hm
    · cases hm; exact SameOthers.then (so_setPC _ t _) (so_releaseBuf cs t)
    · cases hm; exact SameOthers.then (so_finishOp _ t _) (so_releaseBuf cs t)
  · cases hm; exact so_setTask' cs _ t _ rfl
  · split at hm
    · cases hm; exact so_setTask' cs _ t _ rfl
    · cases hm; exact so_setTask' cs _ t _ rfl
  · cases hm
  · rename_i k _
    cases k with
    | op => cases hm; exact SameOthers.then (so_finishOp _ t _) (so_releaseWr' cs _ t rfl)
    | inWrite fs => cases hm; exact SameOthers.then (so_setPC _ t _) (so_releaseWr' cs _ t rfl)



theorem enterClose_n (cs : CS) (t : Nat) (k : CloseK) : (cs.enterClose t k).n = cs.n := by
  unfold CS.enterClose; split
  · cases k <;> rfl
  · rfl

theorem lockWrWrite_n (cs : CS) (t : Nat) (ps fs : List Bytes) : (cs.lockWrWrite t ps fs).n = cs.n := by
  unfold CS.lockWrWrite; split <;> rfl

theorem micro_n (cs cs' : CS) (t : Nat) (hm : micro cs t = some cs') : cs'.n = cs.n := by
  unfold micro at hm
  simp only at hm
  repeat' split at hm
  all_goals first
    | (cases hm; done)
    | (cases hm; simp only [setPC_n, finishOp_n, submit_n, setTask_n, releaseBuf_n, releaseWr_n, enterClose_n, lockWrWrite_n])


/-! ### inbound frames -/

open Gen in

/-- inbound commands whose handling touches only stream objects and tables -/
def inertCmd : Cmd → Bool
  | .push | .syn | .synAck | .fin | .waste | .heartResponse | .serverSettings => true
  | _ => false

/-- the part of the session the write / close paths and their invariants look at -/
def Sess.core (s : Sess) : List Bytes × Bytes × Bool × Bool × Scheme × Bool × Nat × UInt64 × Option Nat × Bool :=
  (s.wire, s.buffer, s.closed, s.shut, s.scheme, s.buffering, s.pktCounter, s.rng, s.wrBudget, s.sendPadding)

theorem modObj_core (s : Sess) (h : Nat) (f : Obj → Obj) : (s.modObj h f).core = s.core := by
  unfold Sess.modObj; rfl
theorem dropRecvEntry_core (s : Sess) (k : Nat) : (s.dropRecvEntry k).core = s.core := by
  unfold Sess.dropRecvEntry; split <;> first | rfl | exact modObj_core _ _ _
theorem failPendingOpen_core (s : Sess) (k : Nat) : (s.failPendingOpen k).core = s.core := by
  unfold Sess.failPendingOpen; split <;> first | rfl | exact modObj_core _ _ _

theorem handleFrame_inert (s : Sess) (f : Frame) (hq : inertCmd f.cmd = true) : (s.handleFrame f).1.core = s.core := by
  unfold Sess.handleFrame
  cases hc : f.cmd <;> simp only [hc, inertCmd] at hq ⊢ <;> try (cases hq)
  all_goals (repeat' split)
  all_goals first
    | rfl
    | exact modObj_core _ _ _
    | (show (Sess.dropRecvEntry s f.sid).core = _; exact dropRecvEntry_core s f.sid)
    | (show ((s.dropRecvEntry f.sid).failPendingOpen f.sid).core = _; rw [failPendingOpen_core, dropRecvEntry_core])


/-! ### reachability -/

inductive Step : CS → CS → Prop where
  /-- task `t` takes one atomic action -/
  | act (cs cs' : CS) (t : Nat) : micro cs t = some cs' → Step cs cs'
  /-- a new task appears (the application spawns one; the receive loop reacts to EOF / an error / an Alert) -/
  | spawn (cs : CS) (k : Task) : k.pc = .idle → k.submitted = [] → k.sids = [] → Step cs (cs.spawn k)
  /-- the transport changes its mind about accepting writes -/
  | env (cs : CS) (b : Option Nat) : Step cs { cs with s := { cs.s with wrBudget := b } }
  /-- the receive loop handles an inbound frame that needs no write and does not end the session
  (data, SYN, SYNACK, FIN, padding, keep-alive answer, server settings): it touches stream objects
  and tables only, at any moment, without taking the locks of the write path -/
  | recv (cs : CS) (f : Frame) : inertCmd f.cmd = true → Step cs { cs with s := (cs.s.handleFrame f).1 }

inductive Reach (c0 : CS) : CS → Prop where
  | refl : Reach c0 c0
  | step {cs cs' : CS} : Reach c0 cs → Step cs cs' → Reach c0 cs'

theorem spawn_task (cs : CS) (k : Task) (u : Nat) : ((cs.spawn k).task u) = if u = cs.n then k else cs.task u := rfl

theorem WInv_spawn (cs : CS) (k : Task) (h : WInv cs) (hk : k.pc = .idle) (hfresh : cs.bufHolder ≠ some cs.n) : WInv (cs.spawn k) := by
  have hpc : ∀ u, ((cs.spawn k).task u).pc.inflight = (cs.task u).pc.inflight ∨ ((cs.spawn k).task u).pc.inflight = [] := by
    intro u; rw [spawn_task]; split
    · right; rw [hk]; rfl
    · left; rfl
  refine ⟨?_, ?_, ?_, h.pre⟩
  · intro u hu
    rw [spawn_task] at hu
    split at hu
    · rw [hk] at hu; cases hu
    · exact h.excl u hu
  · intro hf
    have : (cs.spawn k).inflight = cs.inflight := by
      unfold CS.inflight
      show (match cs.bufHolder with | some t => ((cs.spawn k).task t).pc.inflight | none => []) = _
      cases hb : cs.bufHolder with
      | none => rfl
      | some t =>
        simp only
        rw [spawn_task]
        have : t ≠ cs.n := fun e => hfresh (by rw [hb, e])
        simp [this]
    rw [this]; exact h.eq hf
  · intro hf
    refine ⟨(h.fail hf).1, fun u => ?_⟩
    rcases hpc u with e | e
    · rw [e]; exact (h.fail hf).2 u
    · exact e

theorem WInv_env (cs : CS) (b : Option Nat) (h : WInv cs) : WInv { cs with s := { cs.s with wrBudget := b } } :=
  ⟨h.excl, h.eq, h.fail, h.pre⟩

/-- holders are existing tasks -/
def HoldersOk (cs : CS) : Prop := (∀ t, cs.bufHolder = some t → t < cs.n) ∧ (∀ t, t ∈ cs.bufQ → t < cs.n)



def accepted (cs : CS) (t : Nat) : List Bytes := (cs.log.filter (fun u => u.owner == some t)).map (·.bytes)

def PC.pending : PC → List Bytes
  | .enter fs | .waitBuf fs | .locked fs => fs
  | .preWr _ fs | .waitWr _ fs | .piece _ fs | .wdone _ fs => fs.tail
  | .cflag (.inWrite fs) | .cdrained (.inWrite fs) | .cwait (.inWrite fs) | .cshut (.inWrite fs) => fs.tail
  | _ => []

/-- states that only exist in a closed session -/
def PC.afterClose : PC → Bool
  | .wdone r _ => r != .ok
  | .cflag _ | .cdrained _ | .cwait _ | .cshut _ => true
  | _ => false

theorem pending_norm (pc : PC) : pc.norm.pending = pc.pending := by
  cases pc <;> first | rfl | (rename_i k; cases k <;> rfl)
theorem afterClose_norm (pc : PC) : pc.norm.afterClose = pc.afterClose := by
  cases pc <;> rfl

structure OrdInv (cs : CS) : Prop where
  pre : ∀ t, accepted cs t <+: (cs.task t).submitted
  eq : cs.s.closed = false → ∀ t, (cs.task t).submitted = accepted cs t ++ (cs.task t).pc.pending
  ac : ∀ t, (cs.task t).pc.afterClose = true → cs.s.closed = true

theorem others_pending {t : Nat} {cs cs' : CS} (hso : SameOthers t cs cs') (u : Nat) (hu : u ≠ t) :
    (cs'.task u).pc.pending = (cs.task u).pc.pending ∧ (cs'.task u).pc.afterClose = (cs.task u).pc.afterClose ∧
    (cs'.task u).submitted = (cs.task u).submitted := by
  obtain ⟨h1, h2, _, _, _⟩ := hso u hu
  refine ⟨?_, ?_, h2⟩
  · rw [← pending_norm, h1, pending_norm]
  · rw [← afterClose_norm, h1, afterClose_norm]

theorem accepted_append (cs : CS) (add : List Unit') (u : Nat) (c' : CS) (hl : c'.log = cs.log ++ add) :
    accepted c' u = accepted cs u ++ (add.filter (fun x => x.owner == some u)).map (·.bytes) := by
  unfold accepted; rw [hl, List.filter_append, List.map_append]

/-- a step of `t` that adds nothing to the log and does not lose pending frames while the session is open -/
theorem ord_quiet {t : Nat} {cs cs' : CS} (h : OrdInv cs) (hso : SameOthers t cs cs') (hlog : cs'.log = cs.log)
    (hcl : cs.s.closed = true → cs'.s.closed = true)
    (hsub : (cs'.task t).submitted = (cs.task t).submitted)
    (hpend : cs'.s.closed = false → (cs'.task t).pc.pending = (cs.task t).pc.pending)
    (hac : (cs'.task t).pc.afterClose = true → cs'.s.closed = true) : OrdInv cs' := by
  have hacc : ∀ u, accepted cs' u = accepted cs u := fun u => by unfold accepted; rw [hlog]
  refine ⟨fun u => ?_, fun hc u => ?_, fun u hu => ?_⟩
  · rw [hacc]
    by_cases e : u = t
    · subst e; rw [hsub]; exact h.pre u
    · rw [(others_pending hso u e).2.2]; exact h.pre u
  · have hc0 : cs.s.closed = false := by
      cases hcc : cs.s.closed with
      | false => rfl
      | true => rw [hcl hcc] at hc; cases hc
    rw [hacc]
    by_cases e : u = t
    · subst e; rw [hsub, hpend hc]; exact h.eq hc0 u
    · rw [(others_pending hso u e).2.2, (others_pending hso u e).1]; exact h.eq hc0 u
  · by_cases e : u = t
    · subst e; exact hac hu
    · rw [(others_pending hso u e).2.1] at hu; exact hcl (h.ac u hu)

/-- a step of `t` that submits `new` (nothing was pending) -/
theorem ord_submit {t : Nat} {cs cs' : CS} (new : List Bytes) (h : OrdInv cs) (hso : SameOthers t cs cs') (hlog : cs'.log = cs.log)
    (hcl : cs'.s.closed = cs.s.closed)
    (hsub : (cs'.task t).submitted = (cs.task t).submitted ++ new)
    (hp0 : (cs.task t).pc.pending = []) (hp1 : (cs'.task t).pc.pending = new)
    (hac : (cs'.task t).pc.afterClose = false) : OrdInv cs' := by
  have hacc : ∀ u, accepted cs' u = accepted cs u := fun u => by unfold accepted; rw [hlog]
  refine ⟨fun u => ?_, fun hc u => ?_, fun u hu => ?_⟩
  · rw [hacc]
    by_cases e : u = t
    · subst e; rw [hsub]; exact (h.pre u).trans (List.prefix_append _ _)
    · rw [(others_pending hso u e).2.2]; exact h.pre u
  · rw [hcl] at hc
    rw [hacc]
    by_cases e : u = t
    · subst e; rw [hsub, hp1, h.eq hc u, hp0, List.append_nil]
    · rw [(others_pending hso u e).2.2, (others_pending hso u e).1]; exact h.eq hc u
  · by_cases e : u = t
    · subst e; rw [hac] at hu; cases hu
    · rw [(others_pending hso u e).2.1] at hu; rw [hcl]; exact h.ac u hu

/-- the step at which `write_frame` accepts the head of `t`'s pending frames (the session is open) -/
theorem ord_accept {t : Nat} {cs cs' : CS} (b : Bytes) (pad : List Unit') (h : OrdInv cs) (hso : SameOthers t cs cs')
    (hlog : cs'.log = cs.log ++ [({ owner := some t, bytes := b } : Unit')] ++ pad) (hpad : ∀ x ∈ pad, x.owner = none)
    (hc0 : cs.s.closed = false) (hcl : cs'.s.closed = false)
    (hsub : (cs'.task t).submitted = (cs.task t).submitted)
    (hp : (cs.task t).pc.pending = b :: (cs'.task t).pc.pending)
    (hac : (cs'.task t).pc.afterClose = false) : OrdInv cs' := by
  have hfil : ∀ u, (pad.filter (fun x => x.owner == some u)) = [] := by
    intro u
    apply List.filter_eq_nil_iff.mpr
    intro x hx; rw [hpad x hx]; simp
  have hacc : ∀ u, accepted cs' u = accepted cs u ++ (if u = t then [b] else []) := by
    intro u
    rw [accepted_append cs ([({ owner := some t, bytes := b } : Unit')] ++ pad) u cs' (by rw [hlog, List.append_assoc])]
    rw [List.filter_append, hfil u, List.append_nil]
    by_cases e : u = t
    · subst e; simp
    · have : (some t == some u) = false := by simp; exact fun e' => e e'.symm
      simp [e, this]
  have eqs : ∀ u, (cs'.task u).submitted = accepted cs' u ++ (cs'.task u).pc.pending := by
    intro u
    rw [hacc]
    by_cases e : u = t
    · subst e; simp only [if_true]; rw [hsub, h.eq hc0 u, hp]; simp
    · simp only [e, if_false, List.append_nil]
      rw [(others_pending hso u e).2.2, (others_pending hso u e).1]; exact h.eq hc0 u
  refine ⟨fun u => ?_, fun _ u => eqs u, fun u hu => ?_⟩
  · rw [eqs u]; exact List.prefix_append _ _
  · by_cases e : u = t
    · subst e; rw [hac] at hu; cases hu
    · rw [(others_pending hso u e).2.1] at hu
      have := h.ac u hu; rw [hc0] at this; cases this



theorem setPC_self (cs : CS) (t : Nat) (pc : PC) : (cs.setPC t pc).task t = { cs.task t with pc := pc } := by
  unfold CS.setPC; rw [setTask_task]; simp
theorem finishOp_self (cs : CS) (t : Nat) (r : Res) :
    (cs.finishOp t r).task t = { cs.task t with pc := .idle, ops := (cs.task t).ops.tail, results := (cs.task t).results ++ [r] } := by
  unfold CS.finishOp; rw [setTask_task]; simp
theorem submit_self (cs : CS) (t : Nat) (fs : List Bytes) :
    (cs.submit t fs).task t = { cs.task t with pc := .enter fs, submitted := (cs.task t).submitted ++ fs } := by
  unfold CS.submit; rw [setTask_task]; simp

theorem enterClose_log (cs : CS) (t : Nat) (k : CloseK) : (cs.enterClose t k).log = cs.log := by
  unfold CS.enterClose; split
  · cases k <;> rfl
  · rfl
theorem enterClose_closed (cs : CS) (t : Nat) (k : CloseK) : (cs.enterClose t k).s.closed = true := by
  unfold CS.enterClose; split
  · rename_i h; cases k <;> exact h
  · rfl
theorem enterClose_submitted (cs : CS) (t : Nat) (k : CloseK) : ((cs.enterClose t k).task t).submitted = (cs.task t).submitted := by
  unfold CS.enterClose; split
  · cases k
    · rw [finishOp_self]
    · rw [setPC_self]
  · rw [setPC_self]; rfl

theorem OrdInv_micro (cs cs' : CS) (t : Nat) (h : OrdInv cs) (hm : micro cs t = some cs') : OrdInv cs' := by
  have hso := micro_others cs cs' t hm
  unfold micro at hm
  simp only at hm
  split at hm
  · cases hm
  · -- idle
    rename_i hpc
    have hp0 : (cs.task t).pc.pending = [] := by rw [hpc]; rfl
    split at hm
    · cases hm
      exact ord_quiet h hso rfl id (by rw [setPC_self]) (fun _ => by rw [setPC_self, hp0]; rfl) (by rw [setPC_self]; intro hh; cases hh)
    · cases hm
      exact ord_quiet h hso rfl id (by rw [finishOp_self]; rfl) (fun _ => by rw [finishOp_self, hp0]; rfl) (by rw [finishOp_self]; intro hh; cases hh)
    · split at hm
      · cases hm
        exact ord_quiet h hso rfl id (by rw [finishOp_self]) (fun _ => by rw [finishOp_self, hp0]; rfl) (by rw [finishOp_self]; intro hh; cases hh)
      · cases hm
        exact ord_submit _ h hso rfl rfl (by rw [submit_self]) hp0 (by rw [submit_self]; rfl) (by rw [submit_self]; rfl)
    · cases hm
      exact ord_submit _ h hso rfl rfl (by rw [submit_self]) hp0 (by rw [submit_self]; rfl) (by rw [submit_self]; rfl)
    · cases hm
      exact ord_submit _ h hso rfl rfl (by rw [submit_self]) hp0 (by rw [submit_self]; rfl) (by rw [submit_self]; rfl)
    · split at hm
      · cases hm
        refine ord_quiet h hso rfl id ?_ (fun _ => ?_) ?_
        · rw [finishOp_self]; show ((cs.setTask t _).task t).submitted = _; rw [setTask_task]; simp
        · rw [finishOp_self, hp0]; rfl
        · rw [finishOp_self]; intro hh; cases hh
      · cases hm
        exact ord_quiet h hso rfl id (by rw [setPC_self]) (fun _ => by rw [setPC_self, hp0]; rfl) (by rw [setPC_self]; intro hh; cases hh)
    · cases hm
      refine ord_quiet h hso (enterClose_log cs t _) (fun _ => enterClose_closed cs t _) (enterClose_submitted cs t _) ?_ (fun _ => enterClose_closed cs t _)
      intro hc; rw [enterClose_closed] at hc; cases hc
  · -- openChecked
    rename_i hpc
    have hp0 : (cs.task t).pc.pending = [] := by rw [hpc]; rfl
    cases hm
    refine ord_submit [encodeD { cmd := .syn, sid := cs.s.register.2.1, data := [] }] h hso rfl rfl ?_ hp0 (by rw [submit_self]; rfl) (by rw [submit_self]; rfl)
    rw [submit_self]
    show ((CS.setTask _ t _).task t).submitted ++ _ = _
    rw [setTask_task]; simp
    rfl
  · -- enter
    rename_i fs hpc
    split at hm
    · cases hm
      exact ord_quiet h hso rfl id (by rw [setPC_self]; rfl) (fun _ => by rw [setPC_self, hpc]; rfl) (by rw [setPC_self]; intro hh; cases hh)
    · cases hm
      exact ord_quiet h hso rfl id (by rw [setPC_self]; rfl) (fun _ => by rw [setPC_self, hpc]; rfl) (by rw [setPC_self]; intro hh; cases hh)
  · cases hm
  · -- locked []
    rename_i hpc
    cases hm
    refine ord_quiet h hso (by rw [finishOp_log, releaseBuf_log]) (by rw [finishOp_s, releaseBuf_s]; exact id) ?_ (fun _ => ?_) ?_
    · rw [finishOp_self]; exact (releaseBuf_task cs t).2.1
    · rw [finishOp_self, hpc]; rfl
    · rw [finishOp_self]; intro hh; cases hh
  · -- locked (b :: fs)
    rename_i b fs hpc
    split at hm
    · rename_i hc
      cases hm
      refine ord_quiet h hso (by rw [finishOp_log, releaseBuf_log]) (by rw [finishOp_s, releaseBuf_s]; exact id) ?_ (fun hcc => ?_) ?_
      · rw [finishOp_self]; exact (releaseBuf_task cs t).2.1
      · rw [finishOp_s, releaseBuf_s, hc] at hcc; cases hcc
      · rw [finishOp_self]; intro hh; cases hh
    · rename_i hc
      have hc0 : cs.s.closed = false := by cases hcc : cs.s.closed <;> simp_all
      split at hm
      · split at hm
        · rename_i hfs
          have hfs' : fs = [] := List.isEmpty_iff.mp hfs
          cases hm
          refine ord_accept b [] h hso (by rw [finishOp_log, releaseBuf_log]; simp) (by simp) hc0 (by rw [finishOp_s, releaseBuf_s]; exact hc0) ?_ ?_ ?_
          · rw [finishOp_self]; exact (releaseBuf_task _ t).2.1
          · rw [finishOp_self, hpc, hfs']; rfl
          · rw [finishOp_self]; rfl
        · cases hm
          refine ord_accept b [] h hso (by rw [setPC_log, releaseBuf_log]; simp) (by simp) hc0 (by rw [setPC_s, releaseBuf_s]; exact hc0) ?_ ?_ ?_
          · rw [setPC_self]; exact (releaseBuf_task _ t).2.1
          · rw [setPC_self, hpc]; rfl
          · rw [setPC_self]; rfl
      · cases hm
        obtain ⟨_, _, pc', _⟩ := prepare_fields { cs.s with buffer := [] } (cs.s.buffer ++ b)
        refine ord_accept b _ h hso (by rw [setPC_log]) ?_ hc0 (by rw [setPC_s]; show (Sess.prepare _ _).1.closed = false; rw [pc']; exact hc0) ?_ ?_ ?_
        · intro x hx
          split at hx
          · cases hx
          · rw [List.mem_singleton] at hx; rw [hx]
        · rw [setPC_self]; rfl
        · rw [setPC_self, hpc]; rfl
        · rw [setPC_self]; rfl
  · -- preWr
    rename_i ps fs hpc
    cases hm
    have hac : (cs.task t).pc.afterClose = false := by rw [hpc]; rfl
    unfold CS.lockWrWrite at hso ⊢
    split
    · rename_i hw
      simp only [hw] at hso
      exact ord_quiet h hso rfl id (by rw [setPC_self]; rfl) (fun _ => by rw [setPC_self, hpc]; rfl) (by rw [setPC_self]; intro hh; cases hh)
    · rename_i w hw
      simp only [hw] at hso
      exact ord_quiet h hso rfl id (by rw [setPC_self]; rfl) (fun _ => by rw [setPC_self, hpc]; rfl) (by rw [setPC_self]; intro hh; cases hh)
  · cases hm
  · -- piece []
    rename_i fs hpc
    cases hm
    refine ord_quiet h hso (by rw [setPC_log, releaseWr_log]) (by rw [setPC_s, releaseWr_s]; exact id) ?_ (fun _ => ?_) ?_
    · rw [setPC_self]; exact (releaseWr_task cs t).2.1
    · rw [setPC_self, hpc]; rfl
    · rw [setPC_self]; intro hh; cases hh
  · -- piece (p :: ps)
    rename_i p ps fs hpc
    split at hm
    · rename_i s' hs'
      obtain ⟨_, _, tc⟩ := transportWrite_fields cs.s s' p hs'
      split at hm
      · cases hm
        refine ord_quiet h hso (by rw [setPC_log, releaseWr_log]) (by rw [setPC_s, releaseWr_s]; show cs.s.closed = true → s'.closed = true; rw [tc]; exact id) ?_ (fun _ => ?_) ?_
        · rw [setPC_self]; exact (releaseWr_task _ t).2.1
        · rw [setPC_self, hpc]; rfl
        · rw [setPC_self]; intro hh; cases hh
      · cases hm
        refine ord_quiet h hso rfl (by rw [setPC_s]; show cs.s.closed = true → s'.closed = true; rw [tc]; exact id) ?_ (fun _ => ?_) ?_
        · rw [setPC_self]; rfl
        · rw [setPC_self, hpc]; rfl
        · rw [setPC_self]; intro hh; cases hh
    · cases hm
      refine ord_quiet h hso (by rw [enterClose_log, releaseWr_log]) (fun _ => enterClose_closed _ t _) ?_ ?_ (fun _ => enterClose_closed _ t _)
      · rw [enterClose_submitted]; exact (releaseWr_task _ t).2.1
      · intro hc; rw [enterClose_closed] at hc; cases hc
  · -- wdone
    rename_i r fs hpc
    have hacr : r ≠ .ok → cs.s.closed = true := fun hr => h.ac t (by rw [hpc]; simp [PC.afterClose, hr])
    try simp only at hm
    split at hm
    · rename_i g gs
      cases hm
      refine ord_quiet h hso (by rw [setPC_log, releaseBuf_log]) (by rw [setPC_s, releaseBuf_s]; exact id) ?_ (fun _ => ?_) ?_
      · rw [setPC_self]; exact (releaseBuf_task cs t).2.1
      · rw [setPC_self, hpc]; rfl
      · rw [setPC_self]; intro hh; cases hh
    · rename_i hne
      cases hm
      refine ord_quiet h hso (by rw [finishOp_log, releaseBuf_log]) (by rw [finishOp_s, releaseBuf_s]; exact id) ?_ (fun hcc => ?_) ?_
      · rw [finishOp_self]; exact (releaseBuf_task cs t).2.1
      · rw [finishOp_s, releaseBuf_s] at hcc
        rw [finishOp_self, hpc]
        show [] = fs.tail
        cases r with
        | ok =>
          cases fs with
          | nil => rfl
          | cons x xs =>
            cases xs with
            | nil => rfl
            | cons g gs => exact absurd rfl (hne x g gs rfl)
        | errClosed => have := hacr (by simp); rw [this] at hcc; cases hcc
        | errIo => have := hacr (by simp); rw [this] at hcc; cases hcc
        | errProto m => have := hacr (by simp); rw [this] at hcc; cases hcc
      · rw [finishOp_self]; intro hh; cases hh
  · -- cflag
    rename_i k hpc
    have hcl : cs.s.closed = true := h.ac t (by rw [hpc]; rfl)
    cases hm
    exact ord_quiet h hso rfl (fun _ => hcl) (by rw [setPC_self]; rfl) (fun hc => by rw [setPC_s] at hc; rw [show cs.s.closeDrain.closed = cs.s.closed from rfl, hcl] at hc; cases hc)
      (fun _ => by rw [setPC_s]; exact hcl)
  · -- cdrained
    rename_i k hpc
    have hcl : cs.s.closed = true := h.ac t (by rw [hpc]; rfl)
    split at hm
    · cases hm
      exact ord_quiet h hso rfl id (by rw [setPC_self]; rfl) (fun hc => by rw [setPC_s] at hc; rw [hcl] at hc; cases hc) (fun _ => by rw [setPC_s]; exact hcl)
    · cases hm
      exact ord_quiet h hso rfl id (by rw [setPC_self]; rfl) (fun hc => by rw [setPC_s] at hc; rw [hcl] at hc; cases hc) (fun _ => by rw [setPC_s]; exact hcl)
  · cases hm
  · -- cshut
    rename_i k hpc
    have hcl : cs.s.closed = true := h.ac t (by rw [hpc]; rfl)
    cases k with
    | op =>
      cases hm
      refine ord_quiet h hso (by rw [finishOp_log, releaseWr_log]) (fun _ => by rw [finishOp_s, releaseWr_s]; exact hcl) ?_ (fun hc => ?_) (fun _ => by rw [finishOp_s, releaseWr_s]; exact hcl)
      · rw [finishOp_self]; exact (releaseWr_task _ t).2.1
      · rw [finishOp_s, releaseWr_s] at hc; rw [show ({ cs.s with shut := true } : Sess).closed = cs.s.closed from rfl, hcl] at hc; cases hc
    | inWrite fs =>
      cases hm
      refine ord_quiet h hso (by rw [setPC_log, releaseWr_log]) (fun _ => by rw [setPC_s, releaseWr_s]; exact hcl) ?_ (fun hc => ?_) (fun _ => by rw [setPC_s, releaseWr_s]; exact hcl)
      · rw [setPC_self]; exact (releaseWr_task _ t).2.1
      · rw [setPC_s, releaseWr_s] at hc; rw [show ({ cs.s with shut := true } : Sess).closed = cs.s.closed from rfl, hcl] at hc; cases hc



theorem lockWrWrite_log (cs : CS) (t : Nat) (ps fs : List Bytes) : (cs.lockWrWrite t ps fs).log = cs.log := by
  unfold CS.lockWrWrite; split <;> rfl

/-- what a step adds to the log: nothing, or the frame being accepted followed by whole padding frames -/
def GoodAdd (t : Nat) (add : List Unit') : Prop :=
  ∀ x ∈ add, x.owner = some t ∨ (x.owner = none ∧ ∃ pads : List Nat, x.bytes = flatten (pads.map wasteFrame))

theorem micro_log (cs cs' : CS) (t : Nat) (hm : micro cs t = some cs') :
    ∃ add, cs'.log = cs.log ++ add ∧ GoodAdd t add := by
  have nil : ∀ c : CS, c.log = cs.log → ∃ add, c.log = cs.log ++ add ∧ GoodAdd t add :=
    fun c h => ⟨[], by rw [h]; simp, fun x hx => by cases hx⟩
  unfold micro at hm
  simp only at hm
  split at hm
  · cases hm
  · split at hm
    · cases hm; exact nil _ rfl
    · cases hm; exact nil _ rfl
    · split at hm <;> (cases hm; exact nil _ rfl)
    · cases hm; exact nil _ rfl
    · cases hm; exact nil _ rfl
    · split at hm <;> (cases hm; exact nil _ rfl)
    · cases hm; exact nil _ (enterClose_log cs t _)
  · cases hm; exact nil _ rfl
  · split at hm <;> (cases hm; exact nil _ rfl)
  · cases hm
  · cases hm; exact nil _ (by rw [finishOp_log, releaseBuf_log])
  · rename_i b fs _
    split at hm
    · cases hm; exact nil _ (by rw [finishOp_log, releaseBuf_log])
    · split at hm
      · have one : GoodAdd t [({ owner := some t, bytes := b } : Unit')] := by
          intro x hx; rw [List.mem_singleton] at hx; rw [hx]; exact Or.inl rfl
        split at hm
        · cases hm; exact ⟨_, by rw [finishOp_log, releaseBuf_log], one⟩
        · cases hm; exact ⟨_, by rw [setPC_log, releaseBuf_log], one⟩
      · cases hm
        obtain ⟨_, _, _, pads, hflat⟩ := prepare_fields { cs.s with buffer := [] } (cs.s.buffer ++ b)
        refine ⟨_, by rw [setPC_log, List.append_assoc], ?_⟩
        intro x hx
        rw [List.mem_append, List.mem_singleton] at hx
        rcases hx with hx | hx
        · rw [hx]; exact Or.inl rfl
        · split at hx
          · cases hx
          · rw [List.mem_singleton] at hx
            rw [hx]
            refine Or.inr ⟨rfl, pads, ?_⟩
            show List.drop _ (flatten _) = _
            rw [hflat]; simp
  · cases hm; exact nil _ (lockWrWrite_log cs t _ _)
  · cases hm
  · cases hm; exact nil _ (by rw [setPC_log, releaseWr_log])
  · split at hm
    · split at hm
      · cases hm; exact nil _ (by rw [setPC_log, releaseWr_log])
      · cases hm; exact nil _ rfl
    · cases hm; exact nil _ (by rw [enterClose_log, releaseWr_log])
  · try simp only at hm
    split at hm
    · cases hm; exact nil _ (by rw [setPC_log, releaseBuf_log])
    · cases hm; exact nil _ (by rw [finishOp_log, releaseBuf_log])
  · cases hm; exact nil _ rfl
  · split at hm <;> (cases hm; exact nil _ rfl)
  · cases hm
  · rename_i k _
    cases k with
    | op => cases hm; exact nil _ (by rw [finishOp_log, releaseWr_log])
    | inWrite fs => cases hm; exact nil _ (by rw [setPC_log, releaseWr_log])

/-- ids at or above `n` are unused; only existing tasks own log entries -/
structure IdInv (cs : CS) : Prop where
  unused : ∀ u, cs.n ≤ u → (cs.task u).pc = .fin ∧ (cs.task u).submitted = []
  owners : ∀ x ∈ cs.log, ∀ t, x.owner = some t → t < cs.n

theorem norm_fin (pc : PC) (h : pc.norm = .fin) : pc = .fin := by
  cases pc <;> first | rfl | (simp [PC.norm] at h)

theorem IdInv_micro (cs cs' : CS) (t : Nat) (h : IdInv cs) (hm : micro cs t = some cs') : IdInv cs' := by
  have hn := micro_n cs cs' t hm
  have hso := micro_others cs cs' t hm
  obtain ⟨add, hlog, hadd⟩ := micro_log cs cs' t hm
  have ht : t < cs.n := by
    cases Nat.lt_or_ge t cs.n with
    | inl h' => exact h'
    | inr h' =>
      have := (h.unused t h').1
      unfold micro at hm
      simp only [this] at hm
      cases hm
  refine ⟨fun u hu => ?_, fun x hx u hxu => ?_⟩
  · rw [hn] at hu
    have hne : u ≠ t := by omega
    obtain ⟨h1, h2, _, _, _⟩ := hso u hne
    have hu0 := h.unused u hu
    rw [hu0.1] at h1
    exact ⟨norm_fin _ h1, h2.trans hu0.2⟩
  · rw [hn]
    rw [hlog, List.mem_append] at hx
    rcases hx with hx | hx
    · exact h.owners x hx u hxu
    · rcases hadd x hx with e | ⟨e, _⟩
      · rw [e] at hxu; cases hxu; exact ht
      · rw [e] at hxu; cases hxu



def synBytes (sid : Nat) : Bytes := encodeD { cmd := .syn, sid := sid, data := [] }

/-- what a step of `t` does to `t`'s own stream ids and submission list -/
inductive SelfSub (k k' : Task) : Prop where
  | same (new : List Bytes) : k'.sids = k.sids → k'.submitted = k.submitted ++ new → SelfSub k k'
  | refused : k'.sids = k.sids ++ [none] → k'.submitted = k.submitted → SelfSub k k'
  | opened (sid : Nat) : k'.sids = k.sids ++ [some sid] → k'.submitted = k.submitted ++ [synBytes sid] → SelfSub k k'

theorem enterClose_self (cs : CS) (t : Nat) (k : CloseK) :
    ((cs.enterClose t k).task t).sids = (cs.task t).sids ∧ ((cs.enterClose t k).task t).submitted = (cs.task t).submitted := by
  unfold CS.enterClose; split
  · cases k
    · rw [finishOp_self]; exact ⟨rfl, rfl⟩
    · rw [setPC_self]; exact ⟨rfl, rfl⟩
  · rw [setPC_self]; exact ⟨rfl, rfl⟩

theorem lockWrWrite_self (cs : CS) (t : Nat) (ps fs : List Bytes) :
    ((cs.lockWrWrite t ps fs).task t).sids = (cs.task t).sids ∧ ((cs.lockWrWrite t ps fs).task t).submitted = (cs.task t).submitted := by
  unfold CS.lockWrWrite; split <;> (rw [setPC_self]; exact ⟨rfl, rfl⟩)

theorem micro_selfsub (cs cs' : CS) (t : Nat) (hm : micro cs t = some cs') : SelfSub (cs.task t) (cs'.task t) := by
  have keep : ∀ c : CS, (c.task t).sids = (cs.task t).sids → (c.task t).submitted = (cs.task t).submitted → SelfSub (cs.task t) (c.task t) :=
    fun c h1 h2 => .same [] h1 (by rw [h2]; simp)
  have rb := releaseBuf_task
  have rw' := releaseWr_task
  unfold micro at hm
  simp only at hm
  split at hm
  · cases hm
  · split at hm
    · cases hm; exact keep _ (by rw [setPC_self]) (by rw [setPC_self])
    · cases hm; exact keep _ (by rw [finishOp_self]; rfl) (by rw [finishOp_self]; rfl)
    · split at hm
      · cases hm; exact keep _ (by rw [finishOp_self]) (by rw [finishOp_self])
      · cases hm; exact .same _ (by rw [submit_self]) (by rw [submit_self])
    · cases hm; exact .same _ (by rw [submit_self]) (by rw [submit_self])
    · cases hm; exact .same _ (by rw [submit_self]) (by rw [submit_self])
    · split at hm
      · cases hm
        refine .refused ?_ ?_
        · rw [finishOp_self]; show ((cs.setTask t _).task t).sids = _; rw [setTask_task]; simp
        · rw [finishOp_self]; show ((cs.setTask t _).task t).submitted = _; rw [setTask_task]; simp
      · cases hm; exact keep _ (by rw [setPC_self]) (by rw [setPC_self])
    · cases hm; exact keep _ (enterClose_self cs t _).1 (enterClose_self cs t _).2
  · cases hm
    refine .opened (cs.s.register).2.1 ?_ ?_
    · rw [submit_self]; show ((CS.setTask _ t _).task t).sids = _; rw [setTask_task]; simp; rfl
    · rw [submit_self]; show ((CS.setTask _ t _).task t).submitted ++ _ = _; rw [setTask_task]; simp; exact ⟨rfl, rfl⟩
  · split at hm <;> (cases hm; exact keep _ (by rw [setPC_self]; rfl) (by rw [setPC_self]; rfl))
  · cases hm
  · cases hm; exact keep _ (by rw [finishOp_self]; exact (rb cs t).2.2.2.2) (by rw [finishOp_self]; exact (rb cs t).2.1)
  · split at hm
    · cases hm; exact keep _ (by rw [finishOp_self]; exact (rb cs t).2.2.2.2) (by rw [finishOp_self]; exact (rb cs t).2.1)
    · split at hm
      · split at hm
        · cases hm; exact keep _ (by rw [finishOp_self]; exact (rb _ t).2.2.2.2) (by rw [finishOp_self]; exact (rb _ t).2.1)
        · cases hm; exact keep _ (by rw [setPC_self]; exact (rb _ t).2.2.2.2) (by rw [setPC_self]; exact (rb _ t).2.1)
      · cases hm; exact keep _ (by rw [setPC_self]; rfl) (by rw [setPC_self]; rfl)
  · cases hm; exact keep _ (lockWrWrite_self cs t _ _).1 (lockWrWrite_self cs t _ _).2
  · cases hm
  · cases hm; exact keep _ (by rw [setPC_self]; exact (rw' cs t).2.2.2.2) (by rw [setPC_self]; exact (rw' cs t).2.1)
  · split at hm
    · split at hm
      · cases hm; exact keep _ (by rw [setPC_self]; exact (rw' _ t).2.2.2.2) (by rw [setPC_self]; exact (rw' _ t).2.1)
      · cases hm; exact keep _ (by rw [setPC_self]; rfl) (by rw [setPC_self]; rfl)
    · cases hm
      exact keep _ ((enterClose_self _ t _).1.trans (rw' _ t).2.2.2.2) ((enterClose_self _ t _).2.trans (rw' _ t).2.1)
  · try simp only at hm
    split at hm
    · cases hm; exact keep _ (by rw [setPC_self]; exact (rb cs t).2.2.2.2) (by rw [setPC_self]; exact (rb cs t).2.1)
    · cases hm; exact keep _ (by rw [finishOp_self]; exact (rb cs t).2.2.2.2) (by rw [finishOp_self]; exact (rb cs t).2.1)
  · cases hm; exact keep _ (by rw [setPC_self]; rfl) (by rw [setPC_self]; rfl)
  · split at hm <;> (cases hm; exact keep _ (by rw [setPC_self]; rfl) (by rw [setPC_self]; rfl))
  · cases hm
  · rename_i k _
    cases k with
    | op => cases hm; exact keep _ (by rw [finishOp_self]; exact (rw' _ t).2.2.2.2) (by rw [finishOp_self]; exact (rw' _ t).2.1)
    | inWrite fs => cases hm; exact keep _ (by rw [setPC_self]; exact (rw' _ t).2.2.2.2) (by rw [setPC_self]; exact (rw' _ t).2.1)

/-- every stream id a task registered has its SYN in the task's submission list -/
def SynInv (cs : CS) : Prop := ∀ t sid, some sid ∈ (cs.task t).sids → synBytes sid ∈ (cs.task t).submitted

theorem SynInv_micro (cs cs' : CS) (t : Nat) (h : SynInv cs) (hm : micro cs t = some cs') : SynInv cs' := by
  intro u sid hs
  by_cases e : u = t
  · subst e
    cases micro_selfsub cs cs' u hm with
    | same new h1 h2 => rw [h1] at hs; rw [h2]; exact List.mem_append_left _ (h u sid hs)
    | refused h1 h2 =>
      rw [h1, List.mem_append] at hs; rw [h2]
      rcases hs with hs | hs
      · exact h u sid hs
      · simp at hs
    | opened sid' h1 h2 =>
      rw [h1, List.mem_append] at hs; rw [h2]
      rcases hs with hs | hs
      · exact List.mem_append_left _ (h u sid hs)
      · simp at hs; rw [hs]; simp
  · obtain ⟨_, h2, _, _, h5⟩ := micro_others cs cs' t hm u e
    rw [h5] at hs; rw [h2]; exact h u sid hs



def PC.waitsBuf : PC → Bool | .waitBuf _ => true | _ => false
def PC.waitsWr : PC → Bool | .waitWr _ _ | .cwait _ => true | _ => false

/-- the lock invariant: holders and queues agree with the states of the tasks -/
structure LockInv (cs : CS) : Prop where
  bh : ∀ t, cs.bufHolder = some t ↔ (cs.task t).pc.holdsBuf = true
  bq : ∀ t, t ∈ cs.bufQ ↔ (cs.task t).pc.waitsBuf = true
  bn : cs.bufQ.Nodup
  b0 : cs.bufHolder = none → cs.bufQ = []
  wh : ∀ t, cs.wrHolder = some t ↔ (cs.task t).pc.holdsWr = true
  wq : ∀ t, t ∈ cs.wrQ ↔ (cs.task t).pc.waitsWr = true
  wn : cs.wrQ.Nodup
  w0 : cs.wrHolder = none → cs.wrQ = []

/-- only the lock-relevant aspects of the states, the holders and the queues matter -/
theorem LockInv_congr {cs cs' : CS} (h : LockInv cs)
    (hb : ∀ u, (cs'.task u).pc.holdsBuf = (cs.task u).pc.holdsBuf) (hw : ∀ u, (cs'.task u).pc.holdsWr = (cs.task u).pc.holdsWr)
    (qb : ∀ u, (cs'.task u).pc.waitsBuf = (cs.task u).pc.waitsBuf) (qw : ∀ u, (cs'.task u).pc.waitsWr = (cs.task u).pc.waitsWr)
    (e1 : cs'.bufHolder = cs.bufHolder) (e2 : cs'.bufQ = cs.bufQ) (e3 : cs'.wrHolder = cs.wrHolder) (e4 : cs'.wrQ = cs.wrQ) :
    LockInv cs' where
  bh := fun t => by rw [e1, hb]; exact h.bh t
  bq := fun t => by rw [e2, qb]; exact h.bq t
  bn := by rw [e2]; exact h.bn
  b0 := by rw [e1, e2]; exact h.b0
  wh := fun t => by rw [e3, hw]; exact h.wh t
  wq := fun t => by rw [e4, qw]; exact h.wq t
  wn := by rw [e4]; exact h.wn
  w0 := by rw [e3, e4]; exact h.w0

/-- a change of task `t`'s state within its lock class -/
theorem LockInv_local {cs cs' : CS} (t : Nat) (h : LockInv cs)
    (hoth : ∀ u, u ≠ t → (cs'.task u).pc = (cs.task u).pc)
    (hb : (cs'.task t).pc.holdsBuf = (cs.task t).pc.holdsBuf) (hw : (cs'.task t).pc.holdsWr = (cs.task t).pc.holdsWr)
    (qb : (cs'.task t).pc.waitsBuf = (cs.task t).pc.waitsBuf) (qw : (cs'.task t).pc.waitsWr = (cs.task t).pc.waitsWr)
    (e1 : cs'.bufHolder = cs.bufHolder) (e2 : cs'.bufQ = cs.bufQ) (e3 : cs'.wrHolder = cs.wrHolder) (e4 : cs'.wrQ = cs.wrQ) :
    LockInv cs' := by
  refine LockInv_congr h ?_ ?_ ?_ ?_ e1 e2 e3 e4 <;> intro u <;> by_cases e : u = t
  all_goals first
    | (subst e; assumption)
    | (rw [hoth u e])

/-- `t` takes the free buffer lock -/
theorem LockInv_acqBuf {cs cs' : CS} (t : Nat) (h : LockInv cs) (hfree : cs.bufHolder = none)
    (hoth : ∀ u, u ≠ t → (cs'.task u).pc = (cs.task u).pc)
    (hold : (cs.task t).pc.holdsBuf = false ∧ (cs.task t).pc.waitsBuf = false)
    (hnew : (cs'.task t).pc.holdsBuf = true ∧ (cs'.task t).pc.waitsBuf = false)
    (hw : (cs'.task t).pc.holdsWr = (cs.task t).pc.holdsWr) (qw : (cs'.task t).pc.waitsWr = (cs.task t).pc.waitsWr)
    (e1 : cs'.bufHolder = some t) (e2 : cs'.bufQ = cs.bufQ) (e3 : cs'.wrHolder = cs.wrHolder) (e4 : cs'.wrQ = cs.wrQ) :
    LockInv cs' where
  bh := fun u => by
    rw [e1]
    by_cases e : u = t
    · subst e; simp [hnew.1]
    · rw [hoth u e]
      constructor
      · intro hh; cases hh; exact absurd rfl e
      · intro hh; have := (h.bh u).mpr hh; rw [hfree] at this; cases this
  bq := fun u => by
    rw [e2]
    by_cases e : u = t
    · subst e; rw [hnew.2, ← hold.2]; exact h.bq u
    · rw [hoth u e]; exact h.bq u
  bn := by rw [e2]; exact h.bn
  b0 := by rw [e1]; intro hh; cases hh
  wh := fun u => by
    rw [e3]
    by_cases e : u = t
    · subst e; rw [hw]; exact h.wh u
    · rw [hoth u e]; exact h.wh u
  wq := fun u => by
    rw [e4]
    by_cases e : u = t
    · subst e; rw [qw]; exact h.wq u
    · rw [hoth u e]; exact h.wq u
  wn := by rw [e4]; exact h.wn
  w0 := by rw [e3, e4]; exact h.w0

/-- `t` queues for the held buffer lock -/
theorem LockInv_enqBuf {cs cs' : CS} (t : Nat) (h : LockInv cs) (hheld : cs.bufHolder ≠ none)
    (hoth : ∀ u, u ≠ t → (cs'.task u).pc = (cs.task u).pc)
    (hold : (cs.task t).pc.holdsBuf = false ∧ (cs.task t).pc.waitsBuf = false)
    (hnew : (cs'.task t).pc.holdsBuf = false ∧ (cs'.task t).pc.waitsBuf = true)
    (hw : (cs'.task t).pc.holdsWr = (cs.task t).pc.holdsWr) (qw : (cs'.task t).pc.waitsWr = (cs.task t).pc.waitsWr)
    (e1 : cs'.bufHolder = cs.bufHolder) (e2 : cs'.bufQ = cs.bufQ ++ [t]) (e3 : cs'.wrHolder = cs.wrHolder) (e4 : cs'.wrQ = cs.wrQ) :
    LockInv cs' where
  bh := fun u => by
    rw [e1]
    by_cases e : u = t
    · subst e; rw [hnew.1, ← hold.1]; exact h.bh u
    · rw [hoth u e]; exact h.bh u
  bq := fun u => by
    rw [e2, List.mem_append, List.mem_singleton]
    by_cases e : u = t
    · subst e; simp [hnew.2]
    · rw [hoth u e]; simp [e]; exact h.bq u
  bn := by
    rw [e2]
    apply List.nodup_append.mpr
    refine ⟨h.bn, by simp, ?_⟩
    intro a ha b hb
    rw [List.mem_singleton] at hb
    intro e; subst e; subst hb
    have := (h.bq a).mp ha
    rw [hold.2] at this; cases this
  b0 := by rw [e1]; intro hh; exact absurd hh hheld
  wh := fun u => by
    rw [e3]
    by_cases e : u = t
    · subst e; rw [hw]; exact h.wh u
    · rw [hoth u e]; exact h.wh u
  wq := fun u => by
    rw [e4]
    by_cases e : u = t
    · subst e; rw [qw]; exact h.wq u
    · rw [hoth u e]; exact h.wq u
  wn := by rw [e4]; exact h.wn
  w0 := by rw [e3, e4]; exact h.w0


theorem holdsBuf_not_waitsBuf (pc : PC) (h : pc.holdsBuf = true) : pc.waitsBuf = false := by
  cases pc <;> first | rfl | (simp [PC.holdsBuf] at h)
theorem holdsWr_not_waitsWr (pc : PC) (h : pc.holdsWr = true) : pc.waitsWr = false := by
  cases pc <;> first | rfl | (simp [PC.holdsWr] at h)

theorem releaseBuf_nil (cs : CS) (hq : cs.bufQ = []) : cs.releaseBuf = { cs with bufHolder := none } := by
  unfold CS.releaseBuf; rw [hq]
theorem releaseWr_nil (cs : CS) (hq : cs.wrQ = []) : cs.releaseWr = { cs with wrHolder := none } := by
  unfold CS.releaseWr; rw [hq]

theorem releaseBuf_cons (cs : CS) (w : Nat) (q : List Nat) (hq : cs.bufQ = w :: q) (hw : (cs.task w).pc.waitsBuf = true) :
    ∃ npc : PC, npc.holdsBuf = true ∧ npc.waitsBuf = false ∧ npc.holdsWr = (cs.task w).pc.holdsWr ∧
      npc.waitsWr = (cs.task w).pc.waitsWr ∧
      cs.releaseBuf = ({ cs with bufHolder := some w, bufQ := q } : CS).setPC w npc := by
  cases hpc : (cs.task w).pc <;> rw [hpc] at hw <;> try (simp [PC.waitsBuf] at hw)
  rename_i fs
  refine ⟨.locked fs, rfl, rfl, rfl, rfl, ?_⟩
  unfold CS.releaseBuf; rw [hq]
  simp only
  have : (({ cs with bufHolder := some w, bufQ := q } : CS).task w).pc = .waitBuf fs := hpc
  rw [this]

theorem releaseWr_cons (cs : CS) (w : Nat) (q : List Nat) (hq : cs.wrQ = w :: q) (hw : (cs.task w).pc.waitsWr = true) :
    ∃ npc : PC, npc.holdsWr = true ∧ npc.waitsWr = false ∧ npc.holdsBuf = (cs.task w).pc.holdsBuf ∧
      npc.waitsBuf = (cs.task w).pc.waitsBuf ∧
      cs.releaseWr = ({ cs with wrHolder := some w, wrQ := q } : CS).setPC w npc := by
  cases hpc : (cs.task w).pc <;> rw [hpc] at hw <;> try (simp [PC.waitsWr] at hw)
  · rename_i ps fs
    refine ⟨.piece ps fs, rfl, rfl, rfl, rfl, ?_⟩
    unfold CS.releaseWr; rw [hq]
    simp only
    have : (({ cs with wrHolder := some w, wrQ := q } : CS).task w).pc = .waitWr ps fs := hpc
    rw [this]
  · rename_i k
    refine ⟨.cshut k, rfl, rfl, by cases k <;> rfl, rfl, ?_⟩
    unfold CS.releaseWr; rw [hq]
    simp only
    have : (({ cs with wrHolder := some w, wrQ := q } : CS).task w).pc = .cwait k := hpc
    rw [this]

/-- the holder `t` releases the buffer lock and continues in a state that neither holds nor waits for it -/
theorem LockInv_relBuf {cs c2 : CS} (t : Nat) (h : LockInv cs) (ht : (cs.task t).pc.holdsBuf = true)
    (hoth : ∀ u, u ≠ t → (c2.task u).pc = (cs.releaseBuf.task u).pc)
    (hnew : (c2.task t).pc.holdsBuf = false ∧ (c2.task t).pc.waitsBuf = false)
    (hw : (c2.task t).pc.holdsWr = (cs.task t).pc.holdsWr) (qw : (c2.task t).pc.waitsWr = (cs.task t).pc.waitsWr)
    (e1 : c2.bufHolder = cs.releaseBuf.bufHolder) (e2 : c2.bufQ = cs.releaseBuf.bufQ)
    (e3 : c2.wrHolder = cs.wrHolder) (e4 : c2.wrQ = cs.wrQ) : LockInv c2 := by
  have hholder : cs.bufHolder = some t := (h.bh t).mpr ht
  have honly : ∀ u, u ≠ t → (cs.task u).pc.holdsBuf = false := by
    intro u hu
    cases hb : (cs.task u).pc.holdsBuf with
    | false => rfl
    | true => have := (h.bh u).mpr hb; rw [hholder] at this; cases this; exact absurd rfl hu
  have htq : t ∉ cs.bufQ := fun hm => by
    have := (h.bq t).mp hm; rw [holdsBuf_not_waitsBuf _ ht] at this; cases this
  cases hq : cs.bufQ with
  | nil =>
    have r1 : cs.releaseBuf.bufHolder = none := by rw [releaseBuf_nil cs hq]
    have r2 : cs.releaseBuf.bufQ = [] := by rw [releaseBuf_nil cs hq]; exact hq
    have r3 : ∀ u, (cs.releaseBuf.task u).pc = (cs.task u).pc := by intro u; rw [releaseBuf_nil cs hq]; rfl
    have key : ∀ u, (c2.task u).pc.holdsWr = (cs.task u).pc.holdsWr ∧ (c2.task u).pc.waitsWr = (cs.task u).pc.waitsWr := by
      intro u
      by_cases e : u = t
      · subst e; exact ⟨hw, qw⟩
      · rw [hoth u e, r3]; exact ⟨rfl, rfl⟩
    refine { bh := fun u => ?_, bq := fun u => ?_, bn := (by rw [e2, r2]; exact List.nodup_nil), b0 := (fun _ => by rw [e2, r2]),
             wh := (fun u => by rw [e3, (key u).1]; exact h.wh u), wq := (fun u => by rw [e4, (key u).2]; exact h.wq u),
             wn := (by rw [e4]; exact h.wn), w0 := (by rw [e3, e4]; exact h.w0) }
    · rw [e1, r1]
      by_cases e : u = t
      · subst e; simp [hnew.1]
      · rw [hoth u e, r3, honly u e]; simp
    · rw [e2, r2]
      by_cases e : u = t
      · subst e; simp [hnew.2]
      · rw [hoth u e, r3]
        have := h.bq u; rw [hq] at this; exact this
  | cons w q =>
    have hwq : w ∈ cs.bufQ := by rw [hq]; exact List.mem_cons_self
    have hww := (h.bq w).mp hwq
    obtain ⟨npc, n1, n2, n3, n4, hrel⟩ := releaseBuf_cons cs w q hq hww
    have hwt : w ≠ t := fun e => htq (e ▸ hwq)
    have hnd : w ∉ q ∧ q.Nodup := by have := h.bn; rw [hq] at this; exact List.nodup_cons.mp this
    have r1 : cs.releaseBuf.bufHolder = some w := by rw [hrel]; rfl
    have r2 : cs.releaseBuf.bufQ = q := by rw [hrel]; rfl
    have r3 : ∀ u, (cs.releaseBuf.task u).pc = if u = w then npc else (cs.task u).pc := by
      intro u; rw [hrel, setPC_pc]; rfl
    have key : ∀ u, (c2.task u).pc.holdsWr = (cs.task u).pc.holdsWr ∧ (c2.task u).pc.waitsWr = (cs.task u).pc.waitsWr := by
      intro u
      by_cases e : u = t
      · subst e; exact ⟨hw, qw⟩
      · rw [hoth u e, r3]
        by_cases ew : u = w
        · subst ew; simp only [if_true]; exact ⟨n3, n4⟩
        · simp only [ew, if_false]; first | exact ⟨rfl, rfl⟩ | simp
    refine { bh := fun u => ?_, bq := fun u => ?_, bn := (by rw [e2, r2]; exact hnd.2), b0 := (fun hh => by rw [e1, r1] at hh; cases hh),
             wh := (fun u => by rw [e3, (key u).1]; exact h.wh u), wq := (fun u => by rw [e4, (key u).2]; exact h.wq u),
             wn := (by rw [e4]; exact h.wn), w0 := (by rw [e3, e4]; exact h.w0) }
    · rw [e1, r1]
      by_cases e : u = t
      · subst e; rw [hnew.1]; constructor
        · intro hh; cases hh; exact absurd rfl hwt
        · intro hh; cases hh
      · rw [hoth u e, r3]
        by_cases ew : u = w
        · subst ew; simp [n1]
        · simp only [ew, if_false]; rw [honly u e]
          constructor
          · intro hh; cases hh; exact absurd rfl ew
          · intro hh; cases hh
    · rw [e2, r2]
      by_cases e : u = t
      · subst e; rw [hnew.2]
        constructor
        · intro hh; exact absurd (by rw [hq]; exact List.mem_cons_of_mem _ hh) htq
        · intro hh; cases hh
      · rw [hoth u e, r3]
        by_cases ew : u = w
        · subst ew; simp [n2, hnd.1]
        · simp only [ew, if_false]
          have := h.bq u; rw [hq, List.mem_cons] at this
          constructor
          · intro hh; exact this.mp (Or.inr hh)
          · intro hh; rcases this.mpr hh with e' | e'
            · exact absurd e' ew
            · exact e'

/-- the holder `t` releases the writer lock and continues in a state that neither holds nor waits for it -/
theorem LockInv_relWr {cs c2 : CS} (t : Nat) (h : LockInv cs) (ht : (cs.task t).pc.holdsWr = true)
    (hoth : ∀ u, u ≠ t → (c2.task u).pc = (cs.releaseWr.task u).pc)
    (hnew : (c2.task t).pc.holdsWr = false ∧ (c2.task t).pc.waitsWr = false)
    (hb : (c2.task t).pc.holdsBuf = (cs.task t).pc.holdsBuf) (qb : (c2.task t).pc.waitsBuf = (cs.task t).pc.waitsBuf)
    (e3 : c2.wrHolder = cs.releaseWr.wrHolder) (e4 : c2.wrQ = cs.releaseWr.wrQ)
    (e1 : c2.bufHolder = cs.bufHolder) (e2 : c2.bufQ = cs.bufQ) : LockInv c2 := by
  have hholder : cs.wrHolder = some t := (h.wh t).mpr ht
  have honly : ∀ u, u ≠ t → (cs.task u).pc.holdsWr = false := by
    intro u hu
    cases hw : (cs.task u).pc.holdsWr with
    | false => rfl
    | true => have := (h.wh u).mpr hw; rw [hholder] at this; cases this; exact absurd rfl hu
  have htq : t ∉ cs.wrQ := fun hm => by
    have := (h.wq t).mp hm; rw [holdsWr_not_waitsWr _ ht] at this; cases this
  cases hq : cs.wrQ with
  | nil =>
    have r1 : cs.releaseWr.wrHolder = none := by rw [releaseWr_nil cs hq]
    have r2 : cs.releaseWr.wrQ = [] := by rw [releaseWr_nil cs hq]; exact hq
    have r3 : ∀ u, (cs.releaseWr.task u).pc = (cs.task u).pc := by intro u; rw [releaseWr_nil cs hq]; rfl
    have key : ∀ u, (c2.task u).pc.holdsBuf = (cs.task u).pc.holdsBuf ∧ (c2.task u).pc.waitsBuf = (cs.task u).pc.waitsBuf := by
      intro u
      by_cases e : u = t
      · subst e; exact ⟨hb, qb⟩
      · rw [hoth u e, r3]; exact ⟨rfl, rfl⟩
    refine { wh := fun u => ?_, wq := fun u => ?_, wn := (by rw [e4, r2]; exact List.nodup_nil), w0 := (fun _ => by rw [e4, r2]),
             bh := (fun u => by rw [e1, (key u).1]; exact h.bh u), bq := (fun u => by rw [e2, (key u).2]; exact h.bq u),
             bn := (by rw [e2]; exact h.bn), b0 := (by rw [e1, e2]; exact h.b0) }
    · rw [e3, r1]
      by_cases e : u = t
      · subst e; simp [hnew.1]
      · rw [hoth u e, r3, honly u e]; simp
    · rw [e4, r2]
      by_cases e : u = t
      · subst e; simp [hnew.2]
      · rw [hoth u e, r3]
        have := h.wq u; rw [hq] at this; exact this
  | cons w q =>
    have hwq : w ∈ cs.wrQ := by rw [hq]; exact List.mem_cons_self
    have hww := (h.wq w).mp hwq
    obtain ⟨npc, n1, n2, n3, n4, hrel⟩ := releaseWr_cons cs w q hq hww
    have hwt : w ≠ t := fun e => htq (e ▸ hwq)
    have hnd : w ∉ q ∧ q.Nodup := by have := h.wn; rw [hq] at this; exact List.nodup_cons.mp this
    have r1 : cs.releaseWr.wrHolder = some w := by rw [hrel]; rfl
    have r2 : cs.releaseWr.wrQ = q := by rw [hrel]; rfl
    have r3 : ∀ u, (cs.releaseWr.task u).pc = if u = w then npc else (cs.task u).pc := by
      intro u; rw [hrel, setPC_pc]; rfl
    have key : ∀ u, (c2.task u).pc.holdsBuf = (cs.task u).pc.holdsBuf ∧ (c2.task u).pc.waitsBuf = (cs.task u).pc.waitsBuf := by
      intro u
      by_cases e : u = t
      · subst e; exact ⟨hb, qb⟩
      · rw [hoth u e, r3]
        by_cases ew : u = w
        · subst ew; simp only [if_true]; exact ⟨n3, n4⟩
        · simp only [ew, if_false]; first | exact ⟨rfl, rfl⟩ | simp
    refine { wh := fun u => ?_, wq := fun u => ?_, wn := (by rw [e4, r2]; exact hnd.2), w0 := (fun hh => by rw [e3, r1] at hh; cases hh),
             bh := (fun u => by rw [e1, (key u).1]; exact h.bh u), bq := (fun u => by rw [e2, (key u).2]; exact h.bq u),
             bn := (by rw [e2]; exact h.bn), b0 := (by rw [e1, e2]; exact h.b0) }
    · rw [e3, r1]
      by_cases e : u = t
      · subst e; rw [hnew.1]; constructor
        · intro hh; cases hh; exact absurd rfl hwt
        · intro hh; cases hh
      · rw [hoth u e, r3]
        by_cases ew : u = w
        · subst ew; simp [n1]
        · simp only [ew, if_false]; rw [honly u e]
          constructor
          · intro hh; cases hh; exact absurd rfl ew
          · intro hh; cases hh
    · rw [e4, r2]
      by_cases e : u = t
      · subst e; rw [hnew.2]
        constructor
        · intro hh; exact absurd (by rw [hq]; exact List.mem_cons_of_mem _ hh) htq
        · intro hh; cases hh
      · rw [hoth u e, r3]
        by_cases ew : u = w
        · subst ew; simp [n2, hnd.1]
        · simp only [ew, if_false]
          have := h.wq u; rw [hq, List.mem_cons] at this
          constructor
          · intro hh; exact this.mp (Or.inr hh)
          · intro hh; rcases this.mpr hh with e' | e'
            · exact absurd e' ew
            · exact e'

/-- `t` takes the free writer lock -/
theorem LockInv_acqWr {cs cs' : CS} (t : Nat) (h : LockInv cs) (hfree : cs.wrHolder = none)
    (hoth : ∀ u, u ≠ t → (cs'.task u).pc = (cs.task u).pc)
    (hold : (cs.task t).pc.holdsWr = false ∧ (cs.task t).pc.waitsWr = false)
    (hnew : (cs'.task t).pc.holdsWr = true ∧ (cs'.task t).pc.waitsWr = false)
    (hb : (cs'.task t).pc.holdsBuf = (cs.task t).pc.holdsBuf) (qb : (cs'.task t).pc.waitsBuf = (cs.task t).pc.waitsBuf)
    (e3 : cs'.wrHolder = some t) (e4 : cs'.wrQ = cs.wrQ) (e1 : cs'.bufHolder = cs.bufHolder) (e2 : cs'.bufQ = cs.bufQ) :
    LockInv cs' where
  wh := fun u => by
    rw [e3]
    by_cases e : u = t
    · subst e; simp [hnew.1]
    · rw [hoth u e]
      constructor
      · intro hh; cases hh; exact absurd rfl e
      · intro hh; have := (h.wh u).mpr hh; rw [hfree] at this; cases this
  wq := fun u => by
    rw [e4]
    by_cases e : u = t
    · subst e; rw [hnew.2, ← hold.2]; exact h.wq u
    · rw [hoth u e]; exact h.wq u
  wn := by rw [e4]; exact h.wn
  w0 := by rw [e3]; intro hh; cases hh
  bh := fun u => by
    rw [e1]
    by_cases e : u = t
    · subst e; rw [hb]; exact h.bh u
    · rw [hoth u e]; exact h.bh u
  bq := fun u => by
    rw [e2]
    by_cases e : u = t
    · subst e; rw [qb]; exact h.bq u
    · rw [hoth u e]; exact h.bq u
  bn := by rw [e2]; exact h.bn
  b0 := by rw [e1, e2]; exact h.b0

/-- `t` queues for the held writer lock -/
theorem LockInv_enqWr {cs cs' : CS} (t : Nat) (h : LockInv cs) (hheld : cs.wrHolder ≠ none)
    (hoth : ∀ u, u ≠ t → (cs'.task u).pc = (cs.task u).pc)
    (hold : (cs.task t).pc.holdsWr = false ∧ (cs.task t).pc.waitsWr = false)
    (hnew : (cs'.task t).pc.holdsWr = false ∧ (cs'.task t).pc.waitsWr = true)
    (hb : (cs'.task t).pc.holdsBuf = (cs.task t).pc.holdsBuf) (qb : (cs'.task t).pc.waitsBuf = (cs.task t).pc.waitsBuf)
    (e3 : cs'.wrHolder = cs.wrHolder) (e4 : cs'.wrQ = cs.wrQ ++ [t]) (e1 : cs'.bufHolder = cs.bufHolder) (e2 : cs'.bufQ = cs.bufQ) :
    LockInv cs' where
  wh := fun u => by
    rw [e3]
    by_cases e : u = t
    · subst e; rw [hnew.1, ← hold.1]; exact h.wh u
    · rw [hoth u e]; exact h.wh u
  wq := fun u => by
    rw [e4, List.mem_append, List.mem_singleton]
    by_cases e : u = t
    · subst e; simp [hnew.2]
    · rw [hoth u e]; simp [e]; exact h.wq u
  wn := by
    rw [e4]
    apply List.nodup_append.mpr
    refine ⟨h.wn, by simp, ?_⟩
    intro a ha b hw
    rw [List.mem_singleton] at hw
    intro e; subst e; subst hw
    have := (h.wq a).mp ha
    rw [hold.2] at this; cases this
  w0 := by rw [e3]; intro hh; exact absurd hh hheld
  bh := fun u => by
    rw [e1]
    by_cases e : u = t
    · subst e; rw [hb]; exact h.bh u
    · rw [hoth u e]; exact h.bh u
  bq := fun u => by
    rw [e2]
    by_cases e : u = t
    · subst e; rw [qb]; exact h.bq u
    · rw [hoth u e]; exact h.bq u
  bn := by rw [e2]; exact h.bn
  b0 := by rw [e1, e2]; exact h.b0



/-- a change that does not touch tasks, holders or queues -/
theorem LockInv_rec {cs : CS} (c1 : CS) (h : LockInv cs) (ht : c1.tasks = cs.tasks) (e1 : c1.bufHolder = cs.bufHolder)
    (e2 : c1.bufQ = cs.bufQ) (e3 : c1.wrHolder = cs.wrHolder) (e4 : c1.wrQ = cs.wrQ) : LockInv c1 := by
  have : ∀ u, c1.task u = cs.task u := fun u => by show c1.tasks u = cs.tasks u; rw [ht]
  exact LockInv_congr h (fun u => by rw [this]) (fun u => by rw [this]) (fun u => by rw [this]) (fun u => by rw [this]) e1 e2 e3 e4

/-- the four lock-relevant aspects of a state -/
def PC.cls (pc : PC) : Bool × Bool × Bool × Bool := (pc.holdsBuf, pc.holdsWr, pc.waitsBuf, pc.waitsWr)

theorem cls_eq {a b : PC} (h : a.cls = b.cls) :
    a.holdsBuf = b.holdsBuf ∧ a.holdsWr = b.holdsWr ∧ a.waitsBuf = b.waitsBuf ∧ a.waitsWr = b.waitsWr := by
  unfold PC.cls at h
  simp only [Prod.mk.injEq] at h
  exact h

/-- `t` moves to `pc` within its lock class -/
theorem LockInv_setPC {cs : CS} (t : Nat) (pc : PC) (h : LockInv cs) (hc : pc.cls = (cs.task t).pc.cls) : LockInv (cs.setPC t pc) := by
  obtain ⟨a, b, c, d⟩ := cls_eq hc
  apply LockInv_local t h (fun u e => by rw [setPC_pc]; simp [e]) <;> first | rfl | (rw [setPC_pc, if_pos rfl]; assumption)

theorem LockInv_finishOp {cs : CS} (t : Nat) (r : Res) (h : LockInv cs) (hc : (cs.task t).pc.cls = (false, false, false, false)) :
    LockInv (cs.finishOp t r) := by
  have hc' : PC.idle.cls = (cs.task t).pc.cls := by rw [hc]; rfl
  obtain ⟨a, b, c, d⟩ := cls_eq hc'
  apply LockInv_local t h (fun u e => by rw [finishOp_pc]; simp [e]) <;> first | rfl | (rw [finishOp_pc, if_pos rfl]; assumption)

theorem LockInv_submit {cs : CS} (t : Nat) (fs : List Bytes) (h : LockInv cs) (hc : (cs.task t).pc.cls = (false, false, false, false)) :
    LockInv (cs.submit t fs) := by
  have hc' : (PC.enter fs).cls = (cs.task t).pc.cls := by rw [hc]; rfl
  obtain ⟨a, b, c, d⟩ := cls_eq hc'
  apply LockInv_local t h (fun u e => by rw [submit_pc]; simp [e]) <;> first | rfl | (rw [submit_pc, if_pos rfl]; assumption)

theorem LockInv_setTask_keep {cs : CS} (t : Nat) (f : Task → Task) (h : LockInv cs) (hf : ∀ k, (f k).pc = k.pc) : LockInv (cs.setTask t f) := by
  have : ∀ u, ((cs.setTask t f).task u).pc = (cs.task u).pc := by
    intro u; rw [setTask_task]; split
    · rw [hf]
    · rfl
  exact LockInv_congr h (fun u => by rw [this]) (fun u => by rw [this]) (fun u => by rw [this]) (fun u => by rw [this]) rfl rfl rfl rfl

theorem LockInv_enterClose {cs : CS} (t : Nat) (k : CloseK) (h : LockInv cs) (hc : (cs.task t).pc.cls = (PC.cflag k).cls) :
    LockInv (cs.enterClose t k) := by
  unfold CS.enterClose
  split
  · cases k with
    | op => exact LockInv_finishOp t _ h hc
    | inWrite fs => exact LockInv_setPC t _ h (by rw [hc]; rfl)
  · have h1 : LockInv ({ cs with s := { cs.s with closed := true } } : CS) := LockInv_rec _ h rfl rfl rfl rfl rfl
    exact LockInv_setPC t _ h1 hc.symm

/-- release of the buffer lock by `t`, which continues at `pc` (neither holding nor waiting) -/
theorem LockInv_relBuf_setPC {cs : CS} (t : Nat) (pc : PC) (h : LockInv cs) (ht : (cs.task t).pc.cls = (true, false, false, false))
    (hp : pc.cls = (false, false, false, false)) : LockInv (cs.releaseBuf.setPC t pc) := by
  obtain ⟨a, b, c, d⟩ := cls_eq (show pc.cls = PC.idle.cls from hp)
  obtain ⟨a', b', c', d'⟩ := cls_eq (show (cs.task t).pc.cls = (PC.locked []).cls from ht)
  refine LockInv_relBuf t h (by rw [a']; rfl) (fun u e => by rw [setPC_pc]; simp [e]) ?_ ?_ ?_ rfl rfl (by rw [setPC_wrHolder, releaseBuf_wrHolder]) ?_
  · rw [setPC_pc, if_pos rfl]; exact ⟨a, c⟩
  · rw [setPC_pc, if_pos rfl, b, b']; rfl
  · rw [setPC_pc, if_pos rfl, d, d']; rfl
  · rw [setPC_wrQ]; unfold CS.releaseBuf; split
    · rfl
    · simp only; split <;> rfl

theorem LockInv_relBuf_finishOp {cs : CS} (t : Nat) (r : Res) (h : LockInv cs) (ht : (cs.task t).pc.cls = (true, false, false, false)) :
    LockInv (cs.releaseBuf.finishOp t r) := by
  have := LockInv_relBuf_setPC t .idle h ht rfl
  refine LockInv_congr this (fun u => ?_) (fun u => ?_) (fun u => ?_) (fun u => ?_) rfl rfl rfl rfl <;> rw [finishOp_pc, setPC_pc]



theorem releaseWr_bufQ (cs : CS) : cs.releaseWr.bufQ = cs.bufQ := by
  unfold CS.releaseWr; split
  · rfl
  · simp only; split <;> rfl

/-- release of the writer lock by `t`, which continues at `pc` (same hold on the buffer lock) -/
theorem LockInv_relWr_setPC {cs : CS} (t : Nat) (pc : PC) (b : Bool) (h : LockInv cs) (ht : (cs.task t).pc.cls = (b, true, false, false))
    (hp : pc.cls = (b, false, false, false)) : LockInv (cs.releaseWr.setPC t pc) := by
  have e1 : pc.holdsBuf = b ∧ pc.holdsWr = false ∧ pc.waitsBuf = false ∧ pc.waitsWr = false := by
    unfold PC.cls at hp; simp only [Prod.mk.injEq] at hp; exact hp
  have e2 : (cs.task t).pc.holdsBuf = b ∧ (cs.task t).pc.holdsWr = true ∧ (cs.task t).pc.waitsBuf = false ∧ (cs.task t).pc.waitsWr = false := by
    unfold PC.cls at ht; simp only [Prod.mk.injEq] at ht; exact ht
  refine LockInv_relWr t h e2.2.1 (fun u e => by rw [setPC_pc]; simp [e]) ?_ ?_ ?_ rfl rfl (by rw [setPC_bufHolder, releaseWr_bufHolder]) ?_
  · rw [setPC_pc, if_pos rfl]; exact ⟨e1.2.1, e1.2.2.2⟩
  · rw [setPC_pc, if_pos rfl, e1.1, e2.1]
  · rw [setPC_pc, if_pos rfl, e1.2.2.1, e2.2.2.1]
  · rw [setPC_bufQ, releaseWr_bufQ]

theorem LockInv_relWr_finishOp {cs : CS} (t : Nat) (r : Res) (h : LockInv cs) (ht : (cs.task t).pc.cls = (false, true, false, false)) :
    LockInv (cs.releaseWr.finishOp t r) := by
  have := LockInv_relWr_setPC t .idle false h ht rfl
  refine LockInv_congr this (fun u => ?_) (fun u => ?_) (fun u => ?_) (fun u => ?_) rfl rfl rfl rfl <;> rw [finishOp_pc, setPC_pc]

/-- `t` asks for the writer lock: it gets it (state `pcHold`) or queues (state `pcWait`) -/
theorem LockInv_lockWr {cs : CS} (t : Nat) (pcHold pcWait : PC) (b : Bool) (h : LockInv cs)
    (ht : (cs.task t).pc.cls = (b, false, false, false))
    (h1 : pcHold.cls = (b, true, false, false)) (h2 : pcWait.cls = (b, false, false, true)) :
    LockInv (match cs.wrHolder with
      | none => ({ cs with wrHolder := some t } : CS).setPC t pcHold
      | some _ => ({ cs with wrQ := cs.wrQ ++ [t] } : CS).setPC t pcWait) := by
  have e0 : (cs.task t).pc.holdsBuf = b ∧ (cs.task t).pc.holdsWr = false ∧ (cs.task t).pc.waitsBuf = false ∧ (cs.task t).pc.waitsWr = false := by
    unfold PC.cls at ht; simp only [Prod.mk.injEq] at ht; exact ht
  have e1 : pcHold.holdsBuf = b ∧ pcHold.holdsWr = true ∧ pcHold.waitsBuf = false ∧ pcHold.waitsWr = false := by
    unfold PC.cls at h1; simp only [Prod.mk.injEq] at h1; exact h1
  have e2 : pcWait.holdsBuf = b ∧ pcWait.holdsWr = false ∧ pcWait.waitsBuf = false ∧ pcWait.waitsWr = true := by
    unfold PC.cls at h2; simp only [Prod.mk.injEq] at h2; exact h2
  split
  · rename_i hnone
    refine LockInv_acqWr t h hnone (fun u e => by rw [setPC_pc]; simp [e]; rfl) ⟨e0.2.1, e0.2.2.2⟩ ?_ ?_ ?_ rfl rfl rfl rfl
    · rw [setPC_pc, if_pos rfl]; exact ⟨e1.2.1, e1.2.2.2⟩
    · rw [setPC_pc, if_pos rfl, e1.1]; exact e0.1.symm
    · rw [setPC_pc, if_pos rfl, e1.2.2.1]; exact e0.2.2.1.symm
  · rename_i x hsome
    refine LockInv_enqWr t h (by rw [hsome]; simp) (fun u e => by rw [setPC_pc]; simp [e]; rfl) ⟨e0.2.1, e0.2.2.2⟩ ?_ ?_ ?_ rfl rfl rfl rfl
    · rw [setPC_pc, if_pos rfl]; exact ⟨e2.2.1, e2.2.2.2⟩
    · rw [setPC_pc, if_pos rfl, e2.1]; exact e0.1.symm
    · rw [setPC_pc, if_pos rfl, e2.2.2.1]; exact e0.2.2.1.symm

theorem LockInv_micro (cs cs' : CS) (t : Nat) (h : LockInv cs) (hm : micro cs t = some cs') : LockInv cs' := by
  unfold micro at hm
  simp only at hm
  split at hm
  · cases hm
  · -- idle
    rename_i hpc
    have c : (cs.task t).pc.cls = (false, false, false, false) := by rw [hpc]; rfl
    split at hm
    · cases hm; exact LockInv_setPC t _ h (by rw [c]; rfl)
    · cases hm; exact LockInv_finishOp t _ (LockInv_rec _ h rfl rfl rfl rfl rfl) c
    · split at hm
      · cases hm; exact LockInv_finishOp t _ h c
      · cases hm; exact LockInv_submit t _ h c
    · cases hm; exact LockInv_submit t _ h c
    · cases hm; exact LockInv_submit t _ h c
    · split at hm
      · cases hm
        refine LockInv_finishOp t _ (LockInv_setTask_keep t _ h (fun _ => rfl)) ?_
        rw [setTask_task, if_pos rfl]; exact c
      · cases hm; exact LockInv_setPC t _ h (by rw [c]; rfl)
    · cases hm; exact LockInv_enterClose t _ h (by rw [c]; rfl)
  · -- openChecked
    rename_i hpc
    cases hm
    have h0 : LockInv ({ cs with s := (cs.s.register).1 } : CS) := LockInv_rec _ h rfl rfl rfl rfl rfl
    refine LockInv_submit t _ (LockInv_setTask_keep t _ h0 (fun _ => rfl)) ?_
    rw [setTask_task, if_pos rfl]
    show (cs.task t).pc.cls = _
    rw [hpc]; rfl
  · -- enter
    rename_i fs hpc
    have c : (cs.task t).pc.holdsBuf = false ∧ (cs.task t).pc.holdsWr = false ∧ (cs.task t).pc.waitsBuf = false ∧ (cs.task t).pc.waitsWr = false := by
      rw [hpc]; exact ⟨rfl, rfl, rfl, rfl⟩
    split at hm
    · rename_i hnone
      cases hm
      refine LockInv_acqBuf t h hnone (fun u e => by rw [setPC_pc]; simp [e]; rfl) ⟨c.1, c.2.2.1⟩ ?_ ?_ ?_ rfl rfl rfl rfl
      · rw [setPC_pc, if_pos rfl]; exact ⟨rfl, rfl⟩
      · rw [setPC_pc, if_pos rfl, c.2.1]; rfl
      · rw [setPC_pc, if_pos rfl, c.2.2.2]; rfl
    · rename_i x hsome
      cases hm
      refine LockInv_enqBuf t h (by rw [hsome]; simp) (fun u e => by rw [setPC_pc]; simp [e]; rfl) ⟨c.1, c.2.2.1⟩ ?_ ?_ ?_ rfl rfl rfl rfl
      · rw [setPC_pc, if_pos rfl]; exact ⟨rfl, rfl⟩
      · rw [setPC_pc, if_pos rfl, c.2.1]; rfl
      · rw [setPC_pc, if_pos rfl, c.2.2.2]; rfl
  · cases hm
  · -- locked []
    rename_i hpc
    cases hm
    exact LockInv_relBuf_finishOp t _ h (by rw [hpc]; rfl)
  · -- locked (b :: fs)
    rename_i b fs hpc
    have c : (cs.task t).pc.cls = (true, false, false, false) := by rw [hpc]; rfl
    split at hm
    · cases hm; exact LockInv_relBuf_finishOp t _ h c
    · split at hm
      · have h1 : LockInv ({ cs with s := { cs.s with buffer := cs.s.buffer ++ b }, log := cs.log ++ [({ owner := some t, bytes := b } : Unit')] } : CS) :=
          LockInv_rec _ h rfl rfl rfl rfl rfl
        split at hm
        · cases hm; exact LockInv_relBuf_finishOp t _ h1 c
        · cases hm; exact LockInv_relBuf_setPC t _ h1 c rfl
      · cases hm
        exact LockInv_setPC t _ (LockInv_rec _ h rfl rfl rfl rfl rfl) (by show _ = (cs.task t).pc.cls; rw [c]; rfl)
  · -- preWr
    rename_i ps fs hpc
    cases hm
    unfold CS.lockWrWrite
    exact LockInv_lockWr t _ _ true h (by rw [hpc]; rfl) rfl rfl
  · cases hm
  · -- piece []
    rename_i fs hpc
    cases hm
    exact LockInv_relWr_setPC t _ true h (by rw [hpc]; rfl) rfl
  · -- piece (p :: ps)
    rename_i p ps fs hpc
    have c : (cs.task t).pc.cls = (true, true, false, false) := by rw [hpc]; rfl
    split at hm
    · rename_i s' _
      have h1 : LockInv ({ cs with s := s' } : CS) := LockInv_rec _ h rfl rfl rfl rfl rfl
      split at hm
      · cases hm; exact LockInv_relWr_setPC t _ true h1 c rfl
      · cases hm; exact LockInv_setPC t _ h1 (by show _ = (cs.task t).pc.cls; rw [c]; rfl)
    · cases hm
      have h1 : LockInv ({ cs with failed := true } : CS) := LockInv_rec _ h rfl rfl rfl rfl rfl
      unfold CS.enterClose
      split
      · exact LockInv_relWr_setPC t _ true h1 c rfl
      · have h2 := LockInv_relWr_setPC t (.cflag (.inWrite fs)) true h1 c rfl
        exact LockInv_congr h2 (fun u => rfl) (fun u => rfl) (fun u => rfl) (fun u => rfl) rfl rfl rfl rfl
  · -- wdone
    rename_i r fs hpc
    have c : (cs.task t).pc.cls = (true, false, false, false) := by rw [hpc]; rfl
    try simp only at hm
    split at hm
    · cases hm; exact LockInv_relBuf_setPC t _ h c rfl
    · cases hm; exact LockInv_relBuf_finishOp t _ h c
  · -- cflag
    rename_i k hpc
    cases hm
    exact LockInv_setPC t _ (LockInv_rec _ h rfl rfl rfl rfl rfl) (by show _ = (cs.task t).pc.cls; rw [hpc]; cases k <;> rfl)
  · -- cdrained
    rename_i k hpc
    have := LockInv_lockWr t (.cshut k) (.cwait k) (PC.cflag k).holdsBuf h (by rw [hpc]; cases k <;> rfl) (by cases k <;> rfl) (by cases k <;> rfl)
    split at hm
    · rename_i hn; cases hm; rw [hn] at this; exact this
    · rename_i x hs; cases hm; rw [hs] at this
      exact LockInv_congr this (fun _ => rfl) (fun _ => rfl) (fun _ => rfl) (fun _ => rfl) rfl rfl hs rfl
  · cases hm
  · -- cshut
    rename_i k hpc
    have h1 : LockInv ({ cs with s := { cs.s with shut := true } } : CS) := LockInv_rec _ h rfl rfl rfl rfl rfl
    cases k with
    | op => cases hm; exact LockInv_relWr_finishOp t _ h1 (by show (cs.task t).pc.cls = _; rw [hpc]; rfl)
    | inWrite fs => cases hm; exact LockInv_relWr_setPC t _ true h1 (by show (cs.task t).pc.cls = _; rw [hpc]; rfl) rfl



/-- a task that cannot act is finished or waits for a lock -/
theorem micro_none (cs : CS) (t : Nat) (h : micro cs t = none) : (cs.task t).pc = .fin ∨ (cs.task t).pc.blocked = true := by
  unfold micro at h
  simp only at h
  split at h
  · rename_i e; exact Or.inl e
  all_goals first
    | (rename_i e; right; rw [e]; rfl)
    | (repeat' split at h) <;> cases h

theorem micro_enabled (cs : CS) (t : Nat) (hf : (cs.task t).pc ≠ .fin) (hb : (cs.task t).pc.blocked = false) :
    ∃ cs', micro cs t = some cs' := by
  cases hm : micro cs t with
  | some c => exact ⟨c, rfl⟩
  | none =>
    rcases micro_none cs t hm with e | e
    · exact absurd e hf
    · rw [hb] at e; cases e

theorem blocked_iff (pc : PC) : pc.blocked = true ↔ (pc.waitsBuf = true ∨ pc.waitsWr = true) := by
  cases pc <;> simp [PC.blocked, PC.waitsBuf, PC.waitsWr]

theorem holdsWr_enabled (pc : PC) (h : pc.holdsWr = true) : pc ≠ .fin ∧ pc.blocked = false := by
  cases pc <;> first | (simp [PC.holdsWr] at h; done) | exact ⟨(fun e => by cases e), rfl⟩

/-- T9.2 core: whenever some task is unfinished, some task can take a step -/
theorem progress (cs : CS) (h : LockInv cs) (t : Nat) (ht : (cs.task t).pc ≠ .fin) : ∃ u cs', micro cs u = some cs' := by
  -- the holder of the writer lock can always run
  have wr : ∀ u, (cs.task u).pc.waitsWr = true → ∃ v cs', micro cs v = some cs' := by
    intro u hu
    have hq : u ∈ cs.wrQ := (h.wq u).mpr hu
    cases hh : cs.wrHolder with
    | none => rw [h.w0 hh] at hq; cases hq
    | some v =>
      have hv := (h.wh v).mp hh
      obtain ⟨h1, h2⟩ := holdsWr_enabled _ hv
      obtain ⟨c, hc⟩ := micro_enabled cs v h1 h2
      exact ⟨v, c, hc⟩
  cases hb : (cs.task t).pc.blocked with
  | false =>
    obtain ⟨c, hc⟩ := micro_enabled cs t ht hb
    exact ⟨t, c, hc⟩
  | true =>
    rcases (blocked_iff _).mp hb with hw | hw
    · -- waits for the buffer lock: its holder runs, or waits for the writer lock, whose holder runs
      have hq : t ∈ cs.bufQ := (h.bq t).mpr hw
      cases hh : cs.bufHolder with
      | none => rw [h.b0 hh] at hq; cases hq
      | some v =>
        have hv := (h.bh v).mp hh
        have hvf : (cs.task v).pc ≠ .fin := by intro e; rw [e] at hv; cases hv
        cases hvb : (cs.task v).pc.blocked with
        | false =>
          obtain ⟨c, hc⟩ := micro_enabled cs v hvf hvb
          exact ⟨v, c, hc⟩
        | true =>
          rcases (blocked_iff _).mp hvb with h1 | h1
          · rw [holdsBuf_not_waitsBuf _ hv] at h1; cases h1
          · exact wr v h1
    · exact wr t hw



/-- inside `close()` -/
def PC.closing : PC → Bool
  | .cflag _ | .cdrained _ | .cwait _ | .cshut _ => true
  | _ => false

theorem closing_norm (pc : PC) : pc.norm.closing = pc.closing := by cases pc <;> rfl

theorem enterClose_summary (cs : CS) (t : Nat) (k : CloseK) :
    (cs.enterClose t k).s.closed = true ∧ (cs.enterClose t k).s.shut = cs.s.shut ∧
    ((cs.enterClose t k).s.closed = cs.s.closed ∨ ((cs.enterClose t k).task t).pc.closing = true) := by
  unfold CS.enterClose
  split
  · rename_i h
    cases k with
    | op => exact ⟨h, rfl, Or.inl rfl⟩
    | inWrite fs => exact ⟨h, rfl, Or.inl rfl⟩
  · refine ⟨rfl, rfl, Or.inr ?_⟩
    rw [setPC_pc, if_pos rfl]; rfl

/-- what one action does to the closed flag, the transport and the actor's progress through `close()` -/
theorem micro_close (cs cs' : CS) (t : Nat) (hm : micro cs t = some cs') :
    (cs.s.closed = true → cs'.s.closed = true) ∧ (cs.s.shut = true → cs'.s.shut = true) ∧
    (cs'.s.closed = cs.s.closed ∨ (cs'.task t).pc.closing = true) ∧
    ((cs.task t).pc.closing = true → (cs'.task t).pc.closing = true ∨ cs'.s.shut = true) := by
  have prep : ∀ (s : Sess) (p : Bytes), (s.prepare p).1.closed = s.closed ∧ (s.prepare p).1.shut = s.shut := by
    intro s p
    unfold Sess.prepare
    split
    · exact ⟨rfl, rfl⟩
    · simp only; split
      · exact ⟨rfl, rfl⟩
      · split <;> exact ⟨rfl, rfl⟩
  have tw : ∀ (s s' : Sess) (p : Bytes), s.transportWrite p = some s' → s'.closed = s.closed ∧ s'.shut = s.shut := by
    intro s s' p h
    unfold Sess.transportWrite at h
    split at h
    · cases h
    · split at h
      · cases h
      · cases h; exact ⟨rfl, rfl⟩
      · cases h; exact ⟨rfl, rfl⟩
  unfold micro at hm
  simp only at hm
  split at hm
  · cases hm
  · rename_i hpc
    have nc : (cs.task t).pc.closing = false := by rw [hpc]; rfl
    split at hm
    · cases hm; exact ⟨id, id, Or.inl rfl, by rw [nc]; intro h; cases h⟩
    · cases hm; exact ⟨id, id, Or.inl rfl, by rw [nc]; intro h; cases h⟩
    · split at hm <;> (cases hm; exact ⟨id, id, Or.inl rfl, by rw [nc]; intro h; cases h⟩)
    · cases hm; exact ⟨id, id, Or.inl rfl, by rw [nc]; intro h; cases h⟩
    · cases hm; exact ⟨id, id, Or.inl rfl, by rw [nc]; intro h; cases h⟩
    · split at hm <;> (cases hm; exact ⟨id, id, Or.inl rfl, by rw [nc]; intro h; cases h⟩)
    · cases hm
      obtain ⟨a, b, c⟩ := enterClose_summary cs t .op
      exact ⟨fun _ => a, fun h => by rw [b]; exact h, c, by rw [nc]; intro h; cases h⟩
  · rename_i hpc
    cases hm; exact ⟨id, id, Or.inl rfl, by rw [hpc]; intro h; cases h⟩
  · rename_i hpc
    split at hm <;> (cases hm; exact ⟨id, id, Or.inl rfl, by rw [hpc]; intro h; cases h⟩)
  · cases hm
  · rename_i hpc
    cases hm
    exact ⟨by rw [finishOp_s, releaseBuf_s]; exact id, by rw [finishOp_s, releaseBuf_s]; exact id, Or.inl (by rw [finishOp_s, releaseBuf_s]), by rw [hpc]; intro h; cases h⟩
  · rename_i b fs hpc
    have nc : (cs.task t).pc.closing = true → False := by rw [hpc]; intro h; cases h
    split at hm
    · cases hm
      exact ⟨by rw [finishOp_s, releaseBuf_s]; exact id, by rw [finishOp_s, releaseBuf_s]; exact id, Or.inl (by rw [finishOp_s, releaseBuf_s]), fun h => (nc h).elim⟩
    · split at hm
      · split at hm
        · cases hm
          exact ⟨by rw [finishOp_s, releaseBuf_s]; exact id, by rw [finishOp_s, releaseBuf_s]; exact id, Or.inl (by rw [finishOp_s, releaseBuf_s]), fun h => (nc h).elim⟩
        · cases hm
          exact ⟨by rw [setPC_s, releaseBuf_s]; exact id, by rw [setPC_s, releaseBuf_s]; exact id, Or.inl (by rw [setPC_s, releaseBuf_s]), fun h => (nc h).elim⟩
      · cases hm
        obtain ⟨p1, p2⟩ := prep { cs.s with buffer := [] } (cs.s.buffer ++ b)
        refine ⟨?_, ?_, Or.inl ?_, fun h => (nc h).elim⟩
        · rw [setPC_s]; show cs.s.closed = true → (Sess.prepare _ _).1.closed = true; rw [p1]; exact id
        · rw [setPC_s]; show cs.s.shut = true → (Sess.prepare _ _).1.shut = true; rw [p2]; exact id
        · rw [setPC_s]; show (Sess.prepare _ _).1.closed = _; rw [p1]
  · rename_i ps fs hpc
    cases hm
    refine ⟨?_, ?_, Or.inl ?_, by rw [hpc]; intro h; cases h⟩ <;> (unfold CS.lockWrWrite; split <;> first | exact id | rfl)
  · cases hm
  · rename_i fs hpc
    cases hm
    exact ⟨by rw [setPC_s, releaseWr_s]; exact id, by rw [setPC_s, releaseWr_s]; exact id, Or.inl (by rw [setPC_s, releaseWr_s]), by rw [hpc]; intro h; cases h⟩
  · rename_i p ps fs hpc
    have nc : (cs.task t).pc.closing = true → False := by rw [hpc]; intro h; cases h
    split at hm
    · rename_i s' hs'
      obtain ⟨t1, t2⟩ := tw cs.s s' p hs'
      split at hm
      · cases hm
        exact ⟨by rw [setPC_s, releaseWr_s]; show _ → s'.closed = true; rw [t1]; exact id, by rw [setPC_s, releaseWr_s]; show _ → s'.shut = true; rw [t2]; exact id,
          Or.inl (by rw [setPC_s, releaseWr_s]; exact t1), fun h => (nc h).elim⟩
      · cases hm
        exact ⟨by rw [setPC_s]; show _ → s'.closed = true; rw [t1]; exact id, by rw [setPC_s]; show _ → s'.shut = true; rw [t2]; exact id,
          Or.inl (by rw [setPC_s]; exact t1), fun h => (nc h).elim⟩
    · cases hm
      obtain ⟨a, b, c⟩ := enterClose_summary ({ cs with failed := true } : CS).releaseWr t (.inWrite fs)
      rw [releaseWr_s] at b c
      exact ⟨fun _ => a, fun h => by rw [b]; exact h, c, fun h => (nc h).elim⟩
  · rename_i r fs hpc
    have nc : (cs.task t).pc.closing = true → False := by rw [hpc]; intro h; cases h
    try simp only at hm
    split at hm
    · cases hm
      exact ⟨by rw [setPC_s, releaseBuf_s]; exact id, by rw [setPC_s, releaseBuf_s]; exact id, Or.inl (by rw [setPC_s, releaseBuf_s]), fun h => (nc h).elim⟩
    · cases hm
      exact ⟨by rw [finishOp_s, releaseBuf_s]; exact id, by rw [finishOp_s, releaseBuf_s]; exact id, Or.inl (by rw [finishOp_s, releaseBuf_s]), fun h => (nc h).elim⟩
  · rename_i k hpc
    cases hm
    exact ⟨id, id, Or.inl rfl, fun _ => Or.inl (by rw [setPC_pc, if_pos rfl]; rfl)⟩
  · rename_i k hpc
    split at hm <;> (cases hm; exact ⟨id, id, Or.inl rfl, fun _ => Or.inl (by rw [setPC_pc, if_pos rfl]; rfl)⟩)
  · cases hm
  · rename_i k hpc
    cases k with
    | op =>
      cases hm
      exact ⟨by rw [finishOp_s, releaseWr_s]; exact id, fun _ => by rw [finishOp_s, releaseWr_s], Or.inl (by rw [finishOp_s, releaseWr_s]), fun _ => Or.inr (by rw [finishOp_s, releaseWr_s])⟩
    | inWrite fs =>
      cases hm
      exact ⟨by rw [setPC_s, releaseWr_s]; exact id, fun _ => by rw [setPC_s, releaseWr_s], Or.inl (by rw [setPC_s, releaseWr_s]), fun _ => Or.inr (by rw [setPC_s, releaseWr_s])⟩



/-- an upper bound on the entries of any line of the scheme -/
def Scheme.maxParts (s : Scheme) : Nat := (s.map.map (fun kv => (splitOnByte 44 kv.2).length)).foldr max 0

theorem le_foldr_max (l : List Nat) (x : Nat) (h : x ∈ l) : x ≤ l.foldr max 0 := by
  induction l with
  | nil => cases h
  | cons a t ih =>
    simp only [List.foldr_cons]
    rcases List.mem_cons.mp h with e | e
    · subst e; exact Nat.le_max_left _ _
    · exact Nat.le_trans (ih e) (Nat.le_max_right _ _)

theorem mapGet_mem (m : List (Bytes × Bytes)) (k v : Bytes) (h : mapGet m k = some v) : ∃ kv ∈ m, kv.2 = v := by
  unfold mapGet at h
  split at h
  · rename_i kv hf
    cases h
    exact ⟨kv, List.mem_reverse.mp (List.mem_of_find?_eq_some hf), rfl⟩
  · cases h

theorem specs_length_le (s : Scheme) (pkt : Nat) : (s.specs pkt).length ≤ s.maxParts := by
  unfold Scheme.specs
  split
  · exact Nat.zero_le _
  · rename_i line hg
    obtain ⟨kv, hm, e⟩ := mapGet_mem _ _ _ hg
    refine Nat.le_trans (List.length_filterMap_le _ _) ?_
    unfold Scheme.maxParts
    apply le_foldr_max
    rw [List.mem_map]
    exact ⟨kv, hm, by rw [e]⟩

theorem shape_length_le : ∀ (sizes : List Sz) (buf : Bytes), (shape sizes buf).length ≤ sizes.length + 1 := by
  intro sizes
  induction sizes with
  | nil => intro buf; unfold shape; split <;> simp
  | cons sz rest ih =>
    intro buf
    cases sz with
    | check =>
      unfold shape
      split
      · simp
      · have := ih buf; simp only [List.length_cons]; omega
    | size n =>
      unfold shape
      split
      · have := ih (buf.drop n); simp only [List.length_cons]; omega
      · split
        · have := ih []; simp only [List.length_cons]; omega
        · have := ih []; simp only [List.length_cons]; omega

/-- the number of `write_all` calls of one `write_with_padding` is bounded by the scheme -/
theorem prepare_length_le (s : Sess) (payload : Bytes) : (s.prepare payload).2.length ≤ s.scheme.maxParts + 1 ∧ (s.prepare payload).1.scheme = s.scheme := by
  unfold Sess.prepare
  split
  · exact ⟨by simp, rfl⟩
  · simp only
    split
    · exact ⟨by simp, rfl⟩
    · split
      · exact ⟨by simp, rfl⟩
      · refine ⟨?_, rfl⟩
        refine Nat.le_trans (shape_length_le _ _) ?_
        rw [resolve_length]
        have := specs_length_le s.scheme (s.pktCounter + Gen.pktFetchOffset)
        show (Scheme.specs _ _).length + 1 ≤ _
        omega



/-! ### a step bound: every action strictly decreases the actor's cost and changes nobody else's -/

def rem (K : Nat) (fs : List Bytes) : Nat := (fs.length - 1) * K

def kCost (K : Nat) : CloseK → Nat
  | .op => 0
  | .inWrite fs => rem K fs

def pcCost (K : Nat) : PC → Nat
  | .idle | .fin => 0
  | .openChecked => K + 2
  | .enter fs => rem K fs + K + 1
  | .waitBuf fs | .locked fs => rem K fs + K
  | .preWr ps fs => rem K fs + ps.length + 7
  | .waitWr ps fs | .piece ps fs => rem K fs + ps.length + 6
  | .wdone _ fs => rem K fs + 2
  | .cflag k => kCost K k + 5
  | .cdrained k => kCost K k + 4
  | .cwait k | .cshut k => kCost K k + 3

def opCost (K : Nat) : COp → Nat
  | .nobuf => 1
  | .close => 8
  | .write _ => K + 4
  | .data _ p => (dataFrames (p.length + 1) 0 p).length * K + 4
  | .dataOwn p => (dataFrames (p.length + 1) 0 p).length * K + 4
  | .open => K + 5

def sumCost (K : Nat) (ops : List COp) : Nat := (ops.map (opCost K)).sum

def taskCost (K : Nat) (k : Task) : Nat :=
  match k.pc with
  | .fin => 0
  | .idle => 1 + sumCost K k.ops
  | pc => 2 + pcCost K pc + sumCost K k.ops.tail

theorem pcCost_norm (K : Nat) (pc : PC) : pcCost K pc.norm = pcCost K pc := by cases pc <;> rfl

theorem taskCost_norm (K : Nat) (k k' : Task) (h1 : k'.pc.norm = k.pc.norm) (h2 : k'.ops = k.ops) : taskCost K k' = taskCost K k := by
  unfold taskCost
  rw [h2]
  cases hp : k.pc <;> cases hp' : k'.pc <;> rw [hp, hp'] at h1 <;> simp [PC.norm] at h1 <;> (try subst_vars) <;> simp [pcCost] <;>
    first | rfl | (obtain ⟨a, b⟩ := h1; subst a; subst b; rfl) | (subst h1; rfl)

theorem dataFrames_length (sid sid' : Nat) : ∀ (fuel : Nat) (data : Bytes),
    (dataFrames fuel sid data).length = (dataFrames fuel sid' data).length := by
  intro fuel
  induction fuel with
  | zero => intro _; rfl
  | succ n ih =>
    intro data
    unfold dataFrames
    split
    · simp only [List.length_cons]; rw [ih]
    · rfl

theorem dataFrames_pos (sid : Nat) (fuel : Nat) (data : Bytes) : 1 ≤ (dataFrames (fuel + 1) sid data).length := by
  unfold dataFrames; split <;> simp

theorem rem_add (K : Nat) (fs : List Bytes) (h : fs ≠ []) : rem K fs + K = fs.length * K := by
  unfold rem
  cases fs with
  | nil => exact absurd rfl h
  | cons x xs => simp only [List.length_cons, Nat.add_sub_cancel]; rw [Nat.succ_mul]

theorem rem_cons (K : Nat) (x g : Bytes) (gs : List Bytes) : rem K (x :: g :: gs) = rem K (g :: gs) + K := by
  unfold rem; simp only [List.length_cons, Nat.add_sub_cancel]; rw [Nat.succ_mul]

theorem rem_single (K : Nat) (x : Bytes) : rem K [x] = 0 := by simp [rem]



def PC.busy : PC → Bool
  | .idle | .fin => false
  | _ => true

theorem taskCost_busy (K : Nat) (k : Task) (h : k.pc.busy = true) : taskCost K k = 2 + pcCost K k.pc + sumCost K k.ops.tail := by
  unfold taskCost
  cases hp : k.pc <;> rw [hp] at h <;> first | rfl | cases h

theorem taskCost_idle (K : Nat) (k : Task) (h : k.pc = .idle) : taskCost K k = 1 + sumCost K k.ops := by
  unfold taskCost; rw [h]

theorem cost_setPC (K : Nat) (c : CS) (t : Nat) (pc : PC) (h : pc.busy = true) :
    taskCost K ((c.setPC t pc).task t) = 2 + pcCost K pc + sumCost K (c.task t).ops.tail := by
  rw [setPC_self, taskCost_busy K _ h]

theorem cost_finishOp (K : Nat) (c : CS) (t : Nat) (r : Res) :
    taskCost K ((c.finishOp t r).task t) = 1 + sumCost K (c.task t).ops.tail := by
  rw [finishOp_self, taskCost_idle K _ rfl]

theorem cost_submit (K : Nat) (c : CS) (t : Nat) (fs : List Bytes) :
    taskCost K ((c.submit t fs).task t) = 2 + (rem K fs + K + 1) + sumCost K (c.task t).ops.tail := by
  rw [submit_self, taskCost_busy K _ rfl]; rfl

theorem sumCost_cons (K : Nat) (op : COp) (rest : List COp) : sumCost K (op :: rest) = opCost K op + sumCost K rest := by
  unfold sumCost; simp

theorem enterClose_cost (K : Nat) (c : CS) (t : Nat) (k : CloseK) :
    taskCost K ((c.enterClose t k).task t) ≤ 2 + (kCost K k + 5) + sumCost K (c.task t).ops.tail := by
  unfold CS.enterClose
  split
  · cases k with
    | op => rw [cost_finishOp]; omega
    | inWrite fs => rw [cost_setPC K c t _ rfl]; simp only [pcCost, kCost]; omega
  · rw [cost_setPC K _ t _ rfl]
    simp only [pcCost]
    show 2 + (kCost K k + 5) + sumCost K (c.task t).ops.tail ≤ 2 + (kCost K k + 5) + sumCost K (c.task t).ops.tail
    omega

theorem lockWrWrite_cost (K : Nat) (c : CS) (t : Nat) (ps fs : List Bytes) :
    taskCost K ((c.lockWrWrite t ps fs).task t) = 2 + (rem K fs + ps.length + 6) + sumCost K (c.task t).ops.tail := by
  unfold CS.lockWrWrite
  split <;> (rw [cost_setPC K _ t _ rfl]; rfl)

/-- every action strictly decreases the cost of the task that takes it, provided `K` exceeds the
number of `write_all` calls a single packet can need by 12 -/
theorem micro_cost (K : Nat) (cs cs' : CS) (t : Nat) (hK : cs.s.scheme.maxParts + 12 ≤ K) (hm : micro cs t = some cs') :
    taskCost K (cs'.task t) < taskCost K (cs.task t) := by
  have rbo := fun (c : CS) => (releaseBuf_task c t).2.2.1
  have rwo := fun (c : CS) => (releaseWr_task c t).2.2.1
  unfold micro at hm
  simp only at hm
  split at hm
  · cases hm
  · -- idle
    rename_i hpc
    rw [taskCost_idle K _ hpc]
    split at hm
    · rename_i hops
      cases hm
      rw [setPC_self]; simp [taskCost]; omega
    · rename_i rest hops
      cases hm
      rw [cost_finishOp, hops, sumCost_cons]
      show 1 + sumCost K ((cs.task t).ops.tail) < _
      rw [hops]; simp only [List.tail_cons, opCost]; omega
    · rename_i f rest hops
      split at hm
      · cases hm; rw [cost_finishOp, hops, sumCost_cons]; simp only [List.tail_cons, opCost]; omega
      · cases hm; rw [cost_submit, hops, sumCost_cons]; simp only [List.tail_cons, opCost, rem_single]; omega
    · rename_i sid payload rest hops
      cases hm
      rw [cost_submit, hops, sumCost_cons]
      simp only [List.tail_cons, opCost]
      have hne : (dataFrames (payload.length + 1) sid payload).map encodeD ≠ [] := by
        have := dataFrames_pos sid payload.length payload
        intro e; rw [List.map_eq_nil_iff] at e; rw [e] at this; simp at this
      have := rem_add K _ hne
      rw [List.length_map, dataFrames_length sid 0] at this
      omega
    · rename_i payload rest hops
      cases hm
      rw [cost_submit, hops, sumCost_cons]
      simp only [List.tail_cons, opCost]
      generalize hsid : ((List.filterMap id (cs.task t).sids).getLast?.getD 0) = sid
      have hne : (dataFrames (payload.length + 1) sid payload).map encodeD ≠ [] := by
        have := dataFrames_pos sid payload.length payload
        intro e; rw [List.map_eq_nil_iff] at e; rw [e] at this; simp at this
      have := rem_add K _ hne
      rw [List.length_map, dataFrames_length sid 0] at this
      omega
    · rename_i rest hops
      split at hm
      · cases hm
        rw [cost_finishOp, hops, sumCost_cons]
        show 1 + sumCost K ((cs.setTask t _).task t).ops.tail < _
        rw [setTask_task, if_pos rfl]
        simp only [hops, List.tail_cons, opCost]; omega
      · cases hm; rw [cost_setPC K cs t _ rfl, hops, sumCost_cons]; simp only [List.tail_cons, opCost, pcCost]; omega
    · rename_i rest hops
      cases hm
      have := enterClose_cost K cs t .op
      rw [hops] at this ⊢
      rw [sumCost_cons]
      simp only [List.tail_cons, opCost, kCost] at this ⊢
      omega
  · -- openChecked
    rename_i hpc
    cases hm
    rw [taskCost_busy K (cs.task t) (by rw [hpc]; rfl), hpc, cost_submit]
    show 2 + (rem K _ + K + 1) + sumCost K ((CS.setTask _ t _).task t).ops.tail < _
    rw [setTask_task, if_pos rfl]
    simp only [pcCost, rem_single]
    show 2 + (0 + K + 1) + sumCost K (cs.task t).ops.tail < _
    omega
  · -- enter
    rename_i fs hpc
    rw [taskCost_busy K (cs.task t) (by rw [hpc]; rfl), hpc]
    split at hm <;> (cases hm; rw [cost_setPC K _ t _ rfl]; simp only [pcCost]; show 2 + _ + sumCost K (cs.task t).ops.tail < _; omega)
  · cases hm
  · -- locked []
    rename_i hpc
    cases hm
    rw [taskCost_busy K (cs.task t) (by rw [hpc]; rfl), cost_finishOp, rbo]; omega
  · -- locked (b :: fs)
    rename_i b fs hpc
    rw [taskCost_busy K (cs.task t) (by rw [hpc]; rfl), hpc]
    split at hm
    · cases hm; rw [cost_finishOp, rbo]; omega
    · split at hm
      · split at hm
        · cases hm; rw [cost_finishOp, rbo]; show 1 + sumCost K (cs.task t).ops.tail < _; omega
        · rename_i hfs
          cases hm
          rw [cost_setPC K _ t _ rfl, rbo]
          show 2 + pcCost K (.enter fs) + sumCost K (cs.task t).ops.tail < _
          have hne : fs ≠ [] := fun e => hfs (by rw [e]; rfl)
          cases fs with
          | nil => exact absurd rfl hne
          | cons g gs => simp only [pcCost, rem_cons]; omega
      · cases hm
        rw [cost_setPC K _ t _ rfl]
        simp only [pcCost]
        have key : ∀ (P : Sess × List Bytes), P.2.length ≤ cs.s.scheme.maxParts + 1 →
            2 + (rem K (b :: fs) + P.2.length + 7) + sumCost K (cs.task t).ops.tail <
            2 + (rem K (b :: fs) + K) + sumCost K (cs.task t).ops.tail := by intro P h; omega
        exact key _ (prepare_length_le { cs.s with buffer := [] } (cs.s.buffer ++ b)).1
  · -- preWr
    rename_i ps fs hpc
    cases hm
    rw [taskCost_busy K (cs.task t) (by rw [hpc]; rfl), hpc, lockWrWrite_cost]
    simp only [pcCost]; omega
  · cases hm
  · -- piece []
    rename_i fs hpc
    cases hm
    rw [taskCost_busy K (cs.task t) (by rw [hpc]; rfl), hpc, cost_setPC K _ t _ rfl, rwo]
    simp only [pcCost, List.length_nil]; omega
  · -- piece (p :: ps)
    rename_i p ps fs hpc
    rw [taskCost_busy K (cs.task t) (by rw [hpc]; rfl), hpc]
    split at hm
    · split at hm
      · cases hm
        rw [cost_setPC K _ t _ rfl, rwo]
        simp only [pcCost, List.length_cons]
        show 2 + _ + sumCost K (cs.task t).ops.tail < _
        omega
      · cases hm
        rw [cost_setPC K _ t _ rfl]
        simp only [pcCost, List.length_cons]
        show 2 + _ + sumCost K (cs.task t).ops.tail < _
        omega
    · cases hm
      have := enterClose_cost K ({ cs with failed := true } : CS).releaseWr t (.inWrite fs)
      rw [rwo] at this
      simp only [pcCost, kCost, List.length_cons] at this ⊢
      have e : (({ cs with failed := true } : CS).task t).ops = (cs.task t).ops := rfl
      rw [e] at this
      omega
  · -- wdone
    rename_i r fs hpc
    rw [taskCost_busy K (cs.task t) (by rw [hpc]; rfl), hpc]
    try simp only at hm
    split at hm
    · rename_i x g gs
      cases hm
      rw [cost_setPC K _ t _ rfl, rbo]
      simp only [pcCost, rem_cons]; omega
    · cases hm; rw [cost_finishOp, rbo]; omega
  · -- cflag
    rename_i k hpc
    cases hm
    rw [taskCost_busy K (cs.task t) (by rw [hpc]; rfl), hpc, cost_setPC K _ t _ rfl]
    simp only [pcCost]
    show 2 + _ + sumCost K (cs.task t).ops.tail < _
    omega
  · -- cdrained
    rename_i k hpc
    rw [taskCost_busy K (cs.task t) (by rw [hpc]; rfl), hpc]
    split at hm <;> (cases hm; rw [cost_setPC K _ t _ rfl]; simp only [pcCost]; show 2 + _ + sumCost K (cs.task t).ops.tail < _; omega)
  · cases hm
  · -- cshut
    rename_i k hpc
    rw [taskCost_busy K (cs.task t) (by rw [hpc]; rfl), hpc]
    cases k with
    | op =>
      cases hm
      rw [cost_finishOp, rwo]
      show 1 + sumCost K (cs.task t).ops.tail < _
      omega
    | inWrite fs =>
      cases hm
      rw [cost_setPC K _ t _ rfl, rwo]
      simp only [pcCost, kCost]
      show 2 + _ + sumCost K (cs.task t).ops.tail < _
      omega



theorem enterClose_scheme (cs : CS) (t : Nat) (k : CloseK) : (cs.enterClose t k).s.scheme = cs.s.scheme := by
  unfold CS.enterClose; split
  · cases k <;> rfl
  · rfl

theorem lockWrWrite_s (cs : CS) (t : Nat) (ps fs : List Bytes) : (cs.lockWrWrite t ps fs).s = cs.s := by
  unfold CS.lockWrWrite; split <;> rfl

theorem transportWrite_scheme (s s' : Sess) (p : Bytes) (h : s.transportWrite p = some s') : s'.scheme = s.scheme := by
  unfold Sess.transportWrite at h
  split at h
  · cases h
  · split at h
    · cases h
    · cases h; rfl
    · cases h; rfl

/-- no action changes the padding scheme (M13 has no UpdatePaddingScheme: that is the receive loop, C19) -/
theorem micro_scheme (cs cs' : CS) (t : Nat) (hm : micro cs t = some cs') : cs'.s.scheme = cs.s.scheme := by
  unfold micro at hm
  simp only at hm
  split at hm
  · cases hm
  · split at hm
    · cases hm; rfl
    · cases hm; rfl
    · split at hm <;> (cases hm; rfl)
    · cases hm; rfl
    · cases hm; rfl
    · split at hm <;> (cases hm; rfl)
    · cases hm; exact enterClose_scheme cs t _
  · cases hm; rfl
  · split at hm <;> (cases hm; rfl)
  · cases hm
  · cases hm; rw [finishOp_s, releaseBuf_s]
  · rename_i b fs _
    split at hm
    · cases hm; rw [finishOp_s, releaseBuf_s]
    · split at hm
      · split at hm
        · cases hm; rw [finishOp_s, releaseBuf_s]
        · cases hm; rw [setPC_s, releaseBuf_s]
      · cases hm
        rw [setPC_s]
        exact (prepare_length_le { cs.s with buffer := [] } (cs.s.buffer ++ b)).2
  · cases hm; rw [lockWrWrite_s]
  · cases hm
  · cases hm; rw [setPC_s, releaseWr_s]
  · rename_i p ps fs _
    split at hm
    · rename_i s' hs'
      have := transportWrite_scheme cs.s s' p hs'
      split at hm
      · cases hm; rw [setPC_s, releaseWr_s]; exact this
      · cases hm; rw [setPC_s]; exact this
    · cases hm; rw [enterClose_scheme, releaseWr_s]
  · try simp only at hm
    split at hm
    · cases hm; rw [setPC_s, releaseBuf_s]
    · cases hm; rw [finishOp_s, releaseBuf_s]
  · cases hm; rfl
  · split at hm <;> (cases hm; rfl)
  · cases hm
  · rename_i k _
    cases k with
    | op => cases hm; rw [finishOp_s, releaseWr_s]
    | inWrite fs => cases hm; rw [setPC_s, releaseWr_s]

/-- total remaining work -/
def totalCost (K : Nat) (cs : CS) : Nat := ((List.range cs.n).map (fun u => taskCost K (cs.task u))).sum

theorem sum_update_lt : ∀ (n t : Nat) (f g : Nat → Nat), t < n → g t < f t → (∀ u, u ≠ t → g u = f u) →
    ((List.range n).map g).sum < ((List.range n).map f).sum := by
  intro n
  induction n with
  | zero => intro t f g h; omega
  | succ m ih =>
    intro t f g ht hlt hoth
    rw [List.range_succ, List.map_append, List.map_append, List.sum_append, List.sum_append]
    simp only [List.map_cons, List.map_nil, List.sum_cons, List.sum_nil, Nat.add_zero]
    by_cases e : t = m
    · subst e
      have : (List.range t).map g = (List.range t).map f := by
        apply List.map_congr_left
        intro u hu
        rw [List.mem_range] at hu
        exact hoth u (by omega)
      rw [this]; omega
    · have := ih t f g (by omega) hlt hoth
      rw [hoth m (fun e' => e e'.symm)]
      omega

theorem micro_total (K : Nat) (cs cs' : CS) (t : Nat) (hid : IdInv cs) (hK : cs.s.scheme.maxParts + 12 ≤ K)
    (hm : micro cs t = some cs') : totalCost K cs' < totalCost K cs := by
  have ht : t < cs.n := by
    cases Nat.lt_or_ge t cs.n with
    | inl h' => exact h'
    | inr h' =>
      have := (hid.unused t h').1
      unfold micro at hm
      simp only [this] at hm
      cases hm
  unfold totalCost
  rw [micro_n cs cs' t hm]
  apply sum_update_lt cs.n t _ _ ht (micro_cost K cs cs' t hK hm)
  intro u hu
  obtain ⟨h1, _, h3, _, _⟩ := micro_others cs cs' t hm u hu
  exact taskCost_norm K _ _ h1 h3

/-- a schedule: which task acts next; it is valid if each named task can act when its turn comes -/
def runSched : CS → List Nat → Option CS
  | cs, [] => some cs
  | cs, t :: rest => match micro cs t with
    | some cs' => runSched cs' rest
    | none => none

/-- T9.3 `every_schedule_is_bounded`: whatever the interleaving, the tasks of a state can take at
most `totalCost` actions altogether — no livelock, no task runs for ever. -/
theorem sched_bounded (K : Nat) : ∀ (l : List Nat) (cs cs' : CS), IdInv cs → cs.s.scheme.maxParts + 12 ≤ K →
    runSched cs l = some cs' → l.length + totalCost K cs' ≤ totalCost K cs := by
  intro l
  induction l with
  | nil => intro cs cs' _ _ h; cases h; simp
  | cons t rest ih =>
    intro cs cs' hid hK h
    unfold runSched at h
    split at h
    · rename_i c1 hm
      have h1 := micro_total K cs c1 t hid hK hm
      have h2 := ih c1 cs' (IdInv_micro cs c1 t hid hm) (by rw [micro_scheme cs c1 t hm]; exact hK) h
      simp only [List.length_cons]
      omega
    · cases h


end AnyTLS
