import AnyTLS.Model.Conc
import AnyTLS.Lemmas.Padding

namespace AnyTLS

/-! ### bookkeeping lemmas: what the state combinators touch -/

@[simp] theorem setTask_task (cs : CS) (t t' : Nat) (f : Task → Task) :
    (cs.setTask t f).task t' = if t' = t then f (cs.task t') else cs.task t' := rfl
@[simp] theorem setTask_s (cs : CS) (t : Nat) (f : Task → Task) : (cs.setTask t f).s = cs.s := rfl
@[simp] theorem setTask_n (cs : CS) (t : Nat) (f : Task → Task) : (cs.setTask t f).n = cs.n := rfl
@[simp] theorem setTask_bufHolder (cs : CS) (t : Nat) (f : Task → Task) : (cs.setTask t f).bufHolder = cs.bufHolder := rfl
@[simp] theorem setTask_wrHolder (cs : CS) (t : Nat) (f : Task → Task) : (cs.setTask t f).wrHolder = cs.wrHolder := rfl
@[simp] theorem setTask_bufQ (cs : CS) (t : Nat) (f : Task → Task) : (cs.setTask t f).bufQ = cs.bufQ := rfl
@[simp] theorem setTask_wrQ (cs : CS) (t : Nat) (f : Task → Task) : (cs.setTask t f).wrQ = cs.wrQ := rfl
@[simp] theorem setTask_log (cs : CS) (t : Nat) (f : Task → Task) : (cs.setTask t f).log = cs.log := rfl
@[simp] theorem setTask_failed (cs : CS) (t : Nat) (f : Task → Task) : (cs.setTask t f).failed = cs.failed := rfl

@[simp] theorem setPC_pc (cs : CS) (t t' : Nat) (pc : PC) :
    ((cs.setPC t pc).task t').pc = if t' = t then pc else (cs.task t').pc := by
  unfold CS.setPC; rw [setTask_task]; split <;> rfl
@[simp] theorem setPC_s (cs : CS) (t : Nat) (pc : PC) : (cs.setPC t pc).s = cs.s := rfl
@[simp] theorem setPC_n (cs : CS) (t : Nat) (pc : PC) : (cs.setPC t pc).n = cs.n := rfl
@[simp] theorem setPC_bufHolder (cs : CS) (t : Nat) (pc : PC) : (cs.setPC t pc).bufHolder = cs.bufHolder := rfl
@[simp] theorem setPC_wrHolder (cs : CS) (t : Nat) (pc : PC) : (cs.setPC t pc).wrHolder = cs.wrHolder := rfl
@[simp] theorem setPC_bufQ (cs : CS) (t : Nat) (pc : PC) : (cs.setPC t pc).bufQ = cs.bufQ := rfl
@[simp] theorem setPC_wrQ (cs : CS) (t : Nat) (pc : PC) : (cs.setPC t pc).wrQ = cs.wrQ := rfl
@[simp] theorem setPC_log (cs : CS) (t : Nat) (pc : PC) : (cs.setPC t pc).log = cs.log := rfl
@[simp] theorem setPC_failed (cs : CS) (t : Nat) (pc : PC) : (cs.setPC t pc).failed = cs.failed := rfl

@[simp] theorem finishOp_pc (cs : CS) (t t' : Nat) (r : Res) :
    ((cs.finishOp t r).task t').pc = if t' = t then .idle else (cs.task t').pc := by
  unfold CS.finishOp; rw [setTask_task]; split <;> rfl
@[simp] theorem finishOp_s (cs : CS) (t : Nat) (r : Res) : (cs.finishOp t r).s = cs.s := rfl
@[simp] theorem finishOp_n (cs : CS) (t : Nat) (r : Res) : (cs.finishOp t r).n = cs.n := rfl
@[simp] theorem finishOp_bufHolder (cs : CS) (t : Nat) (r : Res) : (cs.finishOp t r).bufHolder = cs.bufHolder := rfl
@[simp] theorem finishOp_wrHolder (cs : CS) (t : Nat) (r : Res) : (cs.finishOp t r).wrHolder = cs.wrHolder := rfl
@[simp] theorem finishOp_bufQ (cs : CS) (t : Nat) (r : Res) : (cs.finishOp t r).bufQ = cs.bufQ := rfl
@[simp] theorem finishOp_wrQ (cs : CS) (t : Nat) (r : Res) : (cs.finishOp t r).wrQ = cs.wrQ := rfl
@[simp] theorem finishOp_log (cs : CS) (t : Nat) (r : Res) : (cs.finishOp t r).log = cs.log := rfl
@[simp] theorem finishOp_failed (cs : CS) (t : Nat) (r : Res) : (cs.finishOp t r).failed = cs.failed := rfl

@[simp] theorem submit_pc (cs : CS) (t t' : Nat) (fs : List Bytes) :
    ((cs.submit t fs).task t').pc = if t' = t then .enter fs else (cs.task t').pc := by
  unfold CS.submit; rw [setTask_task]; split <;> rfl
@[simp] theorem submit_s (cs : CS) (t : Nat) (fs : List Bytes) : (cs.submit t fs).s = cs.s := rfl
@[simp] theorem submit_n (cs : CS) (t : Nat) (fs : List Bytes) : (cs.submit t fs).n = cs.n := rfl
@[simp] theorem submit_bufHolder (cs : CS) (t : Nat) (fs : List Bytes) : (cs.submit t fs).bufHolder = cs.bufHolder := rfl
@[simp] theorem submit_wrHolder (cs : CS) (t : Nat) (fs : List Bytes) : (cs.submit t fs).wrHolder = cs.wrHolder := rfl
@[simp] theorem submit_bufQ (cs : CS) (t : Nat) (fs : List Bytes) : (cs.submit t fs).bufQ = cs.bufQ := rfl
@[simp] theorem submit_wrQ (cs : CS) (t : Nat) (fs : List Bytes) : (cs.submit t fs).wrQ = cs.wrQ := rfl
@[simp] theorem submit_log (cs : CS) (t : Nat) (fs : List Bytes) : (cs.submit t fs).log = cs.log := rfl
@[simp] theorem submit_failed (cs : CS) (t : Nat) (fs : List Bytes) : (cs.submit t fs).failed = cs.failed := rfl

/-! ### which states hold which lock -/

def PC.holdsBuf : PC → Bool
  | .locked _ | .preWr _ _ | .waitWr _ _ | .piece _ _ | .wdone _ _ => true
  | .cflag (.inWrite _) | .cdrained (.inWrite _) | .cwait (.inWrite _) | .cshut (.inWrite _) => true
  | _ => false

def PC.holdsWr : PC → Bool
  | .piece _ _ | .cshut _ => true
  | _ => false

/-- the bytes a state still has to put on the wire -/
def PC.inflight : PC → Bytes
  | .preWr ps _ | .waitWr ps _ | .piece ps _ => flatten ps
  | _ => []

/-! ### releaseBuf / releaseWr -/

theorem releaseBuf_s (cs : CS) : cs.releaseBuf.s = cs.s := by
  unfold CS.releaseBuf; split
  · rfl
  · simp only; split <;> rfl
theorem releaseBuf_log (cs : CS) : cs.releaseBuf.log = cs.log := by
  unfold CS.releaseBuf; split
  · rfl
  · simp only; split <;> rfl
theorem releaseBuf_failed (cs : CS) : cs.releaseBuf.failed = cs.failed := by
  unfold CS.releaseBuf; split
  · rfl
  · simp only; split <;> rfl
theorem releaseBuf_n (cs : CS) : cs.releaseBuf.n = cs.n := by
  unfold CS.releaseBuf; split
  · rfl
  · simp only; split <;> rfl
theorem releaseBuf_wrHolder (cs : CS) : cs.releaseBuf.wrHolder = cs.wrHolder := by
  unfold CS.releaseBuf; split
  · rfl
  · simp only; split <;> rfl

theorem releaseWr_s (cs : CS) : cs.releaseWr.s = cs.s := by
  unfold CS.releaseWr; split
  · rfl
  · simp only; split <;> rfl
theorem releaseWr_log (cs : CS) : cs.releaseWr.log = cs.log := by
  unfold CS.releaseWr; split
  · rfl
  · simp only; split <;> rfl
theorem releaseWr_failed (cs : CS) : cs.releaseWr.failed = cs.failed := by
  unfold CS.releaseWr; split
  · rfl
  · simp only; split <;> rfl
theorem releaseWr_n (cs : CS) : cs.releaseWr.n = cs.n := by
  unfold CS.releaseWr; split
  · rfl
  · simp only; split <;> rfl
theorem releaseWr_bufHolder (cs : CS) : cs.releaseWr.bufHolder = cs.bufHolder := by
  unfold CS.releaseWr; split
  · rfl
  · simp only; split <;> rfl

/-- a writer-lock hand-off changes states only within {waitWr→piece, cwait→cshut}: what a task holds
of the buffer lock and what it still has to write do not change -/
theorem releaseWr_pc (cs : CS) (t : Nat) :
    ((cs.releaseWr.task t).pc).holdsBuf = ((cs.task t).pc).holdsBuf ∧
    ((cs.releaseWr.task t).pc).inflight = ((cs.task t).pc).inflight := by
  unfold CS.releaseWr
  split
  · exact ⟨rfl, rfl⟩
  · rename_i w q _
    simp only
    split
    · rename_i ps fs hpc
      rw [setPC_pc]
      split
      · rename_i e; subst e
        have : (cs.task t).pc = .waitWr ps fs := hpc
        rw [this]; exact ⟨rfl, rfl⟩
      · exact ⟨rfl, rfl⟩
    · rename_i k hpc
      rw [setPC_pc]
      split
      · rename_i e; subst e
        have : (cs.task t).pc = .cwait k := hpc
        rw [this]; cases k <;> exact ⟨rfl, rfl⟩
      · exact ⟨rfl, rfl⟩
    · exact ⟨rfl, rfl⟩


def Excl (cs : CS) : Prop := ∀ t, (cs.task t).pc.holdsBuf = true → cs.bufHolder = some t

/-- changing the state of `t` keeps `Excl` if the new state holds the buffer lock only when `t` is the holder -/
theorem Excl_setPC (cs : CS) (t : Nat) (pc : PC) (h : Excl cs) (hp : pc.holdsBuf = true → cs.bufHolder = some t) :
    Excl (cs.setPC t pc) := by
  intro t' ht'
  rw [setPC_pc] at ht'
  rw [setPC_bufHolder]
  by_cases e : t' = t
  · subst e; simp only [if_true] at ht'; exact hp ht'
  · simp only [e, if_false] at ht'; exact h t' ht'

theorem Excl_finishOp (cs : CS) (t : Nat) (r : Res) (h : Excl cs) : Excl (cs.finishOp t r) := by
  intro t' ht'
  rw [finishOp_pc] at ht'
  rw [finishOp_bufHolder]
  by_cases e : t' = t
  · subst e; simp [PC.holdsBuf] at ht'
  · simp only [e, if_false] at ht'; exact h t' ht'

theorem Excl_submit (cs : CS) (t : Nat) (fs : List Bytes) (h : Excl cs) : Excl (cs.submit t fs) := by
  intro t' ht'
  rw [submit_pc] at ht'
  rw [submit_bufHolder]
  by_cases e : t' = t
  · subst e; simp [PC.holdsBuf] at ht'
  · simp only [e, if_false] at ht'; exact h t' ht'

theorem Excl_releaseWr (cs : CS) (h : Excl cs) : Excl cs.releaseWr := by
  intro t ht
  rw [(releaseWr_pc cs t).1] at ht
  rw [releaseWr_bufHolder]
  exact h t ht

theorem releaseBuf_spec (cs : CS) : ∀ t', (cs.releaseBuf.task t').pc = (cs.task t').pc ∨
    (cs.releaseBuf.bufHolder = some t' ∧ ∃ fs, (cs.task t').pc = .waitBuf fs ∧ (cs.releaseBuf.task t').pc = .locked fs) := by
  intro t'
  unfold CS.releaseBuf
  split
  · exact Or.inl rfl
  · rename_i w q _
    simp only
    split
    · rename_i fs hpc
      by_cases e : t' = w
      · subst e
        right
        refine ⟨rfl, fs, hpc, ?_⟩
        rw [setPC_pc]; simp
      · left; rw [setPC_pc]; simp only [e, if_false]; rfl
    · exact Or.inl rfl

/-- the holder `t` releases the buffer lock: afterwards, among the other tasks, only the new holder holds it -/
theorem Excl_releaseBuf (cs : CS) (t : Nat) (h : Excl cs) (ht : cs.bufHolder = some t) :
    ∀ t', t' ≠ t → (cs.releaseBuf.task t').pc.holdsBuf = true → cs.releaseBuf.bufHolder = some t' := by
  intro t' hne hh
  rcases releaseBuf_spec cs t' with e | ⟨e, _⟩
  · rw [e] at hh
    have := h t' hh
    rw [ht] at this; cases this; exact absurd rfl hne
  · exact e


theorem Excl_enterClose (cs : CS) (t : Nat) (k : CloseK) (h : Excl cs)
    (hk : ∀ fs, k = .inWrite fs → cs.bufHolder = some t) : Excl (cs.enterClose t k) := by
  unfold CS.enterClose
  split
  · cases k with
    | op => exact Excl_finishOp cs t .ok h
    | inWrite fs => exact Excl_setPC cs t _ h (fun _ => hk fs rfl)
  · apply Excl_setPC
    · intro t' ht'; exact h t' ht'
    · intro hp
      cases k with
      | op => simp [PC.holdsBuf] at hp
      | inWrite fs => exact hk fs rfl

theorem Excl_lockWrWrite (cs : CS) (t : Nat) (ps : List Bytes) (fs : List Bytes) (h : Excl cs)
    (ht : cs.bufHolder = some t) : Excl (cs.lockWrWrite t ps fs) := by
  unfold CS.lockWrWrite
  split
  · apply Excl_setPC
    · intro t' ht'; exact h t' ht'
    · intro _; exact ht
  · apply Excl_setPC
    · intro t' ht'; exact h t' ht'
    · intro _; exact ht

/-- release by the holder followed by the holder moving to a state `pc` that does not hold the lock -/
theorem Excl_release_then (cs : CS) (t : Nat) (h : Excl cs) (ht : cs.bufHolder = some t)
    (cs2 : CS) (h2 : ∀ t', t' ≠ t → (cs2.task t').pc = (cs.releaseBuf.task t').pc)
    (hb : cs2.bufHolder = cs.releaseBuf.bufHolder) (hpc : (cs2.task t).pc.holdsBuf = false) : Excl cs2 := by
  intro t' ht'
  by_cases e : t' = t
  · subst e; rw [hpc] at ht'; cases ht'
  · rw [h2 t' e] at ht'
    rw [hb]
    exact Excl_releaseBuf cs t h ht t' e ht'

theorem Excl_micro (cs cs' : CS) (t : Nat) (h : Excl cs) (hm : micro cs t = some cs') : Excl cs' := by
  have hold : (cs.task t).pc.holdsBuf = true → cs.bufHolder = some t := h t
  unfold micro at hm
  simp only at hm
  split at hm
  · cases hm
  · -- idle
    split at hm
    · cases hm; exact Excl_setPC cs t _ h (by simp [PC.holdsBuf])
    · cases hm
      apply Excl_finishOp
      intro t' ht'; exact h t' ht'
    · split at hm
      · cases hm; exact Excl_finishOp cs t _ h
      · cases hm; exact Excl_submit cs t _ h
    · cases hm; exact Excl_submit cs t _ h
    · cases hm; exact Excl_submit cs t _ h
    · split at hm
      · cases hm
        apply Excl_finishOp
        intro t' ht'
        rw [setTask_task] at ht'
        rw [setTask_bufHolder]
        by_cases e : t' = t
        · subst e; simp only [if_true] at ht'; exact h t' ht'
        · simp only [e, if_false] at ht'; exact h t' ht'
      · cases hm; exact Excl_setPC cs t _ h (by simp [PC.holdsBuf])
    · cases hm
      exact Excl_enterClose cs t .op h (by intro fs e; cases e)
  · -- openChecked
    cases hm
    apply Excl_submit
    intro t' ht'
    rw [setTask_task] at ht'
    rw [setTask_bufHolder]
    by_cases e : t' = t
    · subst e; simp only [if_true] at ht'; exact h t' ht'
    · simp only [e, if_false] at ht'; exact h t' ht'
  · -- enter
    rename_i fs hpc
    split at hm
    · rename_i hnone
      cases hm
      intro t' ht'
      rw [setPC_pc] at ht'
      rw [setPC_bufHolder]
      by_cases e : t' = t
      · subst e; rfl
      · simp only [e, if_false] at ht'
        have := h t' ht'
        rw [hnone] at this; cases this
    · cases hm
      apply Excl_setPC
      · intro t' ht'; exact h t' ht'
      · simp [PC.holdsBuf]
  · cases hm
  · -- locked []
    rename_i hpc
    have ht := hold (by rw [hpc]; rfl)
    cases hm
    exact Excl_release_then cs t h ht _ (fun t' e => by rw [finishOp_pc]; simp [e]) rfl (by rw [finishOp_pc]; simp [PC.holdsBuf])
  · -- locked (bytes :: fs)
    rename_i bytes fs hpc
    have ht := hold (by rw [hpc]; rfl)
    split at hm
    · cases hm
      exact Excl_release_then cs t h ht _ (fun t' e => by rw [finishOp_pc]; simp [e]) rfl (by rw [finishOp_pc]; simp [PC.holdsBuf])
    · split at hm
      · -- buffering
        have hE : Excl { cs with s := { cs.s with buffer := cs.s.buffer ++ bytes }, log := cs.log ++ [({ owner := some t, bytes := bytes } : Unit')] } := h
        split at hm
        · cases hm
          exact Excl_release_then _ t hE ht _ (fun t' e => by rw [finishOp_pc]; simp [e]) rfl (by rw [finishOp_pc]; simp [PC.holdsBuf])
        · cases hm
          exact Excl_release_then _ t hE ht _ (fun t' e => by rw [setPC_pc]; simp [e]) rfl (by rw [setPC_pc]; simp [PC.holdsBuf])
      · cases hm
        apply Excl_setPC
        · intro t' ht'; exact h t' ht'
        · intro _; exact ht
  · -- preWr
    rename_i ps fs hpc
    have ht := hold (by rw [hpc]; rfl)
    cases hm
    exact Excl_lockWrWrite cs t ps fs h ht
  · cases hm
  · -- piece []
    rename_i fs hpc
    have ht := hold (by rw [hpc]; rfl)
    cases hm
    apply Excl_setPC _ _ _ (Excl_releaseWr cs h)
    intro _; rw [releaseWr_bufHolder]; exact ht
  · -- piece (p :: ps)
    rename_i p ps fs hpc
    have ht := hold (by rw [hpc]; rfl)
    split at hm
    · rename_i s' _
      have hE : Excl { cs with s := s' } := h
      split at hm
      · cases hm
        apply Excl_setPC _ _ _ (Excl_releaseWr _ hE)
        intro _; rw [releaseWr_bufHolder]; exact ht
      · cases hm
        exact Excl_setPC _ t _ hE (fun _ => ht)
    · cases hm
      have hE : Excl { cs with failed := true } := h
      apply Excl_enterClose _ _ _ (Excl_releaseWr _ hE)
      intro fs' _; rw [releaseWr_bufHolder]; exact ht
  · -- wdone
    rename_i r fs hpc
    have ht := hold (by rw [hpc]; rfl)
    try simp only at hm
    split at hm
    · cases hm
      exact Excl_release_then cs t h ht _ (fun t' e => by rw [setPC_pc]; simp [e]) rfl (by rw [setPC_pc]; simp [PC.holdsBuf])
    · cases hm
      exact Excl_release_then cs t h ht _ (fun t' e => by rw [finishOp_pc]; simp [e]) rfl (by rw [finishOp_pc]; simp [PC.holdsBuf])
  · -- cflag
    rename_i k hpc
    cases hm
    have hE : Excl { cs with s := cs.s.closeDrain } := h
    apply Excl_setPC _ _ _ hE
    intro hp
    apply hold
    rw [hpc]; cases k <;> first | exact hp | (simp [PC.holdsBuf] at hp)
  · -- cdrained
    rename_i k hpc
    have hk : (PC.cdrained k).holdsBuf = true → cs.bufHolder = some t := fun hp => hold (by rw [hpc]; exact hp)
    split at hm
    · cases hm
      apply Excl_setPC
      · intro t' ht'; exact h t' ht'
      · intro hp; apply hk; cases k <;> first | exact hp | (simp [PC.holdsBuf] at hp)
    · cases hm
      apply Excl_setPC
      · intro t' ht'; exact h t' ht'
      · intro hp; apply hk; cases k <;> first | exact hp | (simp [PC.holdsBuf] at hp)
  · cases hm
  · -- cshut
    rename_i k hpc
    have hk : (PC.cshut k).holdsBuf = true → cs.bufHolder = some t := fun hp => hold (by rw [hpc]; exact hp)
    have hE : Excl { cs with s := { cs.s with shut := true } } := h
    cases k with
    | op =>
      cases hm
      exact Excl_finishOp _ t _ (Excl_releaseWr _ hE)
    | inWrite fs =>
      cases hm
      apply Excl_setPC _ _ _ (Excl_releaseWr _ hE)
      intro _; rw [releaseWr_bufHolder]; exact hk rfl



def enc (log : List Unit') : Bytes := flatten (log.map (·.bytes))

theorem enc_append (a b : List Unit') : enc (a ++ b) = enc a ++ enc b := by
  unfold enc; rw [List.map_append, flatten_append]

def CS.inflight (cs : CS) : Bytes :=
  match cs.bufHolder with
  | some t => (cs.task t).pc.inflight
  | none => []

structure WInv (cs : CS) : Prop where
  excl : Excl cs
  eq : cs.failed = false → flatten cs.s.wire ++ cs.inflight ++ cs.s.buffer = enc cs.log
  fail : cs.failed = true → cs.s.closed = true ∧ ∀ t, (cs.task t).pc.inflight = []
  pre : flatten cs.s.wire <+: enc cs.log

theorem inflight_holdsBuf (pc : PC) (h : pc.inflight ≠ []) : pc.holdsBuf = true := by
  cases pc <;> first | rfl | (exact absurd rfl h)

/-- only the holder can have bytes in flight -/
theorem inflight_nonholder (cs : CS) (h : Excl cs) (t : Nat) (ht : cs.bufHolder ≠ some t) : (cs.task t).pc.inflight = [] := by
  cases hi : (cs.task t).pc.inflight with
  | nil => rfl
  | cons x xs =>
    exfalso; apply ht; apply h t; apply inflight_holdsBuf; rw [hi]; simp

theorem prepare_fields (s : Sess) (payload : Bytes) :
    (s.prepare payload).1.wire = s.wire ∧ (s.prepare payload).1.buffer = s.buffer ∧
    (s.prepare payload).1.closed = s.closed ∧
    ∃ pads : List Nat, flatten (s.prepare payload).2 = payload ++ flatten (pads.map wasteFrame) := by
  unfold Sess.prepare
  split
  · exact ⟨rfl, rfl, rfl, [], by simp⟩
  · simp only
    split
    · exact ⟨rfl, rfl, rfl, [], by simp⟩
    · split
      · exact ⟨rfl, rfl, rfl, [], by simp⟩
      · exact ⟨rfl, rfl, rfl, _, shape_flatten _ _⟩

theorem transportWrite_fields (s s' : Sess) (w : Bytes) (h : s.transportWrite w = some s') :
    s'.wire = s.wire ++ [w] ∧ s'.buffer = s.buffer ∧ s'.closed = s.closed := by
  unfold Sess.transportWrite at h
  split at h
  · cases h
  · split at h
    · cases h
    · cases h; exact ⟨rfl, rfl, rfl⟩
    · cases h; exact ⟨rfl, rfl, rfl⟩

theorem flatten_snoc (l : List Bytes) (w : Bytes) : flatten (l ++ [w]) = flatten l ++ w := by
  rw [flatten_append]; simp



structure Quiet (cs cs' : CS) : Prop where
  wire : cs'.s.wire = cs.s.wire
  buffer : cs'.s.buffer = cs.s.buffer
  log : cs'.log = cs.log
  failed : cs'.failed = cs.failed
  closed : cs.s.closed = true → cs'.s.closed = true
  infl : cs'.inflight = cs.inflight
  all : ∀ t, (cs'.task t).pc.inflight = [] ∨ (cs'.task t).pc.inflight = (cs.task t).pc.inflight

theorem Quiet.rfl' (cs : CS) : Quiet cs cs := ⟨rfl, rfl, rfl, rfl, id, rfl, fun _ => Or.inr rfl⟩

theorem Quiet.trans {a b c : CS} (h1 : Quiet a b) (h2 : Quiet b c) : Quiet a c where
  wire := h2.wire.trans h1.wire
  buffer := h2.buffer.trans h1.buffer
  log := h2.log.trans h1.log
  failed := h2.failed.trans h1.failed
  closed := fun h => h2.closed (h1.closed h)
  infl := h2.infl.trans h1.infl
  all := fun t => by
    rcases h2.all t with e | e
    · exact Or.inl e
    · rw [e]; exact h1.all t

theorem WInv_quiet {cs cs' : CS} (h : WInv cs) (hE : Excl cs') (q : Quiet cs cs') : WInv cs' where
  excl := hE
  eq := fun hf => by rw [q.wire, q.infl, q.buffer, q.log]; exact h.eq (q.failed ▸ hf)
  fail := fun hf => by
    have := h.fail (q.failed ▸ hf)
    refine ⟨q.closed this.1, fun t => ?_⟩
    rcases q.all t with e | e
    · exact e
    · rw [e]; exact this.2 t
  pre := by rw [q.wire, q.log]; exact h.pre

theorem quiet_setPC (cs : CS) (t : Nat) (pc : PC) (hnew : pc.inflight = []) (hold : (cs.task t).pc.inflight = []) :
    Quiet cs (cs.setPC t pc) where
  wire := rfl
  buffer := rfl
  log := rfl
  failed := rfl
  closed := id
  infl := by
    unfold CS.inflight
    rw [setPC_bufHolder]
    cases hb : cs.bufHolder with
    | none => rfl
    | some u =>
      simp only
      rw [setPC_pc]
      by_cases e : u = t
      · subst e; simp only [if_true]; rw [hnew, hold]
      · simp only [e, if_false]
  all := fun t' => by
    rw [setPC_pc]
    by_cases e : t' = t
    · subst e; simp only [if_true]; exact Or.inl hnew
    · simp only [e, if_false]; first | exact Or.inr rfl | simp

theorem quiet_finishOp (cs : CS) (t : Nat) (r : Res) (hold : (cs.task t).pc.inflight = []) :
    Quiet cs (cs.finishOp t r) where
  wire := rfl
  buffer := rfl
  log := rfl
  failed := rfl
  closed := id
  infl := by
    unfold CS.inflight
    rw [finishOp_bufHolder]
    cases hb : cs.bufHolder with
    | none => rfl
    | some u =>
      simp only
      rw [finishOp_pc]
      by_cases e : u = t
      · subst e; simp only [if_true]; rw [hold]; rfl
      · simp only [e, if_false]
  all := fun t' => by
    rw [finishOp_pc]
    by_cases e : t' = t
    · subst e; simp only [if_true]; exact Or.inl rfl
    · simp only [e, if_false]; first | exact Or.inr rfl | simp

theorem quiet_submit (cs : CS) (t : Nat) (fs : List Bytes) (hold : (cs.task t).pc.inflight = []) :
    Quiet cs (cs.submit t fs) where
  wire := rfl
  buffer := rfl
  log := rfl
  failed := rfl
  closed := id
  infl := by
    unfold CS.inflight
    rw [submit_bufHolder]
    cases hb : cs.bufHolder with
    | none => rfl
    | some u =>
      simp only
      rw [submit_pc]
      by_cases e : u = t
      · subst e; simp only [if_true]; rw [hold]; rfl
      · simp only [e, if_false]
  all := fun t' => by
    rw [submit_pc]
    by_cases e : t' = t
    · subst e; simp only [if_true]; exact Or.inl rfl
    · simp only [e, if_false]; first | exact Or.inr rfl | simp

/-- a change of `s` that leaves the wire and the buffer alone and does not reopen the session -/
theorem quiet_s (cs : CS) (s' : Sess) (hw : s'.wire = cs.s.wire) (hb : s'.buffer = cs.s.buffer)
    (hc : cs.s.closed = true → s'.closed = true) : Quiet cs { cs with s := s' } :=
  ⟨hw, hb, rfl, rfl, hc, rfl, fun _ => Or.inr rfl⟩

theorem quiet_setTask_keep (cs : CS) (t : Nat) (f : Task → Task) (hf : ∀ k, (f k).pc = k.pc) :
    Quiet cs (cs.setTask t f) where
  wire := rfl
  buffer := rfl
  log := rfl
  failed := rfl
  closed := id
  infl := by
    unfold CS.inflight
    rw [setTask_bufHolder]
    cases cs.bufHolder with
    | none => rfl
    | some u => simp only; rw [setTask_task]; split <;> simp [hf]
  all := fun t' => by
    rw [setTask_task]; split <;> simp [hf]

theorem quiet_releaseWr (cs : CS) : Quiet cs cs.releaseWr where
  wire := by rw [releaseWr_s]
  buffer := by rw [releaseWr_s]
  log := releaseWr_log cs
  failed := releaseWr_failed cs
  closed := by rw [releaseWr_s]; exact id
  infl := by
    unfold CS.inflight
    rw [releaseWr_bufHolder]
    cases cs.bufHolder with
    | none => rfl
    | some u => simp only; exact (releaseWr_pc cs u).2
  all := fun t => Or.inr (releaseWr_pc cs t).2

theorem quiet_wrFields (cs : CS) (h : Option Nat) (q : List Nat) : Quiet cs { cs with wrHolder := h, wrQ := q } :=
  ⟨rfl, rfl, rfl, rfl, id, rfl, fun _ => Or.inr rfl⟩

theorem quiet_bufQ (cs : CS) (q : List Nat) : Quiet cs { cs with bufQ := q } :=
  ⟨rfl, rfl, rfl, rfl, id, rfl, fun _ => Or.inr rfl⟩

/-- the holder (whose state has nothing in flight) releases the buffer lock -/
theorem quiet_releaseBuf (cs : CS) (t : Nat) (hE : Excl cs) (ht : cs.bufHolder = some t) (hold : (cs.task t).pc.inflight = []) :
    Quiet cs cs.releaseBuf where
  wire := by rw [releaseBuf_s]
  buffer := by rw [releaseBuf_s]
  log := releaseBuf_log cs
  failed := releaseBuf_failed cs
  closed := by rw [releaseBuf_s]; exact id
  infl := by
    have hold' : cs.inflight = [] := by unfold CS.inflight; rw [ht]; exact hold
    rw [hold']
    unfold CS.inflight
    cases hb : cs.releaseBuf.bufHolder with
    | none => rfl
    | some w =>
      simp only
      rcases releaseBuf_spec cs w with e | ⟨_, fs, _, e⟩
      · rw [e]
        by_cases ew : w = t
        · rw [ew]; exact hold
        · exact inflight_nonholder cs hE w (by rw [ht]; intro e; cases e; exact ew rfl)
      · rw [e]; rfl
  all := fun t' => by
    rcases releaseBuf_spec cs t' with e | ⟨_, fs, _, e⟩
    · exact Or.inr (by rw [e])
    · exact Or.inl (by rw [e]; rfl)

theorem quiet_enterClose (cs : CS) (t : Nat) (k : CloseK) (hold : (cs.task t).pc.inflight = []) :
    Quiet cs (cs.enterClose t k) := by
  unfold CS.enterClose
  split
  · cases k with
    | op => exact quiet_finishOp cs t .ok hold
    | inWrite fs => exact quiet_setPC cs t _ rfl hold
  · exact (quiet_s cs { cs.s with closed := true } rfl rfl (fun _ => rfl)).trans (quiet_setPC _ t _ rfl hold)



theorem inflight_of_holder (cs : CS) (t : Nat) (ht : cs.bufHolder = some t) : cs.inflight = (cs.task t).pc.inflight := by
  unfold CS.inflight; rw [ht]

theorem WInv_micro (cs cs' : CS) (t : Nat) (h : WInv cs) (hm : micro cs t = some cs') : WInv cs' := by
  have hE : Excl cs' := Excl_micro cs cs' t h.excl hm
  have hold : (cs.task t).pc.holdsBuf = true → cs.bufHolder = some t := h.excl t
  unfold micro at hm
  simp only at hm
  split at hm
  · cases hm
  · -- idle
    rename_i hpc
    have h0 : (cs.task t).pc.inflight = [] := by rw [hpc]; rfl
    split at hm
    · cases hm; exact WInv_quiet h hE (quiet_setPC cs t _ rfl h0)
    · cases hm
      exact WInv_quiet h hE ((quiet_s cs { cs.s with buffering := false } rfl rfl id).trans (quiet_finishOp _ t _ h0))
    · split at hm
      · cases hm; exact WInv_quiet h hE (quiet_finishOp cs t _ h0)
      · cases hm; exact WInv_quiet h hE (quiet_submit cs t _ h0)
    · cases hm; exact WInv_quiet h hE (quiet_submit cs t _ h0)
    · cases hm; exact WInv_quiet h hE (quiet_submit cs t _ h0)
    · split at hm
      · cases hm
        refine WInv_quiet h hE ((quiet_setTask_keep cs t (fun k => { k with sids := k.sids ++ [none] }) (fun _ => rfl)).trans (quiet_finishOp _ t _ ?_))
        rw [setTask_task]; simp only [if_true]; exact h0
      · cases hm; exact WInv_quiet h hE (quiet_setPC cs t _ rfl h0)
    · cases hm; exact WInv_quiet h hE (quiet_enterClose cs t .op h0)
  · -- openChecked
    rename_i hpc
    have h0 : (cs.task t).pc.inflight = [] := by rw [hpc]; rfl
    cases hm
    have hreg : (cs.s.register).1.wire = cs.s.wire ∧ (cs.s.register).1.buffer = cs.s.buffer ∧ (cs.s.register).1.closed = cs.s.closed :=
      ⟨rfl, rfl, rfl⟩
    refine WInv_quiet h hE (((quiet_s cs (cs.s.register).1 hreg.1 hreg.2.1 (fun hc => by rw [hreg.2.2]; exact hc)).trans
      (quiet_setTask_keep _ t (fun k => { k with sids := k.sids ++ [some (cs.s.register).2.1] }) (fun _ => rfl))).trans (quiet_submit _ t _ ?_))
    rw [setTask_task]; simp only [if_true]; exact h0
  · -- enter
    rename_i fs hpc
    have h0 : (cs.task t).pc.inflight = [] := by rw [hpc]; rfl
    split at hm
    · rename_i hnone
      cases hm
      -- acquire: nothing was in flight, nothing is
      refine WInv_quiet h hE ?_
      refine ⟨rfl, rfl, rfl, rfl, id, ?_, ?_⟩
      · have : cs.inflight = [] := by unfold CS.inflight; rw [hnone]
        rw [this]
        unfold CS.inflight
        rw [setPC_bufHolder]
        simp only
        rw [setPC_pc]; simp [PC.inflight]
      · intro t'
        rw [setPC_pc]
        by_cases e : t' = t
        · subst e; simp [PC.inflight]
        · simp only [e, if_false]; exact Or.inr rfl
    · cases hm
      exact WInv_quiet h hE ((quiet_bufQ cs _).trans (quiet_setPC _ t _ rfl h0))
  · cases hm
  · -- locked []
    rename_i hpc
    have ht := hold (by rw [hpc]; rfl)
    have h0 : (cs.task t).pc.inflight = [] := by rw [hpc]; rfl
    cases hm
    refine WInv_quiet h hE ((quiet_releaseBuf cs t h.excl ht h0).trans (quiet_finishOp _ t _ ?_))
    rcases releaseBuf_spec cs t with e | ⟨_, fs, _, e⟩ <;> rw [e]
    · exact h0
    · rfl
  · -- locked (bytes :: fs)
    rename_i bytes fs hpc
    have ht := hold (by rw [hpc]; rfl)
    have h0 : (cs.task t).pc.inflight = [] := by rw [hpc]; rfl
    have hrel : ∀ (c : CS), (c.task t).pc = (cs.task t).pc → (c.releaseBuf.task t).pc.inflight = [] := by
      intro c hc
      rcases releaseBuf_spec c t with e | ⟨_, fs, _, e⟩ <;> rw [e]
      · rw [hc]; exact h0
      · rfl
    split at hm
    · cases hm
      exact WInv_quiet h hE ((quiet_releaseBuf cs t h.excl ht h0).trans (quiet_finishOp _ t _ (hrel cs rfl)))
    · rename_i hnc
      split at hm
      · -- buffering: the frame enters the buffer and the log together
        let c1 : CS := { cs with s := { cs.s with buffer := cs.s.buffer ++ bytes }, log := cs.log ++ [({ owner := some t, bytes := bytes } : Unit')] }
        have hc1 : WInv c1 := by
          refine ⟨h.excl, ?_, ?_, ?_⟩
          · intro hf
            have := h.eq hf
            show flatten cs.s.wire ++ cs.inflight ++ (cs.s.buffer ++ bytes) = enc (cs.log ++ [_])
            rw [enc_append, ← this]
            simp [enc, List.append_assoc]
          · intro hf; exact h.fail hf
          · show flatten cs.s.wire <+: enc (cs.log ++ [_])
            rw [enc_append]
            exact h.pre.trans (List.prefix_append _ _)
        have q1 : Quiet c1 c1.releaseBuf := quiet_releaseBuf c1 t hc1.excl ht h0
        split at hm
        · cases hm
          exact WInv_quiet hc1 hE (q1.trans (quiet_finishOp _ t _ (hrel c1 rfl)))
        · cases hm
          exact WInv_quiet hc1 hE (q1.trans (quiet_setPC _ t _ rfl (hrel c1 rfl)))
      · -- the write starts: buffer and frame become the bytes in flight, padding joins the log
        cases hm
        have hnf : cs.failed = false := by
          cases hf : cs.failed with
          | false => rfl
          | true => have := (h.fail hf).1; simp [this] at hnc
        obtain ⟨pw, pb, pc', pads, hflat⟩ := prepare_fields { cs.s with buffer := [] } (cs.s.buffer ++ bytes)
        have heq := h.eq hnf
        rw [inflight_of_holder cs t ht, h0, List.append_nil] at heq
        have hpad : (cs.s.buffer ++ bytes ++ flatten (pads.map wasteFrame)).drop (cs.s.buffer ++ bytes).length
            = flatten (pads.map wasteFrame) := by simp
        refine ⟨hE, ?_, ?_, ?_⟩
        · intro _
          rw [inflight_of_holder _ t (by rw [setPC_bufHolder]; exact ht)]
          rw [setPC_pc]; simp only [if_true, setPC_s, setPC_log, PC.inflight]
          rw [pw, pb, hflat, hpad]
          show flatten cs.s.wire ++ (cs.s.buffer ++ bytes ++ flatten (pads.map wasteFrame)) ++ [] = _
          rw [enc_append, enc_append, ← heq]
          by_cases hp : (flatten (pads.map wasteFrame)).isEmpty = true
          · have : flatten (pads.map wasteFrame) = [] := List.isEmpty_iff.mp hp
            simp [this, enc, List.append_assoc]
          · simp [hp, enc, List.append_assoc]
        · intro hf; rw [setPC_failed] at hf; rw [hnf] at hf; cases hf
        · rw [setPC_s, setPC_log]
          show flatten ({ cs.s with buffer := [] }.prepare (cs.s.buffer ++ bytes)).1.wire <+: _
          rw [pw, enc_append, enc_append]
          exact h.pre.trans ((List.prefix_append _ _).trans (List.prefix_append _ _))
  · -- preWr
    rename_i ps fs hpc
    have ht := hold (by rw [hpc]; rfl)
    cases hm
    refine WInv_quiet h hE ?_
    unfold CS.lockWrWrite
    have key : ∀ (c : CS) (pc : PC), Quiet cs c → c.bufHolder = some t → (∀ u, (c.task u).pc = (cs.task u).pc) →
        pc.inflight = flatten ps → Quiet cs (c.setPC t pc) := by
      intro c pc q hb hsame hpi
      refine ⟨q.wire, q.buffer, q.log, q.failed, q.closed, ?_, ?_⟩
      · rw [inflight_of_holder _ t (by rw [setPC_bufHolder]; exact hb), inflight_of_holder cs t ht, setPC_pc, hpc]
        simp only [if_true]; exact hpi
      · intro u
        rw [setPC_pc]
        by_cases e : u = t
        · subst e; simp only [if_true]; right; rw [hpc]; exact hpi
        · simp only [e, if_false]; right; rw [hsame u]
    split
    · exact key _ _ (quiet_wrFields cs _ _) ht (fun _ => rfl) rfl
    · exact key _ _ (quiet_wrFields cs _ _) ht (fun _ => rfl) rfl
  · cases hm
  · -- piece []
    rename_i fs hpc
    have h0 : (cs.task t).pc.inflight = [] := by rw [hpc]; rfl
    cases hm
    refine WInv_quiet h hE ((quiet_releaseWr cs).trans (quiet_setPC _ t _ rfl ?_))
    rw [(releaseWr_pc cs t).2]; exact h0
  · -- piece (p :: ps)
    rename_i p ps fs hpc
    have ht := hold (by rw [hpc]; rfl)
    have hinf : cs.inflight = p ++ flatten ps := by rw [inflight_of_holder cs t ht, hpc]; rfl
    split at hm
    · rename_i s' hs'
      obtain ⟨tw, tb, tc⟩ := transportWrite_fields cs.s s' p hs'
      -- after the write: state c1, with t still at `piece (p :: ps)` formally; we go directly to the final states
      have main : ∀ (c : CS), c.s = s' → c.log = cs.log → c.failed = cs.failed → c.bufHolder = some t →
          (c.task t).pc.inflight = flatten ps → (∀ u, u ≠ t → (c.task u).pc.inflight = (cs.task u).pc.inflight) → Excl c → WInv c := by
        intro c hs hl hf hb hpi hoth hEc
        refine ⟨hEc, ?_, ?_, ?_⟩
        · intro hff
          rw [inflight_of_holder c t hb, hpi, hs, tw, tb, hl, flatten_snoc]
          have := h.eq (hf ▸ hff)
          rw [hinf] at this
          rw [← this]; simp [List.append_assoc]
        · intro hff
          have := h.fail (hf ▸ hff)
          refine ⟨by rw [hs, tc]; exact this.1, fun u => ?_⟩
          by_cases e : u = t
          · subst e
            rw [hpi]
            have h2 := this.2 u
            rw [hpc] at h2
            have : p ++ flatten ps = [] := h2
            exact (List.append_eq_nil_iff.mp this).2
          · rw [hoth u e]; exact this.2 u
        · rw [hs, tw, hl, flatten_snoc]
          cases hff : cs.failed with
          | false =>
            have := h.eq hff
            rw [hinf] at this
            rw [← this]
            rw [List.append_assoc, List.append_assoc, ← List.append_assoc (flatten cs.s.wire) p]
            exact (List.prefix_append _ _)
          | true =>
            have h2 := (h.fail hff).2 t
            rw [hpc] at h2
            have : p ++ flatten ps = [] := h2
            rw [(List.append_eq_nil_iff.mp this).1, List.append_nil]
            exact h.pre
      split at hm
      · rename_i hps
        cases hm
        have hps' : ps = [] := List.isEmpty_iff.mp hps
        apply main _ (by rw [setPC_s, releaseWr_s]) (by rw [setPC_log, releaseWr_log]) (by rw [setPC_failed, releaseWr_failed])
          (by rw [setPC_bufHolder, releaseWr_bufHolder]; exact ht) _ _ hE
        · rw [setPC_pc]; simp [PC.inflight, hps']
        · intro u e; rw [setPC_pc]; simp only [e, if_false]; exact (releaseWr_pc _ u).2
      · cases hm
        apply main _ (by rw [setPC_s]) (by rw [setPC_log]) (by rw [setPC_failed]) (by rw [setPC_bufHolder]; exact ht) _ _ hE
        · rw [setPC_pc]; simp [PC.inflight]
        · intro u e; rw [setPC_pc]; simp only [e, if_false]; rfl
    · -- the transport refuses: the rest of the write is dropped, the session closes
      cases hm
      have hothers : ∀ u, u ≠ t → (cs.task u).pc.inflight = [] := fun u e =>
        inflight_nonholder cs h.excl u (by rw [ht]; intro e'; cases e'; exact e rfl)
      have hpcs : ∀ u, ((({ cs with failed := true } : CS).releaseWr.enterClose t (.inWrite fs)).task u).pc.inflight = [] := by
        intro u
        unfold CS.enterClose
        split
        · rw [setPC_pc]
          by_cases e : u = t
          · subst e; simp [PC.inflight]
          · simp only [e, if_false]; rw [(releaseWr_pc _ u).2]; exact hothers u e
        · rw [setPC_pc]
          by_cases e : u = t
          · subst e; simp [PC.inflight]
          · simp only [e, if_false]
            show ((({ cs with failed := true } : CS).releaseWr.task u).pc).inflight = []
            rw [(releaseWr_pc _ u).2]; exact hothers u e
      have hfields : (({ cs with failed := true } : CS).releaseWr.enterClose t (.inWrite fs)).s.wire = cs.s.wire ∧
          (({ cs with failed := true } : CS).releaseWr.enterClose t (.inWrite fs)).log = cs.log ∧
          (({ cs with failed := true } : CS).releaseWr.enterClose t (.inWrite fs)).failed = true ∧
          (({ cs with failed := true } : CS).releaseWr.enterClose t (.inWrite fs)).s.closed = true := by
        unfold CS.enterClose
        split
        · rename_i hc
          refine ⟨by rw [setPC_s, releaseWr_s], by rw [setPC_log, releaseWr_log], by rw [setPC_failed, releaseWr_failed], ?_⟩
          rw [setPC_s]; exact hc
        · refine ⟨by rw [setPC_s]; show (CS.releaseWr _).s.wire = _; rw [releaseWr_s], by rw [setPC_log]; show (CS.releaseWr _).log = _; rw [releaseWr_log],
            by rw [setPC_failed]; show (CS.releaseWr _).failed = _; rw [releaseWr_failed], by rw [setPC_s]⟩
      refine ⟨hE, ?_, ?_, ?_⟩
      · intro hf; rw [hfields.2.2.1] at hf; cases hf
      · intro _; exact ⟨hfields.2.2.2, hpcs⟩
      · rw [hfields.1, hfields.2.1]; exact h.pre
  · -- wdone
    rename_i r fs hpc
    have ht := hold (by rw [hpc]; rfl)
    have h0 : (cs.task t).pc.inflight = [] := by rw [hpc]; rfl
    have hrel : (cs.releaseBuf.task t).pc.inflight = [] := by
      rcases releaseBuf_spec cs t with e | ⟨_, fs, _, e⟩ <;> rw [e]
      · exact h0
      · rfl
    try simp only at hm
    split at hm
    · cases hm
      exact WInv_quiet h hE ((quiet_releaseBuf cs t h.excl ht h0).trans (quiet_setPC _ t _ rfl hrel))
    · cases hm
      exact WInv_quiet h hE ((quiet_releaseBuf cs t h.excl ht h0).trans (quiet_finishOp _ t _ hrel))
  · -- cflag
    rename_i k hpc
    have h0 : (cs.task t).pc.inflight = [] := by rw [hpc]; rfl
    cases hm
    have hd : cs.s.closeDrain.wire = cs.s.wire ∧ cs.s.closeDrain.buffer = cs.s.buffer ∧ cs.s.closeDrain.closed = cs.s.closed := ⟨rfl, rfl, rfl⟩
    exact WInv_quiet h hE ((quiet_s cs cs.s.closeDrain hd.1 hd.2.1 (fun hc => by rw [hd.2.2]; exact hc)).trans (quiet_setPC _ t _ rfl h0))
  · -- cdrained
    rename_i k hpc
    have h0 : (cs.task t).pc.inflight = [] := by rw [hpc]; rfl
    split at hm
    · cases hm; exact WInv_quiet h hE ((quiet_wrFields cs _ _).trans (quiet_setPC _ t _ rfl h0))
    · cases hm; exact WInv_quiet h hE ((quiet_wrFields cs _ _).trans (quiet_setPC _ t _ rfl h0))
  · cases hm
  · -- cshut
    rename_i k hpc
    have h0 : (cs.task t).pc.inflight = [] := by rw [hpc]; rfl
    have q0 : Quiet cs ({ cs with s := { cs.s with shut := true } } : CS).releaseWr :=
      (quiet_s cs { cs.s with shut := true } rfl rfl id).trans (quiet_releaseWr _)
    have h1 : ((({ cs with s := { cs.s with shut := true } } : CS).releaseWr.task t).pc).inflight = [] := by
      rw [(releaseWr_pc _ t).2]; exact h0
    cases k with
    | op => cases hm; exact WInv_quiet h hE (q0.trans (quiet_finishOp _ t _ h1))
    | inWrite fs => cases hm; exact WInv_quiet h hE (q0.trans (quiet_setPC _ t _ rfl h1))



/-- a state up to the lock hand-offs another task can cause -/
def PC.norm : PC → PC
  | .waitBuf fs => .locked fs
  | .waitWr ps fs => .piece ps fs
  | .cwait k => .cshut k
  | pc => pc

/-- what a step of task `t` may do to the other tasks: hand them a lock, nothing else -/
def SameOthers (t : Nat) (cs cs' : CS) : Prop :=
  ∀ u, u ≠ t → (cs'.task u).pc.norm = (cs.task u).pc.norm ∧ (cs'.task u).submitted = (cs.task u).submitted ∧
    (cs'.task u).ops = (cs.task u).ops ∧ (cs'.task u).results = (cs.task u).results ∧ (cs'.task u).sids = (cs.task u).sids

theorem SameOthers.rfl' (t : Nat) (cs : CS) : SameOthers t cs cs := fun _ _ => ⟨rfl, rfl, rfl, rfl, rfl⟩

theorem SameOthers.trans {t : Nat} {a b c : CS} (h1 : SameOthers t a b) (h2 : SameOthers t b c) : SameOthers t a c :=
  fun u hu => ⟨(h2 u hu).1.trans (h1 u hu).1, (h2 u hu).2.1.trans (h1 u hu).2.1, (h2 u hu).2.2.1.trans (h1 u hu).2.2.1,
    (h2 u hu).2.2.2.1.trans (h1 u hu).2.2.2.1, (h2 u hu).2.2.2.2.trans (h1 u hu).2.2.2.2⟩

theorem SameOthers.then {t : Nat} {a b c : CS} (h2 : SameOthers t b c) (h1 : SameOthers t a b) : SameOthers t a c :=
  SameOthers.trans h1 h2

theorem so_setTask (cs : CS) (t : Nat) (f : Task → Task) : SameOthers t cs (cs.setTask t f) := by
  intro u hu
  have : (cs.setTask t f).task u = cs.task u := by rw [setTask_task]; simp [hu]
  rw [this]; exact ⟨rfl, rfl, rfl, rfl, rfl⟩

/-- the same, after a change that does not touch the tasks -/
theorem so_setTask' (cs c1 : CS) (t : Nat) (f : Task → Task) (h : c1.tasks = cs.tasks) : SameOthers t cs (c1.setTask t f) := by
  intro u hu
  have : (c1.setTask t f).task u = cs.task u := by rw [setTask_task]; simp only [hu, if_false]; show c1.tasks u = cs.tasks u; rw [h]
  rw [this]; exact ⟨rfl, rfl, rfl, rfl, rfl⟩
theorem so_setPC (cs : CS) (t : Nat) (pc : PC) : SameOthers t cs (cs.setPC t pc) := so_setTask cs t _
theorem so_finishOp (cs : CS) (t : Nat) (r : Res) : SameOthers t cs (cs.finishOp t r) := so_setTask cs t _
theorem so_submit (cs : CS) (t : Nat) (fs : List Bytes) : SameOthers t cs (cs.submit t fs) := so_setTask cs t _

theorem releaseBuf_task (cs : CS) (u : Nat) :
    (cs.releaseBuf.task u).pc.norm = (cs.task u).pc.norm ∧ (cs.releaseBuf.task u).submitted = (cs.task u).submitted ∧
    (cs.releaseBuf.task u).ops = (cs.task u).ops ∧ (cs.releaseBuf.task u).results = (cs.task u).results ∧
    (cs.releaseBuf.task u).sids = (cs.task u).sids := by
  unfold CS.releaseBuf
  split
  · exact ⟨rfl, rfl, rfl, rfl, rfl⟩
  · rename_i w q _
    simp only
    split
    · rename_i fs hpc
      unfold CS.setPC
      rw [setTask_task]
      by_cases e : u = w
      · subst e
        simp only [if_true]
        have : (cs.task u).pc = .waitBuf fs := hpc
        rw [this]
        exact ⟨rfl, rfl, rfl, rfl, rfl⟩
      · simp only [e, if_false]; exact ⟨rfl, rfl, rfl, rfl, rfl⟩
    · exact ⟨rfl, rfl, rfl, rfl, rfl⟩

theorem releaseWr_task (cs : CS) (u : Nat) :
    (cs.releaseWr.task u).pc.norm = (cs.task u).pc.norm ∧ (cs.releaseWr.task u).submitted = (cs.task u).submitted ∧
    (cs.releaseWr.task u).ops = (cs.task u).ops ∧ (cs.releaseWr.task u).results = (cs.task u).results ∧
    (cs.releaseWr.task u).sids = (cs.task u).sids := by
  unfold CS.releaseWr
  split
  · exact ⟨rfl, rfl, rfl, rfl, rfl⟩
  · rename_i w q _
    simp only
    split
    · rename_i ps fs hpc
      unfold CS.setPC
      rw [setTask_task]
      by_cases e : u = w
      · subst e
        simp only [if_true]
        have : (cs.task u).pc = .waitWr ps fs := hpc
        rw [this]
        exact ⟨rfl, rfl, rfl, rfl, rfl⟩
      · simp only [e, if_false]; exact ⟨rfl, rfl, rfl, rfl, rfl⟩
    · rename_i k hpc
      unfold CS.setPC
      rw [setTask_task]
      by_cases e : u = w
      · subst e
        simp only [if_true]
        have : (cs.task u).pc = .cwait k := hpc
        rw [this]
        exact ⟨rfl, rfl, rfl, rfl, rfl⟩
      · simp only [e, if_false]; exact ⟨rfl, rfl, rfl, rfl, rfl⟩
    · exact ⟨rfl, rfl, rfl, rfl, rfl⟩

theorem so_releaseBuf (cs : CS) (t : Nat) : SameOthers t cs cs.releaseBuf := fun u _ => releaseBuf_task cs u
theorem so_releaseWr (cs : CS) (t : Nat) : SameOthers t cs cs.releaseWr := fun u _ => releaseWr_task cs u
theorem so_releaseBuf' (cs c1 : CS) (t : Nat) (h : c1.tasks = cs.tasks) : SameOthers t cs c1.releaseBuf := by
  intro u _
  have := releaseBuf_task c1 u
  have e : c1.task u = cs.task u := by show c1.tasks u = cs.tasks u; rw [h]
  rw [e] at this; exact this
theorem so_releaseWr' (cs c1 : CS) (t : Nat) (h : c1.tasks = cs.tasks) : SameOthers t cs c1.releaseWr := by
  intro u _
  have := releaseWr_task c1 u
  have e : c1.task u = cs.task u := by show c1.tasks u = cs.tasks u; rw [h]
  rw [e] at this; exact this

theorem so_enterClose (cs : CS) (t : Nat) (k : CloseK) : SameOthers t cs (cs.enterClose t k) := by
  unfold CS.enterClose
  split
  · cases k with
    | op => exact so_finishOp cs t _
    | inWrite fs => exact so_setPC cs t _
  · exact so_setTask' cs _ t _ rfl

theorem so_lockWrWrite (cs : CS) (t : Nat) (ps fs : List Bytes) : SameOthers t cs (cs.lockWrWrite t ps fs) := by
  unfold CS.lockWrWrite
  split
  · exact so_setTask' cs _ t _ rfl
  · exact so_setTask' cs _ t _ rfl

/-- a step of `t` leaves every other task alone, up to lock hand-offs -/
theorem micro_others (cs cs' : CS) (t : Nat) (hm : micro cs t = some cs') : SameOthers t cs cs' := by
  unfold micro at hm
  simp only at hm
  split at hm
  · cases hm
  · split at hm
    · cases hm; exact so_setPC cs t _
    · cases hm; exact so_setTask' cs _ t _ rfl
    · split at hm
      · cases hm; exact so_finishOp cs t _
      · cases hm; exact so_submit cs t _
    · cases hm; exact so_submit cs t _
    · cases hm; exact so_submit cs t _
    · split at hm
      · cases hm; exact SameOthers.then (so_finishOp _ t _) (so_setTask cs t _)
      · cases hm; exact so_setPC cs t _
    · cases hm; exact so_enterClose cs t _
  · cases hm
    exact SameOthers.then (so_submit _ t _) (so_setTask' cs _ t _ rfl)
  · split at hm
    · cases hm; exact so_setTask' cs _ t _ rfl
    · cases hm; exact so_setTask' cs _ t _ rfl
  · cases hm
  · cases hm; exact SameOthers.then (so_finishOp _ t _) (so_releaseBuf cs t)
  · split at hm
    · cases hm; exact SameOthers.then (so_finishOp _ t _) (so_releaseBuf cs t)
    · split at hm
      · split at hm
        · cases hm; exact SameOthers.then (so_finishOp _ t _) (so_releaseBuf' cs _ t rfl)
        · cases hm; exact SameOthers.then (so_setPC _ t _) (so_releaseBuf' cs _ t rfl)
      · cases hm; exact so_setTask' cs _ t _ rfl
  · cases hm; exact so_lockWrWrite cs t _ _
  · cases hm
  · cases hm; exact SameOthers.then (so_setPC _ t _) (so_releaseWr cs t)
  · split at hm
    · split at hm
      · cases hm; exact SameOthers.then (so_setPC _ t _) (so_releaseWr' cs _ t rfl)
      · cases hm; exact so_setTask' cs _ t _ rfl
    · cases hm; exact SameOthers.then (so_enterClose _ t _) (so_releaseWr' cs _ t rfl)
  · try simp only at hm
    split at hm
    · cases hm; exact SameOthers.then (so_setPC _ t _) (so_releaseBuf cs t)
    · cases hm; exact SameOthers.then (so_finishOp _ t _) (so_releaseBuf cs t)
  · cases hm; exact so_setTask' cs _ t _ rfl
  · split at hm
    · cases hm; exact so_setTask' cs _ t _ rfl
    · cases hm; exact so_setTask' cs _ t _ rfl
  · cases hm
  · rename_i k _
    cases k with
    | op => cases hm; exact SameOthers.then (so_finishOp _ t _) (so_releaseWr' cs _ t rfl)
    | inWrite fs => cases hm; exact SameOthers.then (so_setPC _ t _) (so_releaseWr' cs _ t rfl)



theorem enterClose_n (cs : CS) (t : Nat) (k : CloseK) : (cs.enterClose t k).n = cs.n := by
  unfold CS.enterClose; split
  · cases k <;> rfl
  · rfl

theorem lockWrWrite_n (cs : CS) (t : Nat) (ps fs : List Bytes) : (cs.lockWrWrite t ps fs).n = cs.n := by
  unfold CS.lockWrWrite; split <;> rfl

theorem micro_n (cs cs' : CS) (t : Nat) (hm : micro cs t = some cs') : cs'.n = cs.n := by
  unfold micro at hm
  simp only at hm
  repeat' split at hm
  all_goals first
    | (cases hm; done)
    | (cases hm; simp only [setPC_n, finishOp_n, submit_n, setTask_n, releaseBuf_n, releaseWr_n, enterClose_n, lockWrWrite_n])


/-! ### reachability -/

inductive Step : CS → CS → Prop where
  /-- task `t` takes one atomic action -/
  | act (cs cs' : CS) (t : Nat) : micro cs t = some cs' → Step cs cs'
  /-- a new task appears (the application spawns one; the receive loop reacts to EOF / an error / an Alert) -/
  | spawn (cs : CS) (k : Task) : k.pc = .idle → k.submitted = [] → k.sids = [] → Step cs (cs.spawn k)
  /-- the transport changes its mind about accepting writes -/
  | env (cs : CS) (b : Option Nat) : Step cs { cs with s := { cs.s with wrBudget := b } }

inductive Reach (c0 : CS) : CS → Prop where
  | refl : Reach c0 c0
  | step {cs cs' : CS} : Reach c0 cs → Step cs cs' → Reach c0 cs'

theorem spawn_task (cs : CS) (k : Task) (u : Nat) : ((cs.spawn k).task u) = if u = cs.n then k else cs.task u := rfl

theorem WInv_spawn (cs : CS) (k : Task) (h : WInv cs) (hk : k.pc = .idle) (hfresh : cs.bufHolder ≠ some cs.n) : WInv (cs.spawn k) := by
  have hpc : ∀ u, ((cs.spawn k).task u).pc.inflight = (cs.task u).pc.inflight ∨ ((cs.spawn k).task u).pc.inflight = [] := by
    intro u; rw [spawn_task]; split
    · right; rw [hk]; rfl
    · left; rfl
  refine ⟨?_, ?_, ?_, h.pre⟩
  · intro u hu
    rw [spawn_task] at hu
    split at hu
    · rw [hk] at hu; cases hu
    · exact h.excl u hu
  · intro hf
    have : (cs.spawn k).inflight = cs.inflight := by
      unfold CS.inflight
      show (match cs.bufHolder with | some t => ((cs.spawn k).task t).pc.inflight | none => []) = _
      cases hb : cs.bufHolder with
      | none => rfl
      | some t =>
        simp only
        rw [spawn_task]
        have : t ≠ cs.n := fun e => hfresh (by rw [hb, e])
        simp [this]
    rw [this]; exact h.eq hf
  · intro hf
    refine ⟨(h.fail hf).1, fun u => ?_⟩
    rcases hpc u with e | e
    · rw [e]; exact (h.fail hf).2 u
    · exact e

theorem WInv_env (cs : CS) (b : Option Nat) (h : WInv cs) : WInv { cs with s := { cs.s with wrBudget := b } } :=
  ⟨h.excl, h.eq, h.fail, h.pre⟩

/-- holders are existing tasks -/
def HoldersOk (cs : CS) : Prop := (∀ t, cs.bufHolder = some t → t < cs.n) ∧ (∀ t, t ∈ cs.bufQ → t < cs.n)



def accepted (cs : CS) (t : Nat) : List Bytes := (cs.log.filter (fun u => u.owner == some t)).map (·.bytes)

def PC.pending : PC → List Bytes
  | .enter fs | .waitBuf fs | .locked fs => fs
  | .preWr _ fs | .waitWr _ fs | .piece _ fs | .wdone _ fs => fs.tail
  | .cflag (.inWrite fs) | .cdrained (.inWrite fs) | .cwait (.inWrite fs) | .cshut (.inWrite fs) => fs.tail
  | _ => []

/-- states that only exist in a closed session -/
def PC.afterClose : PC → Bool
  | .wdone r _ => r != .ok
  | .cflag _ | .cdrained _ | .cwait _ | .cshut _ => true
  | _ => false

theorem pending_norm (pc : PC) : pc.norm.pending = pc.pending := by
  cases pc <;> first | rfl | (rename_i k; cases k <;> rfl)
theorem afterClose_norm (pc : PC) : pc.norm.afterClose = pc.afterClose := by
  cases pc <;> rfl

structure OrdInv (cs : CS) : Prop where
  pre : ∀ t, accepted cs t <+: (cs.task t).submitted
  eq : cs.s.closed = false → ∀ t, (cs.task t).submitted = accepted cs t ++ (cs.task t).pc.pending
  ac : ∀ t, (cs.task t).pc.afterClose = true → cs.s.closed = true

theorem others_pending {t : Nat} {cs cs' : CS} (hso : SameOthers t cs cs') (u : Nat) (hu : u ≠ t) :
    (cs'.task u).pc.pending = (cs.task u).pc.pending ∧ (cs'.task u).pc.afterClose = (cs.task u).pc.afterClose ∧
    (cs'.task u).submitted = (cs.task u).submitted := by
  obtain ⟨h1, h2, _, _, _⟩ := hso u hu
  refine ⟨?_, ?_, h2⟩
  · rw [← pending_norm, h1, pending_norm]
  · rw [← afterClose_norm, h1, afterClose_norm]

theorem accepted_append (cs : CS) (add : List Unit') (u : Nat) (c' : CS) (hl : c'.log = cs.log ++ add) :
    accepted c' u = accepted cs u ++ (add.filter (fun x => x.owner == some u)).map (·.bytes) := by
  unfold accepted; rw [hl, List.filter_append, List.map_append]

/-- a step of `t` that adds nothing to the log and does not lose pending frames while the session is open -/
theorem ord_quiet {t : Nat} {cs cs' : CS} (h : OrdInv cs) (hso : SameOthers t cs cs') (hlog : cs'.log = cs.log)
    (hcl : cs.s.closed = true → cs'.s.closed = true)
    (hsub : (cs'.task t).submitted = (cs.task t).submitted)
    (hpend : cs'.s.closed = false → (cs'.task t).pc.pending = (cs.task t).pc.pending)
    (hac : (cs'.task t).pc.afterClose = true → cs'.s.closed = true) : OrdInv cs' := by
  have hacc : ∀ u, accepted cs' u = accepted cs u := fun u => by unfold accepted; rw [hlog]
  refine ⟨fun u => ?_, fun hc u => ?_, fun u hu => ?_⟩
  · rw [hacc]
    by_cases e : u = t
    · subst e; rw [hsub]; exact h.pre u
    · rw [(others_pending hso u e).2.2]; exact h.pre u
  · have hc0 : cs.s.closed = false := by
      cases hcc : cs.s.closed with
      | false => rfl
      | true => rw [hcl hcc] at hc; cases hc
    rw [hacc]
    by_cases e : u = t
    · subst e; rw [hsub, hpend hc]; exact h.eq hc0 u
    · rw [(others_pending hso u e).2.2, (others_pending hso u e).1]; exact h.eq hc0 u
  · by_cases e : u = t
    · subst e; exact hac hu
    · rw [(others_pending hso u e).2.1] at hu; exact hcl (h.ac u hu)

/-- a step of `t` that submits `new` (nothing was pending) -/
theorem ord_submit {t : Nat} {cs cs' : CS} (new : List Bytes) (h : OrdInv cs) (hso : SameOthers t cs cs') (hlog : cs'.log = cs.log)
    (hcl : cs'.s.closed = cs.s.closed)
    (hsub : (cs'.task t).submitted = (cs.task t).submitted ++ new)
    (hp0 : (cs.task t).pc.pending = []) (hp1 : (cs'.task t).pc.pending = new)
    (hac : (cs'.task t).pc.afterClose = false) : OrdInv cs' := by
  have hacc : ∀ u, accepted cs' u = accepted cs u := fun u => by unfold accepted; rw [hlog]
  refine ⟨fun u => ?_, fun hc u => ?_, fun u hu => ?_⟩
  · rw [hacc]
    by_cases e : u = t
    · subst e; rw [hsub]; exact (h.pre u).trans (List.prefix_append _ _)
    · rw [(others_pending hso u e).2.2]; exact h.pre u
  · rw [hcl] at hc
    rw [hacc]
    by_cases e : u = t
    · subst e; rw [hsub, hp1, h.eq hc u, hp0, List.append_nil]
    · rw [(others_pending hso u e).2.2, (others_pending hso u e).1]; exact h.eq hc u
  · by_cases e : u = t
    · subst e; rw [hac] at hu; cases hu
    · rw [(others_pending hso u e).2.1] at hu; rw [hcl]; exact h.ac u hu

/-- the step at which `write_frame` accepts the head of `t`'s pending frames (the session is open) -/
theorem ord_accept {t : Nat} {cs cs' : CS} (b : Bytes) (pad : List Unit') (h : OrdInv cs) (hso : SameOthers t cs cs')
    (hlog : cs'.log = cs.log ++ [({ owner := some t, bytes := b } : Unit')] ++ pad) (hpad : ∀ x ∈ pad, x.owner = none)
    (hc0 : cs.s.closed = false) (hcl : cs'.s.closed = false)
    (hsub : (cs'.task t).submitted = (cs.task t).submitted)
    (hp : (cs.task t).pc.pending = b :: (cs'.task t).pc.pending)
    (hac : (cs'.task t).pc.afterClose = false) : OrdInv cs' := by
  have hfil : ∀ u, (pad.filter (fun x => x.owner == some u)) = [] := by
    intro u
    apply List.filter_eq_nil_iff.mpr
    intro x hx; rw [hpad x hx]; simp
  have hacc : ∀ u, accepted cs' u = accepted cs u ++ (if u = t then [b] else []) := by
    intro u
    rw [accepted_append cs ([({ owner := some t, bytes := b } : Unit')] ++ pad) u cs' (by rw [hlog, List.append_assoc])]
    rw [List.filter_append, hfil u, List.append_nil]
    by_cases e : u = t
    · subst e; simp
    · have : (some t == some u) = false := by simp; exact fun e' => e e'.symm
      simp [e, this]
  have eqs : ∀ u, (cs'.task u).submitted = accepted cs' u ++ (cs'.task u).pc.pending := by
    intro u
    rw [hacc]
    by_cases e : u = t
    · subst e; simp only [if_true]; rw [hsub, h.eq hc0 u, hp]; simp
    · simp only [e, if_false, List.append_nil]
      rw [(others_pending hso u e).2.2, (others_pending hso u e).1]; exact h.eq hc0 u
  refine ⟨fun u => ?_, fun _ u => eqs u, fun u hu => ?_⟩
  · rw [eqs u]; exact List.prefix_append _ _
  · by_cases e : u = t
    · subst e; rw [hac] at hu; cases hu
    · rw [(others_pending hso u e).2.1] at hu
      have := h.ac u hu; rw [hc0] at this; cases this



theorem setPC_self (cs : CS) (t : Nat) (pc : PC) : (cs.setPC t pc).task t = { cs.task t with pc := pc } := by
  unfold CS.setPC; rw [setTask_task]; simp
theorem finishOp_self (cs : CS) (t : Nat) (r : Res) :
    (cs.finishOp t r).task t = { cs.task t with pc := .idle, ops := (cs.task t).ops.tail, results := (cs.task t).results ++ [r] } := by
  unfold CS.finishOp; rw [setTask_task]; simp
theorem submit_self (cs : CS) (t : Nat) (fs : List Bytes) :
    (cs.submit t fs).task t = { cs.task t with pc := .enter fs, submitted := (cs.task t).submitted ++ fs } := by
  unfold CS.submit; rw [setTask_task]; simp

theorem enterClose_log (cs : CS) (t : Nat) (k : CloseK) : (cs.enterClose t k).log = cs.log := by
  unfold CS.enterClose; split
  · cases k <;> rfl
  · rfl
theorem enterClose_closed (cs : CS) (t : Nat) (k : CloseK) : (cs.enterClose t k).s.closed = true := by
  unfold CS.enterClose; split
  · rename_i h; cases k <;> exact h
  · rfl
theorem enterClose_submitted (cs : CS) (t : Nat) (k : CloseK) : ((cs.enterClose t k).task t).submitted = (cs.task t).submitted := by
  unfold CS.enterClose; split
  · cases k
    · rw [finishOp_self]
    · rw [setPC_self]
  · rw [setPC_self]; rfl

theorem OrdInv_micro (cs cs' : CS) (t : Nat) (h : OrdInv cs) (hm : micro cs t = some cs') : OrdInv cs' := by
  have hso := micro_others cs cs' t hm
  unfold micro at hm
  simp only at hm
  split at hm
  · cases hm
  · -- idle
    rename_i hpc
    have hp0 : (cs.task t).pc.pending = [] := by rw [hpc]; rfl
    split at hm
    · cases hm
      exact ord_quiet h hso rfl id (by rw [setPC_self]) (fun _ => by rw [setPC_self, hp0]; rfl) (by rw [setPC_self]; intro hh; cases hh)
    · cases hm
      exact ord_quiet h hso rfl id (by rw [finishOp_self]; rfl) (fun _ => by rw [finishOp_self, hp0]; rfl) (by rw [finishOp_self]; intro hh; cases hh)
    · split at hm
      · cases hm
        exact ord_quiet h hso rfl id (by rw [finishOp_self]) (fun _ => by rw [finishOp_self, hp0]; rfl) (by rw [finishOp_self]; intro hh; cases hh)
      · cases hm
        exact ord_submit _ h hso rfl rfl (by rw [submit_self]) hp0 (by rw [submit_self]; rfl) (by rw [submit_self]; rfl)
    · cases hm
      exact ord_submit _ h hso rfl rfl (by rw [submit_self]) hp0 (by rw [submit_self]; rfl) (by rw [submit_self]; rfl)
    · cases hm
      exact ord_submit _ h hso rfl rfl (by rw [submit_self]) hp0 (by rw [submit_self]; rfl) (by rw [submit_self]; rfl)
    · split at hm
      · cases hm
        refine ord_quiet h hso rfl id ?_ (fun _ => ?_) ?_
        · rw [finishOp_self]; show ((cs.setTask t _).task t).submitted = _; rw [setTask_task]; simp
        · rw [finishOp_self, hp0]; rfl
        · rw [finishOp_self]; intro hh; cases hh
      · cases hm
        exact ord_quiet h hso rfl id (by rw [setPC_self]) (fun _ => by rw [setPC_self, hp0]; rfl) (by rw [setPC_self]; intro hh; cases hh)
    · cases hm
      refine ord_quiet h hso (enterClose_log cs t _) (fun _ => enterClose_closed cs t _) (enterClose_submitted cs t _) ?_ (fun _ => enterClose_closed cs t _)
      intro hc; rw [enterClose_closed] at hc; cases hc
  · -- openChecked
    rename_i hpc
    have hp0 : (cs.task t).pc.pending = [] := by rw [hpc]; rfl
    cases hm
    refine ord_submit [encodeD { cmd := .syn, sid := cs.s.register.2.1, data := [] }] h hso rfl rfl ?_ hp0 (by rw [submit_self]; rfl) (by rw [submit_self]; rfl)
    rw [submit_self]
    show ((CS.setTask _ t _).task t).submitted ++ _ = _
    rw [setTask_task]; simp
    rfl
  · -- enter
    rename_i fs hpc
    split at hm
    · cases hm
      exact ord_quiet h hso rfl id (by rw [setPC_self]; rfl) (fun _ => by rw [setPC_self, hpc]; rfl) (by rw [setPC_self]; intro hh; cases hh)
    · cases hm
      exact ord_quiet h hso rfl id (by rw [setPC_self]; rfl) (fun _ => by rw [setPC_self, hpc]; rfl) (by rw [setPC_self]; intro hh; cases hh)
  · cases hm
  · -- locked []
    rename_i hpc
    cases hm
    refine ord_quiet h hso (by rw [finishOp_log, releaseBuf_log]) (by rw [finishOp_s, releaseBuf_s]; exact id) ?_ (fun _ => ?_) ?_
    · rw [finishOp_self]; exact (releaseBuf_task cs t).2.1
    · rw [finishOp_self, hpc]; rfl
    · rw [finishOp_self]; intro hh; cases hh
  · -- locked (b :: fs)
    rename_i b fs hpc
    split at hm
    · rename_i hc
      cases hm
      refine ord_quiet h hso (by rw [finishOp_log, releaseBuf_log]) (by rw [finishOp_s, releaseBuf_s]; exact id) ?_ (fun hcc => ?_) ?_
      · rw [finishOp_self]; exact (releaseBuf_task cs t).2.1
      · rw [finishOp_s, releaseBuf_s, hc] at hcc; cases hcc
      · rw [finishOp_self]; intro hh; cases hh
    · rename_i hc
      have hc0 : cs.s.closed = false := by cases hcc : cs.s.closed <;> simp_all
      split at hm
      · split at hm
        · rename_i hfs
          have hfs' : fs = [] := List.isEmpty_iff.mp hfs
          cases hm
          refine ord_accept b [] h hso (by rw [finishOp_log, releaseBuf_log]; simp) (by simp) hc0 (by rw [finishOp_s, releaseBuf_s]; exact hc0) ?_ ?_ ?_
          · rw [finishOp_self]; exact (releaseBuf_task _ t).2.1
          · rw [finishOp_self, hpc, hfs']; rfl
          · rw [finishOp_self]; rfl
        · cases hm
          refine ord_accept b [] h hso (by rw [setPC_log, releaseBuf_log]; simp) (by simp) hc0 (by rw [setPC_s, releaseBuf_s]; exact hc0) ?_ ?_ ?_
          · rw [setPC_self]; exact (releaseBuf_task _ t).2.1
          · rw [setPC_self, hpc]; rfl
          · rw [setPC_self]; rfl
      · cases hm
        obtain ⟨_, _, pc', _⟩ := prepare_fields { cs.s with buffer := [] } (cs.s.buffer ++ b)
        refine ord_accept b _ h hso (by rw [setPC_log]) ?_ hc0 (by rw [setPC_s]; show (Sess.prepare _ _).1.closed = false; rw [pc']; exact hc0) ?_ ?_ ?_
        · intro x hx
          split at hx
          · cases hx
          · rw [List.mem_singleton] at hx; rw [hx]
        · rw [setPC_self]; rfl
        · rw [setPC_self, hpc]; rfl
        · rw [setPC_self]; rfl
  · -- preWr
    rename_i ps fs hpc
    cases hm
    have hac : (cs.task t).pc.afterClose = false := by rw [hpc]; rfl
    unfold CS.lockWrWrite at hso ⊢
    split
    · rename_i hw
      simp only [hw] at hso
      exact ord_quiet h hso rfl id (by rw [setPC_self]; rfl) (fun _ => by rw [setPC_self, hpc]; rfl) (by rw [setPC_self]; intro hh; cases hh)
    · rename_i w hw
      simp only [hw] at hso
      exact ord_quiet h hso rfl id (by rw [setPC_self]; rfl) (fun _ => by rw [setPC_self, hpc]; rfl) (by rw [setPC_self]; intro hh; cases hh)
  · cases hm
  · -- piece []
    rename_i fs hpc
    cases hm
    refine ord_quiet h hso (by rw [setPC_log, releaseWr_log]) (by rw [setPC_s, releaseWr_s]; exact id) ?_ (fun _ => ?_) ?_
    · rw [setPC_self]; exact (releaseWr_task cs t).2.1
    · rw [setPC_self, hpc]; rfl
    · rw [setPC_self]; intro hh; cases hh
  · -- piece (p :: ps)
    rename_i p ps fs hpc
    split at hm
    · rename_i s' hs'
      obtain ⟨_, _, tc⟩ := transportWrite_fields cs.s s' p hs'
      split at hm
      · cases hm
        refine ord_quiet h hso (by rw [setPC_log, releaseWr_log]) (by rw [setPC_s, releaseWr_s]; show cs.s.closed = true → s'.closed = true; rw [tc]; exact id) ?_ (fun _ => ?_) ?_
        · rw [setPC_self]; exact (releaseWr_task _ t).2.1
        · rw [setPC_self, hpc]; rfl
        · rw [setPC_self]; intro hh; cases hh
      · cases hm
        refine ord_quiet h hso rfl (by rw [setPC_s]; show cs.s.closed = true → s'.closed = true; rw [tc]; exact id) ?_ (fun _ => ?_) ?_
        · rw [setPC_self]; rfl
        · rw [setPC_self, hpc]; rfl
        · rw [setPC_self]; intro hh; cases hh
    · cases hm
      refine ord_quiet h hso (by rw [enterClose_log, releaseWr_log]) (fun _ => enterClose_closed _ t _) ?_ ?_ (fun _ => enterClose_closed _ t _)
      · rw [enterClose_submitted]; exact (releaseWr_task _ t).2.1
      · intro hc; rw [enterClose_closed] at hc; cases hc
  · -- wdone
    rename_i r fs hpc
    have hacr : r ≠ .ok → cs.s.closed = true := fun hr => h.ac t (by rw [hpc]; simp [PC.afterClose, hr])
    try simp only at hm
    split at hm
    · rename_i g gs
      cases hm
      refine ord_quiet h hso (by rw [setPC_log, releaseBuf_log]) (by rw [setPC_s, releaseBuf_s]; exact id) ?_ (fun _ => ?_) ?_
      · rw [setPC_self]; exact (releaseBuf_task cs t).2.1
      · rw [setPC_self, hpc]; rfl
      · rw [setPC_self]; intro hh; cases hh
    · rename_i hne
      cases hm
      refine ord_quiet h hso (by rw [finishOp_log, releaseBuf_log]) (by rw [finishOp_s, releaseBuf_s]; exact id) ?_ (fun hcc => ?_) ?_
      · rw [finishOp_self]; exact (releaseBuf_task cs t).2.1
      · rw [finishOp_s, releaseBuf_s] at hcc
        rw [finishOp_self, hpc]
        show [] = fs.tail
        cases r with
        | ok =>
          cases fs with
          | nil => rfl
          | cons x xs =>
            cases xs with
            | nil => rfl
            | cons g gs => exact absurd rfl (hne x g gs rfl)
        | errClosed => have := hacr (by simp); rw [this] at hcc; cases hcc
        | errIo => have := hacr (by simp); rw [this] at hcc; cases hcc
        | errProto m => have := hacr (by simp); rw [this] at hcc; cases hcc
      · rw [finishOp_self]; intro hh; cases hh
  · -- cflag
    rename_i k hpc
    have hcl : cs.s.closed = true := h.ac t (by rw [hpc]; rfl)
    cases hm
    exact ord_quiet h hso rfl (fun _ => hcl) (by rw [setPC_self]; rfl) (fun hc => by rw [setPC_s] at hc; rw [show cs.s.closeDrain.closed = cs.s.closed from rfl, hcl] at hc; cases hc)
      (fun _ => by rw [setPC_s]; exact hcl)
  · -- cdrained
    rename_i k hpc
    have hcl : cs.s.closed = true := h.ac t (by rw [hpc]; rfl)
    split at hm
    · cases hm
      exact ord_quiet h hso rfl id (by rw [setPC_self]; rfl) (fun hc => by rw [setPC_s] at hc; rw [hcl] at hc; cases hc) (fun _ => by rw [setPC_s]; exact hcl)
    · cases hm
      exact ord_quiet h hso rfl id (by rw [setPC_self]; rfl) (fun hc => by rw [setPC_s] at hc; rw [hcl] at hc; cases hc) (fun _ => by rw [setPC_s]; exact hcl)
  · cases hm
  · -- cshut
    rename_i k hpc
    have hcl : cs.s.closed = true := h.ac t (by rw [hpc]; rfl)
    cases k with
    | op =>
      cases hm
      refine ord_quiet h hso (by rw [finishOp_log, releaseWr_log]) (fun _ => by rw [finishOp_s, releaseWr_s]; exact hcl) ?_ (fun hc => ?_) (fun _ => by rw [finishOp_s, releaseWr_s]; exact hcl)
      · rw [finishOp_self]; exact (releaseWr_task _ t).2.1
      · rw [finishOp_s, releaseWr_s] at hc; rw [show ({ cs.s with shut := true } : Sess).closed = cs.s.closed from rfl, hcl] at hc; cases hc
    | inWrite fs =>
      cases hm
      refine ord_quiet h hso (by rw [setPC_log, releaseWr_log]) (fun _ => by rw [setPC_s, releaseWr_s]; exact hcl) ?_ (fun hc => ?_) (fun _ => by rw [setPC_s, releaseWr_s]; exact hcl)
      · rw [setPC_self]; exact (releaseWr_task _ t).2.1
      · rw [setPC_s, releaseWr_s] at hc; rw [show ({ cs.s with shut := true } : Sess).closed = cs.s.closed from rfl, hcl] at hc; cases hc



theorem lockWrWrite_log (cs : CS) (t : Nat) (ps fs : List Bytes) : (cs.lockWrWrite t ps fs).log = cs.log := by
  unfold CS.lockWrWrite; split <;> rfl

/-- what a step adds to the log: nothing, or the frame being accepted followed by whole padding frames -/
def GoodAdd (t : Nat) (add : List Unit') : Prop :=
  ∀ x ∈ add, x.owner = some t ∨ (x.owner = none ∧ ∃ pads : List Nat, x.bytes = flatten (pads.map wasteFrame))

theorem micro_log (cs cs' : CS) (t : Nat) (hm : micro cs t = some cs') :
    ∃ add, cs'.log = cs.log ++ add ∧ GoodAdd t add := by
  have nil : ∀ c : CS, c.log = cs.log → ∃ add, c.log = cs.log ++ add ∧ GoodAdd t add :=
    fun c h => ⟨[], by rw [h]; simp, fun x hx => by cases hx⟩
  unfold micro at hm
  simp only at hm
  split at hm
  · cases hm
  · split at hm
    · cases hm; exact nil _ rfl
    · cases hm; exact nil _ rfl
    · split at hm <;> (cases hm; exact nil _ rfl)
    · cases hm; exact nil _ rfl
    · cases hm; exact nil _ rfl
    · split at hm <;> (cases hm; exact nil _ rfl)
    · cases hm; exact nil _ (enterClose_log cs t _)
  · cases hm; exact nil _ rfl
  · split at hm <;> (cases hm; exact nil _ rfl)
  · cases hm
  · cases hm; exact nil _ (by rw [finishOp_log, releaseBuf_log])
  · rename_i b fs _
    split at hm
    · cases hm; exact nil _ (by rw [finishOp_log, releaseBuf_log])
    · split at hm
      · have one : GoodAdd t [({ owner := some t, bytes := b } : Unit')] := by
          intro x hx; rw [List.mem_singleton] at hx; rw [hx]; exact Or.inl rfl
        split at hm
        · cases hm; exact ⟨_, by rw [finishOp_log, releaseBuf_log], one⟩
        · cases hm; exact ⟨_, by rw [setPC_log, releaseBuf_log], one⟩
      · cases hm
        obtain ⟨_, _, _, pads, hflat⟩ := prepare_fields { cs.s with buffer := [] } (cs.s.buffer ++ b)
        refine ⟨_, by rw [setPC_log, List.append_assoc], ?_⟩
        intro x hx
        rw [List.mem_append, List.mem_singleton] at hx
        rcases hx with hx | hx
        · rw [hx]; exact Or.inl rfl
        · split at hx
          · cases hx
          · rw [List.mem_singleton] at hx
            rw [hx]
            refine Or.inr ⟨rfl, pads, ?_⟩
            show List.drop _ (flatten _) = _
            rw [hflat]; simp
  · cases hm; exact nil _ (lockWrWrite_log cs t _ _)
  · cases hm
  · cases hm; exact nil _ (by rw [setPC_log, releaseWr_log])
  · split at hm
    · split at hm
      · cases hm; exact nil _ (by rw [setPC_log, releaseWr_log])
      · cases hm; exact nil _ rfl
    · cases hm; exact nil _ (by rw [enterClose_log, releaseWr_log])
  · try simp only at hm
    split at hm
    · cases hm; exact nil _ (by rw [setPC_log, releaseBuf_log])
    · cases hm; exact nil _ (by rw [finishOp_log, releaseBuf_log])
  · cases hm; exact nil _ rfl
  · split at hm <;> (cases hm; exact nil _ rfl)
  · cases hm
  · rename_i k _
    cases k with
    | op => cases hm; exact nil _ (by rw [finishOp_log, releaseWr_log])
    | inWrite fs => cases hm; exact nil _ (by rw [setPC_log, releaseWr_log])

/-- ids at or above `n` are unused; only existing tasks own log entries -/
structure IdInv (cs : CS) : Prop where
  unused : ∀ u, cs.n ≤ u → (cs.task u).pc = .fin ∧ (cs.task u).submitted = []
  owners : ∀ x ∈ cs.log, ∀ t, x.owner = some t → t < cs.n

theorem norm_fin (pc : PC) (h : pc.norm = .fin) : pc = .fin := by
  cases pc <;> first | rfl | (simp [PC.norm] at h)

theorem IdInv_micro (cs cs' : CS) (t : Nat) (h : IdInv cs) (hm : micro cs t = some cs') : IdInv cs' := by
  have hn := micro_n cs cs' t hm
  have hso := micro_others cs cs' t hm
  obtain ⟨add, hlog, hadd⟩ := micro_log cs cs' t hm
  have ht : t < cs.n := by
    cases Nat.lt_or_ge t cs.n with
    | inl h' => exact h'
    | inr h' =>
      have := (h.unused t h').1
      unfold micro at hm
      simp only [this] at hm
      cases hm
  refine ⟨fun u hu => ?_, fun x hx u hxu => ?_⟩
  · rw [hn] at hu
    have hne : u ≠ t := by omega
    obtain ⟨h1, h2, _, _, _⟩ := hso u hne
    have hu0 := h.unused u hu
    rw [hu0.1] at h1
    exact ⟨norm_fin _ h1, h2.trans hu0.2⟩
  · rw [hn]
    rw [hlog, List.mem_append] at hx
    rcases hx with hx | hx
    · exact h.owners x hx u hxu
    · rcases hadd x hx with e | ⟨e, _⟩
      · rw [e] at hxu; cases hxu; exact ht
      · rw [e] at hxu; cases hxu



def synBytes (sid : Nat) : Bytes := encodeD { cmd := .syn, sid := sid, data := [] }

/-- what a step of `t` does to `t`'s own stream ids and submission list -/
inductive SelfSub (k k' : Task) : Prop where
  | same (new : List Bytes) : k'.sids = k.sids → k'.submitted = k.submitted ++ new → SelfSub k k'
  | refused : k'.sids = k.sids ++ [none] → k'.submitted = k.submitted → SelfSub k k'
  | opened (sid : Nat) : k'.sids = k.sids ++ [some sid] → k'.submitted = k.submitted ++ [synBytes sid] → SelfSub k k'

theorem enterClose_self (cs : CS) (t : Nat) (k : CloseK) :
    ((cs.enterClose t k).task t).sids = (cs.task t).sids ∧ ((cs.enterClose t k).task t).submitted = (cs.task t).submitted := by
  unfold CS.enterClose; split
  · cases k
    · rw [finishOp_self]; exact ⟨rfl, rfl⟩
    · rw [setPC_self]; exact ⟨rfl, rfl⟩
  · rw [setPC_self]; exact ⟨rfl, rfl⟩

theorem lockWrWrite_self (cs : CS) (t : Nat) (ps fs : List Bytes) :
    ((cs.lockWrWrite t ps fs).task t).sids = (cs.task t).sids ∧ ((cs.lockWrWrite t ps fs).task t).submitted = (cs.task t).submitted := by
  unfold CS.lockWrWrite; split <;> (rw [setPC_self]; exact ⟨rfl, rfl⟩)

theorem micro_selfsub (cs cs' : CS) (t : Nat) (hm : micro cs t = some cs') : SelfSub (cs.task t) (cs'.task t) := by
  have keep : ∀ c : CS, (c.task t).sids = (cs.task t).sids → (c.task t).submitted = (cs.task t).submitted → SelfSub (cs.task t) (c.task t) :=
    fun c h1 h2 => .same [] h1 (by rw [h2]; simp)
  have rb := releaseBuf_task
  have rw' := releaseWr_task
  unfold micro at hm
  simp only at hm
  split at hm
  · cases hm
  · split at hm
    · cases hm; exact keep _ (by rw [setPC_self]) (by rw [setPC_self])
    · cases hm; exact keep _ (by rw [finishOp_self]; rfl) (by rw [finishOp_self]; rfl)
    · split at hm
      · cases hm; exact keep _ (by rw [finishOp_self]) (by rw [finishOp_self])
      · cases hm; exact .same _ (by rw [submit_self]) (by rw [submit_self])
    · cases hm; exact .same _ (by rw [submit_self]) (by rw [submit_self])
    · cases hm; exact .same _ (by rw [submit_self]) (by rw [submit_self])
    · split at hm
      · cases hm
        refine .refused ?_ ?_
        · rw [finishOp_self]; show ((cs.setTask t _).task t).sids = _; rw [setTask_task]; simp
        · rw [finishOp_self]; show ((cs.setTask t _).task t).submitted = _; rw [setTask_task]; simp
      · cases hm; exact keep _ (by rw [setPC_self]) (by rw [setPC_self])
    · cases hm; exact keep _ (enterClose_self cs t _).1 (enterClose_self cs t _).2
  · cases hm
    refine .opened (cs.s.register).2.1 ?_ ?_
    · rw [submit_self]; show ((CS.setTask _ t _).task t).sids = _; rw [setTask_task]; simp; rfl
    · rw [submit_self]; show ((CS.setTask _ t _).task t).submitted ++ _ = _; rw [setTask_task]; simp; exact ⟨rfl, rfl⟩
  · split at hm <;> (cases hm; exact keep _ (by rw [setPC_self]; rfl) (by rw [setPC_self]; rfl))
  · cases hm
  · cases hm; exact keep _ (by rw [finishOp_self]; exact (rb cs t).2.2.2.2) (by rw [finishOp_self]; exact (rb cs t).2.1)
  · split at hm
    · cases hm; exact keep _ (by rw [finishOp_self]; exact (rb cs t).2.2.2.2) (by rw [finishOp_self]; exact (rb cs t).2.1)
    · split at hm
      · split at hm
        · cases hm; exact keep _ (by rw [finishOp_self]; exact (rb _ t).2.2.2.2) (by rw [finishOp_self]; exact (rb _ t).2.1)
        · cases hm; exact keep _ (by rw [setPC_self]; exact (rb _ t).2.2.2.2) (by rw [setPC_self]; exact (rb _ t).2.1)
      · cases hm; exact keep _ (by rw [setPC_self]; rfl) (by rw [setPC_self]; rfl)
  · cases hm; exact keep _ (lockWrWrite_self cs t _ _).1 (lockWrWrite_self cs t _ _).2
  · cases hm
  · cases hm; exact keep _ (by rw [setPC_self]; exact (rw' cs t).2.2.2.2) (by rw [setPC_self]; exact (rw' cs t).2.1)
  · split at hm
    · split at hm
      · cases hm; exact keep _ (by rw [setPC_self]; exact (rw' _ t).2.2.2.2) (by rw [setPC_self]; exact (rw' _ t).2.1)
      · cases hm; exact keep _ (by rw [setPC_self]; rfl) (by rw [setPC_self]; rfl)
    · cases hm
      exact keep _ ((enterClose_self _ t _).1.trans (rw' _ t).2.2.2.2) ((enterClose_self _ t _).2.trans (rw' _ t).2.1)
  · try simp only at hm
    split at hm
    · cases hm; exact keep _ (by rw [setPC_self]; exact (rb cs t).2.2.2.2) (by rw [setPC_self]; exact (rb cs t).2.1)
    · cases hm; exact keep _ (by rw [finishOp_self]; exact (rb cs t).2.2.2.2) (by rw [finishOp_self]; exact (rb cs t).2.1)
  · cases hm; exact keep _ (by rw [setPC_self]; rfl) (by rw [setPC_self]; rfl)
  · split at hm <;> (cases hm; exact keep _ (by rw [setPC_self]; rfl) (by rw [setPC_self]; rfl))
  · cases hm
  · rename_i k _
    cases k with
    | op => cases hm; exact keep _ (by rw [finishOp_self]; exact (rw' _ t).2.2.2.2) (by rw [finishOp_self]; exact (rw' _ t).2.1)
    | inWrite fs => cases hm; exact keep _ (by rw [setPC_self]; exact (rw' _ t).2.2.2.2) (by rw [setPC_self]; exact (rw' _ t).2.1)

/-- every stream id a task registered has its SYN in the task's submission list -/
def SynInv (cs : CS) : Prop := ∀ t sid, some sid ∈ (cs.task t).sids → synBytes sid ∈ (cs.task t).submitted

theorem SynInv_micro (cs cs' : CS) (t : Nat) (h : SynInv cs) (hm : micro cs t = some cs') : SynInv cs' := by
  intro u sid hs
  by_cases e : u = t
  · subst e
    cases micro_selfsub cs cs' u hm with
    | same new h1 h2 => rw [h1] at hs; rw [h2]; exact List.mem_append_left _ (h u sid hs)
    | refused h1 h2 =>
      rw [h1, List.mem_append] at hs; rw [h2]
      rcases hs with hs | hs
      · exact h u sid hs
      · simp at hs
    | opened sid' h1 h2 =>
      rw [h1, List.mem_append] at hs; rw [h2]
      rcases hs with hs | hs
      · exact List.mem_append_left _ (h u sid hs)
      · simp at hs; rw [hs]; simp
  · obtain ⟨_, h2, _, _, h5⟩ := micro_others cs cs' t hm u e
    rw [h5] at hs; rw [h2]; exact h u sid hs


end AnyTLS
