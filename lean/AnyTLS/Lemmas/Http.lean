import AnyTLS.Model.Http
import AnyTLS.Model.HttpSpec

namespace AnyTLS.Http

/-! ### `find_header_end` -/

theorem findHeaderEnd_bounds : ∀ (b : Bytes) (e : Nat), findHeaderEnd b = some e → 4 ≤ e ∧ e ≤ b.length := by
  intro b
  induction b with
  | nil => intro e h; simp [findHeaderEnd] at h
  | cons x xs ih =>
    intro e h
    unfold findHeaderEnd at h
    split at h
    · rename_i hp
      have hpre : terminator <+: (x :: xs) := List.isPrefixOf_iff_prefix.mp hp
      have hl := hpre.length_le
      simp [terminator] at hl
      cases h
      simp only [List.length_cons]
      omega
    · cases hx : findHeaderEnd xs with
      | none => simp [hx] at h
      | some e' =>
        simp [hx] at h
        have := ih e' hx
        subst h
        simp only [List.length_cons]
        omega

theorem findHeaderEnd_append_left : ∀ (a b : Bytes) (e : Nat), findHeaderEnd a = some e → findHeaderEnd (a ++ b) = some e := by
  intro a
  induction a with
  | nil => intro b e h; simp [findHeaderEnd] at h
  | cons x xs ih =>
    intro b e h
    rw [List.cons_append]
    unfold findHeaderEnd at h ⊢
    split at h
    · rename_i hp
      have hpre : terminator <+: (x :: xs) := List.isPrefixOf_iff_prefix.mp hp
      have : terminator.isPrefixOf (x :: (xs ++ b)) = true := by
        rw [← List.cons_append]
        exact List.isPrefixOf_iff_prefix.mpr (hpre.trans (List.prefix_append _ _))
      simp [this, h]
    · rename_i hp
      cases hx : findHeaderEnd xs with
      | none => simp [hx] at h
      | some e' =>
        simp [hx] at h
        have hb := findHeaderEnd_bounds xs e' hx
        have hnot : terminator.isPrefixOf (x :: (xs ++ b)) = false := by
          cases hq : terminator.isPrefixOf (x :: (xs ++ b)) with
          | false => rfl
          | true =>
            exfalso
            have h1 : terminator <+: (x :: xs) ++ b := by
              rw [List.cons_append]; exact List.isPrefixOf_iff_prefix.mp hq
            have h2 : (x :: xs) <+: (x :: xs) ++ b := List.prefix_append _ _
            have h3 : terminator <+: (x :: xs) := List.prefix_of_prefix_length_le h1 h2 (by simp [terminator]; omega)
            exact hp (List.isPrefixOf_iff_prefix.mpr h3)
        simp [hnot, ih b e' hx, h]

theorem findHeaderEnd_append_inv : ∀ (a b : Bytes) (e : Nat), findHeaderEnd (a ++ b) = some e → e ≤ a.length → findHeaderEnd a = some e := by
  intro a
  induction a with
  | nil =>
    intro b e h hle
    have := (findHeaderEnd_bounds _ _ h).1
    simp at hle; omega
  | cons x xs ih =>
    intro b e h hle
    rw [List.cons_append] at h
    unfold findHeaderEnd at h ⊢
    split at h
    · rename_i hp
      cases h
      have h1 : terminator <+: (x :: xs) ++ b := by
        rw [List.cons_append]; exact List.isPrefixOf_iff_prefix.mp hp
      have h2 : (x :: xs) <+: (x :: xs) ++ b := List.prefix_append _ _
      have h3 : terminator <+: (x :: xs) := List.prefix_of_prefix_length_le h1 h2 (by simpa [terminator] using hle)
      simp [List.isPrefixOf_iff_prefix.mpr h3]
    · rename_i hp
      cases hx : findHeaderEnd (xs ++ b) with
      | none => simp [hx] at h
      | some e' =>
        simp [hx] at h
        subst h
        have hnot : terminator.isPrefixOf (x :: xs) = false := by
          cases hq : terminator.isPrefixOf (x :: xs) with
          | false => rfl
          | true =>
            exfalso
            have hpre : terminator <+: (x :: xs) := List.isPrefixOf_iff_prefix.mp hq
            apply hp
            rw [← List.cons_append]
            exact List.isPrefixOf_iff_prefix.mpr (hpre.trans (List.prefix_append _ _))
        simp only [List.length_cons] at hle
        simp [hnot, ih b e' hx (by omega)]

/-- the block found ends with the terminator and no earlier position does -/
theorem findHeaderEnd_spec : ∀ (b : Bytes) (e : Nat), findHeaderEnd b = some e →
    (∃ pre post, b = pre ++ terminator ++ post ∧ e = pre.length + 4) ∧
    (∀ pre post, b = pre ++ terminator ++ post → e ≤ pre.length + 4) := by
  intro b
  induction b with
  | nil => intro e h; simp [findHeaderEnd] at h
  | cons x xs ih =>
    intro e h
    unfold findHeaderEnd at h
    split at h
    · rename_i hp
      cases h
      obtain ⟨post, hpost⟩ := List.isPrefixOf_iff_prefix.mp hp
      exact ⟨⟨[], post, by simpa using hpost.symm, by simp⟩, fun pre post _ => by omega⟩
    · rename_i hp
      cases hx : findHeaderEnd xs with
      | none => simp [hx] at h
      | some e' =>
        simp [hx] at h
        subst h
        obtain ⟨⟨pre, post, h1, h2⟩, hmin⟩ := ih e' hx
        refine ⟨⟨x :: pre, post, by simp [h1], by simp [h2]⟩, ?_⟩
        intro pre' post' hb
        cases pre' with
        | nil =>
          exfalso; apply hp
          exact List.isPrefixOf_iff_prefix.mpr ⟨post', by simpa using hb.symm⟩
        | cons y ys =>
          simp only [List.cons_append, List.cons.injEq] at hb
          have := hmin ys post' (by simpa using hb.2)
          simp only [List.length_cons]; omega

theorem findHeaderEnd_none : ∀ (b : Bytes), findHeaderEnd b = none → ∀ pre post, b ≠ pre ++ terminator ++ post := by
  intro b
  induction b with
  | nil => intro _ pre post h; cases pre <;> simp [terminator] at h
  | cons x xs ih =>
    intro h pre post hb
    unfold findHeaderEnd at h
    split at h
    · cases h
    · rename_i hp
      cases hx : findHeaderEnd xs with
      | some e' => simp [hx] at h
      | none =>
        cases pre with
        | nil =>
          apply hp
          exact List.isPrefixOf_iff_prefix.mpr ⟨post, by simpa using hb.symm⟩
        | cons y ys =>
          simp only [List.cons_append, List.cons.injEq] at hb
          exact ih hx ys post (by simpa using hb.2)


/-- the verdict on the whole byte stream -/
def headerVerdict (maxHeader : Nat) (s : Bytes) : Option (Bytes × Bytes) ⊕ Err :=
  match findHeaderEnd s with
  | some e => if e ≤ maxHeader then .inl (some (s.take e, s.drop e)) else .inr .tooLarge
  | none => if s.length > maxHeader then .inr .tooLarge else .inr .closedEarly

theorem readHeader_whole (M : Nat) : ∀ (chunks : List Bytes) (buf : Bytes),
    findHeaderEnd buf = none → buf.length ≤ M →
    match findHeaderEnd (buf ++ chunks.flatten) with
    | some e =>
      if e ≤ M then ∃ rem later, readHeader M buf chunks = .ok ((buf ++ chunks.flatten).take e) rem later
          ∧ rem ++ later.flatten = (buf ++ chunks.flatten).drop e
      else readHeader M buf chunks = .err .tooLarge
    | none => readHeader M buf chunks = .err (if (buf ++ chunks.flatten).length > M then .tooLarge else .closedEarly) := by
  intro chunks
  induction chunks with
  | nil =>
    intro buf hnone hlen
    simp only [List.flatten_nil, List.append_nil, hnone, readHeader]
    rw [if_neg (by omega)]
  | cons c rest ih =>
    intro buf hnone hlen
    simp only [List.flatten_cons, ← List.append_assoc]
    unfold readHeader
    simp only
    cases hb : findHeaderEnd (buf ++ c) with
    | some e =>
      have hs := findHeaderEnd_append_left (buf ++ c) rest.flatten e hb
      have hbd := findHeaderEnd_bounds _ _ hb
      rw [hs]
      simp only
      by_cases hle : e ≤ M
      · simp only [hle, if_true]
        refine ⟨(buf ++ c).drop e, rest, ?_, ?_⟩
        · rw [List.take_append_of_le_length hbd.2]
        · rw [List.drop_append_of_le_length hbd.2]
      · simp only [hle, if_false]
    | none =>
      simp only
      by_cases hgt : (buf ++ c).length > M
      · simp only [hgt, if_true]
        cases hs : findHeaderEnd (buf ++ c ++ rest.flatten) with
        | some e =>
          simp only
          have : ¬ e ≤ M := by
            intro hle
            have := findHeaderEnd_append_inv (buf ++ c) rest.flatten e hs (by omega)
            rw [hb] at this; cases this
          simp only [this, if_false]
        | none =>
          simp only
          rw [if_pos (by simp only [List.length_append] at hgt ⊢; omega)]
      · simp only [hgt, if_false]
        exact ih (buf ++ c) hb (by omega)


/-! ### string primitives -/

theorem dropWhile_all_false {α} (p : α → Bool) : ∀ (l : List α), (∀ c ∈ l, p c = false) → l.dropWhile p = l
  | [], _ => rfl
  | c :: t, h => by simp [List.dropWhile, h c List.mem_cons_self]

theorem splitCRLF_cons (c : Char) (t : Str) (hc : c ≠ '\r') (ht : t ≠ []) :
    splitCRLF (c :: t) = consHead c (splitCRLF t) := by
  cases t with
  | nil => exact absurd rfl ht
  | cons d r =>
    rw [splitCRLF]
    simp [hc]

theorem splitCRLF_line : ∀ (l rest : Str), '\r' ∉ l → splitCRLF (l ++ '\r' :: '\n' :: rest) = l :: splitCRLF rest := by
  intro l
  induction l with
  | nil => intro rest _; simp [splitCRLF]
  | cons c l' ih =>
    intro rest h
    have hc : c ≠ '\r' := fun e => h (by simp [e])
    have hl' : '\r' ∉ l' := fun e => h (List.mem_cons_of_mem _ e)
    rw [List.cons_append, splitCRLF_cons c _ hc (by simp), ih rest hl']
    rfl

theorem splitCRLF_crlf : splitCRLF crlf = [[], []] := by decide

theorem splitWsGo_tok : ∀ (tok rest cur : Str), (∀ c ∈ tok, isWs c = false) →
    splitWsGo (tok ++ rest) cur = splitWsGo rest (tok.reverse ++ cur) := by
  intro tok
  induction tok with
  | nil => intro rest cur _; rfl
  | cons c t ih =>
    intro rest cur h
    rw [List.cons_append, splitWsGo]
    simp only [h c List.mem_cons_self, Bool.false_eq_true, if_false]
    rw [ih rest (c :: cur) (fun x hx => h x (List.mem_cons_of_mem _ hx))]
    simp

theorem splitWs_three (a b c : Str) (ha : a ≠ []) (hb : b ≠ []) (hc : c ≠ [])
    (wa : ∀ x ∈ a, isWs x = false) (wb : ∀ x ∈ b, isWs x = false) (wc : ∀ x ∈ c, isWs x = false) :
    splitWs (a ++ ' ' :: b ++ ' ' :: c) = [a, b, c] := by
  have sp : isWs ' ' = true := by decide
  have ne : ∀ (t : Str), t ≠ [] → (t.reverse ++ ([] : Str)).isEmpty = false := by
    intro t ht; cases t with
    | nil => exact absurd rfl ht
    | cons x xs => simp
  unfold splitWs
  rw [List.append_assoc, splitWsGo_tok a _ [] wa, List.cons_append, splitWsGo]
  simp only [sp, if_true, ne a ha, Bool.false_eq_true, if_false]
  rw [splitWsGo_tok b _ [] wb, splitWsGo]
  simp only [sp, if_true, ne b hb, Bool.false_eq_true, if_false]
  have := splitWsGo_tok c [] [] wc
  rw [List.append_nil] at this
  rw [this, splitWsGo]
  simp only [ne c hc, Bool.false_eq_true, if_false]
  simp

theorem trim_noWs (s : Str) (h : ∀ c ∈ s, isWs c = false) : trim s = s := by
  unfold trim
  rw [dropWhile_all_false isWs s h, dropWhile_all_false isWs s.reverse (by simpa using h)]
  simp

theorem trimMatches_none (c : Char) (s : Str) (h : c ∉ s) : trimMatches c s = s := by
  unfold trimMatches
  have h' : ∀ x ∈ s, (x == c) = false := by
    intro x hx; simp only [beq_eq_false_iff_ne, ne_eq]; intro e; exact h (e ▸ hx)
  rw [dropWhile_all_false _ s h', dropWhile_all_false _ s.reverse (by simpa using h')]
  simp

theorem stripBrackets_plain (s : Str) (hw : ∀ c ∈ s, isWs c = false) (h1 : '[' ∉ s) (h2 : ']' ∉ s) :
    stripBrackets s = s := by
  unfold stripBrackets
  rw [trim_noWs s hw, trimMatches_none _ s h1, trimMatches_none _ s h2]

theorem stripBrackets_bracketed (h : Str) (hne : h ≠ []) (hw : ∀ c ∈ h, isWs c = false) (h1 : '[' ∉ h) (h2 : ']' ∉ h) :
    stripBrackets ('[' :: h ++ [']']) = h := by
  unfold stripBrackets
  have w1 : isWs '[' = false := by decide
  have w2 : isWs ']' = false := by decide
  rw [trim_noWs _ (by
    intro c hc
    rw [List.cons_append, List.mem_cons, List.mem_append, List.mem_singleton] at hc
    rcases hc with hc | hc | hc
    · rw [hc]; exact w1
    · exact hw c hc
    · rw [hc]; exact w2)]
  have e1 : trimMatches '[' ('[' :: h ++ [']']) = h ++ [']'] := by
    unfold trimMatches
    have hd : ∀ x ∈ h ++ [']'], (x == '[') = false := by
      intro x hx
      rw [List.mem_append, List.mem_singleton] at hx
      rcases hx with hx | hx
      · simp only [beq_eq_false_iff_ne, ne_eq]; intro e; exact h1 (e ▸ hx)
      · rw [hx]; decide
    rw [List.cons_append, List.dropWhile_cons_of_pos (by simp), dropWhile_all_false _ _ hd,
      dropWhile_all_false _ _ (by intro x hx; exact hd x (List.mem_reverse.mp hx))]
    simp
  rw [e1]
  unfold trimMatches
  have hd : ∀ x ∈ h, (x == ']') = false := by
    intro x hx; simp only [beq_eq_false_iff_ne, ne_eq]; intro e; exact h2 (e ▸ hx)
  cases h with
  | nil => exact absurd rfl hne
  | cons x xs =>
    rw [List.cons_append, List.dropWhile_cons_of_neg (by simpa using hd x List.mem_cons_self)]
    rw [← List.cons_append, List.reverse_append, List.reverse_singleton, List.singleton_append,
      List.dropWhile_cons_of_pos (by simp),
      dropWhile_all_false _ _ (by intro y hy; exact hd y (List.mem_reverse.mp hy))]
    simp


theorem splitLast_none (c : Char) : ∀ (s : Str), c ∉ s → splitLast c s = none := by
  intro s
  induction s with
  | nil => intro _; rfl
  | cons x xs ih =>
    intro h
    have hx : x ≠ c := fun e => h (by simp [e])
    rw [splitLast, ih (fun e => h (List.mem_cons_of_mem _ e))]
    simp [hx]

theorem splitLast_append (c : Char) : ∀ (a b : Str), c ∉ b → splitLast c (a ++ c :: b) = some (a, b) := by
  intro a
  induction a with
  | nil => intro b h; rw [List.nil_append, splitLast, splitLast_none c b h]; simp
  | cons x xs ih => intro b h; rw [List.cons_append, splitLast, ih b h]

theorem digitChar_val (n : Nat) (h : n < 10) : (digitChar n).toNat = 48 + n := by
  unfold digitChar
  have : n = 0 ∨ n = 1 ∨ n = 2 ∨ n = 3 ∨ n = 4 ∨ n = 5 ∨ n = 6 ∨ n = 7 ∨ n = 8 ∨ n = 9 := by omega
  rcases this with h | h | h | h | h | h | h | h | h | h <;> subst h <;> decide

theorem digitChar_isDigit (n : Nat) (h : n < 10) : isDigit (digitChar n) = true := by
  unfold isDigit; rw [digitChar_val n h]; simp; omega

theorem digitsF_spec : ∀ (f n : Nat), n < f →
    (digitsF f n ≠ []) ∧ (∀ c ∈ digitsF f n, isDigit c = true) ∧ decVal (digitsF f n) = n := by
  intro f
  induction f with
  | zero => intro n h; omega
  | succ f ih =>
    intro n h
    unfold digitsF
    by_cases hn : n < 10
    · simp only [hn, if_true]
      refine ⟨by simp, ?_, ?_⟩
      · intro c hc; rw [List.mem_singleton] at hc; rw [hc]; exact digitChar_isDigit n hn
      · simp [decVal, digitChar_val n hn]
    · simp only [hn, if_false]
      obtain ⟨h1, h2, h3⟩ := ih (n / 10) (by omega)
      refine ⟨by simp, ?_, ?_⟩
      · intro c hc
        rw [List.mem_append, List.mem_singleton] at hc
        rcases hc with hc | hc
        · exact h2 c hc
        · rw [hc]; exact digitChar_isDigit _ (by omega)
      · unfold decVal at h3 ⊢
        rw [List.foldl_append, h3]
        simp [digitChar_val (n % 10) (by omega)]
        omega

theorem isDigit_ne {c d : Char} (h : isDigit c = true) (hd : isDigit d = false) : c ≠ d := by
  intro e; rw [e, hd] at h; cases h

theorem parseU16_digits (p : Nat) (hp : p < 65536) : parseU16 (digits p) = some p := by
  obtain ⟨h1, h2, h3⟩ := digitsF_spec (p + 1) p (by omega)
  unfold parseU16 digits
  cases hd : digitsF (p + 1) p with
  | nil => exact absurd hd h1
  | cons c t =>
    rw [hd] at h2 h3
    have hc : c ≠ '+' := isDigit_ne (h2 c List.mem_cons_self) (by decide)
    have : stripPlus (c :: t) = c :: t := by
      unfold stripPlus
      split
      · rename_i r heq; cases heq; exact absurd rfl hc
      · rfl
    simp only [this, List.isEmpty_cons, Bool.false_eq_true, if_false]
    rw [List.all_eq_true.mpr h2, h3]
    simp; omega

theorem digits_no (p : Nat) (c : Char) (hc : isDigit c = false) : c ∉ digits p := by
  obtain ⟨_, h2, _⟩ := digitsF_spec (p + 1) p (by omega)
  intro h
  have := h2 c h
  rw [hc] at this; cases this

/-- anything ending in `]` is not a port number -/
theorem parseU16_bracket (s : Str) : parseU16 (s ++ [']']) = none := by
  unfold parseU16
  have key : ∀ (ds : Str), (ds ++ [']']).all isDigit = false := by
    intro ds
    rw [List.all_append]
    have : ([']'] : Str).all isDigit = false := by decide
    rw [this]; simp
  cases s with
  | nil => decide
  | cons c t =>
    by_cases hc : c = '+'
    · subst hc
      simp only [List.cons_append, stripPlus, key t]
      cases t <;> simp
    · have : stripPlus (c :: t ++ [']']) = c :: t ++ [']'] := by
        unfold stripPlus
        split
        · rename_i r heq; rw [List.cons_append] at heq; cases heq; exact absurd rfl hc
        · rfl
      simp only [this, key (c :: t)]
      simp


theorem contains_true {l : Str} {c : Char} (h : c ∈ l) : l.contains c = true := by simp [h]
theorem contains_false {l : Str} {c : Char} (h : c ∉ l) : l.contains c = false := by simp [h]

theorem splitHostPort_render (a : Authority) (d : Nat) (h : a.WF) :
    splitHostPort a.render d = (a.host, a.port.getD d) := by
  obtain ⟨hne, htok, _hs, _hq, hlb, hrb, hv6, hport⟩ := h
  have colon_digit : isDigit ':' = false := by decide
  have rb_digit : isDigit ']' = false := by decide
  unfold Authority.render splitHostPort
  cases hp : a.port with
  | none =>
    simp only [List.append_nil, Option.getD_none]
    cases hv : a.v6 with
    | false =>
      have hnc : ':' ∉ a.host := fun hc => by have := hv6.mpr hc; rw [hv] at this; cases this
      simp only [Bool.false_eq_true, if_false]
      rw [splitLast_none ':' _ hnc]
      simp only
      rw [stripBrackets_plain a.host htok hlb hrb]
    | true =>
      simp only [if_true]
      have hc : ':' ∈ a.host := hv6.mp hv
      -- split the host at its last colon
      obtain ⟨h1, h2, hsplit, hno⟩ : ∃ h1 h2, a.host = h1 ++ ':' :: h2 ∧ ':' ∉ h2 := by
        have : ∀ (s : Str), ':' ∈ s → ∃ h1 h2, s = h1 ++ ':' :: h2 ∧ ':' ∉ h2 := by
          intro s
          induction s with
          | nil => intro h; cases h
          | cons x xs ih =>
            intro hm
            by_cases hx : ':' ∈ xs
            · obtain ⟨u, v, e, hn⟩ := ih hx
              exact ⟨x :: u, v, by rw [e]; rfl, hn⟩
            · have : x = ':' := by
                rcases List.mem_cons.mp hm with e | e
                · exact e.symm
                · exact absurd e hx
              exact ⟨[], xs, by rw [this]; rfl, hx⟩
        exact this a.host hc
      have e1 : ('[' :: a.host ++ [']']) = ('[' :: h1) ++ ':' :: (h2 ++ [']']) := by
        rw [hsplit]; simp
      have hno' : ':' ∉ h2 ++ [']'] := by
        intro hm
        rcases List.mem_append.mp hm with e | e
        · exact hno e
        · simp at e
      rw [e1, splitLast_append ':' _ _ hno']
      simp only
      rw [parseU16_bracket h2, ← e1]
      have : ((('[' :: h1).contains ':' && !('[' :: a.host ++ [']']).contains ']')) = false := by
        rw [contains_true (c := ']') (by simp)]
        simp
      rw [this]
      simp only [Bool.false_eq_true, if_false]
      rw [stripBrackets_bracketed a.host hne htok hlb hrb]
  | some p =>
    have hp65 := hport p hp
    simp only [Option.getD_some]
    have hnd : ':' ∉ digits p := digits_no p ':' colon_digit
    rw [splitLast_append ':' _ _ hnd]
    simp only
    rw [parseU16_digits p hp65]
    cases hv : a.v6 with
    | false =>
      have hnc : ':' ∉ a.host := fun hc => by have := hv6.mpr hc; rw [hv] at this; cases this
      simp only [Bool.false_eq_true, if_false]
      rw [contains_false hnc]
      simp only [Bool.false_and, Bool.false_eq_true, if_false]
      rw [stripBrackets_plain a.host htok hlb hrb]
    | true =>
      simp only [if_true]
      have : ((('[' :: a.host ++ [']']) ++ ':' :: digits p).contains ']') = true :=
        contains_true (by simp)
      rw [this]
      simp only [Bool.not_true, Bool.and_false, Bool.false_eq_true, if_false]
      rw [stripBrackets_bracketed a.host hne htok hlb hrb]


theorem isWs_of_digit {c : Char} (h : isDigit c = true) : isWs c = false := by
  unfold isDigit at h
  unfold isWs
  simp only [Bool.and_eq_true, decide_eq_true_eq] at h
  simp only [Bool.or_eq_false_iff, Bool.and_eq_false_iff, decide_eq_false_iff_not, beq_eq_false_iff_ne]
  omega

theorem mem_render {a : Authority} {c : Char} (h : c ∈ a.render) :
    c ∈ a.host ∨ c = '[' ∨ c = ']' ∨ c = ':' ∨ isDigit c = true := by
  unfold Authority.render at h
  rcases List.mem_append.mp h with h1 | h2
  · cases hv : a.v6 with
    | false => rw [hv] at h1; exact Or.inl h1
    | true =>
      rw [hv] at h1
      simp only [if_true, List.cons_append, List.mem_cons, List.mem_append, List.not_mem_nil, or_false] at h1
      rcases h1 with e | e | e
      · exact Or.inr (Or.inl e)
      · exact Or.inl e
      · exact Or.inr (Or.inr (Or.inl e))
  · cases hp : a.port with
    | none => rw [hp] at h2; cases h2
    | some p =>
      rw [hp] at h2
      rcases List.mem_cons.mp h2 with e | e
      · exact Or.inr (Or.inr (Or.inr (Or.inl e)))
      · obtain ⟨_, hd, _⟩ := digitsF_spec (p + 1) p (by omega)
        exact Or.inr (Or.inr (Or.inr (Or.inr (hd c e))))

theorem render_tokenOk (a : Authority) (h : a.WF) : tokenOk a.render := by
  intro c hc
  rcases mem_render hc with e | e | e | e | e
  · exact h.2.1 c e
  · rw [e]; decide
  · rw [e]; decide
  · rw [e]; decide
  · exact isWs_of_digit e

theorem render_no (a : Authority) (c : Char) (hc : c ∉ a.host) (h1 : c ≠ '[') (h2 : c ≠ ']') (h3 : c ≠ ':')
    (h4 : isDigit c = false) : c ∉ a.render := by
  intro hm
  rcases mem_render hm with e | e | e | e | e
  · exact hc e
  · exact h1 e
  · exact h2 e
  · exact h3 e
  · rw [h4] at e; cases e

theorem render_ne (a : Authority) (h : a.WF) : a.render ≠ [] := by
  unfold Authority.render
  have := h.1
  cases a.v6 <;> cases hh : a.host <;> simp_all

theorem splitCRLF_lines : ∀ (ls : List Str) (rest : Str), (∀ l ∈ ls, '\r' ∉ l) →
    splitCRLF (ls.flatMap (· ++ crlf) ++ rest) = ls ++ splitCRLF rest := by
  intro ls
  induction ls with
  | nil => intro rest _; rfl
  | cons l t ih =>
    intro rest h
    rw [List.flatMap_cons, List.append_assoc, List.append_assoc]
    show splitCRLF (l ++ ('\r' :: '\n' :: (List.flatMap (· ++ crlf) t ++ rest))) = _
    rw [splitCRLF_line l _ (h l List.mem_cons_self), ih rest (fun x hx => h x (List.mem_cons_of_mem _ hx))]
    rfl

theorem takeWhile_all {α} (p : α → Bool) : ∀ (a b : List α), (∀ c ∈ a, p c = true) →
    (a ++ b).takeWhile p = a ++ b.takeWhile p ∧ (a ++ b).dropWhile p = b.dropWhile p := by
  intro a
  induction a with
  | nil => intro b _; exact ⟨rfl, rfl⟩
  | cons x xs ih =>
    intro b h
    have hx := h x List.mem_cons_self
    have := ih b (fun c hc => h c (List.mem_cons_of_mem _ hc))
    simp [hx, this.1, this.2]

theorem find_hostLine (pre post : List Str) (l : Str) (hpre : ∀ x ∈ pre, isHostLine x = false) (hl : isHostLine l = true) :
    (pre ++ [l] ++ post).find? isHostLine = some l := by
  induction pre with
  | nil => simp [hl]
  | cons x xs ih =>
    rw [List.cons_append, List.cons_append, List.find?, hpre x List.mem_cons_self]
    exact ih (fun y hy => hpre y (List.mem_cons_of_mem _ hy))

theorem scheme_http (x : Str) :
    startsWith "http://".toList ("http://".toList ++ x) = true ∧
    startsWith "https://".toList ("http://".toList ++ x) = false ∧
    findSub "://".toList ("http://".toList ++ x) = some 4 ∧
    ("http://".toList ++ x).drop (4 + 3) = x := by
  refine ⟨by simp [startsWith, List.isPrefixOf], by simp [startsWith, List.isPrefixOf], ?_, by simp⟩
  simp [findSub, List.isPrefixOf]

theorem scheme_https (x : Str) :
    startsWith "http://".toList ("https://".toList ++ x) = false ∧
    startsWith "https://".toList ("https://".toList ++ x) = true ∧
    findSub "://".toList ("https://".toList ++ x) = some 5 ∧
    ("https://".toList ++ x).drop (5 + 3) = x := by
  refine ⟨by simp [startsWith, List.isPrefixOf], by simp [startsWith, List.isPrefixOf], ?_, by simp⟩
  simp [findSub, List.isPrefixOf]


theorem originOf_slash (t : Str) : originOf ('/' :: t) = '/' :: t := rfl
theorem originOf_q (t : Str) : originOf ('?' :: t) = '/' :: '?' :: t := rfl
theorem originOf_nil : originOf [] = ['/'] := rfl

theorem pathOf (pq : Str) (hpq : pq = [] ∨ ∃ t, pq = '/' :: t ∨ pq = '?' :: t) :
    (if startsWith ['/'] (if pq.isEmpty then ['/'] else pq) || startsWith ['*'] (if pq.isEmpty then ['/'] else pq)
      then (if pq.isEmpty then ['/'] else pq) else '/' :: (if pq.isEmpty then ['/'] else pq)) = originOf pq := by
  rcases hpq with e | ⟨t, e | e⟩
  · subst e; rfl
  · subst e; rw [originOf_slash]; simp [startsWith, List.isPrefixOf]
  · subst e; rw [originOf_q]; simp [startsWith, List.isPrefixOf]

theorem authority_cut (a : Authority) (ha : a.WF) (pq : Str) (hpq : pq = [] ∨ ∃ t, pq = '/' :: t ∨ pq = '?' :: t) :
    (a.render ++ pq).takeWhile (fun c => !authorityEnd c) = a.render ∧
    (a.render ++ pq).dropWhile (fun c => !authorityEnd c) = pq := by
  have hstop : ∀ c ∈ a.render, (!authorityEnd c) = true := by
    intro c hc
    have h1 : c ≠ '/' := fun e => render_no a '/' ha.2.2.1 (by decide) (by decide) (by decide) (by decide) (e ▸ hc)
    have h2 : c ≠ '?' := fun e => render_no a '?' ha.2.2.2.1 (by decide) (by decide) (by decide) (by decide) (e ▸ hc)
    simp [authorityEnd, h1, h2]
  have htw := takeWhile_all (fun c => !authorityEnd c) a.render pq hstop
  have hpq' : pq.takeWhile (fun c => !authorityEnd c) = [] ∧ pq.dropWhile (fun c => !authorityEnd c) = pq := by
    rcases hpq with e | ⟨t, e | e⟩ <;> subst e <;> simp [authorityEnd]
  rw [hpq'.1, List.append_nil] at htw
  rw [hpq'.2] at htw
  exact htw

theorem render_isEmpty (a : Authority) (ha : a.WF) : a.render.isEmpty = false := by
  cases hr : a.render with
  | nil => exact absurd hr (render_ne a ha)
  | cons _ _ => rfl

theorem dt_abs (method : Str) (headers : List Str) (a : Authority) (ha : a.WF) (https : Bool) (pq : Str)
    (hpq : pq = [] ∨ ∃ t, pq = '/' :: t ∨ pq = '?' :: t) (hnc : eqIgnoreCase method "CONNECT".toList = false) :
    determineTarget method ((if https then "https://".toList else "http://".toList) ++ (a.render ++ pq)) headers
      = .ok (a.host, a.port.getD (if https then 443 else 80), originOf pq, false) := by
  obtain ⟨c1, c2⟩ := authority_cut a ha pq hpq
  have c3 := render_isEmpty a ha
  have c4 := pathOf pq hpq
  unfold determineTarget
  rw [if_neg (by rw [hnc]; simp)]
  cases https with
  | false =>
    obtain ⟨s1, s2, s3, s4⟩ := scheme_http (a.render ++ pq)
    simp only [Bool.false_eq_true, if_false]
    rw [s1, s2, s3]
    simp only [s4, Bool.or_false, if_true, c1, c2, c3, Bool.false_eq_true, if_false, Bool.and_false]
    rw [c4, splitHostPort_render a 80 ha]
  | true =>
    obtain ⟨s1, s2, s3, s4⟩ := scheme_https (a.render ++ pq)
    simp only [if_true]
    rw [s1, s2, s3]
    simp only [s4, Bool.false_or, if_true, c1, c2, c3, Bool.false_eq_true, if_false, Bool.and_true]
    rw [c4, splitHostPort_render a 443 ha]

theorem dt_origin (method : Str) (headers : List Str) (a : Authority) (ha : a.WF) (path l : Str)
    (hpath : (∃ t, path = '/' :: t) ∨ path = ['*'])
    (hfind : headers.find? isHostLine = some l) (htrim : trim (l.drop 5) = a.render)
    (hnc : eqIgnoreCase method "CONNECT".toList = false) :
    determineTarget method path headers = .ok (a.host, a.port.getD 80, path, false) := by
  have c3 := render_isEmpty a ha
  have hs : startsWith "http://".toList path = false ∧ startsWith "https://".toList path = false ∧
      (startsWith ['/'] path || startsWith ['*'] path) = true := by
    rcases hpath with ⟨t, e⟩ | e <;> subst e <;> simp [startsWith, List.isPrefixOf]
  unfold determineTarget
  rw [if_neg (by rw [hnc]; simp)]
  simp only [hs.1, hs.2.1, hfind, Bool.or_false, Bool.false_eq_true, if_false, Option.map_some, Option.getD_some, htrim,
    Bool.false_and, hs.2.2, if_true, c3]
  rw [splitHostPort_render a 80 ha]

theorem dt_connect (method : Str) (headers : List Str) (a : Authority) (ha : a.WF)
    (hc : method = "CONNECT".toList) :
    determineTarget method a.render headers = .ok (a.host, a.port.getD 443, [], true) := by
  unfold determineTarget
  rw [if_pos (by rw [hc]; decide)]
  simp only [splitHostPort_render a 443 ha]

theorem getD_port (r : Req) (d : Nat)
    (hd : d = match r.form with | .connect => 443 | .absolute https _ => (if https then 443 else 80) | .origin _ => 80) :
    r.auth.port.getD d = r.port := by
  unfold Req.port
  cases r.auth.port with
  | some p => rfl
  | none => simp only [Option.getD_none]; exact hd

theorem determineTarget_wellformed (r : Req) (h : r.WF) :
    determineTarget r.method r.target r.lines = .ok (r.auth.host, r.port, r.originTarget, r.isConnect) := by
  obtain ⟨_, _, _, _, hauth, hothers, hhost, hform⟩ := h
  cases hf : r.form with
  | connect =>
    rw [hf] at hform
    have ht : r.target = r.auth.render := by unfold Req.target; rw [hf]
    rw [ht, dt_connect r.method r.lines r.auth hauth hform, getD_port r 443 (by rw [hf])]
    simp only [Req.originTarget, Req.isConnect, hf]
  | absolute https pq =>
    rw [hf] at hform
    obtain ⟨hnc, _, hpq⟩ := hform
    have ht : r.target = (if https then "https://".toList else "http://".toList) ++ (r.auth.render ++ pq) := by
      unfold Req.target; rw [hf]; exact List.append_assoc _ _ _
    rw [ht, dt_abs r.method r.lines r.auth hauth https pq hpq hnc, getD_port r _ (by rw [hf])]
    simp only [Req.originTarget, Req.isConnect, hf]
  | origin path =>
    rw [hf] at hform
    obtain ⟨hnc, _, hpath, l, hl, htrim⟩ := hform
    have ht : r.target = path := by unfold Req.target; rw [hf]
    have hlines : r.lines = r.pre ++ [l] ++ r.post := by unfold Req.lines; rw [hl]; rfl
    have hfind : r.lines.find? isHostLine = some l := by
      rw [hlines]
      exact find_hostLine r.pre r.post l (fun x hx => (hothers x (List.mem_append_left _ hx)).2) (hhost l hl).2
    rw [ht, dt_origin r.method r.lines r.auth hauth path l hpath hfind htrim hnc, getD_port r 80 (by rw [hf])]
    simp only [Req.originTarget, Req.isConnect, hf]


theorem tokenOk_no_cr {s : Str} (h : tokenOk s) : '\r' ∉ s := by
  intro hm; have := h _ hm; revert this; decide

theorem target_token (r : Req) (h : r.WF) : r.target ≠ [] ∧ tokenOk r.target := by
  obtain ⟨_, _, _, _, hauth, _, _, hform⟩ := h
  have rne := render_ne r.auth hauth
  have rtok := render_tokenOk r.auth hauth
  unfold Req.target
  cases hf : r.form with
  | connect => exact ⟨rne, rtok⟩
  | absolute https pq =>
    rw [hf] at hform
    obtain ⟨_, hpq, _⟩ := hform
    constructor
    · cases https <;> simp
    · intro c hc
      simp only [List.mem_append] at hc
      rcases hc with (hc | hc) | hc
      · cases https
        · simp only [Bool.false_eq_true, if_false] at hc
          have : ∀ x ∈ "http://".toList, isWs x = false := by decide
          exact this c hc
        · simp only [if_true] at hc
          have : ∀ x ∈ "https://".toList, isWs x = false := by decide
          exact this c hc
      · exact rtok c hc
      · exact hpq c hc
  | origin path =>
    rw [hf] at hform
    obtain ⟨_, hp, hpath, _⟩ := hform
    refine ⟨?_, hp⟩
    rcases hpath with ⟨t, e⟩ | e <;> rw [e] <;> simp

theorem lines_ok (r : Req) (h : r.WF) : ∀ l ∈ r.lines, lineOk l := by
  obtain ⟨_, _, _, _, _, hothers, hhost, _⟩ := h
  intro l hl
  unfold Req.lines at hl
  rcases List.mem_append.mp hl with hl | hl
  · rcases List.mem_append.mp hl with hl | hl
    · exact (hothers l (List.mem_append_left _ hl)).1
    · cases hh : r.hostLine with
      | none => rw [hh] at hl; cases hl
      | some x =>
        rw [hh] at hl
        simp only [Option.toList_some, List.mem_singleton] at hl
        rw [hl]; exact (hhost x hh).1
  · exact (hothers l (List.mem_append_right _ hl)).1

theorem filter_nonempty (ls : List Str) (h : ∀ l ∈ ls, l ≠ []) :
    (ls ++ [[], []]).filter (fun l => !l.isEmpty) = ls := by
  induction ls with
  | nil => rfl
  | cons x xs ih =>
    have hx : x.isEmpty = false := by
      cases hx : x with
      | nil => exact absurd hx (h x List.mem_cons_self)
      | cons _ _ => rfl
    rw [List.cons_append, List.filter_cons, hx]
    simp only [Bool.not_false, if_true]
    rw [ih (fun l hl => h l (List.mem_cons_of_mem _ hl))]

theorem parse_wellformed (r : Req) (body : Bytes) (h : r.WF) :
    parseRequest r.render body = .ok (r.parsed body) := by
  have hdt := determineTarget_wellformed r h
  have ⟨htne, httok⟩ := target_token r h
  have hlines := lines_ok r h
  obtain ⟨hmne, hmtok, hvne, hvtok, _⟩ := h
  have hsplit : splitCRLF r.render = (r.method ++ ' ' :: r.target ++ ' ' :: r.version) :: (r.lines ++ [[], []]) := by
    unfold Req.render
    have hcr : '\r' ∉ r.method ++ ' ' :: r.target ++ ' ' :: r.version := by
      intro hm
      simp only [List.mem_append, List.mem_cons] at hm
      rcases hm with (hm | hm | hm) | hm | hm
      · exact tokenOk_no_cr hmtok hm
      · revert hm; decide
      · exact tokenOk_no_cr httok hm
      · revert hm; decide
      · exact tokenOk_no_cr hvtok hm
    rw [List.append_assoc, List.append_assoc]
    show splitCRLF ((r.method ++ ' ' :: r.target ++ ' ' :: r.version) ++ ('\r' :: '\n' :: (List.flatMap (· ++ crlf) r.lines ++ crlf))) = _
    rw [splitCRLF_line _ _ hcr, splitCRLF_lines r.lines crlf (fun l hl => (hlines l hl).2), splitCRLF_crlf]
  unfold parseRequest
  rw [hsplit]
  simp only [List.headD_cons, List.tail_cons]
  rw [splitWs_three r.method r.target r.version hmne htne hvne hmtok httok hvtok,
    filter_nonempty r.lines (fun l hl => (hlines l hl).1)]
  simp only [List.headD_cons, hdt]
  rfl


theorem flatMap_others (X : Str) : ∀ (ls : List Str), (∀ l ∈ ls, lineOk l ∧ isHostLine l = false) →
    ls.flatMap (fun h => if h.isEmpty then [] else if isHostLine h then X else h ++ crlf) = ls.flatMap (· ++ crlf) ∧
    ls.any (fun h => !h.isEmpty && isHostLine h) = false := by
  intro ls
  induction ls with
  | nil => intro _; exact ⟨rfl, rfl⟩
  | cons x xs ih =>
    intro h
    obtain ⟨⟨hne, _⟩, hnh⟩ := h x List.mem_cons_self
    have hx : x.isEmpty = false := by
      cases hx : x with
      | nil => exact absurd hx hne
      | cons _ _ => rfl
    obtain ⟨i1, i2⟩ := ih (fun l hl => h l (List.mem_cons_of_mem _ hl))
    constructor
    · rw [List.flatMap_cons, List.flatMap_cons, i1]
      simp only [hx, hnh, Bool.false_eq_true, if_false]
    · rw [List.any_cons, i2, hx, hnh]; rfl

theorem originTarget_ne (r : Req) (h : r.WF) (hc : r.isConnect = false) : r.originTarget.isEmpty = false := by
  obtain ⟨_, _, _, _, _, _, _, hform⟩ := h
  unfold Req.originTarget
  unfold Req.isConnect at hc
  cases hf : r.form with
  | connect => rw [hf] at hc; cases hc
  | absolute https pq =>
    simp only
    unfold originOf
    split <;> simp
  | origin path =>
    rw [hf] at hform
    obtain ⟨_, _, hpath, _⟩ := hform
    rcases hpath with ⟨t, e⟩ | e <;> rw [e] <;> rfl

theorem hostLineOut_eq (r : Req) (h : r.WF) (body : Bytes) : hostLineOut (r.parsed body) = r.normHost ++ crlf := by
  obtain ⟨_, _, _, _, hauth, _⟩ := h
  have hv6 := hauth.2.2.2.2.2.2.1
  unfold hostLineOut hostValue Req.normHost Req.parsed
  simp only
  cases hv : r.auth.v6 with
  | false =>
    have : ':' ∉ r.auth.host := fun hc => by have := hv6.mpr hc; rw [hv] at this; cases this
    rw [contains_false this]
    simp only [Bool.false_eq_true, if_false]
    split <;> simp
  | true =>
    rw [contains_true (hv6.mp hv)]
    simp only [if_true]
    split <;> simp

/-- the rewritten request is the specified one -/
theorem buildForward_wellformed (r : Req) (body : Bytes) (h : r.WF) (hc : r.isConnect = false) :
    buildForward (r.parsed body) = r.forwarded := by
  have hot := originTarget_ne r h hc
  have hlo := hostLineOut_eq r h body
  obtain ⟨_, _, _, _, _, hothers, hhost, _⟩ := h
  have hpre := flatMap_others (hostLineOut (r.parsed body)) r.pre (fun l hl => hothers l (List.mem_append_left _ hl))
  have hpost := flatMap_others (hostLineOut (r.parsed body)) r.post (fun l hl => hothers l (List.mem_append_right _ hl))
  rw [hlo] at hpre hpost
  unfold buildForward Req.forwarded
  have e1 : (r.parsed body).method = r.method := rfl
  have e2 : (r.parsed body).path = r.originTarget := rfl
  have e3 : (r.parsed body).version = r.version := rfl
  have e4 : (r.parsed body).headers = r.lines := rfl
  rw [e1, e2, e3, e4, hot]
  simp only [Bool.false_eq_true, if_false]
  unfold Req.lines
  cases hh : r.hostLine with
  | none =>
    simp only [Option.toList_none, List.append_nil, List.flatMap_append, List.any_append, hpre.1, hpre.2, hpost.1, hpost.2,
      Bool.or_false, Bool.false_eq_true, if_false, hlo, List.flatMap_cons, List.flatMap_nil, List.append_nil, List.append_assoc]
  | some l =>
    obtain ⟨⟨hne, _⟩, hl⟩ := hhost l hh
    have hx : l.isEmpty = false := by
      cases hx : l with
      | nil => exact absurd hx hne
      | cons _ _ => rfl
    simp only [Option.toList_some, List.flatMap_append, List.any_append, hpre.1, hpost.1, List.flatMap_cons, List.flatMap_nil,
      List.append_nil, hx, hl, Bool.false_eq_true, if_false, if_true, List.any_cons, List.any_nil, Bool.not_false, Bool.and_true,
      Bool.or_true, Bool.true_or, hlo, List.append_assoc, Bool.or_false]


theorem char_range (c : Char) : c.val.toNat < 0xD800 ∨ (0xDFFF < c.val.toNat ∧ c.val.toNat < 0x110000) := by
  have := c.valid
  simp only [UInt32.isValidChar, Nat.isValidChar] at this
  omega

theorem enc_char (c : Char) (rest : Bytes) :
    validUtf8 (String.utf8EncodeChar c ++ rest) = validUtf8 rest ∧
    decodeChars (String.utf8EncodeChar c ++ rest) = c :: decodeChars rest := by
  have hr := char_range c
  have hc : Char.ofNat c.val.toNat = c := by
    have : c.val.toNat = c.toNat := rfl
    rw [this, Char.ofNat_toNat]
  generalize hv : c.val.toNat = v at hr hc
  unfold String.utf8EncodeChar
  simp only [hv]
  by_cases h1 : v ≤ 0x7f
  · simp only [h1, if_true, List.cons_append, List.nil_append]
    have hb : (UInt8.ofNat v).toNat = v := by simp; omega
    have hlt : UInt8.ofNat v < 0x80 := by rw [UInt8.lt_iff_toNat_lt, hb]; simp; omega
    generalize hvr : validUtf8 rest = vr
    generalize hdr : decodeChars rest = dr
    unfold validUtf8 decodeChars
    simp only [hlt, if_true, hb, hc, hvr, hdr, and_self]
  · simp only [h1, if_false]
    generalize hvr : validUtf8 rest = vr
    generalize hdr : decodeChars rest = dr
    by_cases h2 : v ≤ 0x7ff
    · simp only [h2, if_true, List.cons_append, List.nil_append]
      generalize hB0 : UInt8.ofNat (v / 64 % 32 + 192) = b0
      generalize hB1 : UInt8.ofNat (v % 64 + 128) = b1
      have hb0 : b0.toNat = v / 64 + 192 := by rw [← hB0]; simp; omega
      have hb1 : b1.toNat = v % 64 + 128 := by rw [← hB1]; simp; omega
      have c1 : ¬ (b0 < 0x80) := by rw [UInt8.lt_iff_toNat_lt, hb0]; simp
      have c2 : (decide (0xC2 ≤ b0) && decide (b0 ≤ 0xDF)) = true := by
        simp only [Bool.and_eq_true, decide_eq_true_eq, UInt8.le_iff_toNat_le, hb0]; simp; omega
      have c3 : (decide (0x80 ≤ b1) && decide (b1 ≤ 0xBF)) = true := by
        simp only [Bool.and_eq_true, decide_eq_true_eq, UInt8.le_iff_toNat_le, hb1]; simp; omega
      have c4 : b0 < 0xE0 := by rw [UInt8.lt_iff_toNat_lt, hb0]; simp; omega
      have c5 : b0.toNat % 32 * 64 + b1.toNat % 64 = v := by rw [hb0, hb1]; omega
      unfold validUtf8 decodeChars
      simp only [c1, c2, c3, c4, c5, if_true, if_false, Bool.true_and, hvr, hdr, hc, and_self]
    · simp only [h2, if_false]
      by_cases h3 : v ≤ 0xffff
      · simp only [h3, if_true, List.cons_append, List.nil_append]
        generalize hB0 : UInt8.ofNat (v / 4096 % 16 + 224) = b0
        generalize hB1 : UInt8.ofNat (v / 64 % 64 + 128) = b1
        generalize hB2 : UInt8.ofNat (v % 64 + 128) = b2
        have hb0 : b0.toNat = v / 4096 + 224 := by rw [← hB0]; simp; omega
        have hb1 : b1.toNat = v / 64 % 64 + 128 := by rw [← hB1]; simp; omega
        have hb2 : b2.toNat = v % 64 + 128 := by rw [← hB2]; simp; omega
        have c1 : ¬ (b0 < 0x80) := by rw [UInt8.lt_iff_toNat_lt, hb0]; simp
        have c2 : (decide (0xC2 ≤ b0) && decide (b0 ≤ 0xDF)) = false := by
          simp only [Bool.and_eq_false_iff, decide_eq_false_iff_not, UInt8.le_iff_toNat_le, hb0]; simp
        have c2' : (decide (0xE0 ≤ b0) && decide (b0 ≤ 0xEF)) = true := by
          simp only [Bool.and_eq_true, decide_eq_true_eq, UInt8.le_iff_toNat_le, hb0]; simp; omega
        have c3 : (decide ((if (b0 == 0xE0) = true then (0xA0 : UInt8) else 0x80) ≤ b1) &&
            decide (b1 ≤ (if (b0 == 0xED) = true then (0x9F : UInt8) else 0xBF))) = true := by
          have e1 : (b0 == 0xE0) = decide (v / 4096 = 0) := by
            rw [Bool.eq_iff_iff]; simp only [beq_iff_eq, decide_eq_true_eq, ← UInt8.toNat_inj, hb0]; simp
          have e2 : (b0 == 0xED) = decide (v / 4096 = 13) := by
            rw [Bool.eq_iff_iff]; simp only [beq_iff_eq, decide_eq_true_eq, ← UInt8.toNat_inj, hb0]; simp
          rw [e1, e2]
          simp only [Bool.and_eq_true, decide_eq_true_eq, UInt8.le_iff_toNat_le, hb1]
          constructor
          · split <;> simp <;> omega
          · split <;> simp <;> omega
        have c3' : (decide (0x80 ≤ b2) && decide (b2 ≤ 0xBF)) = true := by
          simp only [Bool.and_eq_true, decide_eq_true_eq, UInt8.le_iff_toNat_le, hb2]; simp; omega
        have c4 : ¬ (b0 < 0xE0) := by rw [UInt8.lt_iff_toNat_lt, hb0]; simp
        have c4' : b0 < 0xF0 := by rw [UInt8.lt_iff_toNat_lt, hb0]; simp; omega
        have c5 : b0.toNat % 16 * 4096 + b1.toNat % 64 * 64 + b2.toNat % 64 = v := by rw [hb0, hb1, hb2]; omega
        unfold validUtf8 decodeChars
        simp only [c1, c2, c2', c3, c3', c4, c4', c5, if_true, if_false, Bool.true_and, Bool.false_eq_true, hvr, hdr, hc, and_self]
      · simp only [h3, if_false, List.cons_append, List.nil_append]
        generalize hB0 : UInt8.ofNat (v / 262144 % 8 + 240) = b0
        generalize hB1 : UInt8.ofNat (v / 4096 % 64 + 128) = b1
        generalize hB2 : UInt8.ofNat (v / 64 % 64 + 128) = b2
        generalize hB3 : UInt8.ofNat (v % 64 + 128) = b3
        have hb0 : b0.toNat = v / 262144 + 240 := by rw [← hB0]; simp; omega
        have hb1 : b1.toNat = v / 4096 % 64 + 128 := by rw [← hB1]; simp; omega
        have hb2 : b2.toNat = v / 64 % 64 + 128 := by rw [← hB2]; simp; omega
        have hb3 : b3.toNat = v % 64 + 128 := by rw [← hB3]; simp; omega
        have c1 : ¬ (b0 < 0x80) := by rw [UInt8.lt_iff_toNat_lt, hb0]; simp
        have c2 : (decide (0xC2 ≤ b0) && decide (b0 ≤ 0xDF)) = false := by
          simp only [Bool.and_eq_false_iff, decide_eq_false_iff_not, UInt8.le_iff_toNat_le, hb0]; simp
        have c2' : (decide (0xE0 ≤ b0) && decide (b0 ≤ 0xEF)) = false := by
          simp only [Bool.and_eq_false_iff, decide_eq_false_iff_not, UInt8.le_iff_toNat_le, hb0]; simp
        have c2'' : (decide (0xF0 ≤ b0) && decide (b0 ≤ 0xF4)) = true := by
          simp only [Bool.and_eq_true, decide_eq_true_eq, UInt8.le_iff_toNat_le, hb0]; simp; omega
        have c3 : (decide ((if (b0 == 0xF0) = true then (0x90 : UInt8) else 0x80) ≤ b1) &&
            decide (b1 ≤ (if (b0 == 0xF4) = true then (0x8F : UInt8) else 0xBF))) = true := by
          have e1 : (b0 == 0xF0) = decide (v / 262144 = 0) := by
            rw [Bool.eq_iff_iff]; simp only [beq_iff_eq, decide_eq_true_eq, ← UInt8.toNat_inj, hb0]; simp
          have e2 : (b0 == 0xF4) = decide (v / 262144 = 4) := by
            rw [Bool.eq_iff_iff]; simp only [beq_iff_eq, decide_eq_true_eq, ← UInt8.toNat_inj, hb0]; simp
          rw [e1, e2]
          simp only [Bool.and_eq_true, decide_eq_true_eq, UInt8.le_iff_toNat_le, hb1]
          constructor
          · split <;> simp <;> omega
          · split <;> simp <;> omega
        have c3' : (decide (0x80 ≤ b2) && decide (b2 ≤ 0xBF)) = true := by
          simp only [Bool.and_eq_true, decide_eq_true_eq, UInt8.le_iff_toNat_le, hb2]; simp; omega
        have c3'' : (decide (0x80 ≤ b3) && decide (b3 ≤ 0xBF)) = true := by
          simp only [Bool.and_eq_true, decide_eq_true_eq, UInt8.le_iff_toNat_le, hb3]; simp; omega
        have c4 : ¬ (b0 < 0xE0) := by rw [UInt8.lt_iff_toNat_lt, hb0]; simp
        have c4' : ¬ (b0 < 0xF0) := by rw [UInt8.lt_iff_toNat_lt, hb0]; simp
        have c5 : b0.toNat % 8 * 262144 + b1.toNat % 64 * 4096 + b2.toNat % 64 * 64 + b3.toNat % 64 = v := by
          rw [hb0, hb1, hb2, hb3]; omega
        unfold validUtf8 decodeChars
        simp only [c1, c2, c2', c2'', c3, c3', c3'', c4, c4', c5, if_true, if_false, Bool.true_and, Bool.false_eq_true, hvr, hdr, hc, and_self]

theorem utf8_roundtrip : ∀ (s : Str), utf8Decode (utf8Encode s) = some s := by
  have key : ∀ (s : Str), validUtf8 (utf8Encode s) = true ∧ decodeChars (utf8Encode s) = s := by
    intro s
    induction s with
    | nil => exact ⟨rfl, rfl⟩
    | cons c t ih =>
      have := enc_char c (utf8Encode t)
      unfold utf8Encode at this ih ⊢
      rw [List.flatMap_cons, this.1, this.2, ih.1, ih.2]
      exact ⟨rfl, rfl⟩
  intro s
  unfold utf8Decode
  rw [(key s).1, (key s).2]
  rfl

/-- a byte 13 in the encoding of a character means the character is CR -/
theorem enc_byte13 (c : Char) : ∀ b ∈ String.utf8EncodeChar c, b = 13 → c = '\r' := by
  intro b hb h13
  have hc : Char.ofNat c.val.toNat = c := by
    have : c.val.toNat = c.toNat := rfl
    rw [this, Char.ofNat_toNat]
  generalize hv : c.val.toNat = v at hc
  unfold String.utf8EncodeChar at hb
  simp only [hv] at hb
  have t13 : b.toNat = 13 := by rw [h13]; rfl
  split at hb
  · rename_i h1
    rw [List.mem_singleton] at hb
    rw [hb] at t13
    have : v = 13 := by simp at t13; omega
    rw [← hc, this]
  · exfalso
    split at hb
    · simp only [List.mem_cons, List.not_mem_nil, or_false] at hb
      rcases hb with e | e <;> (rw [e] at t13; simp at t13; omega)
    · split at hb
      · simp only [List.mem_cons, List.not_mem_nil, or_false] at hb
        rcases hb with e | e | e <;> (rw [e] at t13; simp at t13; omega)
      · simp only [List.mem_cons, List.not_mem_nil, or_false] at hb
        rcases hb with e | e | e | e <;> (rw [e] at t13; simp at t13; omega)

theorem enc_no13 (l : Str) (h : '\r' ∉ l) : (13 : UInt8) ∉ utf8Encode l := by
  intro hm
  unfold utf8Encode at hm
  rw [List.mem_flatMap] at hm
  obtain ⟨c, hc, hb⟩ := hm
  have := enc_byte13 c 13 hb rfl
  exact h (this ▸ hc)

theorem enc_ne_nil (l : Str) (h : l ≠ []) : utf8Encode l ≠ [] := by
  cases l with
  | nil => exact absurd rfl h
  | cons c t =>
    unfold utf8Encode
    rw [List.flatMap_cons]
    intro e
    exact String.utf8EncodeChar_ne_nil (List.append_eq_nil_iff.mp e).1

theorem fhe_skip : ∀ (B X : Bytes), (13 : UInt8) ∉ B →
    findHeaderEnd (B ++ X) = (findHeaderEnd X).map (· + B.length) := by
  intro B
  induction B with
  | nil => intro X _; simp
  | cons b t ih =>
    intro X h
    have hb : b ≠ 13 := fun e => h (by simp [e])
    rw [List.cons_append, findHeaderEnd]
    have : terminator.isPrefixOf (b :: (t ++ X)) = false := by
      simp [terminator, List.isPrefixOf, Ne.symm hb]
    rw [this, ih X (fun e => h (List.mem_cons_of_mem _ e))]
    simp only [Bool.false_eq_true, if_false, Option.map_map]
    congr 1

theorem fhe_sep (x : UInt8) (X : Bytes) (hx : x ≠ 13) :
    findHeaderEnd (13 :: 10 :: x :: X) = (findHeaderEnd (x :: X)).map (· + 2) := by
  rw [findHeaderEnd]
  have h1 : terminator.isPrefixOf (13 :: 10 :: x :: X) = false := by
    simp [terminator, List.isPrefixOf, Ne.symm hx]
  rw [h1, findHeaderEnd]
  have h2 : terminator.isPrefixOf (10 :: x :: X) = false := by
    simp [terminator, List.isPrefixOf]
  rw [h2]
  simp only [Bool.false_eq_true, if_false, Option.map_map]
  congr 1

theorem fhe_end (rest : Bytes) : findHeaderEnd (13 :: 10 :: 13 :: 10 :: rest) = some 4 := by
  rw [findHeaderEnd]; simp [terminator, List.isPrefixOf]

theorem enc_append (a b : Str) : utf8Encode (a ++ b) = utf8Encode a ++ utf8Encode b := by
  unfold utf8Encode; rw [List.flatMap_append]

theorem enc_crlf : utf8Encode crlf = [13, 10] := by decide

theorem fhe_lines (rest : Bytes) : ∀ (ls : List Str), (∀ l ∈ ls, lineOk l) →
    findHeaderEnd (13 :: 10 :: (utf8Encode (ls.flatMap (· ++ crlf) ++ crlf) ++ rest)) =
      some (2 + (utf8Encode (ls.flatMap (· ++ crlf) ++ crlf)).length) := by
  intro ls
  induction ls with
  | nil =>
    intro _
    simp only [List.flatMap_nil, List.nil_append, enc_crlf]
    exact fhe_end rest
  | cons l t ih =>
    intro h
    obtain ⟨hne, hcr⟩ := h l List.mem_cons_self
    have ih' := ih (fun x hx => h x (List.mem_cons_of_mem _ hx))
    rw [List.flatMap_cons, List.append_assoc, enc_append, enc_append, enc_crlf, List.append_assoc, List.append_assoc]
    have hn13 := enc_no13 l hcr
    cases hel : utf8Encode l with
    | nil => exact absurd hel (enc_ne_nil l hne)
    | cons x xs =>
      have hx : x ≠ 13 := fun e => hn13 (by rw [hel, e]; exact List.mem_cons_self)
      rw [List.cons_append, fhe_sep x _ hx, ← List.cons_append, ← hel]
      show Option.map (· + 2) (findHeaderEnd (utf8Encode l ++ (13 :: 10 :: (utf8Encode (List.flatMap (· ++ crlf) t ++ crlf) ++ rest)))) = _
      rw [fhe_skip _ _ hn13, ih']
      simp only [Option.map_some, List.length_append, List.length_cons, List.length_nil]
      congr 1
      omega

theorem header_end_render (r : Req) (h : r.WF) (rest : Bytes) :
    findHeaderEnd (utf8Encode r.render ++ rest) = some (utf8Encode r.render).length := by
  have hlines := lines_ok r h
  have ⟨_, httok⟩ := target_token r h
  obtain ⟨_, hmtok, _, hvtok, _⟩ := h
  have hcr : '\r' ∉ r.method ++ ' ' :: r.target ++ ' ' :: r.version := by
    intro hm
    simp only [List.mem_append, List.mem_cons] at hm
    rcases hm with (hm | hm | hm) | hm | hm
    · exact tokenOk_no_cr hmtok hm
    · revert hm; decide
    · exact tokenOk_no_cr httok hm
    · revert hm; decide
    · exact tokenOk_no_cr hvtok hm
  have e : r.render = (r.method ++ ' ' :: r.target ++ ' ' :: r.version) ++ (crlf ++ (r.lines.flatMap (· ++ crlf) ++ crlf)) := by
    unfold Req.render; simp only [List.append_assoc]
  generalize r.method ++ ' ' :: r.target ++ ' ' :: r.version = L at hcr e
  rw [e, enc_append L, enc_append crlf, enc_crlf, List.append_assoc, List.append_assoc]
  rw [fhe_skip _ _ (enc_no13 _ hcr)]
  show Option.map _ (findHeaderEnd (13 :: 10 :: (utf8Encode (List.flatMap (· ++ crlf) r.lines ++ crlf) ++ rest))) = _
  rw [fhe_lines rest r.lines hlines]
  simp only [Option.map_some, List.length_append, List.length_cons, List.length_nil]
  congr 1
  omega


end AnyTLS.Http
