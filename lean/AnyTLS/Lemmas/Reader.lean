import AnyTLS.Model.Reader

namespace AnyTLS

/-- reader well-formedness: once `eof` is set the channel is closed and drained -/
def RState.WF (r : RState) : Prop := r.eof = true → r.chanOpen = false ∧ r.queue = []

theorem recvLoop_spec (n : Nat) (hn : n ≠ 0) : ∀ (q : List Bytes) (co : Bool),
    match recvLoop n q co with
    | (.data b, q', rb, e) => b ≠ [] ∧ b ++ rb ++ flatten q' = flatten q ∧ e = false ∧ b.length ≤ n
    | (.eof, q', rb, e) => co = false ∧ flatten q = [] ∧ q' = [] ∧ rb = [] ∧ e = true
    | (.block, _, _, _) => co = true ∧ flatten q = [] := by
  intro q co
  induction q with
  | nil =>
    unfold recvLoop
    cases co <;> simp
  | cons c q ih =>
    unfold recvLoop
    by_cases hc : c.isEmpty = true
    · have : c = [] := List.isEmpty_iff.mp hc
      subst this
      simp only [List.isEmpty_nil, ne_eq, hn, not_false_eq_true, decide_true, Bool.and_self, if_true]
      simpa using ih
    · have hne : c ≠ [] := fun h => hc (by simp [h])
      simp only [hc, Bool.false_and, Bool.false_eq_true, if_false]
      refine ⟨?_, ?_, by first | rfl | trivial, ?_⟩
      · cases c with
        | nil => exact absurd rfl hne
        | cons x xs =>
          cases n with
          | zero => exact absurd rfl hn
          | succ m => simp
      · simp [List.take_append_drop]
      · simp [List.length_take]; omega

/-- what a `read` with a non-empty buffer does to the deliverable bytes -/
theorem read_spec (r : RState) (n : Nat) (hn : n ≠ 0) (hwf : r.WF) :
    match r.read n with
    | (.data b, r') => b ≠ [] ∧ b.length ≤ n ∧ b ++ r'.pending = r.pending ∧ r'.chanOpen = r.chanOpen ∧ r'.WF
    | (.eof, r') => r.pending = [] ∧ r.chanOpen = false ∧ r'.pending = [] ∧ r'.chanOpen = false ∧ r'.WF
    | (.block, r') => r' = r ∧ r.pending = [] ∧ r.chanOpen = true := by
  unfold RState.read
  by_cases h1 : (r.eof && r.rbuf.isEmpty) = true
  · simp only [h1, if_true]
    simp only [Bool.and_eq_true] at h1
    obtain ⟨he, hb⟩ := h1
    obtain ⟨hc, hq⟩ := hwf he
    have : r.rbuf = [] := List.isEmpty_iff.mp hb
    simp [RState.pending, this, hq, hc, hwf]
  · simp only [h1, Bool.false_eq_true, if_false]
    by_cases h2 : r.rbuf.isEmpty = true
    · have hrb : r.rbuf = [] := List.isEmpty_iff.mp h2
      have he : r.eof = false := by
        cases hE : r.eof with
        | false => rfl
        | true => simp [hE, h2] at h1
      simp only [h2, Bool.not_true, Bool.false_eq_true, if_false]
      have hs := recvLoop_spec n hn r.queue r.chanOpen
      generalize hrl : recvLoop n r.queue r.chanOpen = res at hs
      obtain ⟨out, q', rb, e⟩ := res
      cases out with
      | data b =>
        simp only at hs ⊢
        obtain ⟨hb, hcat, he', hlen⟩ := hs
        refine ⟨hb, hlen, ?_, by first | rfl | trivial, ?_⟩
        · simp [RState.pending, hrb, ← hcat, List.append_assoc]
        · intro h; simp [he, he'] at h
      | eof =>
        simp only at hs ⊢
        obtain ⟨hco, hq, hq', hrb', he'⟩ := hs
        refine ⟨by simp [RState.pending, hrb, hq], hco, by simp [RState.pending, hq', hrb'], hco, ?_⟩
        intro _; exact ⟨hco, hq'⟩
      | block =>
        simp only at hs ⊢
        exact ⟨by first | rfl | trivial, by simp [RState.pending, hrb, hs.2], hs.1⟩
    · simp only [h2, Bool.not_false, if_true]
      have hne : r.rbuf ≠ [] := fun h => h2 (by simp [h])
      refine ⟨?_, ?_, ?_, by first | rfl | trivial, ?_⟩
      · cases hr : r.rbuf with
        | nil => exact absurd hr hne
        | cons x xs =>
          cases n with
          | zero => exact absurd rfl hn
          | succ m => simp
      · simp [List.length_take]; omega
      · simp [RState.pending, ← List.append_assoc, List.take_append_drop]
      · exact hwf

theorem push_pending (r : RState) (c : Bytes) (h : r.chanOpen = true) :
    (r.push c).pending = r.pending ++ c := by
  simp [RState.push, h, RState.pending, flatten_append, List.append_assoc]

theorem push_WF (r : RState) (c : Bytes) (h : r.WF) : (r.push c).WF := by
  unfold RState.push
  split
  · rename_i hc
    intro he
    have := h he
    simp [hc] at this
  · exact h

theorem closeChan_WF (r : RState) (h : r.WF) : r.closeChan.WF := by
  intro he
  have := h he
  exact ⟨rfl, this.2⟩

theorem closeChan_pending (r : RState) : r.closeChan.pending = r.pending := rfl

end AnyTLS

namespace AnyTLS

/-- `read_exact` is fragmentation-independent: whenever at least `n` bytes are deliverable, it
returns exactly the first `n` of them — whatever the chunking — and leaves the rest. -/
theorem readExactFuel_spec : ∀ (fuel : Nat) (r : RState) (need : Nat) (acc : Bytes),
    r.WF → need ≤ fuel → need ≤ r.pending.length →
    ∃ r', RState.readExactFuel fuel r need acc = (.ok (acc ++ r.pending.take need), r') ∧
      r'.pending = r.pending.drop need ∧ r'.WF ∧ r'.chanOpen = r.chanOpen := by
  intro fuel
  induction fuel with
  | zero =>
    intro r need acc hwf h1 _
    have : need = 0 := by omega
    subst this
    exact ⟨r, by simp [RState.readExactFuel], by simp, hwf, rfl⟩
  | succ fuel ih =>
    intro r need acc hwf h1 h2
    cases need with
    | zero => exact ⟨r, by simp [RState.readExactFuel], by simp, hwf, rfl⟩
    | succ m =>
      have hs := read_spec r (m + 1) (by omega) hwf
      unfold RState.readExactFuel
      cases hr : r.read (m + 1) with
      | mk out r1 =>
        rw [hr] at hs
        cases out with
        | data b =>
          simp only at hs ⊢
          obtain ⟨hb, hlen, hcat, hco, hwf1⟩ := hs
          have hbe : b.isEmpty = false := by cases b <;> simp_all
          simp only [hbe, Bool.false_eq_true, if_false]
          have hbl : 0 < b.length := by cases b <;> simp_all
          have hneed : m + 1 - b.length ≤ r1.pending.length := by
            have := congrArg List.length hcat; simp at this; omega
          obtain ⟨r', he, hp, hw, hc⟩ := ih r1 (m + 1 - b.length) (acc ++ b) hwf1 (by omega) hneed
          refine ⟨r', ?_, ?_, hw, by rw [hc, hco]⟩
          · rw [he, ← hcat]
            congr 1
            rw [List.append_assoc]
            congr 1
            rw [List.take_append]
            have : (b.take (m + 1)) = b := List.take_of_length_le hlen
            rw [this]
          · rw [hp, ← hcat, List.drop_append]
            have : b.drop (m + 1) = [] := List.drop_of_length_le hlen
            rw [this]; simp
        | eof =>
          simp only at hs
          have := hs.1
          rw [this] at h2; simp at h2
        | block =>
          simp only at hs
          have := hs.2.1
          rw [this] at h2; simp at h2

theorem readExact_spec (r : RState) (n : Nat) (hwf : r.WF) (h : n ≤ r.pending.length) :
    ∃ r', r.readExact n = (.ok (r.pending.take n), r') ∧
      r'.pending = r.pending.drop n ∧ r'.WF ∧ r'.chanOpen = r.chanOpen := by
  have := readExactFuel_spec n r n [] hwf (Nat.le_refl _) h
  simpa [RState.readExact] using this

end AnyTLS
