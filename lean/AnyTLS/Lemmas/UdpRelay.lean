/- Lemmas about M15 (`Model/UdpRelay.lean`). -/
import AnyTLS.Model.UdpRelay
import AnyTLS.Lemmas.Dest

namespace AnyTLS.UdpRelay
open Gen (SliceKind ReadWrap)

theorem rd16_be16 (n : Nat) (h : n < 65536) :
    rd16 (UInt8.ofNat (n / 256 % 256)) (UInt8.ofNat (n % 256)) = n := by
  have := portOf_be16 n h
  simpa [portOf, be16] using this

theorem slice_fill (buf d : Bytes) : Relay.slice .prefixN (Relay.fill buf d) d.length = d := by
  simp [Relay.slice, Relay.fill]

/-- udp → stream with `&buf[..len]`: one chunk per datagram, each the exact length-prefixed datagram, whatever earlier
    datagrams left in the buffer -/
theorem toStream_prefixN (mx : Nat) : ∀ (ds : List Bytes) (buf : Bytes), (∀ d ∈ ds, d.length ≤ mx) →
    toStream mx .prefixN buf ds = ds.map (fun d => be16 d.length ++ d) := by
  intro ds
  induction ds with
  | nil => intro buf _; rfl
  | cons d ds ih =>
    intro buf h
    have hd : ¬ d.length > mx := by have := h d List.mem_cons_self; omega
    unfold toStream
    rw [slice_fill]
    simp only [encodeDgram, hd, if_false, List.map_cons]
    rw [ih _ (fun x hx => h x (List.mem_cons_of_mem _ hx))]

theorem flatten_map_enc : ∀ ds : List Bytes, flatten (ds.map (fun d => be16 d.length ++ d)) = encodeAll ds := by
  intro ds
  induction ds with
  | nil => rfl
  | cons d ds ih => simp [encodeAll, ih, List.append_assoc]

/-- the datagram in progress is shorter than the encoding of the next datagram -/
def Short (acc : Bytes) : List Bytes → Prop
  | [] => True
  | d :: _ => acc.length < 2 + d.length

theorem encodeAll_cons_length (d : Bytes) (ds : List Bytes) : 2 + d.length ≤ (encodeAll (d :: ds)).length := by
  simp [encodeAll, be16]; omega

/-- cutting any prefix `p` of the wire image of `rem`: the complete datagrams come out unchanged, one each, in order;
    what is left is the incomplete front of the next one -/
theorem cut_prefix (mx : Nat) : ∀ (rem : List Bytes), (∀ d ∈ rem, 1 ≤ d.length ∧ d.length ≤ 65535 ∧ d.length ≤ mx) →
    ∀ (p s : Bytes) (fuel : Nat), p ++ s = encodeAll rem → p.length ≤ fuel →
    ∃ ds1 rem' acc', cut mx fuel p = ⟨ds1, acc', false⟩ ∧ rem = ds1 ++ rem' ∧ acc' ++ s = encodeAll rem' ∧ Short acc' rem' := by
  intro rem
  induction rem with
  | nil =>
    intro _ p s fuel hp _
    have : p = [] := by
      simp only [encodeAll] at hp
      exact (List.append_eq_nil_iff.mp hp).1
    subst this
    refine ⟨[], [], [], ?_, rfl, by simpa using hp, trivial⟩
    cases fuel <;> rfl
  | cons d rem0 ih =>
    intro hall p s fuel hp hfuel
    obtain ⟨h1, h2, h3⟩ := hall d List.mem_cons_self
    have henc : encodeAll (d :: rem0) = UInt8.ofNat (d.length / 256 % 256) :: UInt8.ofNat (d.length % 256) :: (d ++ encodeAll rem0) := by
      simp [encodeAll, be16]
    have hrd := rd16_be16 d.length (by omega)
    by_cases hlen : p.length < 2 + d.length
    · -- the first datagram is not complete yet: nothing comes out
      refine ⟨[], d :: rem0, p, ?_, rfl, hp, hlen⟩
      cases fuel with
      | zero => rfl
      | succ f =>
        match p, hp, hlen with
        | [], _, _ => rfl
        | [_], _, _ => rfl
        | h :: l :: t, hp, hlen =>
          rw [henc] at hp
          simp only [List.cons_append, List.cons.injEq] at hp
          obtain ⟨hh, hl, _⟩ := hp
          subst hh; subst hl
          unfold cut
          rw [hrd]
          have e0 : (d.length == 0) = false := by
            cases hd : d.length with
            | zero => omega
            | succ n => rfl
          have e1 : ¬ d.length > mx := by omega
          have e2 : t.length < d.length := by simp at hlen; omega
          simp only [e0, e1, e2, Bool.false_eq_true, if_false, if_true]
    · -- the first datagram is complete in `p`
      have hge : 2 + d.length ≤ p.length := by omega
      match p, hp, hge, hfuel with
      | [], _, hge, _ => simp at hge
      | [_], _, hge, _ => simp at hge; omega
      | h :: l :: t, hp, hge, hfuel =>
        rw [henc] at hp
        simp only [List.cons_append, List.cons.injEq] at hp
        obtain ⟨hh, hl, ht⟩ := hp
        subst hh; subst hl
        have htl : d.length ≤ t.length := by simp at hge; omega
        -- t = d ++ p'
        have hsplit : t = d ++ t.drop d.length ∧ t.drop d.length ++ s = encodeAll rem0 := by
          have h1 : (t ++ s).take d.length = d := by rw [ht]; simp
          have h2 : (t ++ s).drop d.length = encodeAll rem0 := by rw [ht]; simp
          rw [List.take_append_of_le_length htl] at h1
          rw [List.drop_append_of_le_length htl] at h2
          exact ⟨by conv => lhs; rw [← List.take_append_drop d.length t, h1], h2⟩
        obtain ⟨htd, hrest⟩ := hsplit
        cases fuel with
        | zero => simp at hfuel
        | succ f =>
          have hf : (t.drop d.length).length ≤ f := by simp at hfuel ⊢; omega
          obtain ⟨ds1, rem', acc', hc, hrem, hacc, hshort⟩ :=
            ih (fun x hx => hall x (List.mem_cons_of_mem _ hx)) (t.drop d.length) s f hrest hf
          refine ⟨d :: ds1, rem', acc', ?_, by rw [hrem]; rfl, hacc, hshort⟩
          unfold cut
          rw [hrd]
          have e0 : (d.length == 0) = false := by
            cases hd : d.length with
            | zero => omega
            | succ n => rfl
          have e1 : ¬ d.length > mx := by omega
          have e2 : ¬ t.length < d.length := by omega
          have e3 : t.take d.length = d := by
            conv => lhs; rw [htd]
            simp
          simp only [e0, e1, e2, Bool.false_eq_true, if_false, hc, e3]

/-- stream → udp with a bare read and `send_to(&payload)`: whatever the chunk boundaries of the tunnel stream and whenever
    timers fire, the socket sends exactly the datagrams whose wire image the stream carries -/
theorem toUdp_bare_exact (mx : Nat) : ∀ (evs : List Ev) (acc : Bytes) (rem : List Bytes),
    (∀ d ∈ rem, 1 ≤ d.length ∧ d.length ≤ 65535 ∧ d.length ≤ mx) →
    acc ++ flatten (chunksOf evs) = encodeAll rem → Short acc rem →
    toUdp mx .whole .bare acc evs = rem := by
  intro evs
  induction evs with
  | nil =>
    intro acc rem _ hacc hshort
    cases rem with
    | nil => rfl
    | cons d ds =>
      simp only [chunksOf, flatten_nil, List.append_nil] at hacc
      have := encodeAll_cons_length d ds
      rw [← hacc] at this
      simp only [Short] at hshort
      omega
  | cons e es ih =>
    intro acc rem hall hacc hshort
    cases e with
    | tick =>
      show toUdp mx .whole .bare acc es = rem
      exact ih acc rem hall (by simpa [chunksOf] using hacc) hshort
    | chunk b =>
      simp only [chunksOf, flatten_cons] at hacc
      obtain ⟨ds1, rem', acc', hc, hrem, hacc', hshort'⟩ :=
        cut_prefix mx rem hall (acc ++ b) (flatten (chunksOf es)) (acc ++ b).length
          (by rw [List.append_assoc]; exact hacc) (Nat.le_refl _)
      simp only [toUdp, hc, Bool.false_eq_true, if_false]
      have hmap : ∀ l : List Bytes, l.map (sendSlice .whole) = l := by
        intro l
        induction l with
        | nil => rfl
        | cons x xs ihx => simp [sendSlice, ihx]
      rw [hmap ds1, ih acc' rem' (fun x hx => hall x (by rw [hrem]; exact List.mem_append_right _ hx)) hacc' hshort', hrem]

end AnyTLS.UdpRelay
