/-
Lemmas about the relay loops (M14): `write_all` delivers a prefix and, when it returns Ok, everything;
the loop built on a sound hand-over is lossless; the two unsound shapes are refuted by witnesses.
-/
import AnyTLS.Model.Relay
namespace AnyTLS.Relay
open Gen (WriteKind SliceKind RelaySite)

theorem writeAll_prefix : ∀ (b : Bytes) (caps : List Nat), (writeAll b caps).1 <+: b := by
  intro b caps
  fun_induction writeAll b caps with
  | case1 caps => simp
  | case2 => simp
  | case3 => simp
  | case4 b bs c caps r ih =>
    obtain ⟨t, ht⟩ := ih
    refine ⟨t, ?_⟩
    rw [List.append_assoc, ht, List.take_append_drop]

theorem writeAll_complete : ∀ (b : Bytes) (caps r : List Nat), (writeAll b caps).2 = some r → (writeAll b caps).1 = b := by
  intro b caps
  fun_induction writeAll b caps with
  | case1 caps => intro r _; rfl
  | case2 => intro r h; simp at h
  | case3 => intro r h; simp at h
  | case4 b bs c caps r' ih =>
    intro r h
    have := ih r h
    simp only []
    rw [this, List.take_append_drop]

/-- `write_all` succeeds whenever the sink keeps taking at least one byte per call for long enough -/
theorem writeAll_succeeds : ∀ (b : Bytes) (caps : List Nat), (∀ c ∈ caps, 0 < c) → b.length ≤ caps.length →
    ∃ r, (writeAll b caps).2 = some r := by
  intro b caps
  fun_induction writeAll b caps with
  | case1 caps => intro _ _; exact ⟨caps, rfl⟩
  | case2 => intro _ h; simp at h
  | case3 b bs caps => intro h _; exact absurd (h 0 List.mem_cons_self) (by decide)
  | case4 b bs c caps r ih =>
    intro hpos hlen
    have h1 : ∀ x ∈ caps, 0 < x := fun x hx => hpos x (List.mem_cons_of_mem _ hx)
    have h2 : ((b :: bs).drop (c + 1)).length ≤ caps.length := by
      simp only [List.length_drop, List.length_cons] at *
      omega
    exact ih h1 h2

/-- what a sound hand-over passes on is a prefix of the chunk, and the whole chunk if it did not fail -/
theorem handOver_prefix (w : WriteKind) (hw : w ≠ .writeOnce) (b : Bytes) (caps : List Nat) :
    (handOver w b caps).1 <+: b := by
  cases w with
  | writeAll => exact writeAll_prefix b caps
  | writeOnce => exact absurd rfl hw
  | channel => exact List.prefix_refl b
  | frame => exact List.prefix_refl b

theorem handOver_complete (w : WriteKind) (hw : w ≠ .writeOnce) (b : Bytes) (caps r : List Nat)
    (h : (handOver w b caps).2 = some r) : (handOver w b caps).1 = b := by
  cases w with
  | writeAll => exact writeAll_complete b caps r h
  | writeOnce => exact absurd rfl hw
  | channel => rfl
  | frame => rfl

@[simp] theorem slice_prefixN (buf chunk : Bytes) : slice .prefixN (fill buf chunk) chunk.length = chunk := by
  simp [slice, fill]

/-- C01 for a relay loop: at every moment the sink has received a prefix of what the source produced -/
theorem run_prefix (w : WriteKind) (hw : w ≠ .writeOnce) :
    ∀ (reads : List Bytes) (buf : Bytes) (caps : List Nat), (run w .prefixN buf reads caps).delivered <+: flatten reads := by
  intro reads
  induction reads with
  | nil => intro buf caps; simp [run]
  | cons chunk rest ih =>
    intro buf caps
    unfold run
    rw [slice_prefixN]
    have hp := handOver_prefix w hw chunk caps
    have hc := handOver_complete w hw chunk caps
    generalize handOver w chunk caps = ho at hp hc
    obtain ⟨d, r⟩ := ho
    cases r with
    | none =>
      simp only [flatten_cons]
      exact List.IsPrefix.trans hp (List.prefix_append _ _)
    | some caps' =>
      have : d = chunk := hc caps' rfl
      subst this
      simp only [flatten_cons]
      exact (List.prefix_append_right_inj d).mpr (ih _ _)

/-- ... and when the loop ends because the source ended, the sink has received all of it -/
theorem run_complete (w : WriteKind) (hw : w ≠ .writeOnce) :
    ∀ (reads : List Bytes) (buf : Bytes) (caps : List Nat), (run w .prefixN buf reads caps).sourceDone = true →
      (run w .prefixN buf reads caps).delivered = flatten reads := by
  intro reads
  induction reads with
  | nil => intro buf caps _; simp [run]
  | cons chunk rest ih =>
    intro buf caps
    unfold run
    rw [slice_prefixN]
    have hc := handOver_complete w hw chunk caps
    generalize handOver w chunk caps = ho at hc
    obtain ⟨d, r⟩ := ho
    cases r with
    | none => intro h; simp at h
    | some caps' =>
      have : d = chunk := hc caps' rfl
      subst this
      intro h
      simp only [flatten_cons]
      rw [ih _ _ h]

/-- a single `write` loses bytes as soon as the sink takes a chunk in part -/
theorem writeOnce_loses : (run .writeOnce .prefixN [] [[1, 2, 3], [4]] [2, 5]) = { delivered := [1, 2, 4], sourceDone := true } := by
  decide

/-- forwarding the whole buffer sends stale bytes -/
theorem whole_buffer_duplicates : (run .writeAll .whole [9, 9, 9] [[1, 2, 3], [4]] [8, 8]) = { delivered := [1, 2, 3, 4, 2, 3], sourceDone := true } := by
  decide

end AnyTLS.Relay
