import AnyTLS.Model.Padding
import AnyTLS.Lemmas.Frame

namespace AnyTLS

/-- a scheme entry the generator can honour -/
def Spec.Sane : Spec → Prop
  | .check => True
  | .range lo hi => 1 ≤ lo ∧ lo ≤ hi ∧ hi ≤ 65535

theorem parsePart_sane (p : Bytes) (sp : Spec) (h : parsePart p = some sp) : sp.Sane := by
  unfold parsePart at h
  simp only at h
  split at h
  · injection h with h; subst h; trivial
  · split at h
    · cases h
    · split at h
      · cases h
      · split at h
        · cases h
        · injection h with h
          subst h
          rename_i a b _ h1 h2
          simp only [Bool.or_eq_true, decide_eq_true_eq, not_or, Int.not_le, Int.not_lt] at h1 h2
          simp only [Spec.Sane]
          omega

theorem specs_sane (s : Scheme) (pkt : Nat) : ∀ sp ∈ s.specs pkt, sp.Sane := by
  intro sp hsp
  unfold Scheme.specs at hsp
  split at hsp
  · simp at hsp
  · simp only [List.mem_filterMap] at hsp
    obtain ⟨p, _, hp⟩ := hsp
    exact parsePart_sane p sp hp

/-- positional agreement between a scheme line and resolved sizes: every size lies inside
its entry's range -/
inductive Matches : List Spec → List Sz → Prop
  | nil : Matches [] []
  | check {sp sz} : Matches sp sz → Matches (.check :: sp) (.check :: sz)
  | range {lo hi n sp sz} : lo ≤ n → n ≤ hi → Matches sp sz → Matches (.range lo hi :: sp) (.size n :: sz)

theorem resolve_matches : ∀ (specs : List Spec) (rs : List Nat), (∀ sp ∈ specs, sp.Sane) →
    Matches specs (resolve specs rs) := by
  intro specs
  induction specs with
  | nil => intro rs _; exact .nil
  | cons sp specs ih =>
    intro rs hs
    have hrest : ∀ sp' ∈ specs, sp'.Sane := fun x hx => hs x (List.mem_cons_of_mem _ hx)
    cases sp with
    | check => exact .check (ih rs hrest)
    | range lo hi =>
      have hsane := hs (.range lo hi) List.mem_cons_self
      simp only [Spec.Sane] at hsane
      unfold resolve
      by_cases heq : (lo == hi) = true
      · simp only [heq, if_true]
        have : lo = hi := by simpa using heq
        exact .range (Nat.le_refl _) (by omega) (ih rs hrest)
      · simp only [heq, Bool.false_eq_true, if_false]
        cases rs with
        | nil => exact .range (Nat.le_refl _) (by omega) (ih [] hrest)
        | cons r rs' =>
          have hmod : r % (hi - lo + 1) < hi - lo + 1 := Nat.mod_lt _ (by omega)
          exact .range (by omega) (by omega) (ih rs' hrest)

theorem resolve_length : ∀ (specs : List Spec) (rs : List Nat), (resolve specs rs).length = specs.length := by
  intro specs
  induction specs with
  | nil => intro rs; rfl
  | cons sp specs ih =>
    intro rs
    cases sp with
    | check => simp [resolve, ih]
    | range lo hi =>
      unfold resolve
      split
      · simp [ih]
      · cases rs <;> simp [ih]

/-- the lengths of the padding frames `shape` appends, given the remaining payload length -/
def shapePads : List Sz → Nat → List Nat
  | [], _ => []
  | .check :: rest, r => if r = 0 then [] else shapePads rest r
  | .size n :: rest, r =>
    if r > n then shapePads rest (r - n)
    else if r > 0 then (if n - (r + 7) > 0 then [n - (r + 7)] else []) ++ shapePads rest 0
    else n :: shapePads rest 0

theorem isEmpty_iff_length (b : Bytes) : b.isEmpty = true ↔ b.length = 0 := by
  cases b <;> simp

/-- padding is only ever appended after the whole payload -/
theorem shape_flatten : ∀ (sizes : List Sz) (payload : Bytes),
    flatten (shape sizes payload) = payload ++ flatten ((shapePads sizes payload.length).map wasteFrame) := by
  intro sizes
  induction sizes with
  | nil =>
    intro payload
    unfold shape shapePads
    by_cases h : payload.isEmpty = true
    · have : payload = [] := List.isEmpty_iff.mp h
      simp [this]
    · simp [h]
  | cons sz rest ih =>
    intro payload
    cases sz with
    | check =>
      unfold shape shapePads
      by_cases h : payload.isEmpty = true
      · have : payload = [] := List.isEmpty_iff.mp h
        simp [this]
      · have hl : payload.length ≠ 0 := fun e => h ((isEmpty_iff_length _).mpr e)
        simp only [h, Bool.false_eq_true, if_false, hl]
        exact ih payload
    | size n =>
      unfold shape shapePads
      by_cases h1 : payload.length > n
      · simp only [h1, if_true, flatten_cons]
        rw [ih (payload.drop n)]
        simp only [List.length_drop]
        rw [← List.append_assoc, List.take_append_drop]
      · simp only [h1, if_false]
        by_cases h2 : payload.length > 0
        · simp only [h2, if_true, flatten_cons]
          rw [ih []]
          by_cases h3 : n - (payload.length + 7) > 0
          · simp [h3, List.append_assoc]
          · simp [h3]
        · simp only [h2, if_false, flatten_cons]
          have : payload = [] := List.eq_nil_of_length_eq_zero (by omega)
          subst this
          rw [ih []]
          simp

theorem shapePads_le (sizes : List Sz) (hs : ∀ sz ∈ sizes, ∀ n, sz = .size n → 1 ≤ n ∧ n ≤ 65535) :
    ∀ (r : Nat), ∀ p ∈ shapePads sizes r, 1 ≤ p ∧ p ≤ 65535 := by
  induction sizes with
  | nil => intro r p hp; simp [shapePads] at hp
  | cons sz rest ih =>
    have hrest : ∀ sz' ∈ rest, ∀ n, sz' = .size n → 1 ≤ n ∧ n ≤ 65535 := fun x hx => hs x (List.mem_cons_of_mem _ hx)
    intro r p hp
    cases sz with
    | check =>
      unfold shapePads at hp
      split at hp
      · simp at hp
      · exact ih hrest r p hp
    | size n =>
      have hn : 1 ≤ n ∧ n ≤ 65535 := hs (.size n) List.mem_cons_self n rfl
      unfold shapePads at hp
      split at hp
      · exact ih hrest _ p hp
      · split at hp
        · simp only [List.mem_append] at hp
          rcases hp with hp | hp
          · split at hp
            · simp only [List.mem_singleton] at hp; omega
            · simp at hp
          · exact ih hrest 0 p hp
        · simp only [List.mem_cons] at hp
          rcases hp with hp | hp
          · omega
          · exact ih hrest 0 p hp

theorem matches_sizes {specs : List Spec} {sizes : List Sz} (hm : Matches specs sizes)
    (hs : ∀ sp ∈ specs, sp.Sane) : ∀ sz ∈ sizes, ∀ n, sz = .size n → 1 ≤ n ∧ n ≤ 65535 := by
  induction hm with
  | nil => intro sz h; simp at h
  | check _ ih =>
    intro sz h n e
    simp only [List.mem_cons] at h
    rcases h with h | h
    · subst h; cases e
    · exact ih (fun x hx => hs x (List.mem_cons_of_mem _ hx)) sz h n e
  | @range lo hi m sp sz' h1 h2 _ ih =>
    intro sz h n e
    have hsane := hs (.range lo hi) List.mem_cons_self
    simp only [Spec.Sane] at hsane
    simp only [List.mem_cons] at h
    rcases h with h | h
    · subst h; injection e with e; subst e; omega
    · exact ih (fun x hx => hs x (List.mem_cons_of_mem _ hx)) sz h n e

/-- the statement's acceptor (C05): which transport-write lengths a scheme line permits for a
packet with `remain` payload bytes -/
inductive Allowed : List Spec → Nat → List Nat → Prop
  /-- after the last entry a non-empty remainder is one more write -/
  | nil_rem {r : Nat} : r > 0 → Allowed [] r [r]
  | nil_done : Allowed [] 0 []
  /-- a check mark stops the packet once no payload remains -/
  | check_stop {rest : List Spec} : Allowed (.check :: rest) 0 []
  | check_go {rest : List Spec} {r : Nat} {ws : List Nat} :
      r > 0 → Allowed rest r ws → Allowed (.check :: rest) r ws
  /-- payload-only record: a drawn size -/
  | payload_only {lo hi d r : Nat} {rest : List Spec} {ws : List Nat} :
      lo ≤ d → d ≤ hi → r > d → Allowed rest (r - d) ws → Allowed (.range lo hi :: rest) r (d :: ws)
  /-- payload completed with padding: the drawn size -/
  | completed_pad {lo hi d r : Nat} {rest : List Spec} {ws : List Nat} :
      lo ≤ d → d ≤ hi → 0 < r → r + 7 < d → Allowed rest 0 ws → Allowed (.range lo hi :: rest) r (d :: ws)
  /-- payload completed, gap of at most one frame header: no padding frame fits -/
  | completed_nopad {lo hi d r : Nat} {rest : List Spec} {ws : List Nat} :
      lo ≤ d → d ≤ hi → 0 < r → r ≤ d → d ≤ r + 7 → Allowed rest 0 ws → Allowed (.range lo hi :: rest) r (r :: ws)
  /-- padding-only record: the drawn size plus one frame header -/
  | padding_only {lo hi d : Nat} {rest : List Spec} {ws : List Nat} :
      lo ≤ d → d ≤ hi → Allowed rest 0 ws → Allowed (.range lo hi :: rest) 0 ((d + 7) :: ws)

theorem wasteFrame_length (n : Nat) : (wasteFrame n).length = n + 7 := by
  simp [wasteFrame, header, be32, be16, zeros]

theorem shape_allowed_of_matches {specs : List Spec} {sizes : List Sz} (hm : Matches specs sizes) :
    ∀ (payload : Bytes), Allowed specs payload.length ((shape sizes payload).map List.length) := by
  induction hm with
  | nil =>
    intro payload
    unfold shape
    by_cases h : payload.isEmpty = true
    · have : payload = [] := List.isEmpty_iff.mp h
      subst this; exact .nil_done
    · have hl : payload.length > 0 := by
        cases payload with
        | nil => simp at h
        | cons _ _ => simp
      simp only [h, Bool.false_eq_true, if_false, List.map_cons, List.map_nil]
      exact .nil_rem hl
  | check _ ih =>
    intro payload
    unfold shape
    by_cases h : payload.isEmpty = true
    · have : payload = [] := List.isEmpty_iff.mp h
      subst this; exact .check_stop
    · have hl : payload.length > 0 := by
        cases payload with
        | nil => simp at h
        | cons _ _ => simp
      simp only [h, Bool.false_eq_true, if_false]
      exact .check_go hl (ih payload)
  | @range lo hi n sp sz h1 h2 _ ih =>
    intro payload
    unfold shape
    by_cases c1 : payload.length > n
    · simp only [c1, if_true, List.map_cons]
      have hlen : (payload.take n).length = n := by simp; omega
      rw [hlen]
      have := ih (payload.drop n)
      simp only [List.length_drop] at this
      exact .payload_only h1 h2 c1 this
    · simp only [c1, if_false]
      by_cases c2 : payload.length > 0
      · simp only [c2, if_true, List.map_cons]
        have hrest := ih []
        simp only [List.length_nil] at hrest
        by_cases c3 : n - (payload.length + 7) > 0
        · simp only [c3, if_true]
          have hlen : (payload ++ wasteFrame (n - (payload.length + 7))).length = n := by
            simp [wasteFrame_length]; omega
          rw [hlen]
          exact .completed_pad h1 h2 c2 (by omega) hrest
        · simp only [c3, if_false]
          exact .completed_nopad h1 h2 c2 (by omega) (by omega) hrest
      · simp only [c2, if_false, List.map_cons]
        have h0 : payload.length = 0 := by omega
        rw [h0, wasteFrame_length]
        have hrest := ih []
        simp only [List.length_nil] at hrest
        exact .padding_only h1 h2 hrest

end AnyTLS
