import AnyTLS.Model.Session
import AnyTLS.Lemmas.Reader

namespace AnyTLS
open Gen

/-! ### tables -/

theorem tblGet_remove (t : List (Nat × Nat)) (k k' : Nat) :
    tblGet (tblRemove t k) k' = if k' = k then none else tblGet t k' := by
  induction t with
  | nil => simp [tblGet, tblRemove]
  | cons kv t ih =>
    obtain ⟨a, b⟩ := kv
    unfold tblRemove at ih ⊢
    unfold tblGet at ih ⊢
    by_cases hak : a = k
    · subst hak
      by_cases hk : k' = a
      · subst hk; simpa using ih
      · have : ¬ a = k' := fun h => hk h.symm
        simpa [this, hk] using ih
    · by_cases hk : k' = k
      · subst hk
        have : ¬ a = k' := hak
        simpa [hak, this] using ih
      · by_cases hak' : a = k'
        · subst hak'; simp [hak]
        · simpa [hak, hak', hk] using ih

theorem tblGet_append_single (t : List (Nat × Nat)) (k v k' : Nat) (h : tblGet t k = none) :
    tblGet (t ++ [(k, v)]) k' = if k' = k then some v else tblGet t k' := by
  induction t with
  | nil =>
    by_cases hk : k' = k
    · subst hk; simp [tblGet]
    · have : ¬ k = k' := fun h => hk h.symm
      simp [tblGet, hk, this]
  | cons kv t ih =>
    obtain ⟨a, b⟩ := kv
    unfold tblGet at h ih ⊢
    by_cases hak : a = k
    · subst hak; simp at h
    · have hka : ¬ (a == k) = true := by simpa using hak
      simp only [List.find?_cons, hka] at h
      have ih' := ih h
      by_cases hak' : a = k'
      · subst hak'
        have : ¬ a = k := hak
        simp [this]
      · have hka' : ¬ (a == k') = true := by simpa using hak'
        simpa [List.find?_cons, hka'] using ih'

theorem tblGet_insert (t : List (Nat × Nat)) (k v k' : Nat) :
    tblGet (tblInsert t k v) k' = if k' = k then some v else tblGet t k' := by
  unfold tblInsert
  have hnone : tblGet (tblRemove t k) k = none := by simp [tblGet_remove]
  rw [tblGet_append_single _ _ _ _ hnone, tblGet_remove]
  by_cases hk : k' = k <;> simp [hk]

/-! ### objects -/

theorem modObj_getElem? (s : Sess) (i : Nat) (g : Obj → Obj) (h : Nat) :
    (s.modObj i g).objs[h]? = if h = i then (s.objs[h]?).map g else s.objs[h]? := by
  unfold Sess.modObj
  simp only [List.getElem?_mapIdx]
  by_cases hi : h = i
  · subst hi; cases s.objs[h]? <;> simp
  · cases s.objs[h]? <;> simp [hi]

theorem modObj_length (s : Sess) (i : Nat) (g : Obj → Obj) : (s.modObj i g).objs.length = s.objs.length := by
  simp [Sess.modObj]

@[simp] theorem modObj_streams (s : Sess) (i : Nat) (g : Obj → Obj) : (s.modObj i g).streams = s.streams := rfl
@[simp] theorem modObj_recv (s : Sess) (i : Nat) (g : Obj → Obj) : (s.modObj i g).recv = s.recv := rfl
@[simp] theorem modObj_closed (s : Sess) (i : Nat) (g : Obj → Obj) : (s.modObj i g).closed = s.closed := rfl
@[simp] theorem modObj_isClient (s : Sess) (i : Nat) (g : Obj → Obj) : (s.modObj i g).isClient = s.isClient := rfl

theorem dropRecvEntry_getElem? (s : Sess) (sid h : Nat) (hne : tblGet s.recv sid ≠ some h) :
    (s.dropRecvEntry sid).objs[h]? = s.objs[h]? := by
  unfold Sess.dropRecvEntry
  cases hg : tblGet s.recv sid with
  | none => rfl
  | some i =>
    have : h ≠ i := fun e => hne (by rw [hg, e])
    simp [modObj_getElem?, this]

theorem dropRecvEntry_length (s : Sess) (sid : Nat) : (s.dropRecvEntry sid).objs.length = s.objs.length := by
  unfold Sess.dropRecvEntry; split <;> simp [modObj_length]

@[simp] theorem dropRecvEntry_streams (s : Sess) (sid : Nat) : (s.dropRecvEntry sid).streams = s.streams := by
  unfold Sess.dropRecvEntry; split <;> rfl
@[simp] theorem dropRecvEntry_recv (s : Sess) (sid : Nat) : (s.dropRecvEntry sid).recv = s.recv := by
  unfold Sess.dropRecvEntry; split <;> rfl
@[simp] theorem dropRecvEntry_isClient (s : Sess) (sid : Nat) : (s.dropRecvEntry sid).isClient = s.isClient := by
  unfold Sess.dropRecvEntry; split <;> rfl
@[simp] theorem dropRecvEntry_hasCallback (s : Sess) (sid : Nat) : (s.dropRecvEntry sid).hasCallback = s.hasCallback := by
  unfold Sess.dropRecvEntry; split <;> rfl

@[simp] theorem modObj_wire (s : Sess) (i : Nat) (g : Obj → Obj) : (s.modObj i g).wire = s.wire := rfl
@[simp] theorem dropRecvEntry_wire (s : Sess) (sid : Nat) : (s.dropRecvEntry sid).wire = s.wire := by
  unfold Sess.dropRecvEntry; split <;> rfl
@[simp] theorem dropRecvEntry_closed (s : Sess) (sid : Nat) : (s.dropRecvEntry sid).closed = s.closed := by
  unfold Sess.dropRecvEntry; split <;> rfl

@[simp] theorem modObj_nextSid (s : Sess) (i : Nat) (g : Obj → Obj) : (s.modObj i g).nextSid = s.nextSid := rfl
@[simp] theorem dropRecvEntry_nextSid (s : Sess) (sid : Nat) : (s.dropRecvEntry sid).nextSid = s.nextSid := by
  unfold Sess.dropRecvEntry; split <;> rfl
@[simp] theorem failPendingOpen_streams (s : Sess) (sid : Nat) : (s.failPendingOpen sid).streams = s.streams := by
  unfold Sess.failPendingOpen; split <;> rfl
@[simp] theorem failPendingOpen_recv (s : Sess) (sid : Nat) : (s.failPendingOpen sid).recv = s.recv := by
  unfold Sess.failPendingOpen; split <;> rfl
@[simp] theorem failPendingOpen_wire (s : Sess) (sid : Nat) : (s.failPendingOpen sid).wire = s.wire := by
  unfold Sess.failPendingOpen; split <;> rfl
@[simp] theorem failPendingOpen_closed (s : Sess) (sid : Nat) : (s.failPendingOpen sid).closed = s.closed := by
  unfold Sess.failPendingOpen; split <;> rfl
@[simp] theorem failPendingOpen_nextSid (s : Sess) (sid : Nat) : (s.failPendingOpen sid).nextSid = s.nextSid := by
  unfold Sess.failPendingOpen; split <;> rfl
theorem failPendingOpen_length (s : Sess) (sid : Nat) : (s.failPendingOpen sid).objs.length = s.objs.length := by
  unfold Sess.failPendingOpen; split <;> simp [modObj_length]
theorem failPendingOpen_getElem? (s : Sess) (sid h : Nat) (hne : tblGet s.streams sid ≠ some h) :
    (s.failPendingOpen sid).objs[h]? = s.objs[h]? := by
  unfold Sess.failPendingOpen
  cases hg : tblGet s.streams sid with
  | none => rfl
  | some i =>
    have : h ≠ i := fun e => hne (by rw [hg, e])
    simp [modObj_getElem?, this]

@[simp] theorem notifySynack_rd (o : Obj) (r : SynSt) : (o.notifySynack r).rd = o.rd := by
  unfold Obj.notifySynack; split <;> rfl
@[simp] theorem notifySynack_sid (o : Obj) (r : SynSt) : (o.notifySynack r).sid = o.sid := by
  unfold Obj.notifySynack; split <;> rfl

/-- commands whose handling never writes to the transport -/
def quietCmd : Cmd → Bool
  | .push | .syn | .synAck | .fin | .waste | .heartResponse | .serverSettings | .updatePaddingScheme => true
  | _ => false

end AnyTLS

namespace AnyTLS
open Gen

/-- a quiet frame leaves the table entries of every other stream id alone, writes nothing,
never stops the loop and never closes the session -/
theorem handleFrame_quiet_tables (s : Sess) (f : Frame) (hq : quietCmd f.cmd = true) :
    (s.handleFrame f).2 = .continue ∧ (s.handleFrame f).1.wire = s.wire ∧
    (s.handleFrame f).1.closed = s.closed ∧
    ∀ k, k ≠ f.sid →
      tblGet (s.handleFrame f).1.streams k = tblGet s.streams k ∧
      tblGet (s.handleFrame f).1.recv k = tblGet s.recv k := by
  unfold Sess.handleFrame
  cases hc : f.cmd <;> simp only [hc, quietCmd] at hq ⊢ <;> try (cases hq)
  · -- waste
    simp
  · -- syn
    split
    · refine ⟨?_, ?_, ?_, ?_⟩
      · split <;> rfl
      · split <;> simp
      · split <;> simp
      · intro k hk
        split <;> simp [tblGet_insert, hk]
    · simp
  · -- push
    split <;> simp
  · -- fin
    refine ⟨trivial, ?_, ?_, ?_⟩
    · simp
    · simp
    · intro k hk; simp [tblGet_remove, hk]
  · -- updatePaddingScheme
    split
    · split <;> simp
    · simp
  · -- synAck
    split
    · split
      · split <;> simp
      · simp
    · simp
  · -- heartResponse
    simp
  · -- serverSettings
    split
    · split <;> simp
    · simp

end AnyTLS

namespace AnyTLS
open Gen

/-- a quiet frame leaves every stream object alone except the one its own id designates -/
theorem handleFrame_quiet_objs (s : Sess) (f : Frame) (hq : quietCmd f.cmd = true) (h : Nat)
    (h1 : tblGet s.recv f.sid ≠ some h) (h2 : tblGet s.streams f.sid ≠ some h)
    (hlt : h < s.objs.length) :
    (s.handleFrame f).1.objs[h]? = s.objs[h]? := by
  unfold Sess.handleFrame
  cases hc : f.cmd <;> simp only [hc, quietCmd] at hq ⊢ <;> try (cases hq)
  · -- syn
    split
    · have hl : h < (s.dropRecvEntry f.sid).objs.length := by rw [dropRecvEntry_length]; exact hlt
      split <;> simp [List.getElem?_append_left hl, dropRecvEntry_getElem? s f.sid h h1]
    · rfl
  · -- push
    split
    · rename_i i hi
      have : h ≠ i := fun e => h1 (by rw [hi, e])
      simp [modObj_getElem?, this]
    · rfl
  · -- fin
    have h2' : tblGet (s.dropRecvEntry f.sid).streams f.sid ≠ some h := by simpa using h2
    simp [failPendingOpen_getElem? _ f.sid h h2', dropRecvEntry_getElem? s f.sid h h1]
  · -- updatePaddingScheme
    split
    · split <;> rfl
    · rfl
  · -- synAck
    split
    · split
      · rename_i i hi
        have : h ≠ i := fun e => h2 (by rw [hi, e])
        split <;> simp [modObj_getElem?, this]
      · rfl
    · rfl
  · -- serverSettings
    split
    · split <;> rfl
    · rfl

/-- a PSH for a registered id appends exactly its payload to exactly that stream's queue -/
theorem handleFrame_push (s : Sess) (f : Frame) (hc : f.cmd = .push) (h : Nat)
    (hr : tblGet s.recv f.sid = some h) :
    (s.handleFrame f).1.objs[h]? = (s.objs[h]?).map (fun o => { o with rd := o.rd.push f.data }) ∧
    (s.handleFrame f).1.recv = s.recv ∧ (s.handleFrame f).1.streams = s.streams := by
  unfold Sess.handleFrame
  simp only [hc, hr]
  simp [modObj_getElem?]

/-- a PSH for an id that is not registered changes nothing at all -/
theorem handleFrame_push_unknown (s : Sess) (f : Frame) (hc : f.cmd = .push)
    (hr : tblGet s.recv f.sid = none) : (s.handleFrame f).1 = s := by
  unfold Sess.handleFrame
  simp only [hc, hr]

/-- session well-formedness: table entries point at objects carrying the key as stream id,
and every reader is well-formed -/
structure Sess.WF (s : Sess) : Prop where
  recv_ok : ∀ k h, tblGet s.recv k = some h → ∃ o, s.objs[h]? = some o ∧ o.sid = k
  streams_ok : ∀ k h, tblGet s.streams k = some h → ∃ o, s.objs[h]? = some o ∧ o.sid = k
  rd_ok : ∀ (h : Nat) (o : Obj), s.objs[h]? = some o → o.rd.WF

theorem WF_lt {s : Sess} (hwf : s.WF) {k h : Nat} (hr : tblGet s.recv k = some h) : h < s.objs.length := by
  obtain ⟨o, ho, _⟩ := hwf.recv_ok k h hr
  exact (List.getElem?_eq_some_iff.mp ho).1

theorem WF_lt' {s : Sess} (hwf : s.WF) {k h : Nat} (hr : tblGet s.streams k = some h) : h < s.objs.length := by
  obtain ⟨o, ho, _⟩ := hwf.streams_ok k h hr
  exact (List.getElem?_eq_some_iff.mp ho).1

/-- different ids never share an object -/
theorem WF_inj {s : Sess} (hwf : s.WF) {k k' h : Nat}
    (h1 : tblGet s.recv k = some h ∨ tblGet s.streams k = some h)
    (h2 : tblGet s.recv k' = some h ∨ tblGet s.streams k' = some h) : k = k' := by
  have a : ∃ o, s.objs[h]? = some o ∧ o.sid = k := by
    rcases h1 with h1 | h1
    · exact hwf.recv_ok k h h1
    · exact hwf.streams_ok k h h1
  have b : ∃ o, s.objs[h]? = some o ∧ o.sid = k' := by
    rcases h2 with h2 | h2
    · exact hwf.recv_ok k' h h2
    · exact hwf.streams_ok k' h h2
  obtain ⟨o, ho, hk⟩ := a
  obtain ⟨o', ho', hk'⟩ := b
  rw [ho] at ho'
  injection ho' with e
  subst e
  rw [← hk, ← hk']

end AnyTLS

namespace AnyTLS
open Gen

theorem Obj.rdWF_default (k : Nat) : ({ sid := k } : Obj).rd.WF := by
  intro h; cases h

/-- if every old object survives up to a change that keeps its id and reader well-formedness,
table lookups only return old survivors or fresh well-formed objects, then WF is preserved -/
theorem WF_of_step {s s' : Sess}
    (hobj : ∀ (h : Nat) (o : Obj), s.objs[h]? = some o → ∃ o', s'.objs[h]? = some o' ∧ o'.sid = o.sid)
    (hrd : ∀ (h : Nat) (o' : Obj), s'.objs[h]? = some o' → o'.rd.WF)
    (hrecv : ∀ k h, tblGet s'.recv k = some h →
      tblGet s.recv k = some h ∨ ∃ o', s'.objs[h]? = some o' ∧ o'.sid = k)
    (hstr : ∀ k h, tblGet s'.streams k = some h →
      tblGet s.streams k = some h ∨ ∃ o', s'.objs[h]? = some o' ∧ o'.sid = k)
    (hwf : s.WF) : s'.WF := by
  refine ⟨?_, ?_, hrd⟩
  · intro k h hk
    rcases hrecv k h hk with h0 | h0
    · obtain ⟨o, ho, hs⟩ := hwf.recv_ok k h h0
      obtain ⟨o', ho', hs'⟩ := hobj h o ho
      exact ⟨o', ho', by rw [hs', hs]⟩
    · exact h0
  · intro k h hk
    rcases hstr k h hk with h0 | h0
    · obtain ⟨o, ho, hs⟩ := hwf.streams_ok k h h0
      obtain ⟨o', ho', hs'⟩ := hobj h o ho
      exact ⟨o', ho', by rw [hs', hs]⟩
    · exact h0

theorem modObj_WF {s : Sess} (hwf : s.WF) (i : Nat) (g : Obj → Obj)
    (hsid : ∀ o, (g o).sid = o.sid) (hrd : ∀ o, o.rd.WF → (g o).rd.WF) : (s.modObj i g).WF := by
  apply WF_of_step (s := s) _ _ _ _ hwf
  · intro h o ho
    rw [modObj_getElem?]
    by_cases hi : h = i
    · subst hi
      exact ⟨g o, by simp [ho], hsid o⟩
    · exact ⟨o, by simp [hi, ho], rfl⟩
  · intro h o' ho'
    rw [modObj_getElem?] at ho'
    by_cases hi : h = i
    · simp only [hi, if_true] at ho'
      cases hso : s.objs[i]? with
      | none => simp [hso] at ho'
      | some o =>
        simp [hso] at ho'
        rw [← ho']
        exact hrd o (hwf.rd_ok i o hso)
    · simp only [hi, if_false] at ho'
      exact hwf.rd_ok h o' ho'
  · intro k h hk; left; simpa using hk
  · intro k h hk; left; simpa using hk

theorem dropRecvEntry_WF {s : Sess} (hwf : s.WF) (sid : Nat) : (s.dropRecvEntry sid).WF := by
  unfold Sess.dropRecvEntry
  split
  · exact modObj_WF hwf _ _ (fun _ => rfl) (fun o h => closeChan_WF o.rd h)
  · exact hwf

/-- quiet frames preserve well-formedness -/
theorem handleFrame_quiet_WF (s : Sess) (f : Frame) (hq : quietCmd f.cmd = true) (hwf : s.WF) :
    (s.handleFrame f).1.WF := by
  unfold Sess.handleFrame
  cases hc : f.cmd <;> simp only [hc, quietCmd] at hq ⊢ <;> try (cases hq)
  · exact hwf
  · -- syn
    split
    · have hd := dropRecvEntry_WF hwf f.sid
      have hlen : (s.dropRecvEntry f.sid).objs.length = s.objs.length := dropRecvEntry_length s f.sid
      have key : ∀ (dl : List Nat),
          ({ s.dropRecvEntry f.sid with
              objs := (s.dropRecvEntry f.sid).objs ++ [({ sid := f.sid } : Obj)],
              recv := tblInsert (s.dropRecvEntry f.sid).recv f.sid s.objs.length,
              streams := tblInsert (s.dropRecvEntry f.sid).streams f.sid s.objs.length,
              delivered := dl } : Sess).WF := by
        intro dl
        apply WF_of_step (s := s.dropRecvEntry f.sid) _ _ _ _ hd
        · intro h o ho
          have hl : h < (s.dropRecvEntry f.sid).objs.length := (List.getElem?_eq_some_iff.mp ho).1
          exact ⟨o, by simp [List.getElem?_append_left hl, ho], rfl⟩
        · intro h o' ho'
          simp only at ho'
          by_cases hl : h < (s.dropRecvEntry f.sid).objs.length
          · rw [List.getElem?_append_left hl] at ho'
            exact hd.rd_ok h o' ho'
          · rw [List.getElem?_append_right (by omega)] at ho'
            cases hh : h - (s.dropRecvEntry f.sid).objs.length with
            | zero => simp [hh] at ho'; rw [← ho']; exact Obj.rdWF_default _
            | succ n => simp [hh] at ho'
        · intro k h hk
          simp only [tblGet_insert] at hk
          by_cases hkf : k = f.sid
          · simp only [hkf, if_true] at hk
            injection hk with hk
            right
            refine ⟨{ sid := f.sid }, ?_, by rw [hkf]⟩
            rw [← hk, ← hlen]
            simp
          · simp only [hkf, if_false] at hk
            left; exact hk
        · intro k h hk
          simp only [tblGet_insert] at hk
          by_cases hkf : k = f.sid
          · simp only [hkf, if_true] at hk
            injection hk with hk
            right
            refine ⟨{ sid := f.sid }, ?_, by rw [hkf]⟩
            rw [← hk, ← hlen]
            simp
          · simp only [hkf, if_false] at hk
            left; exact hk
      split
      · exact key _
      · exact key _
    · exact hwf
  · -- push
    split
    · exact modObj_WF hwf _ _ (fun _ => rfl) (fun o h => push_WF o.rd f.data h)
    · exact hwf
  · -- fin
    have hd0 := dropRecvEntry_WF hwf f.sid
    have hd : ((s.dropRecvEntry f.sid).failPendingOpen f.sid).WF := by
      unfold Sess.failPendingOpen
      split
      · exact modObj_WF hd0 _ _ (fun o => by unfold Obj.notifySynack; split <;> rfl)
          (fun o h => by unfold Obj.notifySynack; split <;> exact h)
      · exact hd0
    apply WF_of_step (s := (s.dropRecvEntry f.sid).failPendingOpen f.sid) _ _ _ _ hd
    · intro h o ho; exact ⟨o, ho, rfl⟩
    · intro h o' ho'; exact hd.rd_ok h o' ho'
    · intro k h hk
      simp only [tblGet_remove] at hk
      by_cases hkf : k = f.sid
      · simp [hkf] at hk
      · simp only [hkf, if_false] at hk; left; exact hk
    · intro k h hk
      simp only [tblGet_remove] at hk
      by_cases hkf : k = f.sid
      · simp [hkf] at hk
      · simp only [hkf, if_false] at hk; left; exact hk
  · -- updatePaddingScheme
    split
    · split
      · exact ⟨hwf.recv_ok, hwf.streams_ok, hwf.rd_ok⟩
      · exact hwf
    · exact hwf
  · -- synAck
    split
    · split
      · split
        · exact modObj_WF hwf _ _ (fun o => by unfold Obj.notifySynack; split <;> rfl)
            (fun o h => by unfold Obj.notifySynack; split <;> exact h)
        · exact modObj_WF hwf _ _ (fun o => by unfold Obj.notifySynack; split <;> rfl)
            (fun o h => by unfold Obj.notifySynack; split <;> exact h)
      · exact hwf
    · exact hwf
  · -- heartResponse
    exact ⟨hwf.recv_ok, hwf.streams_ok, hwf.rd_ok⟩
  · -- serverSettings
    split
    · split
      · exact ⟨hwf.recv_ok, hwf.streams_ok, hwf.rd_ok⟩
      · exact hwf
    · exact hwf

end AnyTLS

namespace AnyTLS
open Gen

/-! ### `nextSid` is touched by `open_stream` only -/

theorem close_nextSid (s : Sess) : s.close.nextSid = s.nextSid := by
  unfold Sess.close; split <;> rfl

theorem transportWrites_nextSid : ∀ (ws : List Bytes) (s : Sess), (s.transportWrites ws).1.nextSid = s.nextSid := by
  intro ws
  induction ws with
  | nil => intro s; rfl
  | cons w ws ih =>
    intro s
    unfold Sess.transportWrites
    split
    · exact close_nextSid s
    · split
      · exact close_nextSid s
      · rw [ih]
      · rw [ih]

theorem writeWithPadding_nextSid (s : Sess) (p : Bytes) : (s.writeWithPadding p).1.nextSid = s.nextSid := by
  unfold Sess.writeWithPadding
  split
  · exact transportWrites_nextSid _ _
  · simp only
    split
    · rw [transportWrites_nextSid]
    · split <;> rw [transportWrites_nextSid]

theorem writeFrame_nextSid (s : Sess) (f : Frame) : (s.writeFrame f).1.nextSid = s.nextSid := by
  unfold Sess.writeFrame
  split
  · rfl
  · split
    · rfl
    · split
      · rfl
      · rw [writeWithPadding_nextSid]

theorem writeFrame_nextSid' {s s' : Sess} {f : Frame} {r : Res} (h : s.writeFrame f = (s', r)) :
    s'.nextSid = s.nextSid := by
  have := writeFrame_nextSid s f; rw [h] at this; exact this

theorem maybePushScheme_nextSid (s : Sess) (m : List (Bytes × Bytes)) : (s.maybePushScheme m).1.nextSid = s.nextSid := by
  unfold Sess.maybePushScheme
  split
  · split
    · exact writeFrame_nextSid _ _
    · rfl
  · rfl

theorem maybePushScheme_nextSid' {s s' : Sess} {m : List (Bytes × Bytes)} {r : Res}
    (h : s.maybePushScheme m = (s', r)) : s'.nextSid = s.nextSid := by
  have := maybePushScheme_nextSid s m; rw [h] at this; exact this

theorem maybeServerSettings_nextSid (s : Sess) (m : List (Bytes × Bytes)) : (s.maybeServerSettings m).1.nextSid = s.nextSid := by
  unfold Sess.maybeServerSettings
  split
  · split
    · simp only
      split <;> (have hh := writeFrame_nextSid' (by assumption : Sess.writeFrame _ _ = (_, _)); exact hh)
    · rfl
  · rfl

theorem handleSettings_nextSid (s : Sess) (d : Bytes) : (s.handleSettings d).1.nextSid = s.nextSid := by
  unfold Sess.handleSettings
  simp only
  split
  · rw [maybeServerSettings_nextSid]
    exact maybePushScheme_nextSid' (by assumption)
  · exact maybePushScheme_nextSid' (by assumption)

theorem handleAlert_nextSid (s : Sess) (d : Bytes) : (s.handleAlert d).1.nextSid = s.nextSid := by
  unfold Sess.handleAlert
  simp only
  rw [close_nextSid]

/-- no frame of any kind changes the stream-id allocator -/
theorem handleFrame_nextSid (s : Sess) (f : Frame) : (s.handleFrame f).1.nextSid = s.nextSid := by
  unfold Sess.handleFrame
  cases hc : f.cmd <;> simp only
  · -- syn
    split
    · split <;> simp [Sess.dropRecvEntry] <;> split <;> rfl
    · rfl
  · split <;> rfl
  · simp
  · split
    · exact handleSettings_nextSid _ _
    · rfl
  · exact handleAlert_nextSid _ _
  · -- updatePaddingScheme
    split
    · split <;> rfl
    · rfl
  · -- synAck
    split
    · split
      · split <;> rfl
      · rfl
    · rfl
  · -- heartRequest
    split <;> exact writeFrame_nextSid' (by assumption)
  · -- serverSettings
    split
    · split <;> rfl
    · rfl

end AnyTLS
