import AnyTLS.Model.Dest
import AnyTLS.Lemmas.Reader
import AnyTLS.Lemmas.Frame

namespace AnyTLS

theorem rdX_spec (r : RState) (n : Nat) (hwf : r.WF) (h : n ≤ r.pending.length) :
    ∃ r', rdX r n = (.ok (r.pending.take n), r') ∧ r'.pending = r.pending.drop n ∧ r'.WF := by
  obtain ⟨r', he, hp, hw, _⟩ := readExact_spec r n hwf h
  exact ⟨r', by simp [rdX, he], hp, hw⟩

/-- `rdX` when the deliverable bytes are known to start with `a` -/
theorem rdX_prefix (r : RState) (a rest : Bytes) (hwf : r.WF) (hp : r.pending = a ++ rest) :
    ∃ r', rdX r a.length = (.ok a, r') ∧ r'.pending = rest ∧ r'.WF := by
  obtain ⟨r', he, hp', hw⟩ := rdX_spec r a.length hwf (by rw [hp]; simp)
  refine ⟨r', ?_, ?_, hw⟩
  · rw [he, hp]; simp
  · rw [hp', hp]; simp

theorem portOf_be16 (p : Nat) (h : p < 65536) : portOf (be16 p) = p := by
  obtain ⟨a, b, hab, hr⟩ := rd16_be16 p h
  rw [hab]; simpa [portOf] using hr

theorem readAddrPort_spec (r : RState) (a rest : Bytes) (p : Nat) (alen : Nat) (mk : Bytes → Nat → Dest)
    (hwf : r.WF) (hal : a.length = alen) (hp : p < 65536) (hpend : r.pending = a ++ be16 p ++ rest) :
    ∃ r', readAddrPort r alen mk = (.ok (mk a p), r') ∧ r'.pending = rest ∧ r'.WF := by
  unfold readAddrPort
  obtain ⟨r1, h1, hp1, hw1⟩ := rdX_prefix r a (be16 p ++ rest) hwf (by rw [hpend, List.append_assoc])
  rw [← hal, h1]
  simp only
  obtain ⟨r2, h2, hp2, hw2⟩ := rdX_prefix r1 (be16 p) rest hw1 hp1
  rw [be16_length] at h2
  rw [h2]
  simp only [portOf_be16 p hp]
  exact ⟨r2, rfl, hp2, hw2⟩

theorem readDomainPort_spec (r : RState) (d rest : Bytes) (p : Nat)
    (hwf : r.WF) (h1 : 1 ≤ d.length) (h2 : d.length ≤ 255) (hu : validUtf8 d = true) (hp : p < 65536)
    (hpend : r.pending = UInt8.ofNat d.length :: d ++ be16 p ++ rest) :
    ∃ r', readDomainPort r = (.ok (.domain d p), r') ∧ r'.pending = rest ∧ r'.WF := by
  unfold readDomainPort
  obtain ⟨r1, e1, hp1, hw1⟩ := rdX_prefix r [UInt8.ofNat d.length] (d ++ be16 p ++ rest) hwf
    (by rw [hpend]; simp [List.append_assoc])
  simp only [List.length_singleton] at e1
  rw [e1]
  have hlen : ((([UInt8.ofNat d.length] : Bytes).getD 0 0).toNat) = d.length := by
    show (UInt8.ofNat d.length).toNat = d.length
    exact toNat_ofNat_lt _ (by omega)
  simp only [hlen]
  have hne : (d.length == 0) = false := by
    cases hd : d.length with
    | zero => rw [hd] at h1; exact absurd h1 (by decide)
    | succ n => rfl
  simp only [hne, Bool.false_eq_true, if_false]
  obtain ⟨r2, e2, hp2, hw2⟩ := rdX_prefix r1 d (be16 p ++ rest) hw1 (by rw [hp1, List.append_assoc])
  rw [e2]
  simp only [hu, Bool.not_true, Bool.false_eq_true, if_false]
  obtain ⟨r3, e3, hp3, hw3⟩ := rdX_prefix r2 (be16 p) rest hw2 hp2
  rw [be16_length] at e3
  rw [e3]
  simp only [portOf_be16 p hp]
  exact ⟨r3, rfl, hp3, hw3⟩

/-- reading one byte with `read` when at least one byte is deliverable -/
theorem read1_spec (r : RState) (b : UInt8) (rest : Bytes) (hwf : r.WF) (hpend : r.pending = b :: rest) :
    ∃ r', r.read 1 = (.data [b], r') ∧ r'.pending = rest ∧ r'.WF := by
  have hs := read_spec r 1 (by omega) hwf
  cases hr : r.read 1 with
  | mk out r' =>
    rw [hr] at hs
    cases out with
    | data x =>
      simp only at hs
      obtain ⟨hne, hlen, hcat, _, hw⟩ := hs
      rw [hpend] at hcat
      cases x with
      | nil => exact absurd rfl hne
      | cons y ys =>
        have : ys = [] := by
          simp only [List.length_cons] at hlen
          exact List.eq_nil_of_length_eq_zero (by omega)
        subst this
        simp at hcat
        obtain ⟨hy, hrest⟩ := hcat
        subst hy
        exact ⟨r', rfl, hrest, hw⟩
    | eof => simp only at hs; rw [hpend] at hs; simp at hs
    | block => simp only at hs; rw [hpend] at hs; simp at hs

end AnyTLS
