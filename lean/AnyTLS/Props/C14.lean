/-
C14 — the liveness monitor closes dead sessions and only dead sessions.
Model: `Model/Heartbeat.lean`.
-/
import AnyTLS.Model.Heartbeat

namespace AnyTLS.C14
open AnyTLS

/-- Gen obligation: the heartbeat interval is the pool's check interval and the heartbeat
timeout is the pool's idle timeout (`create_new_session`); the command line accepts every
positive pair, so the theorems quantify over all `I > 0`, `T > 0`. -/
theorem gen_mapping : Gen.hbIntervalFrom = "check_interval" ∧ Gen.hbTimeoutFrom = "idle_timeout" ∧
    Gen.cliAcceptsEveryPositive = true := by decide

theorem arrivesAt_of (I : Nat) (r : Nat → Option Nat) (k d : Nat) (h : r k = some d) (hI : 0 < I) :
    arrivesAt I r (k * I + d) = true := by
  unfold arrivesAt
  rw [List.any_eq_true]
  refine ⟨k, ?_, ?_⟩
  · rw [List.mem_range]
    have : k ≤ (k * I + d) / I := by
      rw [Nat.le_div_iff_mul_le hI]; omega
    omega
  · simp [h]

/-- the invariant of a healthy session: never closed, and a pending mark is the send time of a
request whose answer has not arrived yet -/
def Healthy (I : Nat) (r : Nat → Option Nat) (t : Nat) (st : HB) : Prop :=
  st.closedAt = none ∧ ∀ s, st.pending = some s → ∃ k d, s = k * I ∧ r k = some d ∧ t ≤ k * I + d

theorem healthy_step (I T : Nat) (r : Nat → Option Nat) (hI : 0 < I)
    (hr : ∀ k, ∃ d, r k = some d ∧ d < T) (t : Nat) (st : HB) (h : Healthy I r t st) :
    Healthy I r (t + 1) (instant I T r st t) := by
  obtain ⟨hc, hp⟩ := h
  unfold instant
  rw [hc]
  simp only
  -- the pending mark after the tick
  have hp1 : ∀ s, (if t % I == 0 then (match st.pending with | none => some t | some s => some s) else st.pending) = some s →
      ∃ k d, s = k * I ∧ r k = some d ∧ t ≤ k * I + d := by
    intro s hs
    by_cases htick : (t % I == 0) = true
    · simp only [htick, if_true] at hs
      cases hpe : st.pending with
      | none =>
        simp only [hpe, Option.some.injEq] at hs
        obtain ⟨d, hd, _⟩ := hr (t / I)
        have hdiv : t / I * I = t := by
          have := Nat.div_add_mod t I
          have hm : t % I = 0 := by simpa using htick
          rw [hm] at this; rw [Nat.mul_comm]; omega
        exact ⟨t / I, d, by rw [hdiv, hs], hd, by rw [hdiv]; omega⟩
      | some s0 =>
        simp only [hpe, Option.some.injEq] at hs
        subst hs
        exact hp s0 hpe
    · simp only [htick, Bool.false_eq_true, if_false] at hs
      exact hp s hs
  by_cases harr : arrivesAt I r t = true
  · simp only [harr, if_true]
    exact ⟨rfl, by intro s hs; cases hs⟩
  · simp only [harr, Bool.false_eq_true, if_false]
    cases hp2 : (if t % I == 0 then (match st.pending with | none => some t | some s => some s) else st.pending) with
    | none => exact ⟨rfl, by intro s hs; cases hs⟩
    | some s =>
      obtain ⟨k, d, hs, hd, hle⟩ := hp1 s hp2
      obtain ⟨d', hd', hlt⟩ := hr k
      rw [hd] at hd'; injection hd' with hd'; subst hd'
      -- the answer to request k has not arrived at t (nothing arrives at t), so it arrives later
      have hne : k * I + d ≠ t := by
        intro e
        have := arrivesAt_of I r k d hd hI
        rw [e] at this
        exact harr this
      have hlt' : t < s + T := by omega
      have : ¬ (s + T ≤ t) := by omega
      simp only [this, if_false]
      exact ⟨rfl, by intro s' hs'; injection hs' with hs'; subst hs'; exact ⟨k, d, hs, hd, by omega⟩⟩

/-- T14.1 `healthy_never_closed`: for every interval/timeout pair (every positive pair the
command line accepts — including timeout < interval and timeout = interval) and every
sequence of answer delays below the timeout (arbitrary jitter), a session whose peer keeps
answering is never closed by the liveness monitor. -/
theorem healthy_never_closed (I T : Nat) (r : Nat → Option Nat) (hI : 0 < I)
    (hr : ∀ k, ∃ d, r k = some d ∧ d < T) : ∀ t, (hbRun I T r t).closedAt = none := by
  have inv : ∀ t, Healthy I r t (hbRun I T r t) := by
    intro t
    induction t with
    | zero => exact ⟨rfl, by intro s hs; cases hs⟩
    | succ t ih => exact healthy_step I T r hI hr t _ ih
  intro t
  exact (inv t).1

/-- a pending mark with no answer coming is acted on at its deadline: if after instant `t0 - 1`
the session is open with pending mark `s`, and nothing arrives from `t0` on, the session is
closed at instant `max t0 (s + T)` -/
theorem pending_leads_to_close (I T : Nat) (r : Nat → Option Nat) (t0 s : Nat)
    (hst : (hbRun I T r t0).closedAt = none) (hp : (hbRun I T r t0).pending = some s)
    (hsil : ∀ t, t0 ≤ t → arrivesAt I r t = false) :
    ∀ n, (hbRun I T r (t0 + n)).closedAt = none →
      (hbRun I T r (t0 + n)).pending = some s ∧ t0 + n ≤ max t0 (s + T) := by
  intro n
  induction n with
  | zero => intro _; exact ⟨hp, by omega⟩
  | succ n ih =>
    intro hopen
    -- the run was open one instant earlier too (closing is permanent)
    have hprev : (hbRun I T r (t0 + n)).closedAt = none := by
      cases hc : (hbRun I T r (t0 + n)).closedAt with
      | none => rfl
      | some c =>
        have : (hbRun I T r (t0 + n + 1)).closedAt = some c := by
          show (instant I T r (hbRun I T r (t0 + n)) (t0 + n)).closedAt = some c
          simp only [instant, hc]
        rw [show t0 + (n + 1) = t0 + n + 1 by omega] at hopen
        rw [this] at hopen; cases hopen
    obtain ⟨hpn, hle⟩ := ih hprev
    rw [show t0 + (n + 1) = t0 + n + 1 by omega] at hopen ⊢
    have hstep : hbRun I T r (t0 + n + 1) = instant I T r (hbRun I T r (t0 + n)) (t0 + n) := rfl
    rw [hstep] at hopen ⊢
    unfold instant at hopen ⊢
    rw [hprev] at hopen ⊢
    simp only [hpn, hsil (t0 + n) (by omega), Bool.false_eq_true, if_false] at hopen ⊢
    have hp1 : (if (t0 + n) % I == 0 then some s else some s) = some s := by split <;> rfl
    simp only [hp1] at hopen ⊢
    by_cases hd : s + T ≤ t0 + n
    · simp only [hd, if_true] at hopen; cases hopen
    · simp only [hd, if_false]
      exact ⟨by first | rfl | trivial, by omega⟩

/-- T14.2a `silent_detected` (pending case): with a request outstanding since `s` and nothing
ever arriving again, the session is closed no later than `s + T` (or at once if that instant
has passed). -/
theorem silent_detected_pending (I T : Nat) (r : Nat → Option Nat) (t0 s : Nat)
    (hst : (hbRun I T r t0).closedAt = none) (hp : (hbRun I T r t0).pending = some s)
    (hsil : ∀ t, t0 ≤ t → arrivesAt I r t = false) :
    ∃ c, (hbRun I T r (max t0 (s + T) + 1)).closedAt = some c := by
  cases hc : (hbRun I T r (max t0 (s + T) + 1)).closedAt with
  | some c => exact ⟨c, rfl⟩
  | none =>
    exfalso
    have hge : t0 ≤ max t0 (s + T) + 1 := by omega
    obtain ⟨n, hn⟩ : ∃ n, max t0 (s + T) + 1 = t0 + n := ⟨max t0 (s + T) + 1 - t0, by omega⟩
    rw [hn] at hc
    have := (pending_leads_to_close I T r t0 s hst hp hsil n hc).2
    omega

/-- instants without a tick and without an arrival leave an open session without pending mark as it is -/
theorem idle_none (I T : Nat) (r : Nat → Option Nat) (t : Nat) (st : HB)
    (hc : st.closedAt = none) (hp : st.pending = none) (ht : (t % I == 0) = false) (ha : arrivesAt I r t = false) :
    instant I T r st t = st := by
  unfold instant
  rw [hc]
  simp only [hp, ht, ha, Bool.false_eq_true, if_false]
  cases st
  simp_all

theorem idle_run (I T : Nat) (r : Nat → Option Nat) (t0 : Nat)
    (hc : (hbRun I T r t0).closedAt = none) (hp : (hbRun I T r t0).pending = none) :
    ∀ n, (∀ t, t0 ≤ t → t < t0 + n → (t % I == 0) = false ∧ arrivesAt I r t = false) →
      hbRun I T r (t0 + n) = hbRun I T r t0 := by
  intro n
  induction n with
  | zero => intro _; rfl
  | succ n ih =>
    intro h
    have hprev := ih (fun t h1 h2 => h t h1 (by omega))
    show instant I T r (hbRun I T r (t0 + n)) (t0 + n) = hbRun I T r t0
    rw [hprev]
    obtain ⟨ht, ha⟩ := h (t0 + n) (by omega) (by omega)
    exact idle_none I T r (t0 + n) _ hc hp ht ha

/-- T14.2 `silent_detected`: if the peer's last answer arrives at instant `a` (so that no
request is marked pending after it) and nothing ever arrives again, the session is closed
within the timeout plus one interval of that answer. -/
theorem silent_detected (I T : Nat) (r : Nat → Option Nat) (a : Nat) (hI : 0 < I) (hT : 0 < T)
    (hc : (hbRun I T r (a + 1)).closedAt = none) (hp : (hbRun I T r (a + 1)).pending = none)
    (hsil : ∀ t, a + 1 ≤ t → arrivesAt I r t = false) :
    ∃ c, (hbRun I T r (a + I + T + 1)).closedAt = some c := by
  -- the first tick instant after `a`
  let m := (a / I + 1) * I
  have hm1 : a + 1 ≤ m := by
    have := Nat.div_add_mod a I
    have := Nat.mod_lt a hI
    show a + 1 ≤ (a / I + 1) * I
    rw [Nat.add_mul, Nat.one_mul, Nat.mul_comm]; omega
  have hm2 : m ≤ a + I := by
    have := Nat.div_add_mod a I
    show (a / I + 1) * I ≤ a + I
    rw [Nat.add_mul, Nat.one_mul, Nat.mul_comm]; omega
  have hmmod : m % I = 0 := Nat.mul_mod_left _ _
  -- nothing happens before m
  obtain ⟨n, hn⟩ : ∃ n, m = a + 1 + n := ⟨m - (a + 1), by omega⟩
  have hidle : hbRun I T r m = hbRun I T r (a + 1) := by
    rw [hn]
    apply idle_run I T r (a + 1) hc hp n
    intro t h1 h2
    refine ⟨?_, hsil t h1⟩
    -- t is strictly between two consecutive multiples of I
    have hlt : t < m := by omega
    have hgt : a / I * I < t := by
      have := Nat.div_add_mod a I
      have := Nat.mod_lt a hI
      rw [Nat.mul_comm]; omega
    have : t % I ≠ 0 := by
      intro h0
      have hdvd : I ∣ t := Nat.dvd_of_mod_eq_zero h0
      obtain ⟨q, hq⟩ := hdvd
      subst hq
      have h1' : a / I < q := by
        have : a / I * I < q * I := by rw [Nat.mul_comm q I]; exact hgt
        exact Nat.lt_of_mul_lt_mul_right this
      have h2' : q < a / I + 1 := by
        have : q * I < (a / I + 1) * I := by rw [Nat.mul_comm q I]; exact hlt
        exact Nat.lt_of_mul_lt_mul_right this
      omega
    simpa using this
  -- at m the request is marked pending and the session stays open
  have hstep : hbRun I T r (m + 1) = { pending := some m, closedAt := none } := by
    show instant I T r (hbRun I T r m) m = _
    rw [hidle]
    unfold instant
    rw [hc]
    simp only [hp, hmmod, beq_self_eq_true, if_true, hsil m hm1, Bool.false_eq_true, if_false]
    have : ¬ (m + T ≤ m) := by omega
    simp [this]
  obtain ⟨c, hcl⟩ := silent_detected_pending I T r (m + 1) m (by rw [hstep]) (by rw [hstep])
    (fun t ht => hsil t (by omega))
  -- closing is permanent
  have mono : ∀ (t n : Nat) (c : Nat), (hbRun I T r t).closedAt = some c → (hbRun I T r (t + n)).closedAt = some c := by
    intro t n c h
    induction n with
    | zero => exact h
    | succ n ih =>
      show (instant I T r (hbRun I T r (t + n)) (t + n)).closedAt = some c
      simp only [instant, ih]
  have hmax : max (m + 1) (m + T) + 1 ≤ a + I + T + 1 := by omega
  obtain ⟨k, hk⟩ : ∃ k, a + I + T + 1 = max (m + 1) (m + T) + 1 + k := ⟨a + I + T + 1 - (max (m + 1) (m + T) + 1), by omega⟩
  exact ⟨c, by rw [hk]; exact mono _ k c hcl⟩

/-- correspondence support: an instant that is neither a tick, nor an arrival, nor at/after the
deadline of the pending request changes nothing (the driver skips such instants) -/
theorem idle_instant_noop (I T : Nat) (r : Nat → Option Nat) (t : Nat) (st : HB)
    (ht : (t % I == 0) = false) (ha : arrivesAt I r t = false)
    (hd : ∀ s, st.pending = some s → t < s + T) : instant I T r st t = st := by
  unfold instant
  cases hc : st.closedAt with
  | some c => rfl
  | none =>
    simp only [ht, ha, Bool.false_eq_true, if_false]
    cases hp : st.pending with
    | none => cases st; simp_all
    | some s =>
      have : ¬ (s + T ≤ t) := by have := hd s hp; omega
      simp only [this, if_false]
      cases st; simp_all

/-- refutations for the *pinned* rule (age of the last response, checked at ticks): with
timeout < interval a peer answering instantly is declared dead at the second tick; with
timeout ≥ interval, jitter below the timeout is enough (I = 2 s, T = 3 s, answers after 0 s
and 2.9 s: at the tick at 4 s the last response is 4 s old).  Both were replayed on the real
session before the repair (hb group: `healthy_session_closed`). -/
theorem pinned_refuted_T_lt_I : pinnedClosesAtTick 10000 3000 0 1 = true := by decide
theorem pinned_refuted_jitter : pinnedClosesAtTick 2000 3000 0 2 = true := by decide

/-- non-vacuity: I = 20, T = 10 (timeout < interval), answers after 3 ms: open after 100 ms;
a peer that never answers is closed at T -/
example : (hbRun 20 10 (fun _ => some 3) 45).closedAt = none := by decide +kernel
example : (hbRun 20 10 (fun _ => none) 45).closedAt = some 10 := by decide +kernel

end AnyTLS.C14
