/-
C13 — sessions are reused instead of re-dialled.
The property itself is FALSE of the current code (recorded as a known finding): only creation
inserts a session into the idle map and reuse removes it, so every second sequential request
re-dials and the sessions taken are never returned nor closed.  Kept here: the full
statements with their refutations, and the part that does hold.
Model: `Model/Pool.lean` (`Pool.request`, `Pool.streamDone`, `sequentialRun`).
-/
import AnyTLS.Model.Pool

namespace AnyTLS.C13
open AnyTLS

def emptyPool (cfg : PoolCfg) : Pool := { cfg := cfg }

/-- T13.1 `sequential_reuse` (full statement, kept): in any history in which no two requests
overlap, at most one TLS connection is ever dialled while the session stays healthy. -/
def sequential_reuse : Prop :=
  ∀ (cfg : PoolCfg) (n : Nat), (sequentialRun n (emptyPool cfg) 0).2 ≤ 1

/-- T13.1 is false: three non-overlapping requests dial twice (sessions used: 0, 0, 1).
Replayed on the real client + server over loopback (`e2e reuse n`: session identities
`[0,0,1,1,2,2,…]`, ⌈n/2⌉ TLS connections), which the model predicts exactly. -/
theorem sequential_reuse_refuted : ¬ sequential_reuse := by
  intro h
  have := h { interval := 30000, timeout := 60000, minIdle := 1 } 3
  revert this
  decide

/-- T13.2 `bounded_sessions` (full statement, kept): the number of sessions that stay open is
bounded by peak concurrency (1 for sequential requests) plus the idle minimum. -/
def bounded_sessions : Prop :=
  ∀ (cfg : PoolCfg) (n : Nat),
    let ids := (sequentialRun n (emptyPool cfg) 0).1
    ids.eraseDups.length ≤ 1 + cfg.minIdle

/-- T13.2 is false: with min_idle = 1, six sequential requests leave three sessions open (none of
them is ever closed: each keeps itself alive with its own heartbeat). -/
theorem bounded_sessions_refuted : ¬ bounded_sessions := by
  intro h
  have := h { interval := 30000, timeout := 60000, minIdle := 1 } 6
  revert this
  decide

/-- T13.3 (partial — what holds): the second of two non-overlapping requests is served by the
first one's session without a new dial, whatever the pool settings. -/
theorem second_request_reuses_partial (cfg : PoolCfg) :
    sequentialRun 2 (emptyPool cfg) 0 = ([0, 0], 1) := by
  simp [sequentialRun, emptyPool, Pool.request, Pool.getIdle, getIdleGo, Pool.addIdle, Pool.isClosed,
    insertSorted, Pool.streamDone]

/-- T13.3b (partial): a closed session is never reused (C12 `get_not_closed`), and a request
dials only when no open idle session exists. -/
theorem dial_only_when_no_idle (p : Pool) (now : Nat) :
    (p.request now).2.1 = true ↔ p.getIdle.1 = none := by
  unfold Pool.request
  cases hg : p.getIdle with
  | mk r p' => cases r <;> simp

/-! ### an idle session is not lost to another session's arrival

The idle map is keyed by the session's `seq`; an insertion under a key that is already there replaces the entry.  Which
key `add_idle_session` uses and where a session's `seq` comes from are regenerated from the source (`Gen.poolKey`,
`Gen.seqSource`; the extractor fails closed on any other shape). -/

/-- Obligations on the code: the key is the session's own `seq`, and `seq` comes from one process-wide counter that is
advanced for every session — so no two sessions of a process ever carry the same key. -/
theorem gen_pool_key_unique : Gen.poolKey = .sessionSeq ∧ Gen.seqSource = .processCounter := by decide

theorem insertSorted_keeps (e : PEntry) : ∀ (l : List PEntry), (∀ x ∈ l, x.seq ≠ e.seq) →
    ∀ x ∈ l, x ∈ insertSorted e l := by
  intro l
  induction l with
  | nil => intro _ x hx; cases hx
  | cons y ys ih =>
    intro hne x hx
    have hy : y.seq ≠ e.seq := hne y List.mem_cons_self
    unfold insertSorted
    by_cases h1 : e.seq < y.seq
    · simp only [h1, if_true]; exact List.mem_cons_of_mem _ hx
    · have h2 : (e.seq == y.seq) = false := by
        cases h : e.seq == y.seq with
        | false => rfl
        | true => exact absurd (by simpa using h : e.seq = y.seq).symm hy
      simp only [h1, if_false, h2, Bool.false_eq_true]
      rcases List.mem_cons.mp hx with hx | hx
      · rw [hx]; exact List.mem_cons_self
      · exact List.mem_cons_of_mem _ (ih (fun z hz => hne z (List.mem_cons_of_mem _ hz)) x hx)

/-- T13.4 `add_keeps_other_sessions`: a session that arrives under a key no idle session carries leaves every idle
session where it is — a healthy idle session is never dropped from the pool (un-reusable and un-reaped) because another
one was added. -/
theorem add_keeps_other_sessions (p : Pool) (seq sess now : Nat) (h : ∀ x ∈ p.idle, x.seq ≠ seq) :
    ∀ x ∈ p.idle, x ∈ (p.addIdle seq sess now).idle := by
  intro x hx
  unfold Pool.addIdle
  split
  · exact hx
  · exact insertSorted_keeps { seq := seq, sess := sess, since := now } p.idle h x hx

/-- the excluded case, refuted by a witness: two sessions under one key (what renumbering inside the pool produced in
seed C13e) — the healthy idle session 3 is gone from the map. -/
theorem same_key_evicts_refuted :
    insertSorted { seq := 1, sess := 7, since := 0 } [{ seq := 1, sess := 3, since := 0 }]
      = [{ seq := 1, sess := 7, since := 0 }] := by decide

/-- the exact behaviour of the current code, for the record: n sequential requests from an
empty pool dial ⌈n/2⌉ times (instances checked by kernel evaluation; the e2e run compares the
real client with `sequentialRun` for every n it tries). -/
theorem sequential_dials_instances :
    (List.range 9).map (fun n => (sequentialRun n (emptyPool { interval := 30000, timeout := 60000, minIdle := 1 }) 0).2)
      = [0, 1, 1, 2, 2, 3, 3, 4, 4] := by decide

end AnyTLS.C13
