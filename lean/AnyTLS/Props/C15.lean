/-
C15 — UDP datagrams keep their boundaries and contents through the tunnel.
Model: `Model/Dest.lean` (`encodeDgram`, `readDgram`, `readDgrams`, `encodeUdpRequest`,
`decodeUdpRequest`).  The byte stream they ride on is C01's lossless pipe.
-/
import AnyTLS.Lemmas.Dest
import AnyTLS.Props.C01
import AnyTLS.Props.C07

namespace AnyTLS.C15
open AnyTLS

/-- Gen obligations: both sides accept datagrams up to the same maximum, which fits the 16-bit
length prefix. -/
theorem gen_udp_max : Gen.udpMaxClient = 65535 ∧ Gen.udpMaxServer = 65535 := by decide

/-- T15.1a: one datagram — whatever follows it and however the length-prefixed byte stream is
fragmented across frames and reads, the reader returns exactly that datagram and leaves
exactly what followed. -/
theorem dgram_roundtrip_one (d rest : Bytes) (h1 : 1 ≤ d.length) (h2 : d.length ≤ 65535)
    (r : RState) (hwf : r.WF) (hpend : r.pending = be16 d.length ++ d ++ rest) :
    ∃ r', readDgram r = (.ok d, r') ∧ r'.pending = rest ∧ r'.WF := by
  unfold readDgram
  obtain ⟨r1, e1, hp1, hw1⟩ := rdX_prefix r (be16 d.length) (d ++ rest) hwf (by rw [hpend, List.append_assoc])
  rw [be16_length] at e1
  rw [e1]
  simp only [portOf_be16 d.length (by omega)]
  have hne : (d.length == 0) = false := by
    cases hd : d.length with
    | zero => rw [hd] at h1; exact absurd h1 (by decide)
    | succ n => rfl
  simp only [hne, Bool.false_eq_true, if_false]
  obtain ⟨r2, e2, hp2, hw2⟩ := rdX_prefix r1 d rest hw1 hp1
  exact ⟨r2, e2, hp2, hw2⟩

/-- nothing deliverable ⇒ no datagram is produced (the reader waits or reports the end) -/
theorem readDgram_empty (r : RState) (hwf : r.WF) (hpend : r.pending = []) :
    ∀ d r', readDgram r ≠ (.ok d, r') := by
  intro d r' h
  unfold readDgram rdX at h
  have hs := read_spec r 2 (by omega) hwf
  unfold RState.readExact RState.readExactFuel at h
  cases hr : r.read 2 with
  | mk out r1 =>
    rw [hr] at hs h
    cases out with
    | data b =>
      simp only at hs
      obtain ⟨hb, _, hcat, _, _⟩ := hs
      rw [hpend] at hcat
      exact hb (List.append_eq_nil_iff.mp hcat).1
    | eof => simp at h
    | block => simp at h

/-- wire image of a sequence of datagrams -/
def encodeAll : List Bytes → Bytes
  | [] => []
  | d :: ds => be16 d.length ++ d ++ encodeAll ds

/-- T15.1 `dgram_roundtrip`: every sequence of non-empty datagrams of up to 65 535 bytes, in any
fragmentation of the byte stream, is read back as exactly the same datagrams — one result per
datagram, in order, never merged, split or truncated. -/
theorem dgram_roundtrip (ds : List Bytes) (hds : ∀ d ∈ ds, 1 ≤ d.length ∧ d.length ≤ 65535) :
    ∀ (r : RState) (acc : List Bytes) (fuel : Nat), r.WF → r.pending = encodeAll ds → fuel > ds.length →
    (readDgrams fuel r acc).1 = acc.reverse ++ ds := by
  induction ds with
  | nil =>
    intro r acc fuel hwf hpend hf
    cases fuel with
    | zero => omega
    | succ n =>
      unfold readDgrams
      have hne := readDgram_empty r hwf hpend
      cases hr : readDgram r with
      | mk out r' =>
        cases out with
        | ok d => exact absurd hr (hne d r')
        | err => simp
        | block => simp
  | cons d ds ih =>
    intro r acc fuel hwf hpend hf
    obtain ⟨h1, h2⟩ := hds d List.mem_cons_self
    cases fuel with
    | zero => omega
    | succ n =>
      unfold readDgrams
      obtain ⟨r', he, hp', hw'⟩ := dgram_roundtrip_one d (encodeAll ds) h1 h2 r hwf (by rw [hpend]; rfl)
      rw [he]
      have hne : d.isEmpty = false := by cases d <;> simp_all
      simp only [hne, Bool.false_eq_true, if_false]
      rw [ih (fun x hx => hds x (List.mem_cons_of_mem _ hx)) r' (d :: acc) n hw' hp' (by simp at hf; omega)]
      simp

/-- T15.2: the encoder refuses what does not fit the prefix (nothing is sent), accepts
everything else with an exact prefix, and a zero prefix is the one value the readers take for
the end of the association (hence "non-empty" in the statement). -/
theorem encode_dgram_exact (payload : Bytes) :
    (payload.length > 65535 → encodeDgram 65535 payload = none) ∧
    (payload.length ≤ 65535 → encodeDgram 65535 payload = some (be16 payload.length ++ payload)) := by
  constructor
  · intro h; simp [encodeDgram, h]
  · intro h
    have : ¬ payload.length > 65535 := by omega
    simp [encodeDgram, this]

theorem zero_prefix_is_end (rest : Bytes) (r : RState) (hwf : r.WF) (hpend : r.pending = [0, 0] ++ rest) :
    ∃ r', readDgram r = (.ok [], r') ∧ r'.pending = rest := by
  unfold readDgram
  obtain ⟨r1, e1, hp1, _⟩ := rdX_prefix r [0, 0] rest hwf hpend
  simp only [List.length_cons, List.length_nil] at e1
  rw [e1]
  exact ⟨r1, by simp [portOf, rd16], hp1⟩

/-- T15.3: a datagram of at most 65 507 bytes (the UDP maximum) plus its prefix is one chunk of
at most 65 509 bytes, i.e. it travels in a single data frame; with C01 (`pipe_lossless`) the
tunnel delivers the encoded stream unchanged for every fragmentation. -/
theorem dgram_single_frame (payload enc : Bytes) (h : payload.length ≤ 65507)
    (he : encodeDgram 65535 payload = some enc) :
    enc.length ≤ 65509 ∧ C01.pieces (enc.length + 1) enc = [enc] := by
  have hl : ¬ payload.length > 65535 := by omega
  simp only [encodeDgram, hl, if_false, Option.some.injEq] at he
  subst he
  have hlen : (be16 payload.length ++ payload).length ≤ 65509 := by simp [be16_length]; omega
  refine ⟨hlen, ?_⟩
  unfold C01.pieces
  have : ¬ (be16 payload.length ++ payload).length > 65535 := by omega
  simp only [this, if_false]

/-- T15.4: the initial request decodes to the target that was encoded (instance of C07). -/
theorem initial_request_roundtrip (d : Dest) (hd : d.WF) (tail enc : Bytes) (henc : encodeUdpRequest d = some enc)
    (r : RState) (hwf : r.WF) (hpend : r.pending = enc ++ tail) :
    ∃ r', decodeUdpRequest r = (.ok d, r') ∧ r'.pending = tail ∧ r'.WF :=
  C07.udp_request_roundtrip d hd tail enc henc r hwf hpend

/-- non-vacuity: two datagrams, the second one's prefix split across chunks -/
example : (readDgrams 5 { queue := [[0, 2, 7, 8, 0], [1, 9]] } []).1 = [[7, 8], [9]] := by decide

end AnyTLS.C15
