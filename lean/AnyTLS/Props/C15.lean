/-
C15 — UDP datagrams keep their boundaries and contents through the tunnel.
Model: `Model/Dest.lean` (`encodeDgram`, `readDgram`, `readDgrams`, `encodeUdpRequest`,
`decodeUdpRequest`).  The byte stream they ride on is C01's lossless pipe.
-/
import AnyTLS.Lemmas.Dest
import AnyTLS.Lemmas.UdpRelay
import AnyTLS.Props.C01
import AnyTLS.Props.C07

namespace AnyTLS.C15
open AnyTLS

/-- Gen obligations: both sides accept datagrams up to the same maximum, which fits the 16-bit
length prefix. -/
theorem gen_udp_max : Gen.udpMaxClient = 65535 ∧ Gen.udpMaxServer = 65535 := by decide

/-- T15.1a: one datagram — whatever follows it and however the length-prefixed byte stream is
fragmented across frames and reads, the reader returns exactly that datagram and leaves
exactly what followed. -/
theorem dgram_roundtrip_one (d rest : Bytes) (h1 : 1 ≤ d.length) (h2 : d.length ≤ 65535)
    (r : RState) (hwf : r.WF) (hpend : r.pending = be16 d.length ++ d ++ rest) :
    ∃ r', readDgram r = (.ok d, r') ∧ r'.pending = rest ∧ r'.WF := by
  unfold readDgram
  obtain ⟨r1, e1, hp1, hw1⟩ := rdX_prefix r (be16 d.length) (d ++ rest) hwf (by rw [hpend, List.append_assoc])
  rw [be16_length] at e1
  rw [e1]
  simp only [portOf_be16 d.length (by omega)]
  have hne : (d.length == 0) = false := by
    cases hd : d.length with
    | zero => rw [hd] at h1; exact absurd h1 (by decide)
    | succ n => rfl
  simp only [hne, Bool.false_eq_true, if_false]
  obtain ⟨r2, e2, hp2, hw2⟩ := rdX_prefix r1 d rest hw1 hp1
  exact ⟨r2, e2, hp2, hw2⟩

/-- nothing deliverable ⇒ no datagram is produced (the reader waits or reports the end) -/
theorem readDgram_empty (r : RState) (hwf : r.WF) (hpend : r.pending = []) :
    ∀ d r', readDgram r ≠ (.ok d, r') := by
  intro d r' h
  unfold readDgram rdX at h
  have hs := read_spec r 2 (by omega) hwf
  unfold RState.readExact RState.readExactFuel at h
  cases hr : r.read 2 with
  | mk out r1 =>
    rw [hr] at hs h
    cases out with
    | data b =>
      simp only at hs
      obtain ⟨hb, _, hcat, _, _⟩ := hs
      rw [hpend] at hcat
      exact hb (List.append_eq_nil_iff.mp hcat).1
    | eof => simp at h
    | block => simp at h

/-- wire image of a sequence of datagrams -/
def encodeAll : List Bytes → Bytes
  | [] => []
  | d :: ds => be16 d.length ++ d ++ encodeAll ds

/-- T15.1 `dgram_roundtrip`: every sequence of non-empty datagrams of up to 65 535 bytes, in any
fragmentation of the byte stream, is read back as exactly the same datagrams — one result per
datagram, in order, never merged, split or truncated. -/
theorem dgram_roundtrip (ds : List Bytes) (hds : ∀ d ∈ ds, 1 ≤ d.length ∧ d.length ≤ 65535) :
    ∀ (r : RState) (acc : List Bytes) (fuel : Nat), r.WF → r.pending = encodeAll ds → fuel > ds.length →
    (readDgrams fuel r acc).1 = acc.reverse ++ ds := by
  induction ds with
  | nil =>
    intro r acc fuel hwf hpend hf
    cases fuel with
    | zero => omega
    | succ n =>
      unfold readDgrams
      have hne := readDgram_empty r hwf hpend
      cases hr : readDgram r with
      | mk out r' =>
        cases out with
        | ok d => exact absurd hr (hne d r')
        | err => simp
        | block => simp
  | cons d ds ih =>
    intro r acc fuel hwf hpend hf
    obtain ⟨h1, h2⟩ := hds d List.mem_cons_self
    cases fuel with
    | zero => omega
    | succ n =>
      unfold readDgrams
      obtain ⟨r', he, hp', hw'⟩ := dgram_roundtrip_one d (encodeAll ds) h1 h2 r hwf (by rw [hpend]; rfl)
      rw [he]
      have hne : d.isEmpty = false := by cases d <;> simp_all
      simp only [hne, Bool.false_eq_true, if_false]
      rw [ih (fun x hx => hds x (List.mem_cons_of_mem _ hx)) r' (d :: acc) n hw' hp' (by simp at hf; omega)]
      simp

/-- T15.2: the encoder refuses what does not fit the prefix (nothing is sent), accepts
everything else with an exact prefix, and a zero prefix is the one value the readers take for
the end of the association (hence "non-empty" in the statement). -/
theorem encode_dgram_exact (payload : Bytes) :
    (payload.length > 65535 → encodeDgram 65535 payload = none) ∧
    (payload.length ≤ 65535 → encodeDgram 65535 payload = some (be16 payload.length ++ payload)) := by
  constructor
  · intro h; simp [encodeDgram, h]
  · intro h
    have : ¬ payload.length > 65535 := by omega
    simp [encodeDgram, this]

theorem zero_prefix_is_end (rest : Bytes) (r : RState) (hwf : r.WF) (hpend : r.pending = [0, 0] ++ rest) :
    ∃ r', readDgram r = (.ok [], r') ∧ r'.pending = rest := by
  unfold readDgram
  obtain ⟨r1, e1, hp1, _⟩ := rdX_prefix r [0, 0] rest hwf hpend
  simp only [List.length_cons, List.length_nil] at e1
  rw [e1]
  exact ⟨r1, by simp [portOf, rd16], hp1⟩

/-- T15.3: a datagram of at most 65 507 bytes (the UDP maximum) plus its prefix is one chunk of
at most 65 509 bytes, i.e. it travels in a single data frame; with C01 (`pipe_lossless`) the
tunnel delivers the encoded stream unchanged for every fragmentation. -/
theorem dgram_single_frame (payload enc : Bytes) (h : payload.length ≤ 65507)
    (he : encodeDgram 65535 payload = some enc) :
    enc.length ≤ 65509 ∧ C01.pieces (enc.length + 1) enc = [enc] := by
  have hl : ¬ payload.length > 65535 := by omega
  simp only [encodeDgram, hl, if_false, Option.some.injEq] at he
  subst he
  have hlen : (be16 payload.length ++ payload).length ≤ 65509 := by simp [be16_length]; omega
  refine ⟨hlen, ?_⟩
  unfold C01.pieces
  have : ¬ (be16 payload.length ++ payload).length > 65535 := by omega
  simp only [this, if_false]

/-- T15.4: the initial request decodes to the target that was encoded (instance of C07). -/
theorem initial_request_roundtrip (d : Dest) (hd : d.WF) (tail enc : Bytes) (henc : encodeUdpRequest d = some enc)
    (r : RState) (hwf : r.WF) (hpend : r.pending = enc ++ tail) :
    ∃ r', decodeUdpRequest r = (.ok d, r') ∧ r'.pending = tail ∧ r'.WF :=
  C07.udp_request_roundtrip d hd tail enc henc r hwf hpend

/-- non-vacuity: two datagrams, the second one's prefix split across chunks -/
example : (readDgrams 5 { queue := [[0, 2, 7, 8, 0], [1, 9]] } []).1 = [[7, 8], [9]] := by decide

/-! ### The four relay loops around the tunnel stream (M15, `Model/UdpRelay.lean`)

`dgram_roundtrip` speaks about the encoder and the reader.  The loops that call them — which part of the receive
buffer is encoded, how many chunks are submitted per datagram, whether the datagram read can be dropped half-way by a
timer, which part of the payload goes to `send_to`, and in which address family the relay's socket is bound — are
regenerated from the source into `Gen.udpSites` / `Gen.udpBind`; the theorems below are about those. -/

open UdpRelay in
/-- Obligation on the code (regenerated table): every udp → stream loop encodes `&buf[..len]`, every stream → udp loop
awaits `read_udp_packet` bare and sends `&payload`. -/
theorem udp_sites_sound : Gen.udpSites.all UdpRelay.sound = true := by decide

/-- Obligation on the code: the relay's socket is bound in the address family of the target it has to reach (an
IPv4-only socket cannot send to an IPv6 target: the defect repaired in `1be5866`). -/
theorem relay_socket_family (f : UdpRelay.Family) : UdpRelay.bindFamily Gen.udpBind f = f := by
  cases f <;> rfl

/-- Obligation on the code: a datagram that meets a closed port (the target is not up yet, or restarts) does not end
the association — the relay's socket stays unconnected, so the ICMP answer never surfaces as an error of a later call
(both loops treat every socket error as fatal). -/
theorem association_survives_unreachable : UdpRelay.survivesUnreachable Gen.udpConnected = true := by decide

theorem connected_socket_refuted : UdpRelay.survivesUnreachable true = false := by decide

theorem ipv4_only_bind_refuted : UdpRelay.bindFamily .anyV4 .v6 ≠ .v6 := by decide

open UdpRelay in
/-- T15.5: for every loop of the code that reads datagrams from a socket: whatever earlier datagrams left in the
receive buffer, the tunnel stream is handed exactly one chunk per datagram, and that chunk is the datagram's exact
length-prefixed image. -/
theorem udp_to_stream_exact (s : Gen.UdpSite) (hs : s ∈ Gen.udpSites) (hd : s.dir = .toStream)
    (buf : Bytes) (ds : List Bytes) (hds : ∀ d ∈ ds, d.length ≤ 65535) :
    toStream 65535 s.slice buf ds = ds.map (fun d => be16 d.length ++ d) := by
  have hsound := List.all_eq_true.mp udp_sites_sound s hs
  simp only [sound, hd, beq_iff_eq] at hsound
  rw [hsound]
  exact toStream_prefixN 65535 ds buf hds

open UdpRelay in
/-- T15.6 `udp_tunnel_exact`: end to end over the two loops of one direction of an association.  `sa` is a loop of the
code that reads datagrams from a socket, `sb` a loop of the code that sends them on the far side.  For every sequence of
non-empty datagrams, every content of the receive buffer, every way the tunnel re-chunks the byte stream in between
(`evs` carries the same bytes, C01) and every moment at which a timer fires on the far side, the far socket sends
exactly those datagrams: one `send_to` each, identical contents, in order — never merged, split, truncated or dropped. -/
theorem udp_tunnel_exact (sa sb : Gen.UdpSite) (ha : sa ∈ Gen.udpSites) (hb : sb ∈ Gen.udpSites)
    (hda : sa.dir = .toStream) (hdb : sb.dir = .toUdp)
    (buf : Bytes) (ds : List Bytes) (hds : ∀ d ∈ ds, 1 ≤ d.length ∧ d.length ≤ 65535)
    (evs : List Ev) (hevs : flatten (chunksOf evs) = flatten (toStream Gen.udpMaxClient sa.slice buf ds)) :
    toUdp Gen.udpMaxServer sb.slice sb.wrap [] evs = ds := by
  have hmx := gen_udp_max
  rw [hmx.1] at hevs
  rw [hmx.2]
  rw [udp_to_stream_exact sa ha hda buf ds (fun d hd => (hds d hd).2), flatten_map_enc] at hevs
  have hsound := List.all_eq_true.mp udp_sites_sound sb hb
  simp only [sound, hdb, Bool.and_eq_true, beq_iff_eq] at hsound
  rw [hsound.1, hsound.2]
  exact toUdp_bare_exact 65535 evs [] ds (fun d hd => ⟨(hds d hd).1, (hds d hd).2, (hds d hd).2⟩)
    (by simpa using hevs) (by cases ds <;> simp [Short] <;> omega)

/-- the two excluded shapes, refuted by witnesses.  A datagram read under a timer: the timer fires between the two
chunks that carry the first datagram, the bytes consumed so far are dropped with the read, and the stream is parsed from
the middle of a payload from then on. -/
theorem timed_read_loses_datagrams :
    UdpRelay.toUdp 65535 .whole .timed [] [.chunk [0, 2, 7], .tick, .chunk [8, 0, 1, 9]] ≠ [[7, 8], [9]] := by decide

/-- the whole receive buffer instead of `&buf[..len]`: a short datagram after a longer one carries the tail of the
longer one. -/
theorem whole_buffer_pads_datagrams :
    UdpRelay.toStream 65535 .whole [0, 0, 0] [[1, 2, 3], [4]] ≠ [[0, 3, 1, 2, 3], [0, 1, 4]] := by decide

/-- non-vacuity of `udp_tunnel_exact`: two datagrams, a stale buffer, the prefix of the second cut across chunks, a
timer between them -/
example : UdpRelay.toUdp 65535 .whole .bare [] [.chunk [0, 2, 7, 8, 0], .tick, .chunk [1, 9]] = [[7, 8], [9]] ∧
    flatten (UdpRelay.toStream 65535 .prefixN [5, 5, 5] [[7, 8], [9]]) = [0, 2, 7, 8, 0, 1, 9] := by decide

/-! ### replies reach the application that uses the association (client side, `last_peer`) -/

/-- Obligation on the code (the extractor fails closed on any other shape): replies go to the sender of the most
recent local datagram. -/
theorem gen_reply_rule : Gen.replyRule = .lastSender := by decide

open UdpRelay in
/-- T15.7 `replies_reach_the_application`: when one application (address `a`) uses the association — every local
datagram comes from `a` — and the history starts with a datagram of it (a target only answers what it was sent), every
reply decoded from the tunnel is sent on the local socket exactly once, in order, to `a`, for every interleaving of
datagrams and replies. -/
theorem replies_reach_the_application (a : Nat) : ∀ (es : List CEv),
    (∀ b d, CEv.fromApp b d ∈ es → b = a) →
    clientReplies (some a) es = (repliesOf es).map (fun d => (a, d)) := by
  intro es
  induction es with
  | nil => intro _; rfl
  | cons e es ih =>
    intro h
    cases e with
    | fromApp b d =>
      have hb : b = a := h b d List.mem_cons_self
      subst hb
      simp only [clientReplies, repliesOf]
      exact ih (fun b' d' hm => h b' d' (List.mem_cons_of_mem _ hm))
    | reply d =>
      simp only [clientReplies, repliesOf, List.map_cons]
      rw [ih (fun b' d' hm => h b' d' (List.mem_cons_of_mem _ hm))]

/-- what the rule does not give (stated, not claimed): with two applications on one association a reply goes to whoever
sent last -/
example : UdpRelay.clientReplies none [.fromApp 1 [7], .fromApp 2 [8], .reply [9]] = [(2, [9])] := by decide

end AnyTLS.C15
