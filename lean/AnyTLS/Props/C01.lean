/-
C01 — every stream is a lossless, ordered, exact byte pipe.
Models: `Model/Reader.lean` (chunk-queue reader), `Model/Session.lean` (PSH dispatch,
`write_data_frame` splitting), `Model/Frame.lean` (codec; chunking independence is C03).
-/
import AnyTLS.Lemmas.Session
import AnyTLS.Lemmas.Frame
import AnyTLS.Props.C02
import AnyTLS.Props.C03
import AnyTLS.Props.C11
import AnyTLS.Lemmas.Relay

namespace AnyTLS.C01
open AnyTLS AnyTLS.Gen

/-- operations on one stream's inbound side -/
inductive ROp where
  /-- the session delivers a chunk (payload of one PSH frame) -/
  | push (c : Bytes)
  /-- the sending half is dropped (FIN / session close) -/
  | close
  /-- the application reads into a buffer of `n > 0` bytes -/
  | read (n : Nat)

/-- run a history; returns the final reader, the bytes pushed while the channel was open and
the bytes the application has read, plus whether end of stream was reported -/
def run : RState → List ROp → Bytes → Bytes → Bool → RState × Bytes × Bytes × Bool
  | r, [], pushed, got, e => (r, pushed, got, e)
  | r, .push c :: ops, pushed, got, e =>
    run (r.push c) ops (if r.chanOpen then pushed ++ c else pushed) got e
  | r, .close :: ops, pushed, got, e => run r.closeChan ops pushed got e
  | r, .read n :: ops, pushed, got, e =>
    match r.read n with
    | (.data b, r') => run r' ops pushed (got ++ b) e
    | (.eof, r') => run r' ops pushed got true
    | (.block, r') => run r' ops pushed got e

def readsPositive : List ROp → Prop
  | [] => True
  | .read n :: ops => n ≠ 0 ∧ readsPositive ops
  | _ :: ops => readsPositive ops

/-- the invariant behind T1.1/T1.2: everything submitted = everything read ++ everything
still deliverable; end of stream is reported only when the channel is closed and drained -/
theorem run_inv (ops : List ROp) : ∀ (r : RState) (pushed got : Bytes) (e : Bool),
    r.WF → readsPositive ops → pushed = got ++ r.pending → (e = true → r.pending = [] ∧ r.chanOpen = false) →
    let res := run r ops pushed got e
    res.2.1 = res.2.2.1 ++ res.1.pending ∧
    (res.2.2.2 = true → res.1.pending = [] ∧ res.1.chanOpen = false) := by
  induction ops with
  | nil => intro r pushed got e _ _ h1 h2; exact ⟨h1, h2⟩
  | cons op ops ih =>
    intro r pushed got e hwf hpos h1 h2
    cases op with
    | push c =>
      simp only [run]
      apply ih _ _ _ _ (push_WF r c hwf) hpos
      · by_cases hc : r.chanOpen = true
        · simp [hc, push_pending r c hc, h1, List.append_assoc]
        · simp [hc, RState.push, h1]
      · intro he
        obtain ⟨hp, hc⟩ := h2 he
        simp [RState.push, hc, hp]
    | close =>
      simp only [run]
      apply ih _ _ _ _ (closeChan_WF r hwf) hpos
      · simpa [closeChan_pending] using h1
      · intro he; exact ⟨by simpa [closeChan_pending] using (h2 he).1, rfl⟩
    | read n =>
      obtain ⟨hn, hpos'⟩ := hpos
      have hs := read_spec r n hn hwf
      simp only [run]
      cases hr : r.read n with
      | mk out r' =>
        rw [hr] at hs
        cases out with
        | data b =>
          simp only at hs ⊢
          obtain ⟨_, _, hcat, hco, hwf'⟩ := hs
          apply ih _ _ _ _ hwf' hpos'
          · rw [h1, ← hcat, List.append_assoc]
          · intro he
            obtain ⟨hp, hc⟩ := h2 he
            rw [hp] at hcat
            have : r'.pending = [] := (List.append_eq_nil_iff.mp hcat).2
            exact ⟨this, by rw [hco, hc]⟩
        | eof =>
          simp only at hs ⊢
          obtain ⟨hp, _, hp', hc', hwf'⟩ := hs
          apply ih _ _ _ _ hwf' hpos'
          · rw [h1, hp, hp']
          · intro _; exact ⟨hp', hc'⟩
        | block =>
          simp only at hs ⊢
          obtain ⟨he, _, _⟩ := hs
          subst he
          exact ih _ _ _ _ hwf hpos' h1 h2

/-- T1.1 `reads_prefix`: at every moment of every history (any chunk sizes including 0, any
read sizes, any interleaving of deliveries, reads and the close) the bytes read so far are a
prefix of the bytes submitted so far. -/
theorem reads_prefix (ops : List ROp) (hpos : readsPositive ops) :
    let res := run {} ops [] [] false
    res.2.2.1 <+: res.2.1 := by
  have h := run_inv ops {} [] [] false (by intro h; cases h) hpos (by simp [RState.pending]) (by intro h; cases h)
  exact ⟨_, h.1.symm⟩

/-- T1.2 `reads_complete`: when a history ends with end of stream reported, exactly the
submitted bytes have been read — nothing lost, duplicated or reordered — and end of stream is
never reported while the channel is open or data remains. -/
theorem reads_complete (ops : List ROp) (hpos : readsPositive ops) :
    let res := run {} ops [] [] false
    res.2.2.2 = true → res.2.2.1 = res.2.1 ∧ res.1.chanOpen = false := by
  intro res he
  have h := run_inv ops {} [] [] false (by intro h; cases h) hpos (by simp [RState.pending]) (by intro h; cases h)
  obtain ⟨hp, hc⟩ := h.2 he
  exact ⟨by have := h.1; rw [hp] at this; simpa using this.symm, hc⟩

/-- T1.3 `read_nonempty`: a read into a non-empty buffer never returns 0 bytes unless the
stream has ended (empty chunks are skipped), and never more than the buffer holds. -/
theorem read_nonempty (r : RState) (n : Nat) (hn : n ≠ 0) (hwf : r.WF) (b : Bytes) (r' : RState)
    (h : r.read n = (.data b, r')) : b ≠ [] ∧ b.length ≤ n := by
  have := read_spec r n hn hwf
  rw [h] at this
  exact ⟨this.1, this.2.1⟩

/-- T1.3 refutation for the *pinned* reader (no skipping of empty chunks): the chunk sequence
`abc, "", def` makes the second read return 0 bytes although the stream is open. -/
def readPinned (r : RState) (n : Nat) : ReadOut × RState :=
  if r.eof && r.rbuf.isEmpty then (.eof, r)
  else if !r.rbuf.isEmpty then (.data (r.rbuf.take n), { r with rbuf := r.rbuf.drop n })
  else match r.queue with
    | c :: q => (.data (c.take n), { r with queue := q, rbuf := c.drop n })
    | [] => if r.chanOpen then (.block, r) else (.eof, { r with eof := true })

theorem read_empty_refuted :
    let r0 : RState := { queue := [[97, 98, 99], [], [100, 101, 102]] }
    let (_, r1) := readPinned r0 8
    (readPinned r1 8).1 = .data [] ∧ r1.chanOpen = true := by decide

/-! ### sender side: chunks of any size -/

/-- payloads of the PSH frames `write_data_frame` produces for one chunk -/
def pieces : Nat → Bytes → List Bytes
  | 0, _ => []
  | fuel + 1, data =>
    if data.length > 65535 then data.take 65535 :: pieces fuel (data.drop 65535) else [data]

theorem pieces_spec : ∀ (fuel : Nat) (data : Bytes), data.length < fuel →
    flatten (pieces fuel data) = data ∧ ∀ p ∈ pieces fuel data, p.length ≤ 65535 := by
  intro fuel
  induction fuel with
  | zero => intro data h; omega
  | succ n ih =>
    intro data h
    unfold pieces
    by_cases hl : data.length > 65535
    · simp only [hl, if_true]
      have hlen : (data.drop 65535).length < n := by simp; omega
      obtain ⟨h1, h2⟩ := ih (data.drop 65535) hlen
      refine ⟨by simp [h1], ?_⟩
      intro p hp
      simp only [List.mem_cons] at hp
      rcases hp with hp | hp
      · subst hp; simp; omega
      · exact h2 p hp
    · simp only [hl, if_false]
      refine ⟨by simp, ?_⟩
      intro p hp
      simp only [List.mem_singleton] at hp
      subst hp; omega

/-- T1.4a: a chunk of *any* size (0, > 65535, …) is cut into pieces that each fit one frame
and whose concatenation is the chunk, byte for byte and in order. -/
theorem pieces_lossless (data : Bytes) :
    flatten (pieces (data.length + 1) data) = data ∧
    ∀ p ∈ pieces (data.length + 1) data, p.length ≤ 65535 :=
  pieces_spec _ data (Nat.lt_succ_self _)

/-! ### receive side: what arrives on stream `k` -/

/-- the payload bytes addressed to stream `k` in a frame sequence -/
def payloadFor (k : Nat) : List Frame → Bytes
  | [] => []
  | f :: fs => (if f.cmd = .push ∧ f.sid = k then f.data else []) ++ payloadFor k fs

/-- the chunks addressed to stream `k` in a frame sequence, in order -/
def payloadChunks (k : Nat) : List Frame → List Bytes
  | [] => []
  | f :: fs => if f.cmd = .push ∧ f.sid = k then f.data :: payloadChunks k fs else payloadChunks k fs

/-- frames that do not open, close or replace stream `k` and do not end the session -/
def keeps (k : Nat) (fs : List Frame) : Prop :=
  ∀ f ∈ fs, quietCmd f.cmd = true ∧ (f.sid = k → f.cmd = .push ∨ f.cmd = .synAck ∨ f.cmd = .waste
    ∨ f.cmd = .heartResponse ∨ f.cmd = .serverSettings ∨ f.cmd = .updatePaddingScheme)

/-- the reader state of the stream registered under id `k` -/
def rdOf (s : Sess) (k : Nat) : Option RState :=
  ((tblGet s.recv k).bind (fun h => s.objs[h]?)).map (·.rd)

theorem rdOf_other (s : Sess) (f : Frame) (hwf : s.WF) (hq : quietCmd f.cmd = true) (k : Nat)
    (hk : k ≠ f.sid) : rdOf (s.handleFrame f).1 k = rdOf s k := by
  have := C02.no_crosstalk s f hwf hq k hk
  unfold C02.view at this
  unfold rdOf
  rw [(Prod.mk.inj this).1]

theorem rdOf_push (s : Sess) (f : Frame) (hc : f.cmd = .push) :
    rdOf (s.handleFrame f).1 f.sid = (rdOf s f.sid).map (·.push f.data) := by
  unfold rdOf
  cases hr : tblGet s.recv f.sid with
  | none => rw [handleFrame_push_unknown s f hc hr, hr]; rfl
  | some h =>
    obtain ⟨ho, hrecv, _⟩ := handleFrame_push s f hc h hr
    rw [hrecv, hr]
    simp only [Option.bind_some]
    rw [ho]
    cases s.objs[h]? <;> rfl

theorem rdOf_own_inert (s : Sess) (f : Frame)
    (hc : f.cmd = .synAck ∨ f.cmd = .waste ∨ f.cmd = .heartResponse ∨ f.cmd = .serverSettings
      ∨ f.cmd = .updatePaddingScheme) (k : Nat) :
    rdOf (s.handleFrame f).1 k = rdOf s k := by
  unfold rdOf Sess.handleFrame
  rcases hc with hc | hc | hc | hc | hc <;> simp only [hc]
  · -- synAck: only the pending-open slot of the addressed stream may change
    split
    · split
      · rename_i i _
        have key : ∀ g : Obj → Obj, (∀ o, (g o).rd = o.rd) →
            ((tblGet (s.modObj i g).recv k).bind (fun h => (s.modObj i g).objs[h]?)).map (·.rd)
              = ((tblGet s.recv k).bind (fun h => s.objs[h]?)).map (·.rd) := by
          intro g hg
          simp only [modObj_recv]
          cases tblGet s.recv k with
          | none => rfl
          | some h =>
            simp only [Option.bind_some, modObj_getElem?]
            by_cases hi : h = i
            · simp only [hi, if_true]; cases s.objs[i]? <;> simp [hg]
            · simp [hi]
        split
        · exact key _ (fun o => by unfold Obj.notifySynack; split <;> rfl)
        · exact key _ (fun o => by unfold Obj.notifySynack; split <;> rfl)
      · rfl
    · rfl
  · split
    · split <;> rfl
    · rfl
  · split
    · split <;> rfl
    · rfl

/-- T1.4b `stream_delivery` (receive side of the pipe): for every frame sequence that keeps
stream `k` registered — data for `k` interleaved in any way with frames of any other stream
(opens, data, closes, for known, unknown or finished ids), padding frames and session-level
quiet frames — the reader of `k` receives exactly the payloads addressed to `k`, in order:
nothing lost, duplicated, altered, and nothing from any other stream. -/
theorem stream_delivery (k : Nat) (fs : List Frame) : ∀ (s : Sess), s.WF → keeps k fs →
    (s.handleFrames fs).2 = .continue ∧ (s.handleFrames fs).1.WF ∧
    rdOf (s.handleFrames fs).1 k = (rdOf s k).map (fun r => (payloadChunks k fs).foldl RState.push r) := by
  induction fs with
  | nil => intro s hwf _; refine ⟨rfl, hwf, ?_⟩; simp [Sess.handleFrames, payloadChunks]
  | cons f fs ih =>
    intro s hwf hk
    obtain ⟨hq, hown⟩ := hk f List.mem_cons_self
    have hk' : keeps k fs := fun g hg => hk g (List.mem_cons_of_mem _ hg)
    obtain ⟨hcont, _, _, _⟩ := handleFrame_quiet_tables s f hq
    have hwf' := handleFrame_quiet_WF s f hq hwf
    have hstep : rdOf (s.handleFrame f).1 k =
        (rdOf s k).map (fun r => if f.cmd = .push ∧ f.sid = k then r.push f.data else r) := by
      by_cases hsid : f.sid = k
      · rcases hown hsid with hc | hc | hc | hc | hc | hc
        · subst hsid
          rw [rdOf_push s f hc]
          simp [hc]
        all_goals
          rw [rdOf_own_inert s f (by simp [hc]) k]
          simp [hc]
      · rw [rdOf_other s f hwf hq k (fun e => hsid e.symm)]
        simp [hsid]
    unfold Sess.handleFrames
    cases hres : s.handleFrame f with
    | mk s' o =>
      rw [hres] at hcont hwf' hstep
      simp only at hcont hstep
      subst hcont
      simp only
      obtain ⟨a, b, c⟩ := ih s' hwf' hk'
      refine ⟨a, b, ?_⟩
      rw [c, hstep]
      by_cases hp : f.cmd = .push ∧ f.sid = k
      · simp only [payloadChunks, hp, and_self, if_true, List.foldl_cons]
        cases rdOf s k <;> rfl
      · simp only [payloadChunks, hp, if_false]
        cases rdOf s k <;> rfl

/-- the bytes a reader can still deliver after a sequence of chunks was pushed -/
theorem foldl_push_pending (cs : List Bytes) : ∀ (r : RState), r.chanOpen = true →
    (cs.foldl RState.push r).pending = r.pending ++ flatten cs ∧ (cs.foldl RState.push r).chanOpen = true := by
  induction cs with
  | nil => intro r h; simp [h]
  | cons c cs ih =>
    intro r h
    have hco : (r.push c).chanOpen = true := by simp [RState.push, h]
    obtain ⟨a, b⟩ := ih (r.push c) hco
    simp only [List.foldl_cons]
    rw [a, push_pending r c h]
    exact ⟨by simp [List.append_assoc], b⟩

/-- T1.4 `pipe_lossless` (byte level, any fragmentation): let the transport deliver, in *any*
fragmentation, a byte string that is the encoding of a frame sequence `fs` keeping stream `k`
registered (data frames for `k` of any sizes — as produced by `pieces` for chunks of any
size —, padding frames inserted anywhere, frames of other streams in any order).  Then the
receive loop ends with the reader of `k` able to deliver exactly its old content followed by
the concatenation of the payloads addressed to `k`.  With T1.1/T1.2 (every read history
delivers a prefix, and in the end all, of what is deliverable) this is the property. -/
theorem pipe_lossless (k : Nat) (fs : List Frame) (hwfF : ∀ f ∈ fs, C03.WF f)
    (chunks : List Bytes) (bs : Bytes) (henc : C03.encodeAll fs = some bs) (hfrag : flatten chunks = bs)
    (s : Sess) (hwf : s.WF) (hk : keeps k fs) (r : RState) (hr : rdOf s k = some r) (hopen : r.chanOpen = true) :
    let (frames, rest) := feedAll [] chunks
    frames = fs ∧ rest = [] ∧
    ∃ r', rdOf (s.handleFrames frames).1 k = some r' ∧
      r'.pending = r.pending ++ flatten (payloadChunks k fs) ∧ r'.chanOpen = true := by
  obtain ⟨bs', hbs', hdec⟩ := C03.decodeAll_encodeAll fs hwfF [] (by rfl)
  rw [henc] at hbs'
  injection hbs' with hbs'
  subst hbs'
  rw [C03.feed_chunking, hfrag]
  simp only [List.append_nil] at hdec
  rw [hdec]
  refine ⟨rfl, rfl, ?_⟩
  obtain ⟨_, _, hrd⟩ := stream_delivery k fs s hwf hk
  rw [hrd, hr]
  obtain ⟨a, b⟩ := foldl_push_pending (payloadChunks k fs) r hopen
  exact ⟨_, rfl, a, b⟩

/-- non-vacuity: a concrete server state with stream 5 registered satisfies the hypotheses -/
example : rdOf C02.exS 5 = some {} ∧ ({} : RState).chanOpen = true := by decide
example : keeps 5 [{ cmd := .push, sid := 5, data := [1] }, { cmd := .fin, sid := 3, data := [] },
    { cmd := .waste, sid := 0, data := [0, 0] }] := by
  intro f hf
  simp only [List.mem_cons, List.mem_nil_iff, or_false] at hf
  rcases hf with h | h | h <;> subst h <;> simp [quietCmd]

/-- T1.7 `data_finds_new_stream` (interleaving model M13): the step that submits a stream's SYN has
registered its inbound queue, so data that arrives at ANY later moment — also while the opener is
still inside the SYN write — is queued for its reader (`rdOf_push`), never dropped as "unknown stream". -/
theorem data_finds_new_stream (cs cs' : CS) (t : Nat) (hpc : (cs.task t).pc = .openChecked) (hm : micro cs t = some cs') :
    tblGet cs'.s.streams cs.s.nextSid = some cs.s.objs.length ∧ tblGet cs'.s.recv cs.s.nextSid = some cs.s.objs.length ∧
    (cs'.task t).submitted = (cs.task t).submitted ++ [synBytes cs.s.nextSid] :=
  let h := AnyTLS.C11.registered_before_syn cs cs' t hpc hm
  ⟨h.1, h.2.1, h.2.2.2.1⟩

/-! ### the relay loops around a stream (M14): server ↔ target, SOCKS5 / HTTP front-end ↔ application

`Gen.relaySites` is regenerated from `handler.rs`, `socks5.rs` and `http_proxy.rs` on every run: for each
`loop { n = source.read(&mut buf); sink.<hand-over>(<slice>) }` the hand-over call and the slice it is given.
The first theorem is the proof obligation the code has to meet (it stops checking when a loop switches to
a single `write` or forwards another part of the buffer); the other two say what the obligation buys, for
every sequence of reads, every prior buffer content and every behaviour of the sink (any per-call capacities,
failure at any point). -/

theorem relay_sites_sound : ∀ s ∈ Gen.relaySites, Relay.sound s = true := by decide

theorem relay_sites_all_found : Gen.relaySites.length = 6 := by decide

/-- at every moment the sink of every relay loop of the code has received a prefix of what its source produced -/
theorem every_relay_loop_prefix (s : Gen.RelaySite) (hs : s ∈ Gen.relaySites) (reads : List Bytes) (buf : Bytes)
    (caps : List Nat) : (Relay.run s.write s.slice buf reads caps).delivered <+: flatten reads := by
  have h := relay_sites_sound s hs
  simp only [Relay.sound, Bool.and_eq_true, bne_iff_ne, ne_eq, beq_iff_eq] at h
  rw [h.2]
  exact Relay.run_prefix s.write h.1 reads buf caps

/-- ... and when the loop ends because its source ended, the sink has received all of it, in order, once -/
theorem every_relay_loop_complete (s : Gen.RelaySite) (hs : s ∈ Gen.relaySites) (reads : List Bytes) (buf : Bytes)
    (caps : List Nat) (hdone : (Relay.run s.write s.slice buf reads caps).sourceDone = true) :
    (Relay.run s.write s.slice buf reads caps).delivered = flatten reads := by
  have h := relay_sites_sound s hs
  simp only [Relay.sound, Bool.and_eq_true, bne_iff_ne, ne_eq, beq_iff_eq] at h
  rw [h.2] at hdone ⊢
  exact Relay.run_complete s.write h.1 reads buf caps hdone

/-- the loop does end that way whenever the sink keeps taking at least one byte per call (non-vacuity of `hdone`) -/
example : (Relay.run .writeAll .prefixN [] [[1, 2, 3], [4, 5]] [2, 9, 1, 1]).sourceDone = true := by decide

/-- the two shapes the obligation excludes do lose or invent bytes (so the obligation is not idle) -/
theorem single_write_loses_bytes :
    (Relay.run .writeOnce .prefixN [] [[1, 2, 3], [4]] [2, 5]).delivered ≠ flatten [[1, 2, 3], [4]] := by decide

theorem whole_buffer_invents_bytes :
    (Relay.run .writeAll .whole [9, 9, 9] [[1, 2, 3], [4]] [8, 8]).delivered ≠ flatten [[1, 2, 3], [4]] := by decide

/-- T1.x `abandoned_read_consumes_nothing`: a read that cannot complete yet leaves the reader exactly as it was — so a
caller that abandons it (a timeout, a losing `select!` branch) and reads again later, with whatever buffer size, loses
nothing.  (What the `AsyncRead` side of a `Stream` must preserve; the `dest aread` cases compare it with the code.) -/
theorem abandoned_read_consumes_nothing (r : RState) (n : Nat) (h : (r.read n).1 = .block) : (r.read n).2 = r := by
  unfold RState.read at h ⊢
  by_cases h1 : (r.eof && r.rbuf.isEmpty) = true
  · simp [h1] at h
  · by_cases h2 : (!r.rbuf.isEmpty) = true
    · simp [h1, h2] at h
    · simp only [h1, h2, if_false, Bool.false_eq_true] at h ⊢
      cases hr : recvLoop n r.queue r.chanOpen with
      | mk out rest =>
        rw [hr] at h
        cases out <;> simp_all

end AnyTLS.C01
