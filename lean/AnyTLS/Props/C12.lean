/-
C12 — the session pool never hands out or destroys the wrong session.
Model: `Model/Pool.lean` (`getIdleGo`, `cleanupGo` are transcriptions of the two loops; both
copies of the reaper loop in the code — `cleanup_expired` and the periodic task — are run
against `Pool.cleanup` by the correspondence check).
-/
import AnyTLS.Model.Pool

namespace AnyTLS.C12
open AnyTLS

/-- T12.1 `get_not_closed`: the pool never returns a session whose closed flag is set, and every
entry it skipped on the way (and removed) was closed; `none` means every entry was closed (all
removed). -/
theorem get_not_closed (closed : Nat → Bool) : ∀ (l : List PEntry),
    match getIdleGo closed l with
    | (some i, rest) => closed i = false ∧ ∃ skipped, l = skipped ++ [⟨(l.getD skipped.length default).seq, i, (l.getD skipped.length default).since⟩] ++ rest
        ∧ ∀ e ∈ skipped, closed e.sess = true
    | (none, rest) => rest = [] ∧ ∀ e ∈ l, closed e.sess = true := by
  intro l
  induction l with
  | nil => simp [getIdleGo]
  | cons e rest ih =>
    unfold getIdleGo
    by_cases hc : closed e.sess = true
    · simp only [hc, if_true]
      cases hg : getIdleGo closed rest with
      | mk r rest' =>
        rw [hg] at ih
        cases r with
        | some i =>
          simp only at ih ⊢
          obtain ⟨h1, sk, h2, h3⟩ := ih
          refine ⟨h1, e :: sk, ?_, ?_⟩
          · simp only [List.length_cons, List.getD_cons_succ, List.cons_append]
            rw [← List.cons_append] at *
            congr 1
          · intro x hx
            simp only [List.mem_cons] at hx
            rcases hx with hx | hx
            · subst hx; exact hc
            · exact h3 x hx
        | none =>
          simp only at ih ⊢
          refine ⟨ih.1, ?_⟩
          intro x hx
          simp only [List.mem_cons] at hx
          rcases hx with hx | hx
          · subst hx; exact hc
          · exact ih.2 x hx
    · simp only [hc, Bool.false_eq_true, if_false]
      refine ⟨by simpa using hc, [], ?_, by simp⟩
      simp

/-- T12.2 `cleanup_purges`: after a reaper pass no idle entry belongs to a closed session. -/
theorem cleanup_purges (cfg : PoolCfg) (closed : Nat → Bool) (now : Nat) : ∀ (l : List PEntry) (active : Nat),
    ∀ e ∈ (cleanupGo cfg closed now l active).1, closed e.sess = false := by
  intro l
  induction l with
  | nil => intro a e he; simp [cleanupGo] at he
  | cons x rest ih =>
    intro a e he
    unfold cleanupGo at he
    by_cases hc : closed x.sess = true
    · simp only [hc, if_true] at he
      exact ih a e he
    · simp only [hc, Bool.false_eq_true, if_false] at he
      split at he
      · simp only [List.mem_cons] at he
        rcases he with he | he
        · subst he; simpa using hc
        · exact ih (a + 1) e he
      · split at he
        · simp only [List.mem_cons] at he
          rcases he with he | he
          · subst he; simpa using hc
          · exact ih (a + 1) e he
        · exact ih a e he

/-- T12.3a: the reaper closes only sessions whose idle entry is expired (idle for at least the
timeout) and not closed yet; an unexpired entry is never closed. -/
theorem reaper_closes_only_expired (cfg : PoolCfg) (closed : Nat → Bool) (now : Nat) : ∀ (l : List PEntry) (active : Nat),
    ∀ i ∈ (cleanupGo cfg closed now l active).2,
      ∃ e ∈ l, e.sess = i ∧ closed e.sess = false ∧ ¬ (now - e.since < cfg.timeout) := by
  intro l
  induction l with
  | nil => intro a i hi; simp [cleanupGo] at hi
  | cons x rest ih =>
    intro a i hi
    unfold cleanupGo at hi
    have lift : (∃ e ∈ rest, e.sess = i ∧ closed e.sess = false ∧ ¬ (now - e.since < cfg.timeout)) →
        ∃ e ∈ x :: rest, e.sess = i ∧ closed e.sess = false ∧ ¬ (now - e.since < cfg.timeout) := by
      rintro ⟨e, he, h⟩; exact ⟨e, List.mem_cons_of_mem _ he, h⟩
    by_cases hc : closed x.sess = true
    · simp only [hc, if_true] at hi
      exact lift (ih a i hi)
    · simp only [hc, Bool.false_eq_true, if_false] at hi
      split at hi
      · exact lift (ih (a + 1) i hi)
      · rename_i hexp
        split at hi
        · exact lift (ih (a + 1) i hi)
        · simp only [List.mem_cons] at hi
          rcases hi with hi | hi
          · exact ⟨x, List.mem_cons_self, hi.symm, by simpa using hc, hexp⟩
          · exact lift (ih a i hi)

def nonClosed (closed : Nat → Bool) (l : List PEntry) : Nat := (l.filter (fun e => !closed e.sess)).length

/-- T12.3 `cleanup_min`: among idle sessions the reaper never leaves fewer than the configured
minimum (or all of them, if there are fewer). -/
theorem cleanup_min (cfg : PoolCfg) (closed : Nat → Bool) (now : Nat) : ∀ (l : List PEntry) (active : Nat),
    min cfg.minIdle (active + nonClosed closed l) ≤ (cleanupGo cfg closed now l active).1.length + active := by
  intro l
  induction l with
  | nil => intro a; simp [cleanupGo, nonClosed]; omega
  | cons x rest ih =>
    intro a
    unfold cleanupGo
    by_cases hc : closed x.sess = true
    · have : nonClosed closed (x :: rest) = nonClosed closed rest := by simp [nonClosed, hc]
      simp only [hc, if_true, this]
      exact ih a
    · have hnc : nonClosed closed (x :: rest) = nonClosed closed rest + 1 := by simp [nonClosed, hc]
      simp only [hc, Bool.false_eq_true, if_false, hnc]
      split
      · have := ih (a + 1); simp only [List.length_cons]; omega
      · split
        · have := ih (a + 1); simp only [List.length_cons]; omega
        · have := ih a; omega

/-- T12.4 `cleanup_surplus`: at a pass at which every idle entry is expired, exactly
min(min_idle, n) remain and the surplus is closed — with periodic passes this is the
"eventually" of the statement (min_idle = 0 included). -/
theorem cleanup_surplus (cfg : PoolCfg) (closed : Nat → Bool) (now : Nat) : ∀ (l : List PEntry) (active : Nat),
    (∀ e ∈ l, ¬ (now - e.since < cfg.timeout)) →
    (cleanupGo cfg closed now l active).1.length = min (cfg.minIdle - active) (nonClosed closed l) := by
  intro l
  induction l with
  | nil => intro a _; simp [cleanupGo, nonClosed]
  | cons x rest ih =>
    intro a hexp
    have hx := hexp x List.mem_cons_self
    have hrest : ∀ e ∈ rest, ¬ (now - e.since < cfg.timeout) := fun e he => hexp e (List.mem_cons_of_mem _ he)
    unfold cleanupGo
    by_cases hc : closed x.sess = true
    · have : nonClosed closed (x :: rest) = nonClosed closed rest := by simp [nonClosed, hc]
      simp only [hc, if_true, this]
      exact ih a hrest
    · have hnc : nonClosed closed (x :: rest) = nonClosed closed rest + 1 := by simp [nonClosed, hc]
      simp only [hc, Bool.false_eq_true, if_false, hnc, hx]
      split
      · have := ih (a + 1) hrest; simp only [List.length_cons]; omega
      · rename_i hge
        have := ih a hrest
        have h0 : cfg.minIdle - a = 0 := by omega
        rw [h0] at this ⊢
        simp only [Nat.zero_min] at this ⊢
        exact this

/-- T12.5 `reaper_spares_busy` (full statement, kept): pool housekeeping closes only sessions
that have no open stream. -/
def reaper_spares_busy : Prop :=
  ∀ (p : Pool) (now : Nat) (i : Nat), p.isClosed i = false → (p.cleanup now).isClosed i = true →
    p.streams.getD i 0 = 0

/-- T12.5 is false of the current code: a new session is put into the idle map at creation,
while its first stream is being opened, and nothing tracks stream completion, so "idle" says
nothing about use.  Witness: one session with an open stream, min_idle = 0, a pass after the
timeout.  Replayed on the real pool (`pool` group) and end to end (`e2e reaper`); recorded as a
known finding. -/
theorem reaper_spares_busy_refuted : ¬ reaper_spares_busy := by
  intro h
  have := h { cfg := { interval := 100, timeout := 200, minIdle := 0 },
              idle := [{ seq := 0, sess := 0, since := 0 }], closed := [false], streams := [1] } 300 0
    (by decide) (by decide)
  revert this
  decide

/-- non-vacuity: three expired idle sessions, minimum 2 ⇒ two remain, the newest is closed -/
example : (cleanupGo { interval := 1, timeout := 10, minIdle := 2 } (fun _ => false) 100
    [⟨0, 0, 0⟩, ⟨1, 1, 0⟩, ⟨2, 2, 0⟩] 0) = ([⟨0, 0, 0⟩, ⟨1, 1, 0⟩], [2]) := by decide

end AnyTLS.C12
