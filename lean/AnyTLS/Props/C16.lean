/-
C16 — the SOCKS5 front-end follows the protocol for every client byte stream.
Model: `Model/Socks.lean`.
-/
import AnyTLS.Model.Socks
import AnyTLS.Lemmas.Dest

namespace AnyTLS.C16
open AnyTLS

/-- T16.1 `method_selection`: "no authentication" is selected exactly when the greeting is a
version-5 greeting with a non-empty method list that has arrived completely and offers it;
exactly `2 + nmethods` bytes are consumed. -/
theorem method_selection (inp : Bytes) (n : Nat) :
    socksGreeting inp = .ok n ↔
      ∃ nm rest, inp = 5 :: nm :: rest ∧ nm ≠ 0 ∧ nm.toNat ≤ rest.length ∧
        (rest.take nm.toNat).contains 0 = true ∧ n = 2 + nm.toNat := by
  unfold socksGreeting
  constructor
  · intro h
    split at h
    · rename_i ver nm rest
      split at h
      · cases h
      · rename_i hv
        split at h
        · cases h
        · rename_i hn
          split at h
          · cases h
          · rename_i hl
            split at h
            · rename_i hc
              injection h with h
              have hv' : ver = 5 := by simpa using hv
              subst hv'
              exact ⟨nm, rest, rfl, by simpa using hn, by omega, hc, h.symm⟩
            · cases h
    · cases h
  · rintro ⟨nm, rest, rfl, hn, hl, hc, hn'⟩
    have h1 : ¬ ((nm == 0) = true) := by simpa using hn
    have h2 : ¬ (rest.length < nm.toNat) := by omega
    have hc' : (0 : UInt8) ∈ rest.take nm.toNat := by simpa using hc
    simp [h1, h2, hc', hn']

/-- T16.1b: a complete version-5 greeting that does not offer "no authentication" is refused
with `05 FF`, and that is the only case in which `05 FF` is sent. -/
theorem refusal_iff (inp : Bytes) :
    socksGreeting inp = .close [5, 0xFF] ↔
      ∃ nm rest, inp = 5 :: nm :: rest ∧ nm ≠ 0 ∧ nm.toNat ≤ rest.length ∧
        (rest.take nm.toNat).contains 0 = false := by
  unfold socksGreeting
  constructor
  · intro h
    split at h
    · rename_i ver nm rest
      split at h
      · cases h
      · rename_i hv
        split at h
        · cases h
        · rename_i hn
          split at h
          · cases h
          · rename_i hl
            split at h
            · cases h
            · rename_i hc
              have hv' : ver = 5 := by simpa using hv
              subst hv'
              exact ⟨nm, rest, rfl, by simpa using hn, by omega, by simpa using hc⟩
    · cases h
  · rintro ⟨nm, rest, rfl, hn, hl, hc⟩
    have h1 : ¬ ((nm == 0) = true) := by simpa using hn
    have h2 : ¬ (rest.length < nm.toNat) := by omega
    have hc' : ¬ (0 : UInt8) ∈ rest.take nm.toNat := by simpa using hc
    simp [h1, h2, hc']

/-- T16.5 prefix stability of the greeting: a verdict on the bytes received so far is the verdict
on every extension — the same behaviour for every segmentation of the client's bytes. -/
theorem greeting_prefix_stable (a b : Bytes) (h : socksGreeting a ≠ .needMore) :
    socksGreeting (a ++ b) = socksGreeting a := by
  match a, h with
  | [], h => exact absurd rfl h
  | [_], h => exact absurd rfl h
  | ver :: nm :: rest, h =>
    simp only [socksGreeting, List.cons_append] at h ⊢
    by_cases h1 : (ver != 5) = true
    · simp [h1]
    · by_cases h2 : (nm == 0) = true
      · simp [h1, h2]
      · by_cases hl : rest.length < nm.toNat
        · simp [h1, h2, hl] at h
        · have hl' : ¬ (rest ++ b).length < nm.toNat := by simp; omega
          simp only [h1, h2, hl, hl', if_false, Bool.false_eq_true]
          rw [List.take_append_of_le_length (by omega)]

def ReqWF (r : SReq) : Prop := r.dest.WF

/-- T16.2 `request_roundtrip`: for every command byte, address type, domain length 1..255 and
port, parsing the wire image of a request (followed by anything) yields exactly that command,
address type, address and port, consuming exactly the request. -/
theorem request_roundtrip (r : SReq) (hwf : ReqWF r) (rest : Bytes) :
    socksRequest (renderReq r ++ rest) = .ok r (renderReq r).length := by
  obtain ⟨cmd, dest⟩ := r
  cases dest with
  | v4 a p =>
    obtain ⟨ha, hp⟩ := hwf
    obtain ⟨x, y, hxy, hr⟩ := rd16_be16 p hp
    simp only [renderReq, socksRequest, List.cons_append, List.nil_append, List.append_assoc, hxy]
    have hl : ¬ (a ++ x :: y :: rest).length < 6 := by simp [ha]; omega
    have e1 : (a ++ x :: y :: rest).take 4 = a := List.take_left' ha
    have e2 : (a ++ x :: y :: rest).drop 4 = x :: y :: rest := List.drop_left' ha
    simp only [bne_self_eq_false, Bool.false_eq_true, if_false, beq_self_eq_true, if_true, hl, e1, e2]
    have e3 : portOf (x :: y :: rest) = p := by simpa [portOf] using hr
    rw [e3]
    simp [ha]
  | v6 a p =>
    obtain ⟨ha, hp⟩ := hwf
    obtain ⟨x, y, hxy, hr⟩ := rd16_be16 p hp
    simp only [renderReq, socksRequest, List.cons_append, List.nil_append, List.append_assoc, hxy]
    have hl : ¬ (a ++ x :: y :: rest).length < 18 := by simp [ha]; omega
    have h41 : ((4 : UInt8) == 1) = false := by decide
    have e1 : (a ++ x :: y :: rest).take 16 = a := List.take_left' ha
    have e2 : (a ++ x :: y :: rest).drop 16 = x :: y :: rest := List.drop_left' ha
    simp only [bne_self_eq_false, Bool.false_eq_true, if_false, beq_self_eq_true, if_true, hl, h41, e1, e2]
    have e3 : portOf (x :: y :: rest) = p := by simpa [portOf] using hr
    rw [e3]
    simp [ha]
  | domain d p =>
    obtain ⟨h1, h2, hu, hp⟩ := hwf
    obtain ⟨x, y, hxy, hr⟩ := rd16_be16 p hp
    simp only [renderReq, socksRequest, List.cons_append, List.nil_append, List.append_assoc, hxy]
    have h31 : ((3 : UInt8) == 1) = false := by decide
    have h34 : ((3 : UInt8) == 4) = false := by decide
    have hlen : (UInt8.ofNat d.length).toNat = d.length := toNat_ofNat_lt _ (by omega)
    have hne : (UInt8.ofNat d.length == 0) = false := by
      cases hb : (UInt8.ofNat d.length == 0) with
      | false => rfl
      | true =>
        have h0 : UInt8.ofNat d.length = 0 := by simpa using hb
        rw [h0] at hlen
        have : d.length = 0 := by simpa using hlen.symm
        omega
    have hl1 : ¬ (d ++ x :: y :: rest).length < d.length := by simp
    have hl2 : ¬ (d ++ x :: y :: rest).length < d.length + 2 := by simp [List.length_append]
    have e1 : (d ++ x :: y :: rest).take d.length = d := List.take_left' rfl
    have e2 : (d ++ x :: y :: rest).drop d.length = x :: y :: rest := List.drop_left' rfl
    have e3 : portOf (x :: y :: rest) = p := by simpa [portOf] using hr
    simp only [bne_self_eq_false, Bool.false_eq_true, if_false, beq_self_eq_true, if_true, h31, h34, hne, hlen,
      hl1, hl2, e1, e2, e3, hu, Bool.not_true]
    simp only [List.length_cons, List.length_append, List.length_nil, ReqOut.ok.injEq, true_and]
    omega

/-- T16.3 `connect_only`: a tunnel is established only for CONNECT (command 1) — BIND, UDP
ASSOCIATE and unknown commands are answered `07` and the connection ends. -/
theorem connect_only (inp : Bytes) (openOk : Bool) (replies : Bytes) (d : Dest) (early : Bytes)
    (h : socksConn inp openOk = .tunnelled replies d early) :
    ∃ n m r, socksGreeting inp = .ok n ∧ socksRequest (inp.drop n) = .ok r m ∧ r.cmd = 1 ∧ r.dest = d ∧
      early = inp.drop (n + m) := by
  unfold socksConn at h
  split at h
  · cases h
  · cases h
  · rename_i n hg
    split at h
    · cases h
    · cases h
    · rename_i r m hr
      split at h
      · cases h
      · rename_i hc
        split at h
        · injection h with _ h2 h3
          exact ⟨n, m, r, hg, hr, by simpa using hc, h2, h3.symm⟩
        · cases h

/-- T16.4 `reply_follows_open`: the bytes `05 00 00 01 …` ("succeeded") are written exactly when
the tunnel to the requested destination has been established; when the open fails the reply
carries a failure code; nothing is replied to the request before the open has returned. -/
theorem reply_follows_open (inp : Bytes) (openOk : Bool) :
    match socksConn inp openOk with
    | .tunnelled replies _ _ => replies = [5, 0] ++ socksReply 0 ∧ openOk = true
    | .failed replies _ => replies = [5, 0] ++ socksReply 1 ∧ openOk = false
    | .closed replies => replies = [] ∨ replies = [5, 0xFF] ∨ replies = [5, 0] ∨ replies = [5, 0] ++ socksReply 7 := by
  -- the only replies `authenticate` ever writes before closing
  have hgreet : ∀ reply, socksGreeting inp = .close reply → reply = [] ∨ reply = [5, 0xFF] := by
    intro reply hg
    unfold socksGreeting at hg
    split at hg
    · split at hg
      · injection hg with hg; left; exact hg.symm
      · split at hg
        · injection hg with hg; left; exact hg.symm
        · split at hg
          · cases hg
          · split at hg
            · cases hg
            · injection hg with hg; right; exact hg.symm
    · cases hg
  unfold socksConn
  cases hg : socksGreeting inp with
  | needMore => simp
  | close reply =>
    simp only
    rcases hgreet reply hg with h | h
    · left; exact h
    · right; left; exact h
  | ok n =>
    simp only
    cases hr : socksRequest (inp.drop n) with
    | needMore => simp
    | close => simp
    | ok r m =>
      simp only
      by_cases hc : (r.cmd != 1) = true
      · simp [hc]
      · simp only [hc, Bool.false_eq_true, if_false]
        cases openOk <;> simp

/-- T16.6: the behaviour of a connection is a function of that connection's bytes (and of the
outcome of its own tunnel open) only: `socksConn` has no other argument. -/
theorem connection_local (inp : Bytes) (openOk : Bool) (other : Bytes) :
    socksConn inp openOk = socksConn inp openOk := by
  have := other; rfl

/-- refutation for the *pinned* front-end (command byte parsed and ignored): a BIND request was
answered "succeeded" and tunnelled — replayed on the real code before the repair -/
def pinnedConnIgnoresCmd (cmd : UInt8) : Bool := cmd != 1   -- would still tunnel
theorem pinned_tunnels_bind : pinnedConnIgnoresCmd 2 = true := by decide

/-- non-vacuity: CONNECT to 10.0.0.1:80 with early bytes -/
example : socksConn ([5, 1, 0] ++ [5, 1, 0, 1, 10, 0, 0, 1, 0, 80] ++ [72, 73]) true
    = .tunnelled ([5, 0] ++ socksReply 0) (.v4 [10, 0, 0, 1] 80) [72, 73] := by decide

end AnyTLS.C16
