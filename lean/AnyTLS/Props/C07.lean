/-
C07 — traffic goes to exactly the destination that was requested.
Model: `Model/Dest.lean` (client encoding, server decoding over the chunk-queue reader,
resolver cache).  Fragmentation independence comes from `readExact_spec` (Lemmas/Reader).
-/
import AnyTLS.Lemmas.Dest
import AnyTLS.Model.UdpRelay

namespace AnyTLS.C07
open AnyTLS

/-- T7.1 `dest_roundtrip`: for every destination (IPv4, IPv6, domain of 1..255 bytes, any
port), whatever follows it on the stream and however the bytes are cut into frames and
reads (`r` is *any* well-formed reader state whose deliverable bytes are the encoding
followed by `tail`: any chunking, any part already buffered), the server-side reader returns
exactly that destination and leaves exactly `tail`. -/
theorem dest_roundtrip (d : Dest) (hd : d.WF) (tail enc : Bytes) (henc : encodeDest d = some enc)
    (r : RState) (hwf : r.WF) (hpend : r.pending = enc ++ tail) :
    ∃ r', decodeDest r = (.ok d, r') ∧ r'.pending = tail ∧ r'.WF := by
  unfold decodeDest
  cases d with
  | v4 a p =>
    simp only [encodeDest, Option.some.injEq] at henc
    subst henc
    obtain ⟨hal, hp⟩ := hd
    obtain ⟨r1, e1, hp1, hw1⟩ := read1_spec r 1 (a ++ be16 p ++ tail) hwf (by rw [hpend]; simp [List.append_assoc])
    rw [e1]
    simp only [readByAtyp, List.getD_cons_zero]
    obtain ⟨r2, e2, hp2, hw2⟩ := readAddrPort_spec r1 a tail p 4 .v4 hw1 hal hp hp1
    exact ⟨r2, by simpa using e2, hp2, hw2⟩
  | v6 a p =>
    simp only [encodeDest, Option.some.injEq] at henc
    subst henc
    obtain ⟨hal, hp⟩ := hd
    obtain ⟨r1, e1, hp1, hw1⟩ := read1_spec r 4 (a ++ be16 p ++ tail) hwf (by rw [hpend]; simp [List.append_assoc])
    rw [e1]
    simp only [readByAtyp, List.getD_cons_zero]
    obtain ⟨r2, e2, hp2, hw2⟩ := readAddrPort_spec r1 a tail p 16 .v6 hw1 hal hp hp1
    exact ⟨r2, by simpa using e2, hp2, hw2⟩
  | domain dn p =>
    obtain ⟨h1, h2, hu, hp⟩ := hd
    have hnl : ¬ dn.length > 255 := by omega
    simp only [encodeDest, hnl, if_false, Option.some.injEq] at henc
    subst henc
    obtain ⟨r1, e1, hp1, hw1⟩ := read1_spec r 3 (UInt8.ofNat dn.length :: dn ++ be16 p ++ tail) hwf
      (by rw [hpend]; simp [List.append_assoc])
    rw [e1]
    simp only [readByAtyp, List.getD_cons_zero]
    obtain ⟨r2, e2, hp2, hw2⟩ := readDomainPort_spec r1 dn tail p hw1 h1 h2 hu hp hp1
    exact ⟨r2, by simpa using e2, hp2, hw2⟩

/-- T7.2: the same for the UDP association's initial request (`isConnect | atyp | addr |
port`; the client encodes socket addresses, i.e. IPv4 or IPv6). -/
theorem udp_request_roundtrip (d : Dest) (hd : d.WF) (tail enc : Bytes) (henc : encodeUdpRequest d = some enc)
    (r : RState) (hwf : r.WF) (hpend : r.pending = enc ++ tail) :
    ∃ r', decodeUdpRequest r = (.ok d, r') ∧ r'.pending = tail ∧ r'.WF := by
  unfold decodeUdpRequest
  cases d with
  | v4 a p =>
    simp only [encodeUdpRequest, Option.some.injEq] at henc
    subst henc
    obtain ⟨hal, hp⟩ := hd
    obtain ⟨r1, e1, hp1, hw1⟩ := rdX_prefix r [1] (1 :: a ++ be16 p ++ tail) hwf (by rw [hpend]; simp [List.append_assoc])
    simp only [List.length_singleton] at e1
    rw [e1]
    obtain ⟨r2, e2, hp2, hw2⟩ := rdX_prefix r1 [1] (a ++ be16 p ++ tail) hw1 (by rw [hp1]; simp [List.append_assoc])
    simp only [List.length_singleton] at e2
    simp only [List.getD_cons_zero, bne_self_eq_false, Bool.false_eq_true, if_false, e2, readByAtyp]
    obtain ⟨r3, e3, hp3, hw3⟩ := readAddrPort_spec r2 a tail p 4 .v4 hw2 hal hp hp2
    exact ⟨r3, by simpa using e3, hp3, hw3⟩
  | v6 a p =>
    simp only [encodeUdpRequest, Option.some.injEq] at henc
    subst henc
    obtain ⟨hal, hp⟩ := hd
    obtain ⟨r1, e1, hp1, hw1⟩ := rdX_prefix r [1] (4 :: a ++ be16 p ++ tail) hwf (by rw [hpend]; simp [List.append_assoc])
    simp only [List.length_singleton] at e1
    rw [e1]
    obtain ⟨r2, e2, hp2, hw2⟩ := rdX_prefix r1 [4] (a ++ be16 p ++ tail) hw1 (by rw [hp1]; simp [List.append_assoc])
    simp only [List.length_singleton] at e2
    simp only [List.getD_cons_zero, bne_self_eq_false, Bool.false_eq_true, if_false, e2, readByAtyp]
    obtain ⟨r3, e3, hp3, hw3⟩ := readAddrPort_spec r2 a tail p 16 .v6 hw2 hal hp hp2
    exact ⟨r3, by simpa using e3, hp3, hw3⟩
  | domain dn p => simp [encodeUdpRequest] at henc

/-- T7.3 `encode_rejects_long`: a domain name longer than 255 bytes is refused and no
destination bytes are produced; every other destination is encoded. -/
theorem encode_rejects_long (d : Bytes) (p : Nat) :
    (d.length > 255 → encodeDest (.domain d p) = none) ∧
    (d.length ≤ 255 → (encodeDest (.domain d p)).isSome = true) := by
  constructor
  · intro h; simp [encodeDest, h]
  · intro h
    have : ¬ d.length > 255 := by omega
    simp [encodeDest, this]

/-- T7.4 `resolve_port`: whatever the cache holds (any earlier requests for the same host with
other ports, other hosts, entries expired or not) and whatever the resolver answers, the
address returned for a request (H, P) carries port P. -/
theorem resolve_port (c : DnsCache) (host : Bytes) (port : Nat) (lookup : List Bytes) (ip : Bytes) (p' : Nat)
    (h : (dnsResolve c host port lookup).2 = some (ip, p')) : p' = port := by
  unfold dnsResolve at h
  have miss : ∀ ip p', (dnsResolve.resolveMiss c host port lookup).2 = some (ip, p') → p' = port := by
    intro ip p' hm
    unfold dnsResolve.resolveMiss at hm
    cases lookup with
    | nil => simp at hm
    | cons x xs => simp at hm; exact hm.2.symm
  split at h
  · split at h
    · simp at h; exact h.2.symm
    · exact miss ip p' h
  · exact miss ip p' h

/-- T7.5: the IP returned for H is an address *of H*: one stored in H's own unexpired cache
entry, or one from the fresh answer for H — never one belonging to another host. -/
theorem resolve_ip_of_host (c : DnsCache) (host : Bytes) (port : Nat) (lookup : List Bytes) (ip : Bytes) (p' : Nat)
    (h : (dnsResolve c host port lookup).2 = some (ip, p')) :
    ip ∈ lookup ∨ ∃ e, dnsFind c host = some e ∧ e.expired = false ∧ ip ∈ e.addrs.map (·.1) := by
  unfold dnsResolve at h
  have miss : (dnsResolve.resolveMiss c host port lookup).2 = some (ip, p') → ip ∈ lookup := by
    intro hm
    unfold dnsResolve.resolveMiss at hm
    cases lookup with
    | nil => simp at hm
    | cons x xs => simp at hm; simp [hm.1]
  split at h
  · rename_i e he
    split at h
    · rename_i hc
      right
      simp only [Bool.and_eq_true, Bool.not_eq_true', List.isEmpty_eq_false_iff] at hc
      simp at h
      refine ⟨e, he, hc.1, ?_⟩
      rw [← h.1]
      simp only [List.mem_map]
      have hlt : e.next % e.addrs.length < e.addrs.length := Nat.mod_lt _ (List.length_pos_iff.mpr hc.2)
      refine ⟨e.addrs[e.next % e.addrs.length], List.getElem_mem hlt, ?_⟩
      simp [List.getD, List.getElem?_eq_getElem hlt]
    · left; exact miss h
  · left; exact miss h

/-- T7.4 refutation for the *pinned* hit branch (the stored `SocketAddr` is returned with the
port of the request that filled the entry): `localhost:80` then `localhost:443` ⇒ port 80. -/
theorem pinned_hit_wrong_port :
    (resolvePinnedHit { host := [104], addrs := [([127, 0, 0, 1], 80)], expired := false, next := 1 } 443).2 = 80 := by
  decide

/-- non-vacuity: a 3-byte domain with port 443 split over three chunks -/
example : (decodeDest { queue := [[3, 3, 97], [46], [98, 1, 187, 9]] }).1 matches .ok (.domain [97, 46, 98] 443) := by
  decide

/-! ### ordinary destinations are dialled: the server's dispatch between the TCP relay and the UDP relay

`TcpProxyHandler::handle_stream` hands a stream to the UDP-over-TCP relay — which answers "connected" at once and never
dials the destination — when the destination's host name passes a test.  The test is regenerated from the source
(`Gen.udpMagicRule`), and so is the name the client opens for an association (`Gen.udpMagicAddr`). -/

/-- Obligation on the code: only the reserved name and names below it are taken for UDP-over-TCP streams. -/
theorem gen_magic_rule : Gen.udpMagicRule = .reservedSuffix := by decide

/-- T7.5 `ordinary_names_are_dialled`: every host name that is neither the reserved name nor below it — whatever it
contains — goes to the TCP path, i.e. is resolved and dialled (`resolve_port`, `resolve_ip_of_host`). -/
theorem ordinary_names_are_dialled (name : List Char) (h1 : name ≠ UdpRelay.reservedName)
    (h2 : ¬ ('.' :: UdpRelay.reservedName) <:+ name) : UdpRelay.isUdpName Gen.udpMagicRule name = false := by
  rw [gen_magic_rule]
  simp only [UdpRelay.isUdpName, Bool.or_eq_false_iff]
  refine ⟨by simpa using h1, ?_⟩
  cases h : ('.' :: UdpRelay.reservedName).isSuffixOf name with
  | false => rfl
  | true => exact absurd (List.isSuffixOf_iff_suffix.mp h) h2

/-- ... and the name the client opens for a UDP association is recognised (so the two ends agree). -/
theorem client_magic_recognised : UdpRelay.isUdpName Gen.udpMagicRule Gen.udpMagicAddr = true := by decide

/-- the excluded rule, refuted by a witness: an ordinary name that merely contains the reserved text was taken for a
UDP-over-TCP stream — answered "connected", never dialled (the defect repaired in `ea5ec91`, replayed end to end by
`e2e echo socks_magic`). -/
theorem contains_rule_refuted :
    UdpRelay.isUdpName .contains "my-udp-over-tcp.arpa.example.test".toList = true ∧
    UdpRelay.isUdpName .reservedSuffix "my-udp-over-tcp.arpa.example.test".toList = false := by
  constructor <;> rfl

end AnyTLS.C07
