/-
C05 — early client packets are shaped as the padding scheme prescribes.
The statement's acceptor is `Allowed` (Lemmas/Padding.lean); the code's shaping is `shape` /
`writePacket` / `Sess.writeWithPadding` / `preamble`.
-/
import AnyTLS.Lemmas.Padding
import AnyTLS.Lemmas.Session
import AnyTLS.Model.Proc

namespace AnyTLS.C05
open AnyTLS AnyTLS.Gen

/-- Gen obligations: the first session packet is packet 1 (packet 0 is the authentication
preamble), the client pads and the server never does. -/
theorem gen_first_packet_index : Gen.pktCounterInitClient + Gen.pktFetchOffset = 1 := by decide
theorem gen_client_pads : Gen.sendPaddingClient = true := by decide
theorem gen_server_never_pads : Gen.sendPaddingServer = false := by decide

/-- T5.1 `shape_allowed`: for every accepted scheme, every packet index below `stop` whose
line has entries, every draw vector and every non-empty payload, the lengths of the transport
writes are permitted by that line: a drawn size for a payload-only record, the drawn size for
payload completed with padding (or just the rest when the gap is at most one frame header),
the drawn size plus one frame header for a padding-only record, stopping at a check mark once
no payload remains, and a final write for what is left after the last entry. -/
theorem shape_allowed (s : Scheme) (k : Nat) (rs : List Nat) (payload : Bytes)
    (hk : k < s.stop) (hne : (s.specs k) ≠ []) :
    Allowed (s.specs k) payload.length ((writePacket true s k rs payload).map List.length) := by
  have hm := resolve_matches (s.specs k) rs (specs_sane s k)
  unfold writePacket
  have h2 : ¬ k ≥ s.stop := by omega
  simp only [Bool.not_true, Bool.false_eq_true, if_false, h2]
  have hne' : (resolve (s.specs k) rs).isEmpty = false := by
    have hl := resolve_length (s.specs k) rs
    cases hr : resolve (s.specs k) rs with
    | nil =>
      rw [hr] at hl
      exact absurd (List.eq_nil_of_length_eq_zero hl.symm) hne
    | cons _ _ => rfl
  simp only [hne', Bool.false_eq_true, if_false]
  exact shape_allowed_of_matches hm payload

/-- T5.2: from packet `stop` onward, for a missing (or entry-less) line, and on the server side
always, the packet is written as it is: exactly one write, no padding. -/
theorem no_padding_from_stop (s : Scheme) (k : Nat) (rs : List Nat) (payload : Bytes) (hk : k ≥ s.stop) :
    writePacket true s k rs payload = [payload] := by
  simp [writePacket, hk]

theorem no_padding_without_line (s : Scheme) (k : Nat) (rs : List Nat) (payload : Bytes)
    (hne : s.specs k = []) : writePacket true s k rs payload = [payload] := by
  unfold writePacket
  simp only [Bool.not_true, Bool.false_eq_true, if_false, hne]
  split <;> simp [resolve]

theorem server_never_pads (s : Scheme) (k : Nat) (rs : List Nat) (payload : Bytes) :
    writePacket Gen.sendPaddingServer s k rs payload = [payload] := by
  simp [writePacket, gen_server_never_pads]

/-- T5.3 `preamble_exact`: the authentication preamble is the 32-byte hash, the big-endian
padding length `p0` and `p0` zero bytes, where `p0` is the first size of line 0 (0 when the
line is absent, empty, or starts with a check mark) — and `p0` lies inside the range of that
first entry. -/
theorem preamble_exact (hash : Bytes) (s : Scheme) (rs : List Nat) :
    ∃ p0, flatten (preamble hash s rs) = hash ++ be16 p0 ++ zeros p0 ∧ p0 ≤ 65535 ∧
      (match s.specs 0 with
       | .range lo hi :: _ => lo ≤ p0 ∧ p0 ≤ hi
       | _ => p0 = 0) := by
  have hm := resolve_matches (s.specs 0) rs (specs_sane s 0)
  have hsane := specs_sane s 0
  unfold preamble
  generalize s.specs 0 = specs at hm hsane ⊢
  generalize resolve specs rs = sizes at hm ⊢
  cases hm with
  | nil => exact ⟨0, by simp [zeros], by omega, rfl⟩
  | check _ => exact ⟨0, by simp [zeros], by omega, rfl⟩
  | @range lo hi n _ sz h1 h2 _ =>
    have := hsane (.range lo hi) List.mem_cons_self
    simp only [Spec.Sane] at this
    refine ⟨n, ?_, by omega, ⟨h1, h2⟩⟩
    by_cases hn : n > 0
    · simp [hn, List.append_assoc]
    · have : n = 0 := by omega
      subst this; simp [zeros]

/-- T5.4 `packet_index`: a shaped write of the session uses the line numbered by the packet
counter and advances the counter by one; with `gen_first_packet_index` the j-th session
packet (j = 1, 2, …) is shaped by line j.  (While the transport accepts the writes, the bytes
added to the wire are exactly `writePacket` for that index.) -/
theorem packet_index (s : Sess) (payload : Bytes) (hp : s.sendPadding = true)
    (hb : s.wrBudget = none) (hs : s.shut = false) :
    ∃ rs, (s.writeWithPadding payload).1.wire
        = s.wire ++ writePacket true s.scheme (s.pktCounter + Gen.pktFetchOffset) rs payload ∧
      (s.writeWithPadding payload).1.pktCounter = s.pktCounter + 1 ∧
      (s.writeWithPadding payload).2 = .ok := by
  have tw : ∀ (ws : List Bytes) (t : Sess), t.wrBudget = none → t.shut = false →
      (t.transportWrites ws).1.wire = t.wire ++ ws ∧ (t.transportWrites ws).1.pktCounter = t.pktCounter ∧
      (t.transportWrites ws).2 = .ok := by
    intro ws
    induction ws with
    | nil => intro t _ _; exact ⟨by simp [Sess.transportWrites], rfl, rfl⟩
    | cons w ws ih =>
      intro t h1 h2
      unfold Sess.transportWrites
      split
      · rename_i h; rw [h2] at h; cases h
      · split
        · rename_i h; rw [h1] at h; cases h
        · rename_i h; rw [h1] at h; cases h
        · obtain ⟨a, b, c⟩ := ih { t with wire := t.wire ++ [w] } h1 h2
          exact ⟨by rw [a]; simp, b, c⟩
  refine ⟨(drawN (drawsNeeded (s.scheme.specs (s.pktCounter + Gen.pktFetchOffset))) s.rng).1, ?_⟩
  unfold Sess.writeWithPadding writePacket
  split
  · rename_i h; simp [hp] at h
  · simp only [Bool.not_true, Bool.false_eq_true, if_false]
    split
    · obtain ⟨a, b, c⟩ := tw [payload] { s with pktCounter := s.pktCounter + 1 } hb hs
      exact ⟨a, b, c⟩
    · split
      · obtain ⟨a, b, c⟩ := tw [payload] { s with pktCounter := s.pktCounter + 1, rng := _ } hb hs
        exact ⟨a, b, c⟩
      · obtain ⟨a, b, c⟩ := tw (shape _ payload) { s with pktCounter := s.pktCounter + 1, rng := _ } hb hs
        exact ⟨a, b, c⟩

/-- refutation of T5.4 for the *pinned* tree (counter starting at 0): the first session packet
would be shaped by line 0 -/
theorem pinned_first_packet_uses_line_zero : (0 : Nat) + Gen.pktFetchOffset = 0 := by decide

/-- non-vacuity of `shape_allowed`: entries 5–9 then a check mark, 3 payload bytes, draw 2 ⇒ one
write of 3 bytes (gap ≤ 7), then stop at the check mark -/
example : Allowed [.range 5 9, .check, .range 2 2] 3 [3] :=
  .completed_nopad (d := 7) (by omega) (by omega) (by omega) (by omega) (by omega) .check_stop

/-! ### which scheme the preamble of a newly dialled session is shaped by

`Gen.preambleSchemeFrom` / `Gen.sessionSchemeFrom` are regenerated from `Client::create_new_session`: the scheme
argument of `send_authentication` and of `Session::new_client`.  The obligation: both are the *effective* scheme, so
the `s` of `preamble_exact` is the very scheme the session runs and announces — also for a session dialled after a
server has pushed a scheme. -/

theorem gen_preamble_uses_session_scheme :
    Gen.preambleSchemeFrom = Gen.sessionSchemeFrom ∧ Gen.sessionSchemeFrom = .effective := by decide

/-- the preamble of every newly dialled session is shaped by the scheme that session is created with, which is the
process-wide effective one -/
theorem preamble_scheme_is_session_scheme (p : Proc) (cfg : Scheme) :
    (p.dialSchemes cfg).1 = (p.dialSchemes cfg).2 ∧ (p.dialSchemes cfg).2 = p.global := by
  obtain ⟨h1, h2⟩ := gen_preamble_uses_session_scheme
  simp only [Proc.dialSchemes, h1, h2, Proc.pick, and_self]

/-- the excluded shape (preamble from the configured scheme, session from the effective one) does put another
line 0 on the wire as soon as a different scheme has been pushed -/
theorem configured_preamble_differs (a b : Scheme) (h : a ≠ b) :
    let p : Proc := { global := b }
    p.pick a .configured ≠ p.pick a .effective := by
  simpa [Proc.pick] using h

end AnyTLS.C05
