/-
C04 — padding is invisible to the payload and keeps the wire well-formed.
Model: `Model/Padding.lean` (`Scheme.parse`, `Scheme.specs`, `resolve`, `shape`, `writePacket`).
-/
import AnyTLS.Lemmas.Padding
import AnyTLS.Props.C03

namespace AnyTLS.C04
open AnyTLS AnyTLS.Gen

/-- T4.3 `sizes_sane`: for every accepted scheme, every packet index and every draw vector,
each generated record size is a check mark or lies in [1, 65535] — inside its entry's range.
(Sizes above 65535 or with a non-positive bound are not honoured: `parsePart` drops them.) -/
theorem sizes_sane (s : Scheme) (pkt : Nat) (rs : List Nat) :
    Matches (s.specs pkt) (resolve (s.specs pkt) rs) ∧
    ∀ sz ∈ resolve (s.specs pkt) rs, ∀ n, sz = .size n → 1 ≤ n ∧ n ≤ 65535 := by
  have hm := resolve_matches (s.specs pkt) rs (specs_sane s pkt)
  exact ⟨hm, matches_sizes hm (specs_sane s pkt)⟩

/-- the padding frames a packet carries -/
def packetPads (sendPadding : Bool) (s : Scheme) (pkt : Nat) (rs : List Nat) (payloadLen : Nat) : List Nat :=
  if !sendPadding then []
  else if pkt ≥ s.stop then []
  else
    let sizes := resolve (s.specs pkt) rs
    if sizes.isEmpty then [] else shapePads sizes payloadLen

/-- T4.1 `shape_payload_then_waste`: whatever scheme is in force, whichever packet is being
sent and whatever the draws, the bytes written are the payload, unaltered and in one piece,
followed by padding frames only — padding is never spliced into, reordered with, or
substituted for payload — and every padding frame fits its 16-bit length field. -/
theorem shape_payload_then_waste (sp : Bool) (s : Scheme) (pkt : Nat) (rs : List Nat) (payload : Bytes) :
    flatten (writePacket sp s pkt rs payload)
      = payload ++ flatten ((packetPads sp s pkt rs payload.length).map wasteFrame) ∧
    ∀ p ∈ packetPads sp s pkt rs payload.length, 1 ≤ p ∧ p ≤ 65535 := by
  unfold writePacket packetPads
  by_cases h1 : (!sp) = true
  · simp [h1]
  · simp only [h1, Bool.false_eq_true, if_false]
    by_cases h2 : pkt ≥ s.stop
    · simp [h2]
    · simp only [h2, if_false]
      by_cases h3 : (resolve (s.specs pkt) rs).isEmpty = true
      · simp [h3]
      · simp only [h3, Bool.false_eq_true, if_false]
        exact ⟨shape_flatten _ _, shapePads_le _ (sizes_sane s pkt rs).2 _⟩

/-- a padding frame as a frame -/
def wasteF (n : Nat) : Frame := { cmd := .waste, sid := 0, data := zeros n }

theorem encode_wasteF (n : Nat) (h : n ≤ 65535) : encode (wasteF n) = some (wasteFrame n) := by
  simp [encode, wasteF, wasteFrame, zeros, Cmd.toByte]; omega

theorem encodeAll_append (a b : List Frame) (x y : Bytes)
    (ha : C03.encodeAll a = some x) (hb : C03.encodeAll b = some y) :
    C03.encodeAll (a ++ b) = some (x ++ y) := by
  induction a generalizing x with
  | nil => simp [C03.encodeAll] at ha; subst ha; simpa using hb
  | cons f fs ih =>
    simp only [C03.encodeAll] at ha
    cases hf : encode f with
    | none => simp [hf] at ha
    | some bf =>
      cases hfs : C03.encodeAll fs with
      | none => simp [hf, hfs] at ha
      | some bfs =>
        simp [hf, hfs] at ha
        subst ha
        simp [C03.encodeAll, hf, ih bfs hfs, List.append_assoc]

theorem encodeAll_wastes (pads : List Nat) (h : ∀ p ∈ pads, 1 ≤ p ∧ p ≤ 65535) :
    C03.encodeAll (pads.map wasteF) = some (flatten (pads.map wasteFrame)) := by
  induction pads with
  | nil => rfl
  | cons p ps ih =>
    have hp := h p List.mem_cons_self
    have := ih (fun q hq => h q (List.mem_cons_of_mem _ hq))
    simp [C03.encodeAll, encode_wasteF p hp.2, this]

/-- T4.2 `wire_parses` (one packet): if the pending payload is a sequence of complete frames,
the bytes put on the transport parse as complete frames with nothing left over, and deleting
the padding frames appended by the sender leaves exactly the frames the session was asked to
send, byte for byte and in order. -/
theorem wire_parses (sp : Bool) (s : Scheme) (pkt : Nat) (rs : List Nat)
    (fs : List Frame) (hwf : ∀ f ∈ fs, C03.WF f) (payload : Bytes) (henc : C03.encodeAll fs = some payload) :
    decodeAll (flatten (writePacket sp s pkt rs payload))
      = (fs ++ (packetPads sp s pkt rs payload.length).map wasteF, []) ∧
    (fs ++ (packetPads sp s pkt rs payload.length).map wasteF).take fs.length = fs := by
  obtain ⟨hflat, hle⟩ := shape_payload_then_waste sp s pkt rs payload
  have hw := encodeAll_wastes _ hle
  have hall := encodeAll_append fs _ payload _ henc hw
  have hwf' : ∀ f ∈ fs ++ (packetPads sp s pkt rs payload.length).map wasteF, C03.WF f := by
    intro f hf
    simp only [List.mem_append, List.mem_map] at hf
    rcases hf with hf | ⟨p, hp, rfl⟩
    · exact hwf f hf
    · exact ⟨by simp [wasteF], by simp [wasteF, zeros]; exact (hle p hp).2⟩
  obtain ⟨bs, hbs, hdec⟩ := C03.decodeAll_encodeAll _ hwf' [] (by rfl)
  rw [hall] at hbs
  injection hbs with hbs
  subst hbs
  rw [hflat]
  simp only [List.append_nil] at hdec
  exact ⟨hdec, by simp⟩

/-- T4.2 (any number of packets): the whole wire of a session — every packet shaped by its own
line with its own draws — parses as complete frames, and is the submitted frames of each
packet followed by that packet's padding frames. -/
theorem wire_parses_packets (sp : Bool) (s : Scheme) :
    ∀ (pkts : List (Nat × List Nat × List Frame × Bytes)),
      (∀ p ∈ pkts, (∀ f ∈ p.2.2.1, C03.WF f) ∧ C03.encodeAll p.2.2.1 = some p.2.2.2) →
      decodeAll (flatten (pkts.map fun p => flatten (writePacket sp s p.1 p.2.1 p.2.2.2)))
        = ((pkts.map fun p => p.2.2.1 ++ (packetPads sp s p.1 p.2.1 p.2.2.2.length).map wasteF).flatten, []) := by
  intro pkts
  induction pkts with
  | nil => intro _; rfl
  | cons p ps ih =>
    intro h
    obtain ⟨hwf, henc⟩ := h p List.mem_cons_self
    have hrest := ih (fun q hq => h q (List.mem_cons_of_mem _ hq))
    obtain ⟨h1, _⟩ := wire_parses sp s p.1 p.2.1 p.2.2.1 hwf p.2.2.2 henc
    simp only [List.map_cons, flatten_cons, List.flatten_cons]
    rw [decodeAll_append _ _ (Nat.le_refl _), h1]
    simp only [List.nil_append]
    rw [hrest]

/-- T4.4: parsing and generation are total — `Scheme.parse`, `Scheme.specs`, `resolve`,
`shape` are total functions (a missing line gives no entries, reversed ranges are normalised,
non-numeric / non-positive / oversize bounds are skipped): an accepted scheme always yields
a finite list of writes whose total size is bounded. -/
theorem writes_bounded (sp : Bool) (s : Scheme) (pkt : Nat) (rs : List Nat) (payload : Bytes) :
    (flatten (writePacket sp s pkt rs payload)).length
      ≤ payload.length + 65542 * (packetPads sp s pkt rs payload.length).length := by
  obtain ⟨hflat, hle⟩ := shape_payload_then_waste sp s pkt rs payload
  rw [hflat]
  simp only [List.length_append]
  have : ∀ (pads : List Nat), (∀ p ∈ pads, 1 ≤ p ∧ p ≤ 65535) →
      (flatten (pads.map wasteFrame)).length ≤ 65542 * pads.length := by
    intro pads
    induction pads with
    | nil => intro _; simp
    | cons p ps ih =>
      intro h
      have hp := h p List.mem_cons_self
      have := ih (fun q hq => h q (List.mem_cons_of_mem _ hq))
      simp only [List.map_cons, flatten_cons, List.length_append, wasteFrame_length, List.length_cons]
      omega
  have := this _ hle
  omega

/-- refutation of T4.1 for the *pinned* code (`padding_len as u16` in the frame header while
`padding_len` zero bytes are written): a 70 000-byte padding frame announces 4 464 bytes. -/
theorem pinned_header_truncated : toU16 70000 = 4464 ∧ toU16 70000 ≠ 70000 := by decide

/-- refutation of T4.3 for the pinned code (`i64 as i32` of a size ≥ 2^31 is negative, and
`as usize` of that is ≈ 2^64: capacity overflow) -/
theorem pinned_size_wraps : toI32 2147483648 = -2147483648 ∧
    i32AsUsize (toI32 2147483648) = 18446744071562067968 := by decide

/-- non-vacuity: a small scheme parses, and its line 1 has a sane range entry -/
example : ((Scheme.parse [115, 116, 111, 112, 61, 50, 10, 49, 61, 53, 45, 57]).map (fun s => (s.stop, s.specs 1)))
    = some (2, [.range 5 9]) := by decide +kernel

end AnyTLS.C04
